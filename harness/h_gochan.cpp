// Harness for C09: the Go-style channel photon::channel<T> of thread/go.h (header-only), unbuffered and buffered.
// Runs many short executions on the REAL channel and records, per API call, an Inv event before the call and a Resp
// event (result, errno, received value, elapsed time) after it; every value is a small unique id (thread*100 + k).
// At the end of every execution the harness releases what is still blocked (partner calls, then close(), each logged as
// an ordinary call of thread 91), drains the channel with try_recv (logged) and records Quiesce.  Settle events list the
// threads found asleep inside a blocking call while nothing else is running.  spec/Trace_GoChannelA.tla decides.
//
// modes (--prim):
//   dir   DIRECTED arrival orders on ONE vCPU: every sequence of <= 4 calls over {send, send(timed), recv, recv(timed),
//         try_send, try_recv, close}, each call by its own thread, for capacity 0, 1, 2, and for every choice of the
//         points (after the i-th arrival) at which the woken threads are allowed to run before the next arrival.
//         On one vCPU photon threads switch only at blocking calls, so these schedules are deterministic.
//   rand  seeded random programs (send / recv with timeouts zero / short / none, try_send / try_recv, close) of 2..K threads
//         on 1..V vCPUs, capacity 0..3, with bounded random delays at the schedule points described below.
//   gate  two-vCPU scenarios taken from TLC counterexamples of spec/GoChannel.tla: one thread is held at a schedule point
//         (bounded) until a partner call on another vCPU has returned.
//
// Schedule points without touching the header: thread/go.h is compiled UNCHANGED, but while it is being included the
// tokens `expired()` and `memory_order_acquire` are macros that additionally call vtg::hook() (which returns immediately
// unless a delay / gate is armed).  This places a schedule point at every Timeout::expired() test and before every acquire
// load of go.h (m_closed, the two waiter counters) - the places where the buffered protocol reads shared state.  The hook
// never changes a value; an acquire load becomes a load with a run-time order argument (not weaker).
//
// usage: h_gochan --prim dir|rand|gate --execs N --seed S --vcpus V --threads K --ops M --out file [--masks all|cap0all|ends]
#include "vt_photon.h"
#include <photon/thread/thread.h>
#include <photon/thread/thread11.h>
#include <photon/common/timeout.h>
#include <photon/common/utility.h>
#include <photon/common/lockfree_queue.h>
#include <atomic>
#include <cerrno>
#include <type_traits>
#include <utility>
#include <memory>
#include <cstring>

namespace vtg {
enum { H_EXPIRED = 1, H_LOAD = 2 };
struct Gate {
    std::atomic<int> tid{0};          // worker id to hold (0 = not armed)
    int kind = 0, nth = 0;
    std::atomic<int> seen{0};
    std::atomic<bool> reached{false}, release{false}, dropped{false};
};
inline Gate& gate() { static Gate g; return g; }
inline std::atomic<int>& hooks_on() { static std::atomic<int> h{0}; return h; }
inline void arm(int tid, int kind, int nth) {
    auto& g = gate(); g.kind = kind; g.nth = nth; g.seen = 0; g.reached = false; g.release = false; g.dropped = false; g.tid = tid;
}
inline void disarm() { gate().tid = 0; gate().release = true; }
inline int hook(int kind) {
    if (!hooks_on().load(std::memory_order_relaxed)) return 0;
    auto& g = gate();
    int tid = g.tid.load();
    if (tid && kind == g.kind && vtp::reg().get(photon::CURRENT) == tid && g.seen.fetch_add(1) + 1 == g.nth) {
        g.reached = true;
        // hold this OS thread (bounded: a gate that is not released is dropped, the scenario then counts as not reproduced)
        for (uint64_t i = 0; !g.release.load(); i++) {
            if (i > 400000) { g.dropped = true; break; }
            for (volatile int j = 0; j < 200; j++) {}
            if ((i & 1023) == 1023) sched_yield();
        }
    }
    vtp::Perturb::maybe();
    return 0;
}
inline int hook_acq() { hook(H_LOAD); return (int)std::memory_order_acquire; }
}  // namespace vtg

#define expired() expired() | (vtg::hook(vtg::H_EXPIRED) != 0)
#define memory_order_acquire memory_order(vtg::hook_acq())
#include <photon/thread/go.h>
#undef expired
#undef memory_order_acquire

using namespace photon;

static int g_vcpus = 2, g_threads = 4, g_ops = 5, g_execs = 50;
static uint64_t g_seed = 1;
static vtp::Vcpus g_vc;

// the payload: counts live instances so that a leaked or doubly destroyed item shows in the Quiesce event
struct Item {
    int id = 0;
    static std::atomic<int>& live() { static std::atomic<int> l{0}; return l; }
    Item() { live()++; }
    explicit Item(int i) : id(i) { live()++; }
    Item(const Item& o) : id(o.id) { live()++; }
    Item(Item&& o) noexcept : id(o.id) { o.id = -1; live()++; }
    Item& operator=(const Item& o) { id = o.id; return *this; }
    Item& operator=(Item&& o) noexcept { id = o.id; o.id = -1; return *this; }
    ~Item() { id = -2; live()--; }
};
typedef channel<Item> Chan;

enum TO { TO_ZERO = 0, TO_SHORT = 1, TO_INF = 2 };
enum { B_NONE = 0, B_SEND = 1, B_RECV = 2 };
struct Prog { std::atomic<int> opno{0}; std::atomic<int> blocked_in{0}; };

// ---- the five calls, each bracketed by Inv / Resp.  us = -1: no timeout
static bool c_send(Chan& ch, int t, int v, int64_t us, Prog* P) {
    uint64_t t0 = photon::__update_now();
    Timeout to = us < 0 ? Timeout() : Timeout((uint64_t)us);
    vt::Ev("Inv").i("t", t).s("op", "send").i("v", v).i("to", us < 0 ? TO_INF : us == 0 ? TO_ZERO : TO_SHORT).i("us", us);
    if (P) { P->opno++; P->blocked_in = B_SEND; }
    errno = 0;
    bool ok = ch.send(Item(v), to);
    int en = ok ? 0 : errno;
    if (P) P->blocked_in = B_NONE;
    uint64_t t1 = photon::__update_now();
    vt::Ev("Resp").i("t", t).s("op", "send").b("ok", ok).i("en", en).i("v", 0).i("dt", (int64_t)(t1 - t0));
    return ok;
}
static bool c_recv(Chan& ch, int t, int64_t us, Prog* P) {
    uint64_t t0 = photon::__update_now();
    Timeout to = us < 0 ? Timeout() : Timeout((uint64_t)us);
    vt::Ev("Inv").i("t", t).s("op", "recv").i("v", 0).i("to", us < 0 ? TO_INF : us == 0 ? TO_ZERO : TO_SHORT).i("us", us);
    if (P) { P->opno++; P->blocked_in = B_RECV; }
    errno = 0;
    Item it;
    bool ok = ch.recv(it, to);
    int en = ok ? 0 : errno;
    if (P) P->blocked_in = B_NONE;
    uint64_t t1 = photon::__update_now();
    vt::Ev("Resp").i("t", t).s("op", "recv").b("ok", ok).i("en", en).i("v", ok ? it.id : 0).i("dt", (int64_t)(t1 - t0));
    return ok;
}
static bool c_try_send(Chan& ch, int t, int v, Prog* P) {
    vt::Ev("Inv").i("t", t).s("op", "try_send").i("v", v).i("to", TO_ZERO).i("us", 0);
    if (P) P->opno++;
    bool ok = ch.try_send(Item(v));
    vt::Ev("Resp").i("t", t).s("op", "try_send").b("ok", ok).i("en", 0).i("v", 0).i("dt", 0);
    return ok;
}
static bool c_try_recv(Chan& ch, int t, Prog* P) {
    vt::Ev("Inv").i("t", t).s("op", "try_recv").i("v", 0).i("to", TO_ZERO).i("us", 0);
    if (P) P->opno++;
    Item it;
    bool ok = ch.try_recv(it);
    vt::Ev("Resp").i("t", t).s("op", "try_recv").b("ok", ok).i("en", 0).i("v", ok ? it.id : 0).i("dt", 0);
    return ok;
}
static void c_close(Chan& ch, int t, Prog* P) {
    vt::Ev("Inv").i("t", t).s("op", "close").i("v", 0).i("to", TO_ZERO).i("us", 0);
    if (P) P->opno++;
    ch.close();
    vt::Ev("Resp").i("t", t).s("op", "close").b("ok", true).i("en", 0).i("v", 0).i("dt", 0);
}

// ------------------------------------------------------------------------------------------------ settle detection
// (multi-vCPU) every worker is done or is seen SLEEPING inside a blocking call at two inspections without having advanced
// its operation counter.  Between the inspections at least 5 ms pass AND every vCPU is "pinged" several times: a photon
// thread parked on each vCPU is woken through the same cross-vCPU resume path the channel's own wake-ups use and answers;
// since a vCPU takes over all resumed threads at once, a wake-up that was issued before a ping has been delivered when the
// ping is answered.  This makes "asleep" independent of how long the OS keeps a vCPU's thread off the processor (a resumed
// thread still reads SLEEPING until its vCPU has run), and several rounds cover chains of wake-ups inside the calls.
struct Pingers {
    std::vector<std::unique_ptr<semaphore>> sem;
    std::vector<std::unique_ptr<vtp::Worker>> th;
    std::vector<std::unique_ptr<std::atomic<uint64_t>>> cnt;
    std::atomic<bool> stop{false};
    void start(vtp::Vcpus& vc) {
        for (int v = 1; v < vc.n; v++) {
            sem.emplace_back(new semaphore(0)); cnt.emplace_back(new std::atomic<uint64_t>(0));
            th.emplace_back(new vtp::Worker()); auto w = th.back().get(); w->id = 200 + v;
            semaphore* sm = sem.back().get(); auto c = cnt.back().get();
            w->body = [this, sm, c] { while (true) { sm->wait(1); if (stop.load()) break; (*c)++; } };
            vtp::spawn_on(w, vc.vc[v], 64 * 1024);
        }
    }
    // returns false if a vCPU does not answer within 20 s
    bool round() {
        std::vector<uint64_t> want;
        for (size_t i = 0; i < sem.size(); i++) { want.push_back(cnt[i]->load() + 1); sem[i]->signal(1); }
        thread_yield();
        for (int spins = 0; spins < 100000; spins++) {
            bool all = true;
            for (size_t i = 0; i < sem.size(); i++) if (cnt[i]->load() < want[i]) all = false;
            if (all) return true;
            thread_usleep(200);
        }
        return false;
    }
    void end() {
        stop = true;
        for (auto& s : sem) s->signal(1);
        for (auto& w : th) thread_join(w->jh);
    }
};
static Pingers g_ping;
static bool settled(std::vector<vtp::Worker*>& ws, std::vector<Prog>& pg, std::vector<int>& blocked) {
    auto snap = [&](std::vector<int>& ops) {
        blocked.clear(); ops.clear();
        for (size_t i = 0; i < ws.size(); i++) {
            ops.push_back(pg[i].opno.load());
            if (ws[i]->done.load()) continue;
            if (!pg[i].blocked_in.load() || thread_stat(ws[i]->th) != states::SLEEPING) return false;
            blocked.push_back((int)i);
        }
        return true;
    };
    std::vector<int> o1, o2, b1;
    if (!snap(o1)) return false;
    b1 = blocked;
    for (int k = 0; k < 6; k++) {
        if (!g_ping.round()) return false;
        thread_usleep(1000);
        if (!snap(o2) || o1 != o2 || b1 != blocked) return false;
    }
    return true;
}
static bool wait_settle(std::vector<vtp::Worker*>& ws, std::vector<Prog>& pg, std::vector<int>& blocked, const char* what) {
    for (int spins = 0; spins < 20000; spins++) {
        bool all = true;
        for (auto w : ws) if (!w->done.load()) { all = false; break; }
        if (all) { blocked.clear(); return true; }
        if (spins > 2 && settled(ws, pg, blocked)) return true;
        thread_usleep(300);
    }
    return vtp::wait_done(ws, 0, what);
}
// (one vCPU) the main thread yields until no worker is READY: everybody is done or SLEEPING.  Exact, no waiting.
static bool settle_1vcpu(std::vector<vtp::Worker*>& ws, std::vector<Prog>& pg, std::vector<int>& blocked) {
    for (int spins = 0; spins < 100000; spins++) {
        thread_yield();
        bool quiet = true;
        blocked.clear();
        for (size_t i = 0; i < ws.size(); i++) {
            if (ws[i]->done.load()) continue;
            if (thread_stat(ws[i]->th) == states::SLEEPING && pg[i].blocked_in.load()) blocked.push_back((int)i);
            else quiet = false;
        }
        if (quiet) return true;
    }
    vt::Arr a; for (auto w : ws) if (!w->done.load()) a.i(w->id);
    vt::Ev("Hang").raw("blocked", a.str()).s("where", "threads stay runnable").s("what", "settle_1vcpu");
    vt::flush();
    return false;
}
static void log_settle(Chan& ch, std::vector<vtp::Worker*>& ws, std::vector<Prog>& pg, std::vector<int>& blocked) {
    vt::Arr a;
    for (int i : blocked) a.raw("[" + std::to_string(ws[i]->id) + "," + std::to_string(pg[i].blocked_in.load()) + "]");
    vt::Ev("Settle").raw("blocked", a.str()).i("size", (int64_t)ch.size());
}

// end of an execution: release what is blocked, close, drain, Quiesce.  one_vcpu selects the exact settle test.
static bool finish_exec(Chan& ch, std::vector<vtp::Worker*>& ws, std::vector<Prog>& pg, bool one_vcpu, bool feed, const char* what, bool join = true) {
    std::vector<int> blocked;
    auto settle = [&]() { return one_vcpu ? settle_1vcpu(ws, pg, blocked) : wait_settle(ws, pg, blocked, what); };
    int fv = 9100;
    for (int round = 0; round < 4; round++) {
        if (!settle()) return false;
        if (blocked.empty()) break;
        log_settle(ch, ws, pg, blocked);
        int ns = 0, nr = 0;
        for (int i : blocked) (pg[i].blocked_in.load() == B_SEND ? ns : nr)++;
        if (feed && round < 2 && !ch.is_closed() && (ns == 0 || nr == 0)) {
            // a partner for every blocked thread (short timeouts: the harness never blocks for long)
            for (int k = 0; k < ns; k++) c_recv(ch, 91, 3000, nullptr);
            for (int k = 0; k < nr; k++) c_send(ch, 91, ++fv, 3000, nullptr);
            continue;
        }
        if (!ch.is_closed()) { c_close(ch, 91, nullptr); continue; }
        // still asleep on a closed channel: wake them so that the execution can end (logged; the call then fails)
        for (int i : blocked) { vt::Ev("Kick").i("t", ws[i]->id); thread_interrupt(ws[i]->th, ETIMEDOUT); }
    }
    if (!settle()) return false;
    if (!blocked.empty()) {
        log_settle(ch, ws, pg, blocked);
        if (!ch.is_closed()) c_close(ch, 91, nullptr);
        for (int rep = 0; rep < 50 && !blocked.empty(); rep++) {
            for (int i : blocked) { vt::Ev("Kick").i("t", ws[i]->id); thread_interrupt(ws[i]->th, ETIMEDOUT); }
            if (!settle()) return false;
        }
    }
    if (!vtp::wait_done(ws, 10 * 1000 * 1000, what)) return false;
    if (join) vtp::join_all(ws);
    // what is still in the channel
    for (int k = 0; k < 16; k++) if (!c_try_recv(ch, 91, nullptr)) break;
    vt::Ev("Quiesce").i("size", (int64_t)ch.size()).i("live", Item::live().load());
    return true;
}

// ------------------------------------------------------------------------------------------------ directed (one vCPU)
static const char* CALLS = "SsRrTtC";   // send, send(timed), recv, recv(timed), try_send, try_recv, close
static const int64_t DIR_TIMEOUT_US = 150;
// The callers are four parked photon threads that are reused (creating a thread per call costs several system calls).
// A call "arrives" when its thread is made READY: it then queues behind everything that is already runnable, exactly
// like a newly created thread.
struct PoolWorker : vtp::Worker { std::function<void()> call; bool quit = false; };
static void* pool_entry(void* a) {
    auto w = (PoolWorker*)a;
    while (true) {
        thread_usleep(-1UL);                 // parked; only arrive() wakes it
        if (w->quit) break;
        if (w->call) { w->call(); w->call = nullptr; w->done.store(true); }
    }
    return nullptr;
}
static std::vector<std::unique_ptr<PoolWorker>> g_pool;
static void pool_start(int n) {
    for (int i = 0; i < n; i++) {
        g_pool.emplace_back(new PoolWorker()); auto w = g_pool.back().get();
        w->id = i + 1; w->done = true;
        w->th = thread_create(&pool_entry, w, 128 * 1024);
        w->jh = thread_enable_join(w->th);
        vtp::reg().set(w->th, w->id);
    }
    for (int i = 0; i < 3; i++) thread_yield();      // everybody parks
}
static void pool_stop() {
    for (auto& w : g_pool) { w->quit = true; thread_interrupt(w->th, EINTR); }
    for (auto& w : g_pool) thread_join(w->jh);
    g_pool.clear();
}
static bool exec_dir(int ex, int cap, const std::vector<int>& seq, unsigned mask) {
    std::unique_ptr<Chan> chp(new Chan((size_t)cap));
    Chan& ch = *chp;
    int k = (int)seq.size();
    std::string sq; for (int c : seq) sq += CALLS[c];
    vt::Ev("Reset").s("prim", "dir").i("ex", ex).i("cap", cap).i("n", k).i("vcpus", 1).s("seq", sq).i("mask", mask);
    std::vector<vtp::Worker*> ws; std::vector<Prog> pg(k);
    std::vector<int> blocked;
    bool timed = false;
    for (int i = 0; i < k; i++) {
        auto w = g_pool[i].get(); ws.push_back(w);
        if (thread_stat(w->th) != states::SLEEPING) { vt::Ev("Hang").raw("blocked", "[]").s("where", "pool thread not parked").s("what", "dir"); return false; }
        int c = seq[i]; Prog* P = &pg[i]; int id = w->id;
        if (c == 1 || c == 3) timed = true;
        w->done = false;
        w->call = [&ch, c, id, P] {
            switch (c) {
            case 0: c_send(ch, id, id * 100 + 1, -1, P); break;
            case 1: c_send(ch, id, id * 100 + 1, DIR_TIMEOUT_US, P); break;
            case 2: c_recv(ch, id, -1, P); break;
            case 3: c_recv(ch, id, DIR_TIMEOUT_US, P); break;
            case 4: c_try_send(ch, id, id * 100 + 1, P); break;
            case 5: c_try_recv(ch, id, P); break;
            case 6: c_close(ch, id, P); break;
            }
        };
        thread_interrupt(w->th, EINTR);     // arrives: READY behind everything that is already runnable; does not switch
        if (i + 1 < k && (mask >> i & 1)) {
            // let everything runnable run until all threads are asleep or done, before the next arrival
            if (!settle_1vcpu(ws, pg, blocked)) return false;
            if (!blocked.empty()) log_settle(ch, ws, pg, blocked);
        }
    }
    if (!settle_1vcpu(ws, pg, blocked)) return false;
    if (timed && !blocked.empty()) {
        log_settle(ch, ws, pg, blocked);
        thread_usleep(DIR_TIMEOUT_US + 150);            // the finite deadlines pass
    }
    return finish_exec(ch, ws, pg, true, false, "dir", false);
}
static bool run_dir(uint64_t limit, int all_masks) {    // all_masks: 0 = {none, all} only, 1 = every mask for capacity 0, 2 = every mask
    // enumerate: capacity x sequence x mask; with a limit, a seeded regular sample of the enumeration
    std::vector<std::vector<int>> seqs;
    for (int len = 1; len <= 4; len++) {
        std::vector<int> s(len, 0);
        while (true) {
            seqs.push_back(s);
            int p = len - 1;
            while (p >= 0 && ++s[p] == 7) s[p--] = 0;
            if (p < 0) break;
        }
    }
    struct Case { int cap; const std::vector<int>* s; unsigned mask; };
    std::vector<Case> cases;
    for (int cap = 0; cap <= 2; cap++)
        for (auto& s : seqs) {
            unsigned nm = 1u << (s.size() - 1);
            for (unsigned m = 0; m < nm; m++) {
                if (!(all_masks == 2 || (all_masks == 1 && cap == 0)) && m != 0 && m != nm - 1) continue;
                cases.push_back({cap, &s, m});
            }
        }
    uint64_t total = cases.size(), step = 1, off = 0;
    if (limit && limit < total) { step = (total + limit - 1) / limit; off = g_seed % step; }
    int ex = 0;
    pool_start(4);
    for (uint64_t i = off; i < total; i += step)
        if (!exec_dir(ex++, cases[i].cap, *cases[i].s, cases[i].mask)) return false;
    pool_stop();
    return true;
}

// ------------------------------------------------------------------------------------------------ random programs
static int64_t pick_us(vt::Rng& r) {
    switch (r.below(6)) { case 0: return 0; case 1: case 2: return 20 + (int64_t)r.below(400); default: return -1; }
}
static void pause_a_bit(vt::Rng& r) {
    switch (r.below(6)) {
    case 0: case 1: break;
    case 2: case 3: thread_yield(); break;
    case 4: thread_usleep(r.below(150)); break;
    case 5: { for (volatile int i = 0; i < (int)r.below(3000); i++) {} } break;
    }
}
static bool exec_rand(int ex, vt::Rng& r) {
    static const int CAPS[] = {0, 0, 0, 1, 1, 2, 3};
    int cap = CAPS[r.below(7)];
    std::unique_ptr<Chan> chp(new Chan((size_t)cap));
    Chan& ch = *chp;
    int nth = 2 + (int)r.below(g_threads - 1);
    int nvc = 1 + (int)r.below(g_vcpus);
    bool with_close = r.coin(30);
    int perturb = nvc > 1 ? (int)r.below(3) : 0;
    vt::Ev("Reset").s("prim", "rand").i("ex", ex).i("cap", cap).i("n", nth).i("vcpus", nvc).s("seq", "").i("mask", perturb);
    vtp::Perturb::seed() = r.next(); vtp::Perturb::level() = perturb ? 1 : 0; vtg::hooks_on() = perturb ? 1 : 0;
    std::vector<std::unique_ptr<vtp::Worker>> own; std::vector<vtp::Worker*> ws; std::vector<Prog> pg(nth);
    for (int i = 0; i < nth; i++) {
        own.emplace_back(new vtp::Worker()); auto w = own.back().get(); w->id = i + 1; ws.push_back(w);
        uint64_t wseed = r.next(); int nops = 1 + (int)r.below(g_ops); Prog* P = &pg[i];
        int role = i == 0 ? 0 : i == 1 ? 1 : (int)r.below(5) / 2;     // 0 sender, 1 receiver, 2 mixed
        bool closer = with_close && r.coin(40);
        int id = w->id;
        w->body = [&ch, wseed, nops, P, role, closer, id] {
            vt::Rng rr(wseed);
            int k = 0;
            for (int j = 0; j < nops; j++) {
                pause_a_bit(rr);
                int c = (int)rr.below(10);
                bool snd = role == 0 ? c < 8 : role == 1 ? c >= 8 : c < 5;
                if (closer && rr.below(12) == 0) { c_close(ch, id, P); continue; }
                bool tr = rr.below(10) < 3;
                if (snd) { int v = id * 100 + ++k; if (tr) c_try_send(ch, id, v, P); else c_send(ch, id, v, pick_us(rr), P); }
                else     { if (tr) c_try_recv(ch, id, P); else c_recv(ch, id, pick_us(rr), P); }
            }
        };
    }
    { vtp::GateGuard gg; for (int i = 0; i < nth; i++) vtp::spawn_on(ws[i], g_vc.vc[r.below(nvc)]); }
    bool ok = finish_exec(ch, ws, pg, false, true, "rand");
    vtp::Perturb::level() = 0; vtg::hooks_on() = 0;
    return ok;
}

// ------------------------------------------------------------------------------------------------ gated scenarios (2 vCPUs)
// One worker (thread 1, on vCPU 1) is held at a schedule point inside its call while thread 91 (the harness, vCPU 0)
// performs the partner call; then it is released.  Scenarios (capacity 1):
//   0 lw_send : ring full;  send() held after its failed push (at expired());  recv() takes the item;   release
//   1 lw_recv : ring empty; recv() held after its failed pop and m_closed test (at expired()); send() pushes; release
//   2 cl_send : ring full;  send() held at expired(); close();  release
//   3 cl_recv : ring empty; recv() held at expired(); close();  release
//   4 dr      : ring empty; recv() held after its failed pop (before the m_closed load); send() pushes, close(); release
static const char* GATES[] = {"lw_send", "lw_recv", "cl_send", "cl_recv", "dr"};
static bool exec_gate(int ex, int sc) {
    int cap = 1;
    std::unique_ptr<Chan> chp(new Chan((size_t)cap));
    Chan& ch = *chp;
    vt::Ev("Reset").s("prim", "gate").i("ex", ex).i("cap", cap).i("n", 1).i("vcpus", 2).s("seq", GATES[sc]).i("mask", 0);
    bool sender = sc == 0 || sc == 2;
    if (sender) c_try_send(ch, 91, 9001, nullptr);          // fill the ring
    std::vector<std::unique_ptr<vtp::Worker>> own; std::vector<vtp::Worker*> ws; std::vector<Prog> pg(1);
    own.emplace_back(new vtp::Worker()); auto w = own.back().get(); w->id = 1; ws.push_back(w);
    Prog* P = &pg[0];
    w->body = [&ch, sender, P] { if (sender) c_send(ch, 1, 101, -1, P); else c_recv(ch, 1, -1, P); };
    vtg::hooks_on() = 1;
    vtg::arm(1, sc == 4 ? vtg::H_LOAD : vtg::H_EXPIRED, 1);
    vtp::spawn_on(w, g_vc.vc[1]);
    auto& g = vtg::gate();
    for (int i = 0; i < 20000 && !g.reached.load() && !w->done.load(); i++) thread_usleep(50);
    bool held = g.reached.load() && !g.dropped.load();
    vt::Ev("Gate").s("at", GATES[sc]).b("held", held);
    if (held) {
        vtg::hooks_on() = 0;                                 // the partner calls run undisturbed
        switch (sc) {
        case 0: c_recv(ch, 91, 3000, nullptr); break;
        case 1: c_send(ch, 91, 9002, 3000, nullptr); break;
        case 2: case 3: c_close(ch, 91, nullptr); break;
        case 4: c_send(ch, 91, 9002, 3000, nullptr); c_close(ch, 91, nullptr); break;
        }
    }
    bool usable = held && !g.dropped.load();
    vtg::disarm();
    vtg::hooks_on() = 0;
    vt::Ev("Gate").s("at", "released").b("held", usable);
    return finish_exec(ch, ws, pg, false, false, "gate");
}

int main(int argc, char** argv) {
    std::string prim = vt::arg(argc, argv, "--prim", "rand");
    g_execs = atoi(vt::arg(argc, argv, "--execs", "50"));
    g_seed = strtoull(vt::arg(argc, argv, "--seed", "1"), 0, 10);
    g_vcpus = atoi(vt::arg(argc, argv, "--vcpus", "3"));
    g_threads = atoi(vt::arg(argc, argv, "--threads", "4"));
    g_ops = atoi(vt::arg(argc, argv, "--ops", "5"));
    std::string masks = vt::arg(argc, argv, "--masks", "ends");
    if (prim == "dir") g_vcpus = 1;
    if (prim == "gate") g_vcpus = 2;
    vt::open(vt::arg(argc, argv, "--out", "-"));
    set_log_output_level(ALOG_ERROR + 1);
    photon::init(photon::INIT_EVENT_EPOLL, photon::INIT_IO_NONE);
    g_vc.start(g_vcpus);
    g_ping.start(g_vc);
    vtp::Watchdog wd; wd.start(20, prim.c_str());
    vt::Rng r(g_seed * 1000003 + 9);
    int rc = 0;
    if (prim == "dir") { if (!run_dir((uint64_t)g_execs, masks == "all" ? 2 : masks == "cap0all" ? 1 : 0)) rc = 4; }
    else for (int ex = 0; ex < g_execs; ex++) {
        bool ok = prim == "gate" ? exec_gate(ex, ex % 5) : exec_rand(ex, r);
        if (!ok) { rc = 4; break; }
    }
    wd.end();
    vt::close();
    if (rc) _exit(rc);      // a hung photon thread cannot be cleaned up
    g_ping.end();
    g_vc.stop();
    photon::fini();
    return 0;
}
