// C07 harness: lock-free ring queues and RingChannel / FlexRingChannel of common/lockfree_queue.h.
// Many short executions of seeded random programs on the REAL templates (LockfreeMPMCRingQueue, LockfreeBatchMPMCRingQueue,
// LockfreeSPSCRingQueue, their Flex variants, RingChannel<...>, FlexRingChannel<...>; capacities 2/4/8), with plain OS threads
// or photon threads on 1..3 vCPUs as clients (<= 4 client threads, <= ~40 calls per execution).  Every call is bracketed by
// Inv (before) and Resp (after) events written through one global lock (vt.h), so an operation's linearization point lies
// between its two events.  Every value is unique: producer*1000 + sequence number, stored as {v, ~v} so that a torn slot shows.
//   Reset{prim,kind,style,ex,cap,flex,os,np,nc,vcpus,pfail,start}
//   Inv{t,op,vals:[..]} / Resp{t,op,k}            op = push | pushn | send      (k = number of values accepted)
//   Inv{t,op,n}         / Resp{t,op,vals:[..]}    op = pop | popn | recv        (a torn / foreign value is logged as -1)
//   Settle{blocked:[[t,1|2],..]}   every thread inside a call was found asleep (state SLEEPING) at two inspections 10 ms apart:
//                                  1 = inside send(), 2 = inside recv()
//   Observed{what,staged,refused}  directed scenario --prim prfull (informational)
//   Gate{flavour,reached,dropped}  directed scenario: whether the held thread reached its gate (informational)
//   Quiesce{left}                  after the final drain (logged as ordinary pops / recvs of thread 8): read_available()
//   Hang{..}                       a call did not return in time (exit code 4)
// Judged by spec/Trace_RingA.tla.
// usage: h_ring --prim mpmc|batch|spsc|chan|wrap|prfull [--wrap4] [--noperturb] --execs N --seed S --vcpus V --threads K --ops M --out file
//
// Schedule points without touching the header: common/lockfree_queue.h is compiled UNCHANGED, but while it is being included
// the tokens memory_order_acquire / _release / _acq_rel / _seq_cst / _relaxed are macros that first call vtr::hook(kind) and
// then yield the same order as a run-time value (GCC then uses the strongest order, never a weaker one), and memcpy (the slot
// copies of the batch and SPSC queues) is a macro that calls vtr::hook(H_DATA) before the copy and in its middle.  Every atomic load /
// store / RMW / fence of the header that names its order is therefore preceded by a schedule point (the two index CAS of the
// MPMC queue use the default order and have none; the acquire loads right before them have).  A hook (a) delays the calling OS
// thread by a small seeded random amount (bounded spin / sched_yield; it never blocks and never switches photon threads), which
// widens the windows between two atomic operations of one call, and (b) implements the gate of the directed scenarios: a named
// photon thread is held (bounded) at its n-th hook of one kind until the partner call has returned.
#include "vt_photon.h"
#include <photon/thread/thread.h>
#include <photon/common/timeout.h>
#include <photon/common/utility.h>
#include <atomic>
#include <cstddef>
#include <cstdint>
#include <cstdlib>
#include <memory>
#include <cstring>
#include <thread>
#include <type_traits>
#include <utility>
#include <chrono>
#ifndef __aarch64__
#include <immintrin.h>
#endif

namespace vtr {
enum { H_ACQ = 1, H_REL = 2, H_ACQREL = 3, H_SEQ = 4, H_RLX = 5, H_DATA = 6 };
struct Gate {
    std::atomic<int> tid{0};          // id of the photon thread to hold (0 = not armed)
    int kind = 0, nth = 0;
    std::atomic<int> seen{0};
    std::atomic<bool> reached{false}, release{false}, dropped{false};
};
inline Gate& gate() { static Gate g; return g; }
inline std::atomic<int>& level() { static std::atomic<int> l{0}; return l; }       // 0 = no random delays
inline std::atomic<uint64_t>& seed() { static std::atomic<uint64_t> s{1}; return s; }
inline void arm(int tid, int kind, int nth) {
    auto& g = gate(); g.kind = kind; g.nth = nth; g.seen = 0; g.reached = false; g.release = false; g.dropped = false; g.tid = tid;
}
inline void disarm() { gate().tid = 0; gate().release = true; }
inline void perturb(int kind) {
    if (!level().load(std::memory_order_relaxed)) return;
    static thread_local uint64_t s = 0;
    if (!s) s = seed().load() * 0x9E3779B97F4A7C15ull + (uint64_t)pthread_self() + 1;
    s ^= s << 13; s ^= s >> 7; s ^= s << 17;
    unsigned r = (unsigned)(s & 0xff), boost = (kind == H_REL || kind == H_SEQ || kind == H_DATA) ? 2 : 1;     // publication stores, the Dekker RMWs, slot accesses
    if (r >= 40 * boost) return;
    if (r < 26 * boost) { for (volatile int i = 0; i < (int)((s >> 8) & 0x1ff); i++) {} return; }
    if (r < 34 * boost) { sched_yield(); return; }
    for (volatile int i = 0; i < 30000; i++) {}
}
inline int hook(int kind) {
    auto& g = gate();
    int tid = g.tid.load(std::memory_order_relaxed);
    if (tid && kind == g.kind && photon::CURRENT && vtp::reg().get(photon::CURRENT) == tid && g.seen.fetch_add(1) + 1 == g.nth) {
        g.reached = true;
        for (uint64_t i = 0; !g.release.load(); i++) {          // bounded: a gate that is not released in time is dropped
            if (i > 300000) { g.dropped = true; break; }
            for (volatile int j = 0; j < 200; j++) {}
            if ((i & 255) == 255) sched_yield();
        }
        return 0;
    }
    perturb(kind);
    return 0;
}
// memcpy of the batch / SPSC queues: a schedule point before the copy and one in its middle (on a 4-byte boundary)
inline void* hooked_memcpy(void* d, const void* s, size_t n) {
    hook(H_DATA);
    size_t h = (n / 2) & ~(size_t)3;
    ::memcpy(d, s, h);
    if (n > 4) hook(H_DATA);
    ::memcpy((char*)d + h, (const char*)s + h, n - h);
    return d;
}
inline int o_acq() { hook(H_ACQ); return (int)std::memory_order_acquire; }
inline int o_rel() { hook(H_REL); return (int)std::memory_order_release; }
inline int o_acqrel() { hook(H_ACQREL); return (int)std::memory_order_acq_rel; }
inline int o_seq() { hook(H_SEQ); return (int)std::memory_order_seq_cst; }
inline int o_rlx() { hook(H_RLX); return (int)std::memory_order_relaxed; }
}  // namespace vtr

#define memory_order_acquire memory_order(vtr::o_acq())
#define memory_order_release memory_order(vtr::o_rel())
#define memory_order_acq_rel memory_order(vtr::o_acqrel())
#define memory_order_seq_cst memory_order(vtr::o_seq())
#define memory_order_relaxed memory_order(vtr::o_rlx())
#define memcpy(d, s, n) vtr::hooked_memcpy(d, s, n)
#include <photon/common/lockfree_queue.h>
#undef memcpy
#undef memory_order_acquire
#undef memory_order_release
#undef memory_order_acq_rel
#undef memory_order_seq_cst
#undef memory_order_relaxed
using namespace photon;

static int g_vcpus = 3, g_threads = 4, g_ops = 8, g_execs = 50;
static uint64_t g_seed = 1;
static bool g_wrap4 = false;
static vtp::Vcpus g_vc;

// The element type.  The queues accept trivially copyable types or std::shared_ptr<X> (static_assert in LockfreeRingQueueBase);
// the latter door is used to get schedule points at the slot accesses of the MPMC queue without touching the header: Item is a
// program-defined specialization of std::shared_ptr for a tag type - in fact a plain pair of words {v, ~v} whose copy operations
// call vtr::hook(H_DATA) before the copy and between the two words.  `slot = x`, `x = slot` and `T ret = slot` of the MPMC queue
// therefore have a schedule point in front and in the middle, and a slot that is read while it is written (or overwritten while
// it is read) shows as a value whose halves do not match (logged as -1).  The batch and SPSC queues copy with memcpy (no hook).
struct ItemTag;
namespace std {
template <> class shared_ptr<ItemTag> {
public:
    int32_t v, chk;
    shared_ptr() : v(0), chk(0) {}
    shared_ptr(const shared_ptr& o) { vtr::hook(vtr::H_DATA); v = o.v; vtr::hook(vtr::H_DATA); chk = o.chk; }
    shared_ptr& operator=(const shared_ptr& o) { vtr::hook(vtr::H_DATA); v = o.v; vtr::hook(vtr::H_DATA); chk = o.chk; return *this; }
};
}
typedef std::shared_ptr<ItemTag> Item;
static inline Item mk(int v) { Item it; it.v = v; it.chk = ~v; return it; }
static inline int val(const Item& it) { return it.chk == ~it.v ? it.v : -1; }

// ---------------------------------------------------------------------------------------------- queue abstraction
template <class Q> static auto pushn_(Q& q, const Item* x, size_t n, int) -> decltype(q.push_batch(x, n)) { return q.push_batch(x, n); }
template <class Q> static size_t pushn_(Q&, const Item*, size_t, long) { return 0; }
template <class Q> static auto popn_(Q& q, Item* x, size_t n, int) -> decltype(q.pop_batch(x, n)) { return q.pop_batch(x, n); }
template <class Q> static size_t popn_(Q&, Item*, size_t, long) { return 0; }

struct QIface {
    virtual ~QIface() {}
    virtual bool push(const Item&) = 0;
    virtual bool pop(Item&) = 0;
    virtual size_t push_batch(const Item*, size_t) = 0;
    virtual size_t pop_batch(Item*, size_t) = 0;
    virtual void send(const Item&, bool photon) = 0;
    virtual Item recv(bool photon) = 0;
    virtual size_t read_available() = 0;
    virtual size_t capacity() = 0;
    virtual bool preset(uint64_t) { return false; }
};
// fixed-capacity queues with access to the protected indices / marks, so that an execution can start right below the wrap of
// the 64-bit index word (state as after 2^64 - d pushes and pops)
template <size_t N> struct MpmcX : LockfreeMPMCRingQueue<Item, N> {
    void preset(uint64_t s) {
        this->tail.store(s); this->head.store(s);
        for (size_t i = 0; i < this->capacity; i++) {
            uint64_t x = s + ((i - this->idx(s)) & this->mask);      // first index >= s (wrapping) that uses slot i
            this->slots[i].mark.store(this->this_turn_read(x - this->capacity));   // what the previous turn's reader stored
        }
    }
};
template <size_t N> struct BatchX : LockfreeBatchMPMCRingQueue<Item, N> {
    void preset(uint64_t s) { this->tail.store(s); this->head.store(s); this->write_head.store(s); this->read_tail.store(s); }
};
template <size_t N> struct SpscX : LockfreeSPSCRingQueue<Item, N> {
    void preset(uint64_t s) { this->tail.store(s); this->head.store(s); }
};
template <class Q> static Q* aligned_new() {
    void* p = nullptr;
    if (posix_memalign(&p, 64, sizeof(Q))) abort();
    memset(p, 0, sizeof(Q));
    return new (p) Q();
}
template <class Q> struct FixedQ : QIface {
    Q* q;
    FixedQ() : q(aligned_new<Q>()) {}
    ~FixedQ() { q->~Q(); free(q); }
    bool push(const Item& x) override { return q->push(x); }
    bool pop(Item& x) override { return q->pop(x); }
    size_t push_batch(const Item* x, size_t n) override { return pushn_(*q, x, n, 0); }
    size_t pop_batch(Item* x, size_t n) override { return popn_(*q, x, n, 0); }
    void send(const Item& x, bool ph) override { if (ph) q->template send<PhotonPause>(x); else q->template send<ThreadPause>(x); }
    Item recv(bool ph) override { return ph ? q->template recv<PhotonPause>() : q->template recv<ThreadPause>(); }
    size_t read_available() override { return q->read_available(); }
    size_t capacity() override { return q->capacity; }
    bool preset(uint64_t s) override { q->preset(s); return true; }
};
template <class F> struct FlexQ : QIface {
    F* q;
    explicit FlexQ(size_t c) : q(F::create(c)) { if (!q) abort(); }
    ~FlexQ() { F::destroy(q); }
    bool push(const Item& x) override { return q->push(x); }
    bool pop(Item& x) override { return q->pop(x); }
    size_t push_batch(const Item* x, size_t n) override { return pushn_(*q, x, n, 0); }
    size_t pop_batch(Item* x, size_t n) override { return popn_(*q, x, n, 0); }
    void send(const Item& x, bool ph) override { if (ph) q->template send<PhotonPause>(x); else q->template send<ThreadPause>(x); }
    Item recv(bool ph) override { return ph ? q->template recv<PhotonPause>() : q->template recv<ThreadPause>(); }
    size_t read_available() override { return q->read_available(); }
    size_t capacity() override { return q->capacity; }
};
template <template <size_t> class X> static QIface* make_fixed(size_t cap) {
    switch (cap) { case 2: return new FixedQ<X<2>>(); case 4: return new FixedQ<X<4>>(); default: return new FixedQ<X<8>>(); }
}
static QIface* make_queue(const std::string& kind, size_t cap, bool flex) {
    if (kind == "mpmc") return flex ? (QIface*)new FlexQ<FlexLockfreeMPMCRingQueue<Item>>(cap) : make_fixed<MpmcX>(cap);
    if (kind == "batch") return flex ? (QIface*)new FlexQ<FlexLockfreeBatchMPMCRingQueue<Item>>(cap) : make_fixed<BatchX>(cap);
    return flex ? (QIface*)new FlexQ<FlexLockfreeSPSCRingQueue<Item>>(cap) : make_fixed<SpscX>(cap);
}

// ---------------------------------------------------------------------------------------------- channel abstraction
struct CIface {
    virtual ~CIface() {}
    virtual void send(const Item&, bool photon) = 0;
    virtual Item recv(uint64_t yt, uint64_t yus) = 0;
    virtual bool has_pop() { return true; }
    virtual bool pop(Item&) = 0;
    virtual size_t read_available() = 0;
};
template <class Q> struct ChanQ : CIface {
    typedef photon::common::RingChannel<Q> C;
    C* c;
    ChanQ(uint64_t yt, uint64_t yus) { void* p = nullptr; if (posix_memalign(&p, 64, sizeof(C))) abort(); memset(p, 0, sizeof(C)); c = new (p) C(yt, yus); }
    ~ChanQ() { c->~C(); free(c); }
    void send(const Item& x, bool ph) override { if (ph) c->template send<PhotonPause>(x); else c->template send<ThreadPause>(x); }
    Item recv(uint64_t yt, uint64_t yus) override { return c->recv(yt, yus); }
    bool pop(Item& x) override { return c->pop(x); }
    size_t read_available() override { return c->read_available(); }
};
template <class F> struct FlexChan : CIface {
    typedef photon::common::FlexRingChannel<F> C;
    C* c;
    FlexChan(size_t cap, uint64_t yt, uint64_t yus) : c(C::create(cap, yt, yus)) { if (!c) abort(); }
    ~FlexChan() { C::destroy(c); }
    void send(const Item& x, bool ph) override { if (ph) c->template send<PhotonPause>(x); else c->template send<ThreadPause>(x); }
    Item recv(uint64_t yt, uint64_t yus) override { return c->recv(yt, yus); }
    bool has_pop() override { return false; }
    bool pop(Item&) override { return false; }
    size_t read_available() override { return c->read_available(); }
};
template <template <class, size_t> class Q> static CIface* make_chan_fixed(size_t cap, uint64_t yt, uint64_t yus) {
    switch (cap) { case 2: return new ChanQ<Q<Item, 2>>(yt, yus); case 4: return new ChanQ<Q<Item, 4>>(yt, yus); default: return new ChanQ<Q<Item, 8>>(yt, yus); }
}
template <size_t N> using Mpmc64 = LockfreeMPMCRingQueue<Item, N, uint64_t>;
static CIface* make_chan(const std::string& kind, size_t cap, uint64_t yt, uint64_t yus) {
    if (kind == "mpmc") {
        switch (cap) { case 2: return new ChanQ<Mpmc64<2>>(yt, yus); case 4: return new ChanQ<Mpmc64<4>>(yt, yus); default: return new ChanQ<Mpmc64<8>>(yt, yus); }
    }
    if (kind == "batch") return make_chan_fixed<LockfreeBatchMPMCRingQueue>(cap, yt, yus);
    if (kind == "spsc") return make_chan_fixed<LockfreeSPSCRingQueue>(cap, yt, yus);
    if (kind == "flexmpmc") return new FlexChan<FlexLockfreeMPMCRingQueue<Item>>(cap, yt, yus);
    return new FlexChan<FlexLockfreeBatchMPMCRingQueue<Item>>(cap, yt, yus);
}

// ---------------------------------------------------------------------------------------------- programs
enum OpK { PUSH, PUSHN, SEND, POP, POPN, RECV };
static const char* opname(int k) { static const char* n[] = {"push", "pushn", "send", "pop", "popn", "recv"}; return n[k]; }
struct Op { int k; int n; int delay_ms; bool wait_gate; bool release_gate; };   // n: values pushed / asked; delay_ms: long sleep before the call (settle scenarios);
                                                                            // wait_gate: begin only when the gated partner is held; release_gate: release it after the call
struct Client {
    int id = 0; bool producer = false; bool photon = false;
    std::vector<Op> prog; uint64_t seed = 0; int next_seq = 1;
    std::atomic<int> in_call{0};      // 0 none, 1 inside send (channel), 2 inside recv (channel), 3 other call
    std::atomic<int> opno{0};
    std::atomic<bool> done{false};
    photon::thread* th = nullptr;
};
static void pause_a_bit(vt::Rng& r, bool photon) {
    switch (r.below(7)) {
    case 0: case 1: break;
    case 2: case 3: if (photon) thread_yield(); else sched_yield(); break;
    case 4: if (photon) thread_usleep(r.below(200)); else usleep((useconds_t)r.below(120)); break;
    default: { for (volatile int i = 0; i < (int)r.below(3000); i++) {} } break;
    }
}
static void long_sleep(int ms, bool photon) { if (photon) thread_usleep((uint64_t)ms * 1000); else usleep((useconds_t)ms * 1000); }

static std::string vals_json(const Item* x, size_t n) { vt::Arr a; for (size_t i = 0; i < n; i++) a.i(val(x[i])); return a.str(); }

// one producer-side call on a queue
static void do_push(QIface* q, Client* c, const Op& op) {
    Item buf[4]; int n = op.k == PUSHN ? op.n : 1;
    for (int i = 0; i < n; i++) buf[i] = mk(c->id * 1000 + c->next_seq++);
    vt::Ev("Inv").i("t", c->id).s("op", opname(op.k)).raw("vals", vals_json(buf, n));
    size_t k;
    if (op.k == PUSH) k = q->push(buf[0]) ? 1 : 0;
    else if (op.k == PUSHN) k = q->push_batch(buf, n);
    else { q->send(buf[0], c->photon); k = 1; }
    vt::Ev("Resp").i("t", c->id).s("op", opname(op.k)).i("k", (int64_t)k);
}
static void do_pop(QIface* q, Client* c, const Op& op) {
    Item buf[4]; int n = op.k == POPN ? op.n : 1; size_t k;
    vt::Ev("Inv").i("t", c->id).s("op", opname(op.k)).i("n", n);
    if (op.k == POP) k = q->pop(buf[0]) ? 1 : 0;
    else if (op.k == POPN) k = q->pop_batch(buf, n);
    else { buf[0] = q->recv(c->photon); k = 1; }
    vt::Ev("Resp").i("t", c->id).s("op", opname(op.k)).raw("vals", vals_json(buf, k));
}

static void* client_entry(void* a);
struct Exec {
    std::vector<std::unique_ptr<Client>> cl;
    std::function<void(Client*)> body;
    std::vector<std::thread> os;
    int gated = 0;          // id of the client that a gate holds (placed on vCPU 1, every other photon client on vCPU 0)
    bool all_done(bool producers, bool consumers) {
        for (auto& c : cl) if (((c->producer && producers) || (!c->producer && consumers)) && !c->done.load()) return false;
        return true;
    }
    void start(vt::Rng& r, int nvc) {
        vtp::GateGuard gg;
        for (auto& c : cl) {
            Client* cp = c.get();
            if (c->photon) {
                cp->th = thread_create(&client_entry, new std::pair<Exec*, Client*>(this, cp), 256 * 1024);
                thread_enable_join(cp->th);
                vtp::reg().set(cp->th, cp->id);
                auto target = g_vc.vc[r.below(nvc)];
                if (gated) target = g_vc.vc[cp->id == gated ? 1 : 0];
                if (target != get_vcpu()) thread_migrate(cp->th, target);
            } else {
                os.emplace_back([this, cp] { while (!vtp::gate().load()) sched_yield(); body(cp); cp->done = true; });
            }
        }
    }
    void join() {
        for (auto& t : os) t.join();
        os.clear();
        for (auto& c : cl) if (c->th) { thread_join((join_handle*)c->th); c->th = nullptr; }
    }
    void hang(const char* what) {
        vt::Arr a; std::string wh;
        for (auto& c : cl) if (!c->done.load()) { a.i(c->id); wh += std::to_string(c->id) + ":op" + std::to_string(c->opno.load()) + " "; }
        vt::Ev("Hang").raw("blocked", a.str()).s("where", wh).s("what", what);
        vt::flush();
    }
};
static void* client_entry(void* a) {
    auto p = (std::pair<Exec*, Client*>*)a;
    while (!vtp::gate().load()) thread_yield();
    p->first->body(p->second);
    p->second->done = true;
    delete p;
    return nullptr;
}

static void split(vt::Rng& r, int total, int parts, std::vector<int>& out) {
    out.assign(parts, 0);
    for (int i = 0; i < total; i++) out[r.below(parts)]++;
}

// ---------------------------------------------------------------------------------------------- queues
static bool exec_queue(const std::string& prim, int ex, vt::Rng& r) {
    bool wrap = prim == "wrap";
    std::string kind = prim;
    if (wrap) { static const char* K[] = {"mpmc", "batch", "spsc"}; kind = K[r.below(3)]; }
    static const size_t CAPS[] = {2, 4, 8};
    size_t cap = CAPS[r.below(3)];
    if (wrap && kind == "mpmc" && !g_wrap4) cap = 2;
    if (g_wrap4) { kind = "mpmc"; cap = 4; }
    bool flex = !wrap && r.coin(30);
    bool has_batch = kind != "mpmc";
    // style: pp = push/pop (+ batch calls), sr = blocking send/recv only, sp = send + pop, pr = push + recv (mpmc only)
    std::string style;
    { unsigned d = (unsigned)r.below(100);
      if (kind == "mpmc") style = d < 40 ? "pp" : d < 65 ? "sr" : d < 85 ? "sp" : "pr";
      else style = d < 60 ? "pp" : "sr"; }
    bool os_clients = r.coin(50);
    // send<PhotonPause> / recv<PhotonPause> yield while they hold a claimed ticket; a push() / pop() (which spin without yielding)
    // of another photon thread on the same vCPU that reaches that slot would spin forever.  That is a usage rule of the raw queue,
    // not part of C07: mixed blocking / non-blocking styles are therefore driven by OS threads only.
    if (style == "sp" || style == "pr") os_clients = true;
    int nvc = 1 + (int)r.below(g_vcpus);
    int np, nc;
    if (kind == "spsc") { np = nc = 1; }
    else { np = 1 + (int)r.below(3); int mx = g_threads - np; if (mx > 3) mx = 3; if (mx < 1) mx = 1; nc = 1 + (int)r.below(mx); }
    std::unique_ptr<QIface> q(make_queue(kind, cap, flex));
    uint64_t start = 0;
    if (wrap) { start = (uint64_t)0 - 1 - r.below(2 * cap + 2); q->preset(start); }
    // the MPMC full test is "tail and head coincide modulo the capacity": with fetch_add recv() next to push() that can hold on
    // an empty queue; C07 does not say when a push may fail, so nothing is demanded there.  The batch queue's full test counts
    // slots claimed by calls still in flight, the SPSC one slots whose reader has not moved head yet.
    const char* pfail = style == "pr" ? "free" : kind == "batch" ? "inflight" : kind == "spsc" ? "pops" : "strict";
    vt::Ev("Reset").s("prim", prim).s("kind", kind).s("style", style).i("ex", ex).i("cap", (int64_t)cap).b("flex", flex).b("os", os_clients)
        .i("np", np).i("nc", nc).i("vcpus", nvc).s("pfail", pfail).i("start", (int64_t)(0 - start));
    Exec E;
    int budget = g_ops;
    std::vector<int> sends(np), recvs(nc);
    for (int i = 0; i < np; i++) sends[i] = 1 + (int)r.below(budget);
    int S = 0; for (int s : sends) S += s;
    if (style == "sr") {
        int lo = S > (int)cap ? S - (int)cap : 0;
        int R = lo + (int)r.below(S - lo + 1);
        split(r, R, nc, recvs);
    } else for (int i = 0; i < nc; i++) recvs[i] = 1 + (int)r.below(budget);
    for (int i = 0; i < np + nc; i++) {
        E.cl.emplace_back(new Client()); auto c = E.cl.back().get();
        c->id = i + 1; c->producer = i < np; c->photon = !os_clients; c->seed = r.next();
        int n = c->producer ? sends[i] : recvs[i - np];
        for (int k = 0; k < n; k++) {
            Op op; op.delay_ms = 0; op.n = 1; op.wait_gate = op.release_gate = false;
            if (c->producer) {
                if (style == "sr" || style == "sp") op.k = SEND;
                else if (has_batch && r.coin(45)) { op.k = PUSHN; op.n = 1 + (int)r.below(3); }
                else op.k = PUSH;
            } else {
                if (style == "sr" || style == "pr") op.k = RECV;
                else if (has_batch && r.coin(45)) { op.k = POPN; op.n = 1 + (int)r.below(3); }
                else op.k = POP;
            }
            c->prog.push_back(op);
        }
    }
    QIface* Q = q.get();
    E.body = [Q](Client* c) {
        vt::Rng rr(c->seed);
        for (auto& op : c->prog) {
            pause_a_bit(rr, c->photon);
            c->opno++;
            if (c->producer) do_push(Q, c, op); else do_pop(Q, c, op);
        }
    };
    E.start(r, nvc);
    // main: wait; in style sp blocked senders are released by a drainer (ordinary pops of thread 8), in style pr blocked
    // receivers by a feeder (ordinary pushes of thread 9)
    Client drainer; drainer.id = 8; drainer.photon = true;
    Client feeder; feeder.id = 9; feeder.photon = true; feeder.producer = true;
    uint64_t waited = 0;
    Op popop{POP, 1, 0, false, false}, pushop{PUSH, 1, 0, false, false};
    while (!E.all_done(true, true)) {
        if (style == "sp" && (int64_t)Q->read_available() > 0) do_pop(Q, &drainer, popop);
        else if (style == "pr" && E.all_done(true, false) && (int64_t)Q->read_available() <= 0) do_push(Q, &feeder, pushop);
        thread_usleep(300); waited += 300;
        if (waited > 20 * 1000 * 1000) { E.hang(prim.c_str()); return false; }
    }
    E.join();
    // final drain, logged as ordinary pops
    for (int guard = 0; guard < 64; guard++) {
        Item it; bool got;
        vt::Ev("Inv").i("t", 8).s("op", "pop").i("n", 1);
        got = Q->pop(it);
        vt::Ev("Resp").i("t", 8).s("op", "pop").raw("vals", vals_json(&it, got ? 1 : 0));
        if (!got) break;
    }
    vt::Ev("Quiesce").i("left", (int64_t)Q->read_available());
    return true;
}

// ---------------------------------------------------------------------------------------------- directed: push() next to recv()
// Behaviour found by TLC in RingQueues.tla (MC_RingQueues_kf_pushfull.cfg): LockfreeMPMCRingQueue::push() decides "full" by
// check_full(h, t) = (h != t && h == t modulo capacity).  recv() advances head by fetch_add before an element exists, so with
// `capacity` receivers ahead of tail and the slot at tail still owned by a reader of the previous turn, push() returns false on a
// queue that holds nothing unread.  Scenario (capacity 2): push a, push b; consumer 3 (photon thread on vCPU 1) takes ticket 0 and
// is held right before its first mark load; consumer 4 (OS thread) receives b and waits for ticket 2; consumer 5 (OS thread) waits
// for ticket 3; now push c.  The outcome is recorded as an Observed event; C07 does not say when push() may fail, so the history
// is judged with pfail = "free" and is accepted either way.
static bool exec_prfull(const std::string& prim, int ex, vt::Rng& r) {
    if (g_vcpus < 2) return true;
    std::unique_ptr<QIface> q(make_queue("mpmc", 2, false));
    QIface* Q = q.get();
    vt::Ev("Reset").s("prim", prim).s("kind", "mpmc").s("style", "pr").i("ex", ex).i("cap", 2).b("flex", false).b("os", true)
        .i("np", 1).i("nc", 3).i("vcpus", 2).s("pfail", "free").i("start", 0);
    Client prod; prod.id = 1; prod.producer = true; prod.photon = true;
    Op pushop{PUSH, 1, 0, false, false}, recvop{RECV, 1, 0, false, false};
    do_push(Q, &prod, pushop); do_push(Q, &prod, pushop);
    Client c3, c4, c5; c3.id = 3; c3.photon = true; c4.id = 4; c5.id = 5;
    vtr::arm(3, vtr::H_ACQ, 1);
    struct A { QIface* q; Client* c; Op op; } a3{Q, &c3, recvop};
    c3.th = thread_create([](void* p) -> void* { auto a = (A*)p; do_pop(a->q, a->c, a->op); a->c->done = true; return nullptr; }, &a3, 256 * 1024);
    thread_enable_join(c3.th); vtp::reg().set(c3.th, 3);
    thread_migrate(c3.th, g_vc.vc[1]);
    for (int i = 0; i < 2000 && !vtr::gate().reached.load(); i++) thread_usleep(50);
    bool held = vtr::gate().reached.load() && !vtr::gate().dropped.load();
    auto ahead = [Q] { return -(int64_t)Q->read_available(); };      // head - tail
    std::thread t4([&] { do_pop(Q, &c4, recvop); do_pop(Q, &c4, recvop); c4.done = true; });
    for (int i = 0; i < 4000 && ahead() < 1; i++) thread_usleep(50);
    std::thread t5([&] { do_pop(Q, &c5, recvop); c5.done = true; });
    for (int i = 0; i < 4000 && ahead() < 2; i++) thread_usleep(50);
    bool staged = held && ahead() == 2 && !vtr::gate().dropped.load();
    int seq_before = prod.next_seq;
    do_push(Q, &prod, pushop);                                       // the push in question
    bool refused = Q->read_available() == (size_t)-2 && prod.next_seq == seq_before + 1 && ahead() == 2;
    vt::Ev("Observed").s("what", "push() with capacity receivers ahead of tail and the slot at tail still being read").b("staged", staged).b("refused", staged && refused);
    vtr::disarm();
    // feed the waiting receivers (ordinary pushes), then finish
    uint64_t waited = 0;
    while (!(c3.done.load() && c4.done.load() && c5.done.load())) {
        if ((int64_t)Q->read_available() <= 0) do_push(Q, &prod, pushop);
        thread_usleep(300); waited += 300;
        if (waited > 20 * 1000 * 1000) { vt::Ev("Hang").raw("blocked", "[]").s("where", "prfull").s("what", prim); vt::flush(); return false; }
    }
    t4.join(); t5.join(); thread_join((join_handle*)c3.th);
    for (int guard = 0; guard < 16; guard++) {
        Item it; bool got;
        vt::Ev("Inv").i("t", 8).s("op", "pop").i("n", 1);
        got = Q->pop(it);
        vt::Ev("Resp").i("t", 8).s("op", "pop").raw("vals", vals_json(&it, got ? 1 : 0));
        if (!got) break;
    }
    vt::Ev("Quiesce").i("left", (int64_t)Q->read_available());
    return true;
}

// ---------------------------------------------------------------------------------------------- channels
static bool exec_chan(const std::string& prim, int ex, vt::Rng& r) {
    static const char* KINDS[] = {"mpmc", "mpmc", "flexmpmc", "flexmpmc", "batch", "spsc", "flexbatch"};
    std::string kind = KINDS[r.below(7)];
    static const size_t CAPS[] = {2, 2, 4, 8};
    size_t cap = CAPS[r.below(4)];
    int nvc = 1 + (int)r.below(g_vcpus);
    int np, nc;
    if (kind == "spsc") { np = nc = 1; }
    else { np = 1 + (int)r.below(3); int mx = g_threads - np; if (mx > 3) mx = 3; if (mx < 1) mx = 1; nc = 1 + (int)r.below(mx); }
    static const uint64_t YT[] = {0, 0, 1, 4}, YUS[] = {0, 30, 200};
    uint64_t yt = YT[r.below(4)], yus = YUS[r.below(3)];          // small yield budgets: callers reach the semaphore quickly
    bool os_prod = r.coin(35);
    // flavour: 0 ordinary, 1 lazy producers (consumers sleep on an empty queue), 2 lazy consumers (senders sleep on a full queue),
    // 3 gate R (Dekker window of recv: the consumer is held right before idler.fetch_add while a producer completes send()),
    // 4 gate S (the producer that found the queue full is held right before send_waiters.fetch_add while a consumer completes recv())
    int flavour; { unsigned d = (unsigned)r.below(10); flavour = d < 4 ? 0 : d < 6 ? 1 : d < 8 ? 2 : d < 9 ? 3 : 4; }
    if (flavour >= 3 && g_vcpus < 2) flavour = 0;
    if (flavour >= 3) { np = nc = 1; nvc = g_vcpus; os_prod = false; }
    if (flavour == 4) cap = 2;
    std::unique_ptr<CIface> ch(make_chan(kind, cap, yt, yus));
    vt::Ev("Reset").s("prim", prim).s("kind", kind).s("style", "chan").i("ex", ex).i("cap", (int64_t)cap).b("flex", kind.substr(0, 4) == "flex").b("os", os_prod)
        .i("np", np).i("nc", nc).i("vcpus", nvc).s("pfail", "strict").i("start", 0).i("yt", (int64_t)yt).i("yus", (int64_t)yus).i("flavour", flavour);
    Exec E;
    std::vector<int> sends(np), recvs;
    int per = flavour == 2 ? (int)cap / np + 2 : 1 + g_ops / 2;
    for (int i = 0; i < np; i++) sends[i] = 1 + (int)r.below(per);
    if (flavour == 3) sends[0] = 1;
    if (flavour == 4) sends[0] = (int)cap + 1;
    int S = 0; for (int s : sends) S += s;
    int lo = S > (int)cap ? S - (int)cap : 0;
    int R = lo + (int)r.below(S - lo + 1);
    if (R < 1) R = 1;
    if (flavour >= 3) R = 1;
    split(r, R, nc, recvs);
    for (int i = 0; i < np + nc; i++) {
        E.cl.emplace_back(new Client()); auto c = E.cl.back().get();
        c->id = i + 1; c->producer = i < np; c->photon = c->producer ? !os_prod : true; c->seed = r.next();
        int n = c->producer ? sends[i] : recvs[i - np];
        for (int k = 0; k < n; k++) {
            Op op; op.n = 1; op.k = c->producer ? SEND : RECV; op.delay_ms = 0; op.wait_gate = op.release_gate = false;
            if (flavour == 1 && c->producer && r.coin(40)) op.delay_ms = 14 + (int)r.below(10);
            if (flavour == 2 && !c->producer && r.coin(50)) op.delay_ms = 14 + (int)r.below(10);
            if (flavour == 3 && c->producer) op.wait_gate = op.release_gate = true;
            if (flavour == 4 && !c->producer) op.wait_gate = op.release_gate = true;
            c->prog.push_back(op);
        }
    }
    // gates: the held thread runs on vCPU 1 (its OS thread spins while it is held), the partner on vCPU 0
    if (flavour == 3) vtr::arm(2, vtr::H_SEQ, 1);                       // consumer (id 2): first seq_cst operation of recv = idler.fetch_add
    if (flavour == 4) vtr::arm(1, vtr::H_SEQ, 2 * (int)cap + 1);        // producer (id 1): cap sends with fence + idler.load each, then send_waiters.fetch_add
    E.gated = flavour == 3 ? 2 : flavour == 4 ? 1 : 0;
    CIface* C = ch.get();
    E.body = [C, yt, yus](Client* c) {
        vt::Rng rr(c->seed);
        for (auto& op : c->prog) {
            if (op.delay_ms) long_sleep(op.delay_ms, c->photon); else pause_a_bit(rr, c->photon);
            if (op.wait_gate)          // bounded: if the partner never reaches its gate the scenario degenerates to an ordinary one
                for (int i = 0; i < 400 && !vtr::gate().reached.load() && !vtr::gate().dropped.load(); i++) thread_usleep(100);
            struct Rel { bool on; ~Rel() { if (on) vtr::gate().release = true; } } rel{op.release_gate};
            c->opno++;
            if (c->producer) {
                Item it = mk(c->id * 1000 + c->next_seq++);
                c->in_call = 1;
                vt::Ev("Inv").i("t", c->id).s("op", "send").raw("vals", vals_json(&it, 1));
                C->send(it, c->photon);
                vt::Ev("Resp").i("t", c->id).s("op", "send").i("k", 1);
                c->in_call = 0;
            } else {
                c->in_call = 2;
                vt::Ev("Inv").i("t", c->id).s("op", "recv").i("n", 1);
                Item it = C->recv(yt, yus);
                vt::Ev("Resp").i("t", c->id).s("op", "recv").raw("vals", vals_json(&it, 1));
                c->in_call = 0;
            }
        }
    };
    E.start(r, nvc);
    // main: wait for the clients; whenever every thread that is inside a call is a photon thread in state SLEEPING at two
    // inspections 10 ms apart (and no call began or ended in between), report who sleeps
    auto snapshot = [&E](std::vector<std::pair<int, int>>& blocked, std::vector<int>& ops) {
        blocked.clear(); ops.clear();
        for (auto& c : E.cl) {
            ops.push_back(c->opno.load());
            int ic = c->in_call.load();
            if (!ic || c->done.load()) continue;
            if (!c->photon || !c->th || thread_stat(c->th) != states::SLEEPING) return false;
            blocked.push_back({c->id, ic});
        }
        return !blocked.empty();
    };
    uint64_t waited = 0;
    std::vector<std::pair<int, int>> b1, b2, last; std::vector<int> o1, o2, lasto;
    while (!E.all_done(true, true)) {
        if (snapshot(b1, o1) && !(b1 == last && o1 == lasto)) {
            thread_usleep(10 * 1000); waited += 10 * 1000;
            if (snapshot(b2, o2) && b1 == b2 && o1 == o2) {
                vt::Arr a; for (auto& p : b2) a.raw("[" + std::to_string(p.first) + "," + std::to_string(p.second) + "]");
                vt::Ev("Settle").raw("blocked", a.str()).i("avail", (int64_t)C->read_available());
                last = b2; lasto = o2;
            }
        }
        thread_usleep(400); waited += 400;
        if (waited > 20 * 1000 * 1000) { E.hang(prim.c_str()); return false; }
    }
    E.join();
    if (flavour >= 3) { vt::Ev("Gate").i("flavour", flavour).b("reached", vtr::gate().reached.load()).b("dropped", vtr::gate().dropped.load()); vtr::disarm(); }
    for (int guard = 0; guard < 64; guard++) {
        Item it; bool got = false;
        if (C->has_pop()) {
            vt::Ev("Inv").i("t", 8).s("op", "pop").i("n", 1);
            got = C->pop(it);
            vt::Ev("Resp").i("t", 8).s("op", "pop").raw("vals", vals_json(&it, got ? 1 : 0));
        } else if (C->read_available() > 0) {            // FlexRingChannel has no pop(): drain with recv()
            vt::Ev("Inv").i("t", 8).s("op", "recv").i("n", 1);
            it = C->recv(0, 0); got = true;
            vt::Ev("Resp").i("t", 8).s("op", "recv").raw("vals", vals_json(&it, 1));
        }
        if (!got) break;
    }
    vt::Ev("Quiesce").i("left", (int64_t)C->read_available());
    return true;
}

int main(int argc, char** argv) {
    std::string prim = vt::arg(argc, argv, "--prim", "mpmc");
    g_execs = atoi(vt::arg(argc, argv, "--execs", "50"));
    g_seed = strtoull(vt::arg(argc, argv, "--seed", "1"), 0, 10);
    g_vcpus = atoi(vt::arg(argc, argv, "--vcpus", "3"));
    g_threads = atoi(vt::arg(argc, argv, "--threads", "4"));
    g_ops = atoi(vt::arg(argc, argv, "--ops", "8"));
    g_wrap4 = vt::flag(argc, argv, "--wrap4");
    vtr::seed() = g_seed; vtr::level() = vt::flag(argc, argv, "--noperturb") ? 0 : 1;
    if (g_threads > 4) g_threads = 4;
    if (g_threads < 2) g_threads = 2;
    if (g_ops > 9) g_ops = 9;
    vt::open(vt::arg(argc, argv, "--out", "-"));
    set_log_output_level(ALOG_ERROR + 1);
    photon::init(photon::INIT_EVENT_EPOLL, photon::INIT_IO_NONE);
    vtp::t0() = photon::__update_now();
    g_vc.start(g_vcpus);
    vtp::Watchdog wd; wd.start(40, prim.c_str());
    vt::Rng r(g_seed * 1000003 + std::hash<std::string>()(prim) % 1000);
    int rc = 0;
    for (int ex = 0; ex < g_execs; ex++) {
        vtp::reg().clear();
        bool ok = prim == "chan" ? exec_chan(prim, ex, r) : prim == "prfull" ? exec_prfull(prim, ex, r) : exec_queue(prim, ex, r);
        if (!ok) { rc = 4; break; }
    }
    wd.end();
    vt::close();
    if (rc) _exit(rc);
    g_vc.stop();
    photon::fini();
    return 0;
}
