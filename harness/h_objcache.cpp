// Harness for C19 (ObjectCache<K, V*>: one live object per key, never destroyed while borrowed).
// Many short executions of seeded random programs on the REAL ObjectCache<int, Val*> (common/expirecontainer.{h,cpp})
// on 1..N vCPUs, with the cache's own expiry timer running at its shortest period (1 ms) on vCPU 0 and short lifespans,
// so that expire() (timer thread and the DEFER(expire()) of every call) fires between and inside the calls.
//
// Recorded (ndjson, one global spinlock => file order is consistent with real time):
//   Reset{prim,ex,n,vcpus,lifespan,limit,nkeys}
//   Inv {t,op:"acq",key,cd,api,now}                Resp{t,op:"acq",key,id|0,now}
//   Inv {t,op:"rel",key,id,rc,ds,api,now}          Resp{t,op:"rel",key,ret id|0,now}      (ret: object moved out to the caller)
//   CtorBegin{t,key} Ctor{key,id} CtorEnd{t,key,id|0,now}       logged INSIDE the constructor callback / Val::Val
//   Dtor{id,now}                                                logged first thing in Val::~Val
//   Use{t,id,ok}                                                a holder looks at its borrowed object (magic / id / key intact)
//   CacheDestroy, Quiesce{live}
// `now` is photon::now (the coarse cached clock the cache itself reads) relative to the start of the execution.
// api: 0 = acquire()/release(key)   1 = ref_acquire()/ref_release(item)   2 = borrow() / ~Borrow
// Objects are identified by small ids (never by pointers).
//
// Client rules (same as in spec/ObjectCache.tla; they exclude hold-and-wait cycles made by the CALLER): a thread acquires
// keys in increasing order and never a key it holds; a recycling release is issued only for the single reference held.
//
// usage: h_objcache --prim oc|oclimit --execs N --seed S --vcpus V --threads K --ops M --out file
#include "vt_photon.h"
#include <photon/thread/thread.h>
#include <photon/common/expirecontainer.h>
#include <memory>
#include <cstring>
using namespace photon;

static int g_vcpus = 3, g_threads = 4, g_ops = 5, g_execs = 50;
static uint64_t g_seed = 1;
static vtp::Vcpus g_vc;
static uint64_t g_t0 = 0;
static std::atomic<int> g_next_id{0};
static std::atomic<int> g_live{0};

static inline int64_t tnow() { return (int64_t)(photon::now - g_t0); }

struct Val {
    static const uint32_t MAGIC = 0xC19C19C1u;
    volatile uint32_t magic;
    int key, id;
    explicit Val(int k) : key(k), id(++g_next_id) {
        magic = MAGIC; g_live++;
        vt::Ev("Ctor").i("key", k).i("id", id);
    }
    ~Val() {
        vt::Ev("Dtor").i("id", magic == MAGIC ? id : -1).i("now", tnow());
        magic = 0xDEADDEADu; g_live--;
    }
};
static inline int val_id(Val* v) { return !v ? 0 : (v->magic == Val::MAGIC ? v->id : -1); }

using OC = ObjectCache<int, Val*>;

enum Pace { FAST = 0, YIELD = 1, SLEEP = 2 };

static void pause_a_bit(vt::Rng& r, uint64_t lifespan) {
    switch (r.below(9)) {
    case 0: case 1: break;
    case 2: case 3: thread_yield(); break;
    case 4: thread_usleep(r.below(200)); break;
    case 5: { for (volatile int i = 0; i < (int)r.below(4000); i++) {} } break;
    case 6: thread_usleep(300 + r.below(1200)); break;                 // around the timer period
    case 7: thread_usleep(lifespan / 2 + r.below(lifespan + 1)); break; // around the lifespan
    case 8: thread_usleep(lifespan + 1100 + r.below(800)); break;       // past lifespan + one timer period
    }
}

struct Ref { int key; int id; Val* v; OC::ItemPtr item; OC::Borrow* b; int api; };

static bool exec_oc(const std::string& prim, int ex, vt::Rng& r) {
    static const uint64_t LIFE[] = {0, 300, 1500, 4000, 4000, 15000};
    uint64_t lifespan = LIFE[r.below(6)];
    uint64_t limit = prim == "oclimit" ? 1 + r.below(2) : 0;
    int nkeys = prim == "oclimit" ? 2 + (int)r.below(2) : 1 + (int)r.below(3);
    int nth = 2 + (int)r.below(g_threads - 1);
    int nvc = 1 + (int)r.below(g_vcpus);
    g_next_id = 0;
    photon::thread_yield();
    g_t0 = photon::now;
    vt::Ev("Reset").s("prim", prim).i("ex", ex).i("n", nth).i("vcpus", nvc).i("lifespan", (int64_t)lifespan)
        .i("limit", (int64_t)limit).i("nkeys", nkeys);
    // the timer thread of the cache lives on this (main) vCPU; 1000 us is the shortest period the class allows
    OC* oc = new OC(lifespan, 1000, limit ? limit : -1ULL);
    std::vector<std::unique_ptr<vtp::Worker>> own; std::vector<vtp::Worker*> ws;
    for (int i = 0; i < nth; i++) {
        own.emplace_back(new vtp::Worker()); auto w = own.back().get(); w->id = i + 1; ws.push_back(w);
        uint64_t wseed = r.next(); int nops = 2 + (int)r.below(g_ops);
        w->body = [w, wseed, nops, oc, nkeys, lifespan] {
            vt::Rng rr(wseed);
            std::vector<Ref> held;
            auto do_release = [&](size_t idx, bool rc, bool ds) {
                Ref h = held[idx]; held.erase(held.begin() + idx);
                if (h.api == 2) ds = true;               // ~Borrow drops a moved-out pointer: not exercised
                w->where = "release";
                vt::Ev("Inv").i("t", w->id).s("op", "rel").i("key", h.key).i("id", h.id).i("rc", rc).i("ds", ds)
                    .i("api", h.api).i("now", tnow());
                Val* out = nullptr;
                if (h.api == 0) out = oc->release(h.key, rc, ds);
                else if (h.api == 1) out = oc->ref_release(h.item, rc, ds);
                else { h.b->recycle(rc); delete h.b; }
                vt::Ev("Resp").i("t", w->id).s("op", "rel").i("key", h.key).i("ret", val_id(out)).i("now", tnow());
                if (out) { if (rr.coin(50)) thread_yield(); delete out; }   // moved out: the caller owns it now
            };
            for (int k = 0; k < nops; k++) {
                pause_a_bit(rr, lifespan);
                int maxkey = held.empty() ? 0 : held.back().key;
                bool can_acq = maxkey < nkeys && held.size() < 2;
                int c = (int)rr.below(10);
                if (can_acq && (held.empty() || c < 4)) {
                    int key = maxkey + 1 + (int)rr.below(nkeys - maxkey);
                    static const uint64_t CD[] = {0, 0, 0, 1500, 6000, 30000};
                    uint64_t cd = CD[rr.below(6)];
                    int api = (int)rr.below(3);
                    bool fail = rr.below(10) < 3;
                    int pace = (int)rr.below(4); if (pace == 3) pace = FAST;
                    uint64_t nap = 50 + rr.below(1500);
                    int me = w->id;
                    auto ctor = [&]() -> Val* {
                        vt::Ev("CtorBegin").i("t", me).i("key", key);
                        if (pace == YIELD) { thread_yield(); if (nap & 1) thread_yield(); }
                        else if (pace == SLEEP) thread_usleep(nap);
                        Val* v = fail ? nullptr : new Val(key);
                        if (pace == YIELD && (nap & 2)) thread_yield();
                        vt::Ev("CtorEnd").i("t", me).i("key", key).i("id", v ? v->id : 0).i("now", tnow());
                        return v;
                    };
                    w->where = "acquire";
                    vt::Ev("Inv").i("t", w->id).s("op", "acq").i("key", key).i("cd", (int64_t)cd).i("api", api).i("now", tnow());
                    Ref h{key, 0, nullptr, nullptr, nullptr, api};
                    if (api == 0) h.v = oc->acquire(key, ctor, cd);
                    else if (api == 1) { h.item = oc->ref_acquire(key, ctor, cd); h.v = h.item ? h.item->get_ptr() : nullptr; }
                    else { h.b = new OC::Borrow(oc->borrow(key, ctor, cd)); h.v = *h.b ? h.b->operator->() : nullptr; }
                    h.id = val_id(h.v);
                    vt::Ev("Resp").i("t", w->id).s("op", "acq").i("key", key).i("id", h.id).i("now", tnow());
                    if (h.v) held.push_back(h);
                    else if (h.b) delete h.b;
                } else if (!held.empty() && c < 6) {
                    const Ref& h = held[rr.below(held.size())];
                    Val* v = h.v;
                    bool ok = v->magic == Val::MAGIC && v->id == h.id && v->key == h.key;
                    vt::Ev("Use").i("t", w->id).i("id", h.id).b("ok", ok);
                } else if (!held.empty()) {
                    size_t idx = rr.below(held.size());
                    bool rc = held.size() == 1 && rr.below(10) < 5;
                    bool ds = rc ? rr.coin(60) : true;
                    do_release(idx, rc, ds);
                }
            }
            while (!held.empty()) {
                pause_a_bit(rr, lifespan);
                bool rc = held.size() == 1 && rr.below(10) < 3;
                do_release(held.size() - 1, rc, rc ? rr.coin(60) : true);
            }
            w->where = "done";
        };
    }
    { vtp::GateGuard gg; for (int i = 0; i < nth; i++) vtp::spawn_on(ws[i], g_vc.vc[r.below(nvc)]); }
    if (!vtp::wait_done(ws, 15 * 1000 * 1000, prim.c_str())) return false;
    vtp::join_all(ws);
    // sometimes let the timer alone expire what is left
    if (r.coin(50)) thread_usleep(lifespan + 1200 + r.below(1500));
    vt::Ev("CacheDestroy");
    delete oc;
    vt::Ev("Quiesce").i("live", g_live.load());
    return true;
}

int main(int argc, char** argv) {
    std::string prim = vt::arg(argc, argv, "--prim", "oc");
    g_execs = atoi(vt::arg(argc, argv, "--execs", "50"));
    g_seed = strtoull(vt::arg(argc, argv, "--seed", "1"), 0, 10);
    g_vcpus = atoi(vt::arg(argc, argv, "--vcpus", "3"));
    g_threads = atoi(vt::arg(argc, argv, "--threads", "4"));
    g_ops = atoi(vt::arg(argc, argv, "--ops", "5"));
    if (g_threads < 2) g_threads = 2;
    if (g_threads > 6) g_threads = 6;
    vt::open(vt::arg(argc, argv, "--out", "-"));
    set_log_output_level(ALOG_ERROR + 1);
    photon::init(photon::INIT_EVENT_EPOLL, photon::INIT_IO_NONE);
    g_vc.start(g_vcpus);
    vtp::Watchdog wd; wd.start(30, prim.c_str());
    vt::Rng r(g_seed * 1000003 + std::hash<std::string>()(prim) % 1000);
    int rc = 0;
    for (int ex = 0; ex < g_execs; ex++) {
        bool ok;
        if (prim == "oc" || prim == "oclimit") ok = exec_oc(prim, ex, r);
        else { fprintf(stderr, "unknown prim %s\n", prim.c_str()); return 2; }
        if (!ok) { rc = 4; break; }
    }
    wd.end();
    vt::close();
    if (rc) _exit(rc);
    g_vc.stop();
    photon::fini();
    return 0;
}
