// Harness for C18 (RangeLock, common/range-lock.h, header-only).  Lib harness: drives the REAL RangeLock from photon threads.
//
//  --prim seq      exhaustive sequential scope: every sequence of exactly --len operations (lock through try_lock_wait2 /
//                  try_lock_wait, unlock(handle), unlock(range), adjust_range) over the small word (offsets 0..S, lengths 0..S+1),
//                  each on a fresh RangeLock, followed (--epi 1) by an epilogue (release everything the harness still owns,
//                  then lock the whole word).  One ndjson row per sequence; judged by spec/Trace_RangeLockSeq.tla.
//  --prim seqrand  seeded random longer sequences (same row format).
//  --prim conc     random concurrent programs on 1..V vCPUs (blocking lock, try-variants, adjust, unlock), Tier-A events
//                  (Inv / Resp / Acquire / Claim / Release / Interrupt / Settle / Quiesce); judged by spec/Trace_RangeLockA.tla.
//  --prim dir      directed arrival orders on one vCPU (a conductor hands out one call at a time), same events as conc.
//
// The small word: model values 0..S.  "top" word: real offset = 2^64-1-S+o, so that end = offset+length saturates exactly where
// the specification's word saturates (M = S); "low" word: real offset = base+o, no saturation in scope (M = 1000).  64-bit
// values are never logged raw: everything is logged as the model value (a value outside the window is logged as -1).
//
// Blocking in sequential mode: try_lock_wait / try_lock_wait2 sleep on the conflicting entry's condition variable.  They are
// called from a helper photon thread; if the helper is asleep when control returns to the driver the call is recorded as
// "blocked" and the helper is interrupted (the call then returns -1 / nullptr without having changed anything).
#include "vt_photon.h"
#include <photon/thread/thread.h>
#include <photon/common/range-lock.h>
#include <memory>
#include <cstring>
#include <algorithm>
using namespace photon;

static int g_vcpus = 3, g_threads = 4, g_ops = 5, g_execs = 50;
static uint64_t g_seed = 1;
static vtp::Vcpus g_vc;
static const uint64_t TOP = ~0ull;
static bool g_abandoned = false;      // some execution left threads behind (see `ub` below): leave with _exit()

// ------------------------------------------------------------------------------------------------ the word
struct Word {
    int S = 7; bool top = true; uint64_t base = 0; int M = 7;
    void set(int s, bool t, uint64_t lowbase) { S = s; top = t; base = t ? TOP - (uint64_t)s : lowbase; M = t ? s : 1000; }
    uint64_t roff(int o) const { return base + (uint64_t)o; }
    int moff(uint64_t v) const { return (v < base || v - base > (uint64_t)S + 40) ? -1 : (int)(v - base); }
    int end(int o, int l) const { int e = o + l; return e > M ? M : e; }
    bool empty(int o, int l) const { return end(o, l) == o; }
    bool touch(int o1, int l1, int o2, int l2) const { return o1 < end(o2, l2) && o2 < end(o1, l1); }
    bool contains(int o1, int l1, int o2, int l2) const { return o1 <= o2 && end(o1, l1) >= end(o2, l2); }   // range 1 contains range 2
};

// Read-only access to the container, used ONLY to keep the harness itself out of undefined behaviour (never to judge).
// std::set requires a strict weak order; two stored keys a, b with a < b and b < a (two ranges that cover no byte at the same
// offset) violate that precondition, and the container's behaviour is undefined from the insertion of the second one on.  The
// harness notices that moment (`ub`): from then on it still issues lock requests (they free nothing, so they stay memory-safe
// and show what the container answers) but it no longer calls unlock / adjust_range on that object and never destroys it.
struct Probe : RangeLock {
    size_t entries() { SCOPED_LOCK(m_lock); return m_index.size(); }
    // is an entry that covers no byte (end == offset) stored at this offset?  Asked BEFORE a call that requests such a range,
    // i.e. while the container is still consistent.
    bool has_empty_at(uint64_t off) {
        SCOPED_LOCK(m_lock);
        for (auto& e : m_index) if (e.offset == off && e.end() == e.offset) return true;
        return false;
    }
};

// ================================================================================================ sequential part
enum { L2 = 1, L1 = 2, UH = 3, UR = 4, ADJ = 5 };
struct Op { int kind, a, b, c; };
struct OpRes { int res, x, y; };

// helper thread that performs the possibly blocking calls
struct SeqHelper {
    thread* th = nullptr; join_handle* jh = nullptr;
    volatile int cmd = 0, done = 0, quit = 0;
    Probe* P = nullptr; int kind = 0; uint64_t off = 0, len = 0;
    RangeLock::LockHandle* h = nullptr; int ret = 0; uint64_t ooff = 0, olen = 0;
    static void* run(void* a) {
        auto s = (SeqHelper*)a;
        while (true) {
            while (!s->cmd && !s->quit) thread_usleep(-1);
            if (s->quit) return nullptr;
            s->cmd = 0;
            if (s->kind == L2) s->h = s->P->try_lock_wait2(s->off, s->len);
            else { uint64_t o = s->off, l = s->len; s->ret = s->P->try_lock_wait(o, l); s->ooff = o; s->olen = l; }
            s->done = 1;
        }
    }
    void start() { th = thread_create(&run, this, 128 * 1024); jh = thread_enable_join(th); thread_yield(); }
    void stop() { quit = 1; thread_interrupt(th); thread_join(jh); }
    // returns true if the call slept on a conflicting entry (it was then released by an interrupt)
    bool call(Probe* p, int k, uint64_t o, uint64_t l) {
        P = p; kind = k; off = o; len = l; done = 0; cmd = 1;
        thread_interrupt(th);
        thread_yield();
        if (done) return false;
        int guard = 0;
        while (!done) {
            if (thread_stat(th) == states::SLEEPING) thread_interrupt(th);
            thread_yield();
            if (++guard > 100000) { vt::Ev("Hang").raw("blocked", "[]").s("where", "seq helper").s("what", "seq"); vt::flush(); _exit(4); }
        }
        return true;
    }
};
static SeqHelper g_helper;

struct SeqRun {
    const Word& W;
    Probe* rl;
    bool ub = false;
    struct HRec { RangeLock::LockHandle* h; int off, len; bool usable; };
    std::vector<std::pair<int, HRec>> handles;        // (op index (1-based), record)
    std::vector<std::pair<int, int>> ranges;           // ranges acquired through try_lock_wait that the harness still owns
    std::vector<Op> ops; std::vector<OpRes> res;
    explicit SeqRun(const Word& w) : W(w), rl(new Probe()) {}
    ~SeqRun() { if (!ub) delete rl; }                  // after `ub` the object is leaked on purpose
    HRec* find(int k) { for (auto& p : handles) if (p.first == k) return &p.second; return nullptr; }
    void apply(const Op& op) {
        ops.push_back(op); OpRes r{0, 0, 0}; int idx = (int)ops.size();
        switch (op.kind) {
        case L2: case L1: {
            bool risk = !ub && W.empty(op.a, op.b) && rl->has_empty_at(W.roff(op.a));
            bool blocked = g_helper.call(rl, op.kind, W.roff(op.a), (uint64_t)op.b);
            if (op.kind == L2) {
                auto h = g_helper.h;
                r.res = h ? 1 : 0; r.x = blocked ? 1 : 0;
                if (h) handles.push_back({idx, HRec{h, op.a, op.b, true}});
            } else {
                r.res = g_helper.ret == 0 ? 1 : 0;
                if (r.res) ranges.push_back({op.a, op.b});
                else { r.x = W.moff(g_helper.ooff); r.y = g_helper.olen > 1000 ? -1 : (int)g_helper.olen; }
            }
            if (risk && r.res == 1) ub = true;
        } break;
        case UH: {
            auto hr = find(op.a);
            if (ub) r.res = -9; else rl->unlock(hr->h);
            hr->usable = false;
        } break;
        case UR: {
            if (ub) { r.res = -9; break; }
            rl->unlock(W.roff(op.a), (uint64_t)op.b);
            // conservatively give up every handle / range that this call may have released
            for (auto& p : handles) if (p.second.usable && W.contains(op.a, op.b, p.second.off, p.second.len)) p.second.usable = false;
            ranges.erase(std::remove_if(ranges.begin(), ranges.end(), [&](const std::pair<int, int>& x) { return W.contains(op.a, op.b, x.first, x.second); }), ranges.end());
        } break;
        case ADJ: {
            auto hr = find(op.a);
            if (ub) { r.res = -9; break; }
            int ret = rl->adjust_range(hr->h, W.roff(op.b), (uint64_t)op.c);
            r.res = ret == 0 ? 1 : 0;
            if (ret == 0) { hr->off = op.b; hr->len = op.c; }
        } break;
        }
        res.push_back(r);
    }
    void epilogue() {
        if (!ub) {
            auto hs = handles;
            for (auto& p : hs) if (find(p.first)->usable) apply(Op{UH, p.first, 0, 0});
            auto rs = ranges;
            for (auto& x : rs) apply(Op{UR, x.first, x.second, 0});
        }
        apply(Op{L2, 0, W.S + 1, 0});
    }
    void emit(int nmain) {
        vt::Arr a;
        for (size_t i = 0; i < ops.size(); i++)
            a.raw(vt::Arr().i(ops[i].kind).i(ops[i].a).i(ops[i].b).i(ops[i].c).i(res[i].res).str());     // [kind, a, b, c, result]
        vt::Ev("Seq").i("M", W.M).i("n", nmain).raw("ops", a.str());
    }
};

struct SeqCfg { int S = 3; bool top = true; int len = 3; bool l1 = true, ur = true, adj = true, uh = true, epi = true; };
static uint64_t g_rows = 0;

static void run_seq(const Word& W, const std::vector<Op>& prefix, bool epi) {
    SeqRun run(W);
    for (auto& op : prefix) run.apply(op);
    if (epi) run.epilogue();
    run.emit((int)prefix.size());
    g_rows++;
}

// candidates for the next operation after `prefix` (needs the bookkeeping of an execution of the prefix)
static void candidates(const Word& W, const SeqCfg& c, const std::vector<Op>& prefix, std::vector<Op>& out) {
    SeqRun run(W);
    for (auto& op : prefix) run.apply(op);
    out.clear();
    for (int o = 0; o <= W.S; o++) for (int l = 0; l <= W.S + 1; l++) {
        out.push_back(Op{L2, o, l, 0});
        if (c.l1) out.push_back(Op{L1, o, l, 0});
        if (c.ur && !prefix.empty()) out.push_back(Op{UR, o, l, 0});
    }
    for (auto& p : run.handles) if (p.second.usable) {
        if (c.uh) out.push_back(Op{UH, p.first, 0, 0});
        if (c.adj) for (int o = 0; o <= W.S; o++) for (int l = 0; l <= W.S + 1; l++) out.push_back(Op{ADJ, p.first, o, l});
    }
}
static void dfs(const Word& W, const SeqCfg& c, std::vector<Op>& prefix) {
    if ((int)prefix.size() == c.len) { run_seq(W, prefix, c.epi); return; }
    std::vector<Op> cand;
    candidates(W, c, prefix, cand);
    for (auto& op : cand) { prefix.push_back(op); dfs(W, c, prefix); prefix.pop_back(); }
}

static void seq_random(int n, vt::Rng& r) {
    for (int i = 0; i < n; i++) {
        Word W; int S = r.coin(50) ? 3 : (r.coin(50) ? 7 : 2); bool top = r.coin(65);
        static const uint64_t LB[] = {0, 1, 4096, 1ull << 40};
        W.set(S, top, LB[r.below(4)]);
        SeqRun run(W);
        int len = 3 + (int)r.below(8);
        for (int k = 0; k < len; k++) {
            std::vector<int> us;
            for (auto& p : run.handles) if (p.second.usable) us.push_back(p.first);
            int o = (int)r.below(S + 1), l = (int)r.below(S + 2);
            if (r.coin(25)) l = 0;
            if (r.coin(10)) o = S;
            int c = (int)r.below(100);
            if (c < 40) run.apply(Op{L2, o, l, 0});
            else if (c < 55) run.apply(Op{L1, o, l, 0});
            else if (c < 70 && !us.empty()) run.apply(Op{UH, us[r.below(us.size())], 0, 0});
            else if (c < 80) {
                if (!run.ranges.empty() && r.coin(70)) { auto x = run.ranges[r.below(run.ranges.size())]; run.apply(Op{UR, x.first, x.second, 0}); }
                else run.apply(Op{UR, o, l, 0});
            }
            else if (!us.empty()) run.apply(Op{ADJ, us[r.below(us.size())], o, l});
            else run.apply(Op{L2, o, l, 0});
        }
        int nmain = (int)run.ops.size();
        run.epilogue();
        run.emit(nmain);
        g_rows++;
    }
}

// ================================================================================================ concurrent part
struct Prog { std::atomic<int> opno{0}; std::atomic<int> blocked_in{0}; std::atomic<int> kind{0}; };   // kind of the call the thread is in: 1 lock 2 try2 3 try1
static bool asleep_in_call(vtp::Worker* w, Prog& p) { return p.blocked_in.load() && thread_stat(w->th) == states::SLEEPING; }
static bool settled(std::vector<vtp::Worker*>& ws, std::vector<Prog>& pg, std::vector<int>& blocked) {
    auto snap = [&](std::vector<int>& ops) {
        blocked.clear(); ops.clear();
        for (size_t i = 0; i < ws.size(); i++) {
            ops.push_back(pg[i].opno.load());
            if (ws[i]->done.load()) continue;
            if (!asleep_in_call(ws[i], pg[i])) return false;
            blocked.push_back((int)i);
        }
        return true;
    };
    std::vector<int> o1, o2, b1;
    if (!snap(o1)) return false;
    b1 = blocked;
    thread_usleep(10 * 1000);
    if (!snap(o2)) return false;
    return o1 == o2 && b1 == blocked;
}
static bool wait_settle(std::vector<vtp::Worker*>& ws, std::vector<Prog>& pg, std::vector<int>& blocked, const char* what) {
    for (int spins = 0; spins < 120000; spins++) {      // generous: the machine may be heavily shared
        bool all = true;
        for (auto w : ws) if (!w->done.load()) { all = false; break; }
        if (all) { blocked.clear(); return true; }
        if (spins > 4 && settled(ws, pg, blocked)) return true;
        thread_usleep(500);
    }
    return vtp::wait_done(ws, 0, what);
}
static void pause_a_bit(vt::Rng& r) {
    switch (r.below(6)) {
    case 0: case 1: break;
    case 2: case 3: thread_yield(); break;
    case 4: thread_usleep(r.below(150)); break;
    case 5: { for (volatile int i = 0; i < (int)r.below(3000); i++) {} } break;
    }
}

struct Shared { Probe* rl = nullptr; Word W; std::atomic<int> callid{0}; std::atomic<bool> ub{false}; int nth = 1; };
struct Hold { int c; int kind; RangeLock::LockHandle* h; int off, len; };   // kind 1: handle, 2: range API
struct Client {
    int id; Shared* sh; Prog* P; vtp::Worker* w;
    std::vector<Hold> own;
    const Word& W() const { return sh->W; }
    bool touches_own(int o, int l, int except_c = -1) { for (auto& h : own) if (h.c != except_c && W().touch(h.off, h.len, o, l)) return true; return false; }
    int newc() { return ++sh->callid; }
    // ranges that cover no byte are requested at a given offset by one thread only (so that the `ub` test below is exact)
    bool may_request(int o, int l) { return !W().empty(o, l) || (o % sh->nth) == id - 1; }
    // kind: 1 lock (blocking), 2 try_lock_wait2, 3 try_lock_wait
    bool acquire(int kind, int o, int l) {
        int c = newc(); const char* name = kind == 1 ? "lock" : kind == 2 ? "try2" : "try1";
        Probe* rl = sh->rl;
        bool risk = !sh->ub.load() && W().empty(o, l) && rl->has_empty_at(W().roff(o));
        w->where = name; P->kind = kind;
        vt::Ev("Inv").i("t", id).s("op", name).i("c", c).i("off", o).i("len", l);
        P->blocked_in = 1;
        RangeLock::LockHandle* h = nullptr; int ok;
        if (kind == 1) { h = rl->lock(W().roff(o), (uint64_t)l); ok = h != nullptr; }
        else if (kind == 2) { h = rl->try_lock_wait2(W().roff(o), (uint64_t)l); ok = h != nullptr; }
        else { uint64_t ro = W().roff(o), rlen = (uint64_t)l; ok = rl->try_lock_wait(ro, rlen) == 0; }
        P->blocked_in = 0;
        if (ok && risk) sh->ub = true;
        vt::Ev("Resp").i("t", id).s("op", name).i("r", ok ? 1 : 0);
        if (ok) { vt::Ev("Acquire").i("t", id).i("c", c).i("off", o).i("len", l); own.push_back(Hold{c, kind == 3 ? 2 : 1, h, o, l}); }
        return ok;
    }
    void release(size_t i) {
        if (sh->ub.load()) return;
        Hold h = own[i]; own.erase(own.begin() + i);
        vt::Ev("Release").i("t", id).i("c", h.c);
        if (h.kind == 1) {
            w->where = "unlockh";
            vt::Ev("Inv").i("t", id).s("op", "unlockh").i("c", newc()).i("id", h.c);
            sh->rl->unlock(h.h);
            vt::Ev("Resp").i("t", id).s("op", "unlockh").i("r", 1);
        } else {
            w->where = "unlockr";
            vt::Ev("Inv").i("t", id).s("op", "unlockr").i("c", newc()).i("off", h.off).i("len", h.len);
            sh->rl->unlock(W().roff(h.off), (uint64_t)h.len);
            vt::Ev("Resp").i("t", id).s("op", "unlockr").i("r", 1);
        }
    }
    bool adjust(size_t i, int o, int l) {
        if (sh->ub.load()) return false;
        Hold& h = own[i];
        // while the call is in progress the thread claims only what both the old and the new range cover
        int io = std::max(h.off, o), ie = std::min(W().end(h.off, h.len), W().end(o, l));
        vt::Ev("Claim").i("t", id).i("c", h.c).i("off", io).i("len", ie > io ? ie - io : 0);
        w->where = "adjust";
        vt::Ev("Inv").i("t", id).s("op", "adjust").i("c", newc()).i("id", h.c).i("off", o).i("len", l);
        int ret = sh->rl->adjust_range(h.h, W().roff(o), (uint64_t)l);
        vt::Ev("Resp").i("t", id).s("op", "adjust").i("r", ret == 0 ? 1 : 0);
        if (ret == 0) { h.off = o; h.len = l; }
        vt::Ev("Claim").i("t", id).i("c", h.c).i("off", h.off).i("len", h.len);
        return ret == 0;
    }
    void release_all() { while (!own.empty() && !sh->ub.load()) release(own.size() - 1); }
};

static void pick_range(vt::Rng& r, const Word& W, int& o, int& l) {
    o = (int)r.below(W.S + 1); l = (int)r.below(W.S + 2);
    if (r.coin(20)) l = 0;
    if (W.top && r.coin(8)) o = W.S;
    if (r.coin(10)) { l = W.S + 1; }
}

// After the programs: repeatedly let the execution settle, report the sleepers, release them.
// returns 1: everybody finished, 0: hang, 2: the container is in undefined territory (`ub`) and threads had to be left behind
static int drain(std::vector<vtp::Worker*>& ws, std::vector<Prog>& pg, Shared& sh, const char* what) {
    std::vector<int> blocked; int rescued = 0;
    for (int round = 0; round < 200; round++) {
        if (!wait_settle(ws, pg, blocked, what)) return 0;
        if (blocked.empty()) return 1;
        vt::Arr a; for (int i : blocked) a.i(ws[i]->id);
        vt::Ev("Settle").raw("blocked", a.str());
        bool any = false;
        for (int i : blocked) if (pg[i].kind.load() != 1) {
            any = true;
            vt::Ev("Interrupt").i("t", ws[i]->id);
            thread_interrupt(ws[i]->th, EINTR);
        }
        if (any) continue;
        // only blocking lock() calls are left and nobody is running: nothing in the programs can wake them any more
        if (sh.ub.load()) return 2;
        if (++rescued > 3) break;
        vt::Ev("Inv").i("t", 91).s("op", "rescue").i("c", ++sh.callid);
        sh.rl->unlock(0, TOP);
        vt::Ev("Resp").i("t", 91).s("op", "rescue").i("r", 1);
    }
    return vtp::wait_done(ws, 0, what) ? 1 : 0;
}

static void final_probe(Shared& sh) {
    // everything has been released: the whole word must be lockable at once
    int c = ++sh.callid; const Word& W = sh.W; Probe* rl = sh.rl;
    vt::Ev("Inv").i("t", 91).s("op", "try2").i("c", c).i("off", 0).i("len", W.S + 1);
    vtp::Worker pw; pw.id = 91; RangeLock::LockHandle* h = nullptr; std::atomic<bool> fin{false};
    pw.body = [&] { h = rl->try_lock_wait2(W.roff(0), (uint64_t)W.S + 1); fin = true; };
    vtp::spawn_on(&pw, nullptr, 128 * 1024);
    for (int i = 0; i < 400 && !fin.load(); i++) {
        thread_usleep(100);
        if (i > 20 && thread_stat(pw.th) == states::SLEEPING) thread_interrupt(pw.th, EINTR);
    }
    while (!fin.load()) { if (thread_stat(pw.th) == states::SLEEPING) thread_interrupt(pw.th, EINTR); thread_usleep(1000); }
    thread_join(pw.jh);
    vt::Ev("Resp").i("t", 91).s("op", "try2").i("r", h ? 1 : 0);
    if (h) {
        vt::Ev("Inv").i("t", 91).s("op", "unlockh").i("c", ++sh.callid).i("id", c);
        rl->unlock(h);
        vt::Ev("Resp").i("t", 91).s("op", "unlockh").i("r", 1);
    }
}

// end of an execution; everything that other threads may still reference is leaked when the execution was cut short
struct ExecState {
    std::unique_ptr<Shared> sh;
    std::vector<std::unique_ptr<vtp::Worker>> own;
    std::vector<std::unique_ptr<Client>> cl;
    std::unique_ptr<std::vector<Prog>> pg;
    void leak() { sh.release(); for (auto& w : own) w.release(); for (auto& c : cl) c.release(); pg.release(); g_abandoned = true; }
};
static bool finish(ExecState& st, std::vector<vtp::Worker*>& ws, int drained) {
    if (drained == 0) return false;
    if (drained == 2 || st.sh->ub.load()) {
        // undefined territory: no further call on this object; sleepers (if any) are left behind
        vt::Ev("Abort").s("why", "two stored ranges that cover no byte share an offset");
        st.leak();
        return true;
    }
    vtp::join_all(ws);
    final_probe(*st.sh);
    vt::Ev("Quiesce").i("left", (int64_t)st.sh->rl->entries());
    delete st.sh->rl;
    return true;
}

static bool exec_conc(int ex, vt::Rng& r) {
    ExecState st; st.sh.reset(new Shared()); Shared& sh = *st.sh;
    int S = r.coin(50) ? 7 : (r.coin(60) ? 3 : 4); bool top = r.coin(60);
    static const uint64_t LB[] = {0, 4096, 1ull << 40};
    sh.W.set(S, top, LB[r.below(3)]);
    int nth = 2 + (int)r.below(g_threads - 1);
    int nvc = 1 + (int)r.below(g_vcpus);
    sh.rl = new Probe(); sh.nth = nth;
    vt::Ev("Reset").s("prim", "conc").i("ex", ex).i("n", nth).i("vcpus", nvc).i("M", sh.W.M).i("S", sh.W.S).b("top", top);
    std::vector<vtp::Worker*> ws; st.pg.reset(new std::vector<Prog>(nth)); auto& pg = *st.pg;
    for (int i = 0; i < nth; i++) {
        st.own.emplace_back(new vtp::Worker()); auto w = st.own.back().get(); w->id = i + 1; ws.push_back(w);
        st.cl.emplace_back(new Client{i + 1, &sh, &pg[i], w, {}});
        Client* C = st.cl.back().get();
        uint64_t wseed = r.next(); int nops = 1 + (int)r.below(g_ops); Prog* P = &pg[i];
        w->body = [C, wseed, nops, P, w] {
            vt::Rng rr(wseed); const Word& W = C->W();
            for (int k = 0; k < nops; k++) {
                pause_a_bit(rr);
                P->opno++;
                int o = 0, l = 0, c = (int)rr.below(100);
                if (C->own.empty()) {
                    bool found = false;
                    for (int tries = 0; tries < 12 && !found; tries++) { pick_range(rr, W, o, l); found = C->may_request(o, l); }
                    if (found) C->acquire(c < 60 ? 1 : c < 80 ? 2 : 3, o, l);
                    continue;
                }
                if (c < 35) {
                    bool found = false;
                    for (int tries = 0; tries < 12 && !found; tries++) { pick_range(rr, W, o, l); found = C->may_request(o, l) && !C->touches_own(o, l); }
                    if (found) C->acquire(c < 25 ? 2 : 3, o, l);
                } else if (c < 60) {
                    std::vector<size_t> hs; for (size_t j = 0; j < C->own.size(); j++) if (C->own[j].kind == 1) hs.push_back(j);
                    if (hs.empty()) continue;
                    size_t j = hs[rr.below(hs.size())]; bool found = false;
                    for (int tries = 0; tries < 12 && !found; tries++) {
                        if (rr.coin(50)) {      // shrink / move inside the old range
                            int e0 = W.end(C->own[j].off, C->own[j].len);
                            o = C->own[j].off + (int)rr.below(e0 - C->own[j].off + 1); l = (int)rr.below(e0 - o + 1);
                        } else pick_range(rr, W, o, l);
                        found = C->may_request(o, l) && !C->touches_own(o, l, C->own[j].c);
                    }
                    if (found) C->adjust(j, o, l);
                } else {
                    C->release(rr.below(C->own.size()));
                }
            }
            pause_a_bit(rr);
            P->opno++;
            C->release_all();
            w->where = "done";
        };
    }
    { vtp::GateGuard gg; for (int i = 0; i < nth; i++) vtp::spawn_on(ws[i], g_vc.vc[r.below(nvc)]); }
    return finish(st, ws, drain(ws, pg, sh, "conc"));
}

// ------------------------------------------------------------------------------------------------ directed arrival orders
// step kinds: 1 lock, 2 try2, 3 try1, 4 unlock (the thread's ref-th acquisition, 1-based), 5 adjust (ref, off, len), 6 settle
struct Step { int t, kind, off, len, ref; };
struct Scenario { const char* name; int S; bool top; std::vector<Step> steps; };
static std::vector<Scenario> scenarios() {
    std::vector<Scenario> v;
    // a waiter is woken when the conflicting range is unlocked; a second waiter on another part of the same holder too
    v.push_back({"wake", 7, false, {{1, 1, 2, 4, 0}, {2, 1, 4, 4, 0}, {3, 1, 0, 3, 0}, {0, 6, 0, 0, 0}, {1, 4, 0, 0, 1}, {0, 6, 0, 0, 0}}});
    // waiter behind two holders: woken by the first unlock, must wait again for the second
    v.push_back({"two", 7, true, {{1, 1, 0, 3, 0}, {2, 1, 4, 3, 0}, {3, 1, 2, 4, 0}, {0, 6, 0, 0, 0}, {1, 4, 0, 0, 1}, {0, 6, 0, 0, 0}, {2, 4, 0, 0, 1}, {0, 6, 0, 0, 0}}});
    // the holder shrinks its range away from the waiter and keeps holding the rest
    v.push_back({"shrink", 7, false, {{1, 1, 0, 7, 0}, {2, 1, 4, 2, 0}, {0, 6, 0, 0, 0}, {1, 5, 0, 2, 1}, {0, 6, 0, 0, 0}}});
    v.push_back({"shrinktop", 7, true, {{1, 1, 2, 9, 0}, {2, 1, 5, 9, 0}, {3, 2, 6, 1, 0}, {0, 6, 0, 0, 0}, {1, 5, 2, 2, 1}, {0, 6, 0, 0, 0}}});
    // the holder grows towards a neighbour (refused), then into the free space (granted): a later request for that space waits
    v.push_back({"grow", 7, false, {{1, 1, 0, 2, 0}, {2, 1, 5, 2, 0}, {1, 5, 0, 6, 1}, {1, 5, 0, 5, 1}, {3, 1, 3, 1, 0}, {0, 6, 0, 0, 0}}});
    // zero-length request locked and unlocked by range, then a range around that offset
    v.push_back({"empty", 7, false, {{1, 3, 5, 0, 0}, {1, 4, 0, 0, 1}, {2, 1, 3, 4, 0}, {0, 6, 0, 0, 0}}});
    // saturated ranges: (S,1) and (S,2) both cover no byte at the top of the word; then a request inside a held range
    v.push_back({"topdup", 7, true, {{1, 1, 7, 1, 0}, {2, 1, 2, 3, 0}, {1, 2, 7, 2, 0}, {3, 2, 3, 3, 0}, {0, 6, 0, 0, 0}}});
    v.push_back({"zerodup", 7, false, {{1, 1, 5, 0, 0}, {2, 1, 1, 4, 0}, {1, 2, 5, 0, 0}, {3, 2, 2, 2, 0}, {0, 6, 0, 0, 0}}});
    // whole-word holder (length 2^64-1 in the cache code): everybody waits, then all proceed
    v.push_back({"whole", 7, true, {{1, 1, 0, 8, 0}, {2, 1, 0, 1, 0}, {3, 1, 6, 5, 0}, {0, 6, 0, 0, 0}, {1, 4, 0, 0, 1}, {0, 6, 0, 0, 0}}});
    return v;
}

struct DirWorker { semaphore mail{0}; std::atomic<int> cmd{0}; Step st{0, 0, 0, 0, 0}; std::atomic<bool> busy{false}; std::vector<int> acq; };

static bool exec_dir(int ex, const Scenario& sc) {
    ExecState st; st.sh.reset(new Shared()); Shared& sh = *st.sh;
    sh.W.set(sc.S, sc.top, 0);
    sh.rl = new Probe();
    int nth = 0; for (auto& s : sc.steps) nth = std::max(nth, s.t);
    sh.nth = 1;      // directed scenarios choose their ranges themselves
    vt::Ev("Reset").s("prim", "dir").s("name", sc.name).i("ex", ex).i("n", nth).i("vcpus", 1).i("M", sh.W.M).i("S", sh.W.S).b("top", sc.top);
    std::vector<vtp::Worker*> ws; st.pg.reset(new std::vector<Prog>(nth)); auto& pg = *st.pg;
    auto dws = new std::vector<std::unique_ptr<DirWorker>>();      // leaked with the execution if it is cut short
    for (int i = 0; i < nth; i++) {
        st.own.emplace_back(new vtp::Worker()); auto w = st.own.back().get(); w->id = i + 1; ws.push_back(w);
        st.cl.emplace_back(new Client{i + 1, &sh, &pg[i], w, {}});
        dws->emplace_back(new DirWorker());
        Client* C = st.cl.back().get(); DirWorker* D = dws->back().get();
        w->body = [C, D] {
            while (true) {
                if (D->mail.wait(1) != 0) continue;       // (an interrupt meant for an earlier call)
                if (D->cmd.load() == 9) { C->release_all(); D->busy = false; return; }
                Step s = D->st;
                C->P->opno++;
                if (s.kind <= 3) { if (C->acquire(s.kind, s.off, s.len)) D->acq.push_back(C->own.back().c); else D->acq.push_back(-1); }
                else {
                    int c = s.ref >= 1 && s.ref <= (int)D->acq.size() ? D->acq[s.ref - 1] : -1;
                    for (size_t k = 0; k < C->own.size(); k++) if (C->own[k].c == c) { if (s.kind == 4) C->release(k); else C->adjust(k, s.off, s.len); break; }
                }
                D->busy = false;
            }
        };
        vtp::spawn_on(w, nullptr);
    }
    auto& dw = *dws;
    auto post = [&](int i, Step s, int cmd) {
        dw[i]->st = s; dw[i]->cmd = cmd; dw[i]->busy = true; dw[i]->mail.signal(1);
        for (int k = 0; k < 2000; k++) {       // until the call has returned or its thread sleeps inside it
            thread_yield();
            if (!dw[i]->busy.load()) return;
            if (k > 3 && asleep_in_call(ws[i], pg[i])) { thread_usleep(200); if (asleep_in_call(ws[i], pg[i])) return; }
        }
    };
    auto log_settle = [&](std::vector<int>& blocked) {
        thread_usleep(2000);
        blocked.clear(); vt::Arr a;
        for (int i = 0; i < nth; i++) if (dw[i]->busy.load() && asleep_in_call(ws[i], pg[i])) { a.i(i + 1); blocked.push_back(i); }
        vt::Ev("Settle").raw("blocked", a.str());
    };
    std::vector<int> blocked;
    for (auto s : sc.steps) {
        if (s.kind == 6) { log_settle(blocked); continue; }
        if (dw[s.t - 1]->busy.load()) continue;                 // the thread is still inside an earlier call: this arrival order is not realisable
        post(s.t - 1, s, 1);
    }
    // wind down: idle threads give up what they hold (that is what wakes blocking lock() calls); sleepers in try-calls are interrupted
    int drained = 0;
    for (int round = 0; round < 60 && !drained; round++) {
        thread_usleep(500);
        bool anybusy = false; blocked.clear();
        for (int i = 0; i < nth; i++) if (dw[i]->busy.load()) { anybusy = true; if (asleep_in_call(ws[i], pg[i])) blocked.push_back(i); }
        if (!anybusy) { drained = 1; break; }
        if (blocked.empty()) continue;
        bool progressed = false;
        if (!sh.ub.load())
            for (int i = 0; i < nth && !progressed; i++) if (!dw[i]->busy.load() && !st.cl[i]->own.empty()) {
                int c = st.cl[i]->own.back().c, ref = 0;
                for (size_t q = 0; q < dw[i]->acq.size(); q++) if (dw[i]->acq[q] == c) ref = (int)q + 1;
                post(i, Step{i + 1, 4, 0, 0, ref}, 1); progressed = true;
            }
        if (progressed) continue;
        log_settle(blocked);
        bool any = false;
        for (int i : blocked) if (pg[i].kind.load() != 1) { any = true; vt::Ev("Interrupt").i("t", i + 1); thread_interrupt(ws[i]->th, EINTR); }
        if (any) continue;
        if (sh.ub.load()) { drained = 2; break; }
        vt::Ev("Inv").i("t", 91).s("op", "rescue").i("c", ++sh.callid);
        sh.rl->unlock(0, TOP);
        vt::Ev("Resp").i("t", 91).s("op", "rescue").i("r", 1);
    }
    if (!drained) {
        vt::Arr a; std::string wh;
        for (int i = 0; i < nth; i++) if (dw[i]->busy.load()) { a.i(i + 1); wh += std::to_string(i + 1) + ":" + ws[i]->where + " "; }
        vt::Ev("Hang").raw("blocked", a.str()).s("where", wh).s("what", sc.name); vt::flush(); return false;
    }
    if (drained == 1 && !sh.ub.load()) {
        for (int i = 0; i < nth; i++) { dw[i]->cmd = 9; dw[i]->busy = true; dw[i]->mail.signal(1); }
        if (!vtp::wait_done(ws, 10 * 1000 * 1000, sc.name)) return false;
    }
    bool ub = sh.ub.load();
    bool ok = finish(st, ws, drained);
    if (!ub && drained == 1) delete dws;
    return ok;
}

int main(int argc, char** argv) {
    std::string prim = vt::arg(argc, argv, "--prim", "conc");
    g_execs = atoi(vt::arg(argc, argv, "--execs", "50"));
    g_seed = strtoull(vt::arg(argc, argv, "--seed", "1"), 0, 10);
    g_vcpus = atoi(vt::arg(argc, argv, "--vcpus", "3"));
    g_threads = atoi(vt::arg(argc, argv, "--threads", "4"));
    g_ops = atoi(vt::arg(argc, argv, "--ops", "5"));
    vt::open(vt::arg(argc, argv, "--out", "-"));
    set_log_output_level(ALOG_ERROR + 1);
    photon::init(photon::INIT_EVENT_EPOLL, photon::INIT_IO_NONE);
    vt::Rng r(g_seed * 1000003 + std::hash<std::string>()(prim) % 1000);
    int rc = 0;
    if (prim == "seq" || prim == "seqrand") {
        g_helper.start();
        if (prim == "seq") {
            SeqCfg c;
            c.S = atoi(vt::arg(argc, argv, "--S", "3")); c.len = atoi(vt::arg(argc, argv, "--len", "3"));
            c.top = atoi(vt::arg(argc, argv, "--top", "1")) != 0;
            c.epi = atoi(vt::arg(argc, argv, "--epi", "1")) != 0;
            std::string alpha = vt::arg(argc, argv, "--alpha", "all");
            if (alpha == "lock") c.l1 = c.ur = c.adj = c.uh = false;
            else if (alpha == "handle") c.l1 = c.ur = false;
            else if (alpha == "range") c.adj = c.uh = false;
            Word W; W.set(c.S, c.top, strtoull(vt::arg(argc, argv, "--base", "0"), 0, 10));
            std::vector<Op> prefix;
            dfs(W, c, prefix);
        } else seq_random(g_execs, r);
        g_helper.stop();
        vt::close();
        fprintf(stderr, "rows %llu\n", (unsigned long long)g_rows);
        _exit(0);
    }
    g_vc.start(g_vcpus);
    vtp::Watchdog wd; wd.start(120, prim.c_str());
    auto scs = scenarios();
    for (int ex = 0; ex < g_execs; ex++) {
        bool ok = prim == "dir" ? exec_dir(ex, scs[ex % scs.size()]) : exec_conc(ex, r);
        if (!ok) { rc = 4; break; }
    }
    wd.end();
    vt::close();
    if (rc || g_abandoned) _exit(rc);      // hung / abandoned photon threads cannot be cleaned up
    g_vc.stop();
    photon::fini();
    return 0;
}
