// C17 harness: the REAL full-file cache (new_full_file_cached_fs / FileCachePool + new_cached_fs) between
//   * a recording SOURCE file system (in memory; content = function of (file, position); every read logged; scripted
//     faults: one source read of the execution fails or returns short), and
//   * a MEDIA file system = real local directory (<dir of --out>/media-<pid>/x<k>) behind a wrapper that logs every
//     pwritev / preadv / ftruncate / truncate / fallocate / fiemap / lseek(SEEK_DATA|SEEK_HOLE) / unlink with its result,
//     and yields / sleeps at seeded points around these calls (this is what interleaves readers, refills and evictions
//     on one vCPU; an evictor may also run on a second vCPU).
// No library hooks.  Nothing is judged here: spec/Trace_CacheA.tla replays every execution.
//
// Bytes.  Source byte of file f at position p = 1 + ((p + 97 f) mod 251)  (never 0; 252..255 never occur).
// Read buffers are pre-filled with 0xFD.  A byte string is logged as runs [v, n]: n bytes whose tags (byte - 1) count up
// from v modulo 251; v = -1: n zero bytes; v = -2: n bytes in 252..255.  The expectation (which tag belongs to which
// position) is computed by the trace specification, not here.
//
// Modes (--prim): map     in-memory filled-range map (media fiemap unsupported), inline refill, explicit evictions
//                 fiemap  media fiemap answered from SEEK_DATA / SEEK_HOLE of the real file (block granular extents)
//                 capfull capacity 0: every media write finds the pool full -> forceRecycle sweeps, plus a fast timer
//                 punchend directed: cache a file with a partial tail, evict-to-end at the first block boundary past the end
//                         (at rest), reopen the directory with a new pool (odd executions: let the idle store expire instead), read again
//                 async   FileCachePool with a thread pool (ICachePool::m_thread_pool set by a derived class): the media
//                         write of a refill runs in a pool thread that keeps the range lock
#include <photon/photon.h>
#include <photon/fs/filesystem.h>
#include <photon/fs/localfs.h>
#include <photon/fs/forwardfs.h>
#include <photon/fs/virtual-file.h>
#include <photon/fs/fiemap.h>
#include <photon/fs/cache/cache.h>
#include <photon/fs/cache/../../../../fs/cache/full_file_cache/cache_pool.h>
#include <photon/common/io-alloc.h>
#include <photon/common/alog.h>
#include <photon/thread/thread-pool.h>
#include <sys/stat.h>
#include <sys/statvfs.h>
#include <sys/uio.h>
#include <fcntl.h>
#include <ftw.h>
#include <unistd.h>
#include <mutex>
#include <map>
#include <string>
#include <vector>
#include "vt_photon.h"
using namespace photon::fs;

// ---------------------------------------------------------------------------------------------- content / runs
static inline uint8_t cbyte(int f, uint64_t p) { return (uint8_t)(1 + ((p + 97ull * (unsigned)f) % 251)); }
static const uint8_t POISON = 0xFD, GARBAGE = 0xFE, GUARD = 0xFC;
static const int MAXRUNS = 48;
struct RunEnc {
    vt::Arr a; int nr = 0; long cv = -3; long nextv = -3; uint64_t cl = 0; bool over = false; uint64_t rest = 0;
    void emit() { if (cl) { a.raw("[" + std::to_string(cv) + "," + std::to_string(cl) + "]"); nr++; cl = 0; } }
    void feed(const uint8_t* p, size_t n) {
        for (size_t i = 0; i < n; i++) {
            if (over) { rest += n - i; return; }
            uint8_t b = p[i];
            long v = b == 0 ? -1 : b >= 252 ? -2 : b - 1;
            bool cont = cl && ((v < 0 && v == cv) || (v >= 0 && cv >= 0 && v == nextv));
            if (!cont) { emit(); if (nr >= MAXRUNS) { over = true; rest = n - i; return; } cv = v; }
            cl++;
            nextv = v >= 0 ? (v + 1) % 251 : v;
        }
    }
    std::string str() { emit(); if (rest) a.raw("[-2," + std::to_string(rest) + "]"); return a.str(); }
};
static std::string runs_iov(const struct iovec* iov, int cnt, size_t n) {
    RunEnc e;
    for (int i = 0; i < cnt && n; i++) { size_t k = std::min(n, iov[i].iov_len); e.feed((const uint8_t*)iov[i].iov_base, k); n -= k; }
    return e.str();
}

// ---------------------------------------------------------------------------------------------- execution globals
static std::vector<uint64_t> g_size;           // source file sizes
static int g_jit = 0;                          // perturbation level (0 off)
static uint64_t g_jseed = 1;
static bool g_fiemap_emul = false;
static std::atomic<int> g_src_n{0};
static int g_fault_at = -1, g_fault_kind = 0;  // index of the source read that fails (kind 0: -1/EIO, 1: short)
static uint64_t g_fault_r = 0;
static std::mutex g_mm;                        // {media syscall + its log line} is one atomic step of the recorded history
static std::map<std::string, int> g_gen;       // media path -> generation id of the file currently at that path
static int g_next_gen = 0;

static int cur_t() { return vtp::reg().get(photon::CURRENT); }
static int file_index(const char* path) {      // "/f<k>" -> k
    if (!path) return -1;
    while (*path == '/') path++;
    if (path[0] != 'f' || path[1] < '0' || path[1] > '9' || path[2]) return -1;
    int k = path[1] - '0';
    return k < (int)g_size.size() ? k : -1;
}
static void jitter() {
    if (!g_jit) return;
    static thread_local uint64_t s = 0, epoch = 0;
    if (epoch != g_jseed) { epoch = g_jseed; s = g_jseed * 0x9E3779B97F4A7C15ull + 0x632BE5ABull * (uint64_t)(uintptr_t)photon::get_vcpu(); }
    s ^= s << 13; s ^= s >> 7; s ^= s << 17;
    unsigned r = (unsigned)(s >> 11) % 100;
    if (r < 45) return;
    if (r < 85) { photon::thread_yield(); return; }
    photon::thread_usleep(1 + (s >> 20) % (g_jit > 1 ? 400 : 120));
}

// ---------------------------------------------------------------------------------------------- source
class SrcFile : public VirtualReadOnlyFile {
public:
    int f;
    explicit SrcFile(int f) : f(f) {}
    IFileSystem* filesystem() override { return nullptr; }
    int close() override { return 0; }
    int fstat(struct stat* st) override {
        jitter();
        memset(st, 0, sizeof *st); st->st_mode = S_IFREG | 0444; st->st_size = (off_t)g_size[f];
        return 0;
    }
    ssize_t pread(void* buf, size_t count, off_t off) override { struct iovec v{buf, count}; return preadv(&v, 1, off); }
    ssize_t preadv(const struct iovec* iov, int cnt, off_t off) override {
        jitter();
        uint64_t total = 0; for (int i = 0; i < cnt; i++) total += iov[i].iov_len;
        uint64_t size = g_size[f];
        uint64_t avail = (uint64_t)off < size ? std::min<uint64_t>(total, size - off) : 0;
        int idx = g_src_n++;
        ssize_t ret = (ssize_t)avail; bool fault = false; uint64_t good = avail;
        if (idx == g_fault_at) {
            fault = true;
            if (g_fault_kind == 0 || avail == 0) { ret = -1; good = 0; }
            else { good = g_fault_r % avail; ret = (ssize_t)good; }
        }
        uint64_t pos = 0;                          // good bytes from the content function, the rest of the buffers garbage
        for (int i = 0; i < cnt; i++) { auto p = (uint8_t*)iov[i].iov_base;
            for (size_t j = 0; j < iov[i].iov_len; j++, pos++) p[j] = pos < good ? cbyte(f, off + pos) : (fault ? GARBAGE : p[j]); }
        vt::Ev("SrcRead").i("t", cur_t()).i("f", f).u("off", off).u("len", total).i("ret", ret).b("fault", fault);
        if (ret < 0) errno = EIO;
        jitter();
        return ret;
    }
};
class SrcFs : public IFileSystem {
public:
    IFile* open(const char* path, int flags) override { return open(path, flags, 0); }
    IFile* open(const char* path, int, mode_t) override {
        int f = file_index(path); if (f < 0) { errno = ENOENT; return nullptr; }
        jitter();
        return new SrcFile(f);
    }
    int stat(const char* path, struct stat* st) override {
        int f = file_index(path); if (f < 0) { errno = ENOENT; return -1; }
        memset(st, 0, sizeof *st); st->st_mode = S_IFREG | 0444; st->st_size = (off_t)g_size[f]; return 0;
    }
    int lstat(const char* path, struct stat* st) override { return stat(path, st); }
    int access(const char* path, int) override { return file_index(path) >= 0 ? 0 : -1; }
#define NOSYS(sig) sig override { errno = ENOSYS; return -1; }
    UNIMPLEMENTED_POINTER(IFile* creat(const char*, mode_t) override);
    NOSYS(int mkdir(const char*, mode_t)) NOSYS(int rmdir(const char*)) NOSYS(int symlink(const char*, const char*))
    NOSYS(ssize_t readlink(const char*, char*, size_t)) NOSYS(int link(const char*, const char*))
    NOSYS(int rename(const char*, const char*)) NOSYS(int unlink(const char*)) NOSYS(int chmod(const char*, mode_t))
    NOSYS(int chown(const char*, uid_t, gid_t)) NOSYS(int lchown(const char*, uid_t, gid_t))
    NOSYS(int statfs(const char*, struct statfs*)) NOSYS(int statvfs(const char*, struct statvfs*))
    NOSYS(int truncate(const char*, off_t)) NOSYS(int utime(const char*, const struct utimbuf*))
    NOSYS(int utimes(const char*, const struct timeval[2])) NOSYS(int lutimes(const char*, const struct timeval[2]))
    NOSYS(int mknod(const char*, mode_t, dev_t)) NOSYS(int syncfs())
    UNIMPLEMENTED_POINTER(DIR* opendir(const char*) override);
};

// ---------------------------------------------------------------------------------------------- media
// The localfs psync adaptor yields before each data syscall; the wrapper does that itself (jitter) and performs the data
// syscalls on a descriptor of its own, so that {syscall, log line} is one step of the recorded history even with two vCPUs.
static std::string g_root;                     // media directory of the running execution
class MediaFile : public ForwardFile_Ownership {
public:
    int f, g, fd;
    MediaFile(IFile* u, int f, int g, int fd) : ForwardFile_Ownership(u, true), f(f), g(g), fd(fd) {}
    ~MediaFile() { if (fd >= 0) ::close(fd); }
    vt::Ev& head(vt::Ev& e) { return e.i("g", g).i("f", f).i("t", cur_t()); }
    ssize_t pread(void* buf, size_t count, off_t off) override { struct iovec v{buf, count}; return preadv(&v, 1, off); }
    ssize_t preadv(const struct iovec* iov, int cnt, off_t off) override {
        if (f < 0) return m_file->preadv(iov, cnt, off);
        jitter();
        ssize_t ret; int en;
        { std::lock_guard<std::mutex> l(g_mm);
          ret = ::preadv(fd, iov, cnt, off); en = errno;
          uint64_t total = 0; for (int i = 0; i < cnt; i++) total += iov[i].iov_len;
          vt::Ev e("MediaRead"); head(e).u("off", off).u("len", total).i("ret", ret).raw("runs", ret > 0 ? runs_iov(iov, cnt, ret) : "[]"); }
        jitter();
        errno = en;
        return ret;
    }
    ssize_t pwrite(const void* buf, size_t count, off_t off) override { struct iovec v{(void*)buf, count}; return pwritev(&v, 1, off); }
    ssize_t pwritev(const struct iovec* iov, int cnt, off_t off) override {
        if (f < 0) return m_file->pwritev(iov, cnt, off);
        jitter();
        ssize_t ret; int en;
        { std::lock_guard<std::mutex> l(g_mm);
          ret = ::pwritev(fd, iov, cnt, off); en = errno;
          uint64_t total = 0; for (int i = 0; i < cnt; i++) total += iov[i].iov_len;
          vt::Ev e("MediaWrite"); head(e).u("off", off).u("len", total).i("ret", ret).raw("runs", ret > 0 ? runs_iov(iov, cnt, ret) : "[]"); }
        jitter();
        errno = en;
        return ret;
    }
    int ftruncate(off_t len) override {
        if (f < 0) return m_file->ftruncate(len);
        jitter();
        int ret, en;
        { std::lock_guard<std::mutex> l(g_mm); ret = ::ftruncate(fd, len); en = errno; vt::Ev e("MediaTrunc"); head(e).u("len", len).i("ret", ret); }
        jitter();
        errno = en;
        return ret;
    }
    int fallocate(int mode, off_t off, off_t len) override {
        if (f < 0) return m_file->fallocate(mode, off, len);
        jitter();
        int ret, en;
        { std::lock_guard<std::mutex> l(g_mm); ret = ::fallocate(fd, mode, off, len); en = errno;
          vt::Ev e("MediaPunch"); head(e).i("mode", mode).u("off", off).u("len", len).i("ret", ret); }
        errno = en;
        return ret;
    }
    // no perturbation in fstat / open / unlink / truncate(path): the pool calls them with its mutex m_lock_ held, and a yield there
    // would create waits on that mutex which the synchronous local file system never produces
    off_t lseek(off_t off, int whence) override {
        if (f < 0 || (whence != SEEK_DATA && whence != SEEK_HOLE)) return m_file->lseek(off, whence);
        std::lock_guard<std::mutex> l(g_mm);
        off_t ret = ::lseek(fd, off, whence); int en = errno;
        { vt::Ev e("MediaSeek"); head(e).u("pos", off).s("wh", whence == SEEK_DATA ? "data" : "hole").i("ret", ret); }
        errno = en;
        return ret;
    }
    // fiemap: unsupported (the cache then keeps its own filled-range map) or answered from SEEK_DATA / SEEK_HOLE of the
    // real file with block-granular extents, as a block-mapped file system reports them
    int fiemap(struct photon::fs::fiemap* m) override {
        if (!g_fiemap_emul) { errno = ENOTSUP; return -1; }
        if (f >= 0) jitter();
        int rfd = fd >= 0 ? fd : -1;
        std::lock_guard<std::mutex> l(g_mm);
        uint64_t pos = m->fm_start, end = m->fm_start + m->fm_length;
        uint32_t n = 0; vt::Arr ext;
        while (pos < end && n < m->fm_extent_count) {
            off_t d = rfd >= 0 ? ::lseek(rfd, pos, SEEK_DATA) : m_file->lseek(pos, SEEK_DATA);
            if (d < 0 || (uint64_t)d >= end) break;
            off_t h = rfd >= 0 ? ::lseek(rfd, d, SEEK_HOLE) : m_file->lseek(d, SEEK_HOLE);
            if (h < 0) break;
            uint64_t lo = (uint64_t)d / 4096 * 4096, hi = ((uint64_t)h + 4095) / 4096 * 4096;
            auto& x = m->fm_extents[n++];
            memset(&x, 0, sizeof x);
            x.fe_logical = lo; x.fe_physical = lo; x.fe_length = hi - lo; x.fe_flags = 0;
            ext.raw("[" + std::to_string(lo) + "," + std::to_string(hi - lo) + "]");
            pos = hi;
        }
        m->fm_mapped_extents = n;
        if (f >= 0) { vt::Ev e("MediaQuery"); head(e).u("off", m->fm_start).u("len", m->fm_length).raw("ext", ext.str()); }
        return 0;
    }
};
class MediaFs : public ForwardFS_Ownership {
public:
    explicit MediaFs(IFileSystem* u) : ForwardFS_Ownership(u, true) {}
    IFile* open(const char* path, int flags) override { return open(path, flags, 0644); }
    IFile* open(const char* path, int flags, mode_t mode) override {
        int f = file_index(path);
        if (f < 0) { auto u = m_fs->open(path, flags, mode); return u ? new MediaFile(u, -1, 0, -1) : nullptr; }
        std::lock_guard<std::mutex> l(g_mm);
        struct stat st; bool existed = m_fs->stat(path, &st) == 0;
        auto u = m_fs->open(path, flags, mode);
        if (!u) return nullptr;
        int fd = ::open((g_root + path).c_str(), O_RDWR);
        if (fd < 0) { fprintf(stderr, "harness: cannot open %s%s directly\n", g_root.c_str(), path); exit(2); }
        auto it = g_gen.find(path);
        if (!existed || it == g_gen.end()) { g_gen[path] = ++g_next_gen; it = g_gen.find(path); }
        return new MediaFile(u, f, it->second, fd);
    }
    int unlink(const char* path) override {
        int f = file_index(path);
        if (f < 0) return m_fs->unlink(path);
        std::lock_guard<std::mutex> l(g_mm);
        int ret = m_fs->unlink(path);
        auto it = g_gen.find(path);
        vt::Ev("MediaUnlink").i("g", it == g_gen.end() ? 0 : it->second).i("f", f).i("t", cur_t()).i("ret", ret);
        if (ret == 0 && it != g_gen.end()) g_gen.erase(it);
        return ret;
    }
    int truncate(const char* path, off_t len) override {
        int f = file_index(path);
        if (f < 0) return m_fs->truncate(path, len);
        std::lock_guard<std::mutex> l(g_mm);
        int ret = m_fs->truncate(path, len);
        auto it = g_gen.find(path);
        vt::Ev("MediaTrunc").i("g", it == g_gen.end() ? 0 : it->second).i("f", f).i("t", cur_t()).u("len", len).i("ret", ret);
        return ret;
    }
};

// FileCachePool with the asynchronous refill of ICacheStore enabled (ICachePool::m_thread_pool is what decides it)
class AsyncFilePool : public FileCachePool {
public:
    AsyncFilePool(IFileSystem* media, uint64_t capGB, uint64_t period, uint64_t avail, uint64_t ru, uint64_t ttl)
        : FileCachePool(media, capGB, period, avail, ru, ttl, false) {
        m_thread_pool = photon::new_thread_pool(16, 256 * 1024);
        m_vcpu = photon::get_vcpu();
    }
};

// ---------------------------------------------------------------------------------------------- programs
struct ReadOp { int f; uint64_t off, len; std::vector<uint32_t> segs; int api; };
struct Params {
    int x; std::string mode; bool fie, async, capfull; int nf; uint64_t ru; uint64_t ttl; uint64_t period; int vcpus;
};
static ICachedFileSystem* make_fs(const Params& p, const std::string& dir, IOAlloc* alloc, SrcFs* src) {
    auto local = new_localfs_adaptor(dir.c_str(), ioengine_psync);
    if (!local) { fprintf(stderr, "new_localfs_adaptor(%s) failed\n", dir.c_str()); exit(2); }
    auto media = new MediaFs(local);
    uint64_t cap = p.capfull ? 0 : 1;
    if (p.async) {
        auto pool = new AsyncFilePool(media, cap, p.period, 0, p.ru, p.ttl);
        pool->Init();
        return new_cached_fs(src, pool, 4096, alloc);
    }
    return new_full_file_cached_fs(src, media, p.ru, cap, p.period, 0, alloc, 0, {}, p.ttl, false);
}
static int rm_cb(const char* p, const struct stat*, int, struct FTW*) { return remove(p); }
static void rm_rf(const std::string& d) { nftw(d.c_str(), rm_cb, 16, FTW_DEPTH | FTW_PHYS); }

static uint64_t pick_off(vt::Rng& r, uint64_t size, uint64_t ru) {
    uint64_t base;
    switch (r.below(6)) {
    case 0: base = 0; break;
    case 1: base = r.below(size / 4096 + 2) * 4096; break;
    case 2: base = r.below(size / ru + 2) * ru; break;
    case 3: base = size; break;
    case 4: base = size / 4096 * 4096; break;
    default: base = r.below(size + 4096); break;
    }
    int64_t d = 0;
    switch (r.below(5)) { case 0: d = 0; break; case 1: d = 1; break; case 2: d = -1; break; case 3: d = (int64_t)r.below(9) - 4; break; default: d = (int64_t)r.below(4096) - 2048; }
    int64_t v = (int64_t)base + d; if (v < 0) v = 0;
    if ((uint64_t)v > size + 8192) v = (int64_t)(size + r.below(8192));
    return (uint64_t)v;
}
static uint64_t pick_len(vt::Rng& r, uint64_t off, uint64_t size, uint64_t ru) {
    uint64_t l;
    switch (r.below(8)) {
    case 0: l = 1 + r.below(16); break;
    case 1: l = 4096 + r.below(3) - 1; break;
    case 2: l = ru + r.below(3) - 1; break;
    case 3: l = size > off ? size - off + r.below(3) - 1 : 1 + r.below(64); break;       // to the end +-1
    case 4: l = size + 4096; break;                                                      // far past the end
    case 5: l = (1 + r.below(3)) * ru + r.below(200); break;
    case 6: l = r.coin(10) ? 0 : 1 + r.below(2 * 4096); break;
    default: l = 1 + r.below(size + 4096); break;
    }
    if (l > size + 8192) l = size + 8192;
    return l;
}
static void gen_read(vt::Rng& r, ReadOp& op, int nf, uint64_t ru) {
    op.f = (int)r.below(nf);
    uint64_t size = g_size[op.f];
    op.off = pick_off(r, size, ru);
    op.len = pick_len(r, op.off, size, ru);
    op.api = (int)r.below(3);                       // 0 pread, 1 preadv, 2 preadv2
    op.segs.clear();
    if (op.api == 0) { op.segs.push_back((uint32_t)op.len); return; }
    int k = 1 + (int)r.below(4);
    uint64_t left = op.len;
    for (int i = 0; i + 1 < k; i++) {
        uint64_t l = r.coin(12) ? 0 : r.coin(35) ? std::min<uint64_t>(left, (1 + r.below(3)) * 4096) : r.below(left + 1);
        op.segs.push_back((uint32_t)l); left -= l;
    }
    op.segs.push_back((uint32_t)left);
}
static void do_read(int t, ICachedFile* file, const ReadOp& op) {
    size_t ns = op.segs.size();
    std::vector<uint8_t*> blk(ns); std::vector<struct iovec> iov(ns);
    vt::Arr shape;
    for (size_t i = 0; i < ns; i++) {
        blk[i] = (uint8_t*)malloc(op.segs[i] + 16);
        memset(blk[i], GUARD, 8); memset(blk[i] + 8, POISON, op.segs[i]); memset(blk[i] + 8 + op.segs[i], GUARD, 8);
        iov[i].iov_base = blk[i] + 8; iov[i].iov_len = op.segs[i];
        shape.u(op.segs[i]);
    }
    vt::Ev("ReadInv").i("t", t).i("f", op.f).u("off", op.off).u("len", op.len).i("api", op.api).raw("iov", shape.str());
    std::vector<struct iovec> c(iov);
    ssize_t ret = op.api == 0 ? file->pread(c[0].iov_base, c[0].iov_len, op.off)
                : op.api == 1 ? file->preadv(c.data(), (int)ns, op.off) : file->preadv2(c.data(), (int)ns, op.off, 0);
    bool guards = true;
    for (size_t i = 0; i < ns; i++) for (int j = 0; j < 8; j++) if (blk[i][j] != GUARD || blk[i][8 + op.segs[i] + j] != GUARD) guards = false;
    uint64_t n = ret > 0 ? std::min<uint64_t>((uint64_t)ret, op.len) : 0;
    vt::Ev("ReadResp").i("t", t).i("ret", ret).raw("runs", n ? runs_iov(iov.data(), (int)ns, n) : "[]").b("guards", guards);
    for (auto b : blk) free(b);
}

int main(int argc, char** argv) {
    const char* out = vt::arg(argc, argv, "--out", "-");
    vt::open(out);
    std::string mode = vt::arg(argc, argv, "--prim", "map");
    int execs = atoi(vt::arg(argc, argv, "--execs", "20"));
    uint64_t seed = strtoull(vt::arg(argc, argv, "--seed", "1"), 0, 10);
    int vcpus = atoi(vt::arg(argc, argv, "--vcpus", "2"));
    int maxthreads = atoi(vt::arg(argc, argv, "--threads", "3"));
    int maxops = atoi(vt::arg(argc, argv, "--ops", "6"));
    if (maxthreads > 3) maxthreads = 3;
    if (maxthreads < 1) maxthreads = 1;
    std::string outdir = std::string(out) == "-" ? std::string("/tmp") : std::string(out).substr(0, std::string(out).find_last_of('/'));
    std::string root = outdir + "/media-" + std::to_string(getpid());
    mkdir(root.c_str(), 0755);

    log_output = log_output_null;
    photon::init(photon::INIT_EVENT_EPOLL, photon::INIT_IO_NONE);
    vtp::Vcpus V; V.start(vcpus);
    vtp::Watchdog wd; wd.start(120, "h_cache");
    vtp::reg().set(photon::CURRENT, 9);
    static IOAlloc alloc;
    uint64_t mh = 0; for (char c : mode) mh = mh * 131 + (unsigned char)c;
    vt::Rng rng(seed * 1000003ull + mh);

    for (int x = 0; x < execs; x++) {
        Params p; p.x = x; p.mode = mode; p.vcpus = vcpus;
        p.async = mode == "async"; p.capfull = mode == "capfull";
        p.fie = mode == "fiemap" ? true : mode == "map" ? false : rng.coin(50);
        bool directed = mode == "punchend";
        bool viattl = directed && (x & 1);        // odd executions: no new pool instance, the idle store expires instead (short TTL)
        static const uint64_t RUS[] = {4096, 8192, 16384, 65536, 4096, 8192};
        p.ru = RUS[rng.below(6)];
        p.nf = 1 + (int)rng.coin(35);
        p.ttl = rng.coin(40) ? 3000 : rng.coin(50) ? 50000 : 10000000;
        if (viattl) p.ttl = 3000;
        p.period = p.capfull ? (rng.coin(50) ? 2000 : 20000) : 3600ull * 1000 * 1000;
        g_size.clear();
        vt::Arr sizes;
        for (int f = 0; f < p.nf; f++) {
            uint64_t blocks = rng.coin(15) ? rng.below(2) : 1 + rng.below(std::min<uint64_t>(5 * p.ru / 4096, 40));
            uint64_t tail = (rng.coin(25) && !directed) ? 0 : 1 + rng.below(4095);
            uint64_t s = blocks * 4096 + tail; if (s == 0) s = 1 + rng.below(100);
            g_size.push_back(s); sizes.u(s);
        }
        g_fiemap_emul = p.fie; g_jit = 1 + (int)rng.coin(30); g_jseed = seed * 7919 + x * 104729 + mh;
        g_src_n = 0; g_fault_at = (rng.coin(35) && mode != "punchend") ? (int)rng.below(8) : -1; g_fault_kind = (int)rng.below(2); g_fault_r = rng.next();
        g_gen.clear(); g_next_gen = 0;
        std::string dir = root + "/x" + std::to_string(x);
        mkdir(dir.c_str(), 0755);
        g_root = dir;
        vt::note("exec " + std::to_string(x) + " mode " + mode);
        vt::Ev("Reset").i("x", x).s("mode", mode).b("fie", p.fie).b("async", p.async).b("capfull", p.capfull).i("nf", p.nf)
            .raw("sizes", sizes.str()).u("ru", p.ru).u("ttl", p.ttl).i("fault_at", g_fault_at).i("vcpus", vcpus);
        SrcFs* src = new SrcFs;
        ICachedFileSystem* fs = make_fs(p, dir, &alloc, src);
        if (!fs) { fprintf(stderr, "cannot build the cached fs\n"); exit(2); }

        int phases = directed ? 2 : 1 + (int)rng.below(3);
        for (int ph = 0; ph < phases; ph++) {
            int nr = 1 + (int)rng.below(maxthreads);
            std::vector<std::vector<ReadOp>> prog(nr);
            for (auto& pr : prog) { int n = 2 + (int)rng.below(maxops > 1 ? maxops - 1 : 1); pr.resize(n); for (auto& op : pr) gen_read(rng, op, p.nf, p.ru); }
            // hot spots: make some reads of different readers overlap on purpose
            if (nr > 1) for (int k = 0; k < 2; k++) { auto& a = prog[0][rng.below(prog[0].size())]; auto& b = prog[1][rng.below(prog[1].size())];
                b.f = a.f; b.off = a.off + (rng.coin(50) ? 0 : rng.below(4096)); if (b.api == 0) b.segs.assign(1, (uint32_t)b.len); }
            if (directed && ph == 0) {            // one reader caches file 0 completely
                prog.resize(1); nr = 1; prog[0].resize(1);
                auto& op = prog[0][0]; op.f = 0; op.off = 0; op.len = g_size[0] + 100; op.api = 0; op.segs.assign(1, (uint32_t)op.len);
            }
            int nev = directed ? 0 : p.capfull ? (int)rng.below(2) : (int)rng.below(4);
            std::vector<int> evf(nev); std::vector<uint32_t> evd(nev);
            for (int i = 0; i < nev; i++) { evf[i] = (int)rng.below(p.nf); evd[i] = (uint32_t)rng.below(600); }
            bool ev_remote = vcpus > 1 && rng.coin(50);

            std::vector<vtp::Worker> W(nr + 1);
            std::vector<vtp::Worker*> ws;
            vtp::GateGuard gate;
            for (int i = 0; i < nr; i++) {
                W[i].id = i + 1;
                W[i].body = [&, i] {
                    std::vector<ICachedFile*> h(p.nf, nullptr);
                    for (auto& op : prog[i]) {
                        W[i].where = "read";
                        if (!h[op.f]) { std::string nm = "/f" + std::to_string(op.f); h[op.f] = (ICachedFile*)fs->open(nm.c_str(), O_RDONLY, 0644); }
                        if (!h[op.f]) { vt::Ev("OpenFailed").i("t", i + 1).i("f", op.f); continue; }
                        do_read(i + 1, h[op.f], op);
                        jitter();
                    }
                    for (auto f : h) delete f;
                };
                vtp::spawn_on(&W[i], V.vc[0]);
                ws.push_back(&W[i]);
            }
            W[nr].id = 4;
            W[nr].body = [&] {
                for (int i = 0; i < nev; i++) {
                    W[nr].where = "evict";
                    photon::thread_usleep(evd[i]);
                    std::string nm = "/f" + std::to_string(evf[i]);
                    vt::Ev("EvictInv").i("t", 4).i("f", evf[i]);
                    int ret = fs->get_pool()->evict(nm);
                    vt::Ev("EvictResp").i("t", 4).i("f", evf[i]).i("ret", ret);
                }
            };
            vtp::spawn_on(&W[nr], ev_remote ? V.vc[1] : V.vc[0]);
            ws.push_back(&W[nr]);
            gate.open();
            if (!vtp::wait_done(ws, 90ull * 1000 * 1000, "phase")) { vt::close(); _exit(4); }
            vtp::join_all(ws);
            photon::thread_usleep(p.ttl <= 3000 && rng.coin(50) ? 8000 : 200);     // lets expired stores go (or not)

            // between phases, nothing in flight: punch a range out of a cached file and / or start over with a new pool instance
            if (directed ? ph == 0 : rng.coin(30)) {
                int f = directed ? 0 : (int)rng.below(p.nf); std::string nm = "/f" + std::to_string(f);
                // CachedFile::fallocate: "offset and len must be aligned 4k, otherwise it's useless" - it aligns a finite range outwards
                // itself; with len = -1 (evict to the end) the offset is used as given, so the harness passes an aligned one
                uint64_t off = pick_off(rng, g_size[f], p.ru); int64_t len = rng.coin(20) ? -1 : (int64_t)(1 + rng.below(3 * p.ru));
                if (len < 0) off = off / 4096 * 4096;
                if (directed) { off = (g_size[0] + 4095) / 4096 * 4096; len = -1; }
                auto h = fs->open(nm.c_str(), O_RDONLY, 0644);
                if (h) {
                    vt::Ev("PunchInv").i("t", 9).i("f", f).u("off", off).i("len", len);
                    int ret = h->fallocate(0, (off_t)off, (off_t)len);
                    vt::Ev("PunchResp").i("t", 9).i("f", f).i("ret", ret);
                    delete h;
                }
            }
            if (viattl) photon::thread_usleep(80 * 1000);
            if (ph + 1 < phases && !viattl && (directed || rng.coin(55))) {
                delete fs;                                   // the pool instance, its stores, the media wrapper
                vt::Ev("Reopen").i("x", x);
                fs = make_fs(p, dir, &alloc, src);
                if (!fs) { fprintf(stderr, "cannot rebuild the cached fs\n"); exit(2); }
            }
        }
        delete fs;
        vt::Ev("Quiesce").i("x", x).i("srcreads", g_src_n.load());
        delete src;
        rm_rf(dir);
        if ((x & 15) == 15) vt::flush();
    }
    rmdir(root.c_str());
    wd.end();
    V.stop();
    vt::close();
    return 0;
}
