// Harness for C10 (socket streams over the event engine).
//
// The executable INTERPOSES the libc entry points the library uses for socket I/O and for the epoll engine
// (send recv sendmsg recvmsg read readv write writev epoll_ctl epoll_wait): the definitions below win over libc's at
// link time (the library is a static archive), call the real function through dlsym(RTLD_NEXT) and log arguments and
// results for the descriptors under test only.  A seeded fault injector may turn a call into EINTR, EAGAIN (not for
// edge-triggered sockets) or a shorter transfer, which the kernel is always allowed to do.
//
// Every execution builds 1-2 real connections (Unix-domain stream sockets, loopback TCP with small buffers, or a
// socketpair for the fd-level API), wraps one or both ends in photon streams and runs short seeded programs:
//   library side : read/readv/recv/recv(iov)/write/writev/send/send(iov) of the stream (or the fd-level functions of
//                  net/basic_socket.cpp) with Inv / Resp events,
//   peer side    : raw syscalls (PeerWrite{r}, PeerRead{r,ck}, PeerShutdown) or a second photon stream.  A raw peer trickles,
//                  and when its partner has a short stream timeout it stalls once: it waits until the partner is blocked
//                  (EAGAIN) and then withholds everything until that call has returned (the timeout must end it).
//                  Every writer finally shuts its direction down, every reader drains to end of stream, so nothing is left
//                  blocked or in flight at Quiesce.  "batch" modes: 17-24 connections whose readers are all blocked are made
//                  readable at once (the engine fetches 16 events per epoll_wait).
// Bytes are position coded: byte i of flow f has the value (i + 17 f) mod 251.  Each syscall event carries the extents
// of the user buffer the library handed to the kernel ([element, offset, length]) and a weighted checksum of the bytes
// transferred; each Resp carries the number of bytes moved and the checksum of the user buffer.  spec/Trace_SockStreamA.tla
// replays the syscall results as the environment's choices and checks the library's reaction and the byte stream.
//
// usage: h_sock --prim [batch]epoll|epollng|et|fdapi[big] --execs N --seed S [--vcpus V --threads K --ops M] --out file
#include "vt_photon.h"
#include <photon/net/socket.h>
#include <photon/net/basic_socket.h>
#include <photon/io/fd-events.h>
#include <dlfcn.h>
#include <fcntl.h>
#include <sys/socket.h>
#include <sys/un.h>
#include <sys/uio.h>
#include <sys/epoll.h>
#include <sys/stat.h>
#include <netinet/in.h>
#include <netinet/tcp.h>
#include <arpa/inet.h>
#include <memory>
#include <string>
#include <vector>
using namespace photon;

// ------------------------------------------------------------------------------------------------ real entry points
namespace real {
typedef ssize_t (*send_t)(int, const void*, size_t, int);
typedef ssize_t (*recv_t)(int, void*, size_t, int);
typedef ssize_t (*sendmsg_t)(int, const struct msghdr*, int);
typedef ssize_t (*recvmsg_t)(int, struct msghdr*, int);
typedef ssize_t (*read_t)(int, void*, size_t);
typedef ssize_t (*write_t)(int, const void*, size_t);
typedef ssize_t (*readv_t)(int, const struct iovec*, int);
typedef ssize_t (*writev_t)(int, const struct iovec*, int);
typedef int (*epoll_ctl_t)(int, int, int, struct epoll_event*);
typedef int (*epoll_wait_t)(int, struct epoll_event*, int, int);
struct Fns {
    send_t send; recv_t recv; sendmsg_t sendmsg; recvmsg_t recvmsg; read_t read; write_t write; readv_t readv; writev_t writev;
    epoll_ctl_t epoll_ctl; epoll_wait_t epoll_wait;
    Fns() {
        send = (send_t)dlsym(RTLD_NEXT, "send"); recv = (recv_t)dlsym(RTLD_NEXT, "recv");
        sendmsg = (sendmsg_t)dlsym(RTLD_NEXT, "sendmsg"); recvmsg = (recvmsg_t)dlsym(RTLD_NEXT, "recvmsg");
        read = (read_t)dlsym(RTLD_NEXT, "read"); write = (write_t)dlsym(RTLD_NEXT, "write");
        readv = (readv_t)dlsym(RTLD_NEXT, "readv"); writev = (writev_t)dlsym(RTLD_NEXT, "writev");
        epoll_ctl = (epoll_ctl_t)dlsym(RTLD_NEXT, "epoll_ctl"); epoll_wait = (epoll_wait_t)dlsym(RTLD_NEXT, "epoll_wait");
    }
};
static inline Fns& f() { static Fns x; return x; }
}  // namespace real

// ------------------------------------------------------------------------------------------------ shared state
static const int MAXFD = 4096;
static const int P = 32749;                     // checksum modulus (products stay below 2^31 in TLC)
struct FdInfo { bool watch = false; int ep = 0; int wflow = 0, rflow = 0; bool et = false; };
static FdInfo g_fd[MAXFD];
struct FlowMirror { int64_t sent = 0, rcvd = 0; };
static FlowMirror g_flow[64];
static inline int val(int f, int64_t pos) { return (int)((pos + 17 * f) % 251); }

// one API call in progress (looked up by photon::CURRENT inside the interposers)
struct CallCtx {
    photon::thread* th = nullptr;
    int t = 0;
    bool active = false;
    std::vector<iovec> uiov;              // the user's buffers for this call
    int64_t moved = 0;                    // sum of the positive syscall results of this call
    int eagain_run = 0;                   // consecutive EAGAIN results (for coalescing)
    int rep = 0;                          // EAGAIN results not logged since the last logged event of this call
    std::string last_x;
};
static CallCtx* g_ctx[64]; static int g_nctx = 0;
static CallCtx* cur_ctx() {
    auto c = photon::CURRENT;
    if (!c) return nullptr;
    for (int i = 0; i < g_nctx; i++) if (g_ctx[i]->th == c) return g_ctx[i];
    return nullptr;
}
static int g_inj_level = 0;               // 0 none, 1 light, 2 heavy
static vt::Rng g_injrng(1);
static bool g_log_epoll = true;
static bool g_truncated = false;          // some events of this execution were coalesced away (EAGAIN spin)
static uint64_t g_t0 = 0;

// JSON event builder that does not emit by itself (used while the sink lock is held)
struct J {
    std::string j;
    explicit J(const char* name) { j.reserve(160); j += "{\"e\":\""; j += name; j += "\""; }
    J& key(const char* k) { j += ",\""; j += k; j += "\":"; return *this; }
    J& i(const char* k, int64_t v) { key(k); j += std::to_string(v); return *this; }
    J& s(const char* k, const char* v) { key(k); j += '"'; j += v; j += '"'; return *this; }
    J& raw(const char* k, const std::string& v) { key(k); j += v; return *this; }
    void emit_locked() { j += "}\n"; auto& s = vt::sink(); s.buf += j; s.n++; if (s.buf.size() > (1 << 20)) s.flush_locked(); }
};

static std::string extents(CallCtx* cx, const iovec* iov, int cnt) {
    vt::Arr a;
    for (int i = 0; i < cnt; i++) {
        int el = -1; int64_t off = 0;
        if (cx) for (size_t j = 0; j < cx->uiov.size(); j++) {
            char* b = (char*)cx->uiov[j].iov_base; char* p = (char*)iov[i].iov_base;
            if (p >= b && p <= b + cx->uiov[j].iov_len) { el = (int)j; off = p - b; break; }
        }
        vt::Arr e; e.i(el).i(off).i((int64_t)iov[i].iov_len);
        a.raw(e.str());
    }
    return a.str();
}
static int cksum(const iovec* iov, int cnt, size_t n) {
    uint64_t acc = 0; uint64_t j = 0;
    for (int i = 0; i < cnt && j < n; i++)
        for (size_t k = 0; k < iov[i].iov_len && j < n; k++, j++) {
            acc += (j + 1) * (uint64_t)((unsigned char*)iov[i].iov_base)[k];
            if ((j & 0xfff) == 0xfff) acc %= P;
        }
    return (int)(acc % P);
}
static size_t iov_sum(const iovec* iov, int cnt) { size_t s = 0; for (int i = 0; i < cnt; i++) s += iov[i].iov_len; return s; }

// kind: 0 = receive-type, 1 = send-type.  realcall(iov, cnt) performs the real syscall on a (possibly truncated) vector.
template <class REAL>
static ssize_t io_common(int fd, int kind, const char* call, const iovec* iov, int cnt, REAL realcall) {
    FdInfo& fi = g_fd[fd];
    CallCtx* cx = cur_ctx();
    if (cx && !cx->active) cx = nullptr;
    size_t total = iov_sum(iov, cnt);
    std::string x = extents(cx, iov, cnt);
    int inj = 0, en = 0; ssize_t r;
    int p_eintr = 0, p_eagain = 0, p_short = 0;
    if (cx && g_inj_level == 1) { p_eintr = 6; p_eagain = 8; p_short = 20; }
    if (cx && g_inj_level == 2) { p_eintr = 15; p_eagain = 20; p_short = 35; }
    if (fi.et) p_eagain = 0;              // an edge-triggered socket is not told again about readiness it already has
    int dice = (p_eintr + p_short) ? (int)g_injrng.below(100) : 100;
    std::vector<iovec> tv;
    auto& sk = vt::sink();
    sk.lock();
    if (dice < p_eintr) { r = -1; en = EINTR; inj = 2; }
    else if (dice < p_eintr + p_eagain) { r = -1; en = EAGAIN; inj = 3; }
    else if (dice < p_eintr + p_eagain + p_short && total > 1) {
        size_t keep = 1 + g_injrng.below(total - 1), left = keep;
        for (int i = 0; i < cnt && left > 0; i++) {
            iovec e = iov[i]; if (e.iov_len > left) e.iov_len = left; left -= e.iov_len; tv.push_back(e);
        }
        r = realcall(tv.data(), (int)tv.size()); en = r < 0 ? errno : 0; inj = 1;
    } else { r = realcall(iov, cnt); en = r < 0 ? errno : 0; }
    int ck = r > 0 ? cksum(iov, cnt, (size_t)r) : 0;
    if (r > 0) {
        if (kind) g_flow[fi.wflow].sent += r; else g_flow[fi.rflow].rcvd += r;
        if (cx) cx->moved += r;
    }
    bool skip = false;
    if (cx) {
        if (r < 0 && en == EAGAIN) {
            cx->eagain_run++;
            if (cx->eagain_run > 4 && x == cx->last_x) { skip = true; cx->rep++; g_truncated = true; }
        } else cx->eagain_run = 0;
        cx->last_x = x;
    }
    if (!skip) {
        J e("Sys");
        e.i("t", cx ? cx->t : 0).i("f", kind ? fi.wflow : fi.rflow).i("k", kind).s("call", call).raw("x", x)
         .i("n", (int64_t)total).i("r", r).i("en", en).i("ck", ck).i("inj", inj);
        if (cx && cx->rep) { e.i("rep", cx->rep); cx->rep = 0; }
        e.emit_locked();
    }
    sk.unlock();
    errno = en;
    return r;
}
static inline bool watched(int fd) { return fd >= 0 && fd < MAXFD && g_fd[fd].watch; }

extern "C" {
ssize_t send(int fd, const void* buf, size_t n, int flags) {
    if (!watched(fd)) return real::f().send(fd, buf, n, flags);
    iovec v{(void*)buf, n};
    return io_common(fd, 1, "send", &v, 1, [&](const iovec* i, int c) { return real::f().send(fd, c ? i->iov_base : buf, c ? i->iov_len : 0, flags); });
}
ssize_t recv(int fd, void* buf, size_t n, int flags) {
    if (!watched(fd)) return real::f().recv(fd, buf, n, flags);
    iovec v{buf, n};
    return io_common(fd, 0, "recv", &v, 1, [&](const iovec* i, int c) { return real::f().recv(fd, c ? i->iov_base : buf, c ? i->iov_len : 0, flags); });
}
ssize_t write(int fd, const void* buf, size_t n) {
    if (!watched(fd)) return real::f().write(fd, buf, n);
    iovec v{(void*)buf, n};
    return io_common(fd, 1, "write", &v, 1, [&](const iovec* i, int c) { return real::f().write(fd, c ? i->iov_base : buf, c ? i->iov_len : 0); });
}
ssize_t read(int fd, void* buf, size_t n) {
    if (!watched(fd)) return real::f().read(fd, buf, n);
    iovec v{buf, n};
    return io_common(fd, 0, "read", &v, 1, [&](const iovec* i, int c) { return real::f().read(fd, c ? i->iov_base : buf, c ? i->iov_len : 0); });
}
ssize_t sendmsg(int fd, const struct msghdr* m, int flags) {
    if (!watched(fd)) return real::f().sendmsg(fd, m, flags);
    return io_common(fd, 1, "sendmsg", m->msg_iov, (int)m->msg_iovlen, [&](const iovec* i, int c) {
        msghdr h = *m; h.msg_iov = (iovec*)i; h.msg_iovlen = c; return real::f().sendmsg(fd, &h, flags); });
}
ssize_t recvmsg(int fd, struct msghdr* m, int flags) {
    if (!watched(fd)) return real::f().recvmsg(fd, m, flags);
    return io_common(fd, 0, "recvmsg", m->msg_iov, (int)m->msg_iovlen, [&](const iovec* i, int c) {
        msghdr h = *m; h.msg_iov = (iovec*)i; h.msg_iovlen = c; return real::f().recvmsg(fd, &h, flags); });
}
ssize_t writev(int fd, const struct iovec* iov, int cnt) {
    if (!watched(fd)) return real::f().writev(fd, iov, cnt);
    return io_common(fd, 1, "writev", iov, cnt, [&](const iovec* i, int c) { return real::f().writev(fd, i, c); });
}
ssize_t readv(int fd, const struct iovec* iov, int cnt) {
    if (!watched(fd)) return real::f().readv(fd, iov, cnt);
    return io_common(fd, 0, "readv", iov, cnt, [&](const iovec* i, int c) { return real::f().readv(fd, i, c); });
}

// epoll: registrations and deliveries that concern the descriptors under test
struct EpReg { int epfd; uint64_t data; int fd; };
static std::vector<EpReg> g_epreg;
int epoll_ctl(int epfd, int op, int fd, struct epoll_event* ev) {
    if (!watched(fd) || !g_log_epoll) return real::f().epoll_ctl(epfd, op, fd, ev);
    CallCtx* cx = cur_ctx();
    uint32_t events = ev ? ev->events : 0; uint64_t data = ev ? ev->data.u64 : 0;
    auto& sk = vt::sink(); sk.lock();
    int r = real::f().epoll_ctl(epfd, op, fd, ev); int en = r < 0 ? errno : 0;
    if (r == 0) {
        for (size_t i = 0; i < g_epreg.size(); i++) if (g_epreg[i].epfd == epfd && g_epreg[i].fd == fd) { g_epreg.erase(g_epreg.begin() + i); break; }
        if (op != EPOLL_CTL_DEL) g_epreg.push_back({epfd, data, fd});
    }
    if (!(cx && cx->eagain_run > 4)) {
        J e("Ctl");
        e.i("t", cx ? cx->t : 0).i("ep", epfd).s("op", op == EPOLL_CTL_ADD ? "add" : op == EPOLL_CTL_MOD ? "mod" : "del").i("fd", g_fd[fd].ep)
         .i("in", !!(events & EPOLLIN)).i("out", !!(events & EPOLLOUT)).i("os", !!(events & EPOLLONESHOT)).i("et", !!(events & EPOLLET)).i("r", r).i("en", en);
        e.emit_locked();
    }
    sk.unlock();
    errno = en;
    return r;
}
int epoll_wait(int epfd, struct epoll_event* evs, int maxev, int timeout) {
    int r = real::f().epoll_wait(epfd, evs, maxev, timeout);
    if (r <= 0 || !g_log_epoll) return r;
    int en = errno;
    vt::Arr a; int nw = 0;
    for (int i = 0; i < r; i++)
        for (auto& g : g_epreg) if (g.epfd == epfd && g.data == evs[i].data.u64 && watched(g.fd)) {
            vt::Arr e; e.i(g_fd[g.fd].ep).i(!!(evs[i].events & (EPOLLIN | EPOLLRDHUP))).i(!!(evs[i].events & EPOLLOUT)).i(!!(evs[i].events & (EPOLLERR | EPOLLHUP)));
            a.raw(e.str()); nw++; break;
        }
    if (nw) {
        CallCtx* cx = cur_ctx();
        if (!(cx && cx->eagain_run > 4)) vt::Ev("EpWait").i("t", cx ? cx->t : 0).i("ep", epfd).i("n", r).i("max", maxev).raw("evs", a.str());
    }
    errno = en;
    return r;
}
}  // extern "C"

// ------------------------------------------------------------------------------------------------ connections
enum Kind { K_UDS = 0, K_TCP = 1, K_PAIR = 2 };
static const char* KINDN[] = {"uds", "tcp", "pair"};
struct Endpoint {
    int id = 0;                        // 2*conn + side
    int fd = -1;
    net::ISocketStream* s = nullptr;   // photon stream (library side), or null: raw descriptor
    bool lib = false;                  // driven through the library API (stream or fd-level functions)
    bool fdapi = false;
    int64_t to = -1;                   // stream timeout in us (-1 = none)
    int wflow = 0, rflow = 0;
};
struct Conn { Endpoint e[2]; Kind kind; };

static std::string g_dir;
static int g_sockno = 0;
static std::string g_prim = "epoll";
static bool g_et = false, g_fdapi = false, g_big = false;
static int g_execs = 50, g_ops = 3, g_threads = 3;
static uint64_t g_seed = 1;
static vtp::Vcpus g_vc;

static void set_nb(int fd) { fcntl(fd, F_SETFL, fcntl(fd, F_GETFL) | O_NONBLOCK); }
static void small_bufs(int fd, int snd, int rcv) {
    if (snd) setsockopt(fd, SOL_SOCKET, SO_SNDBUF, &snd, sizeof snd);
    if (rcv) setsockopt(fd, SOL_SOCKET, SO_RCVBUF, &rcv, sizeof rcv);
}
struct Fail { std::string what; };

// builds one connection; side 0 is always a library endpoint, side 1 is raw or (both_lib) a second library endpoint
static void make_conn(Conn& c, int ci, Kind kind, bool both_lib, bool small, vt::Rng& r) {
    c.kind = kind;
    for (int s = 0; s < 2; s++) { c.e[s].id = 2 * ci + s; c.e[s].wflow = 2 * ci + s; c.e[s].rflow = 2 * ci + (1 - s); }
    int snd = small ? 1 : 0, rcv = small ? 1 : 0;     // the kernel rounds 1 up to its minimum
    if (kind == K_PAIR) {
        int sv[2];
        if (socketpair(AF_UNIX, SOCK_STREAM, 0, sv) < 0) throw Fail{"socketpair"};
        for (int s = 0; s < 2; s++) { set_nb(sv[s]); small_bufs(sv[s], snd, rcv); c.e[s].fd = sv[s]; }
        c.e[0].lib = c.e[0].fdapi = true;
        c.e[1].lib = c.e[1].fdapi = both_lib;
        return;
    }
    bool lib_is_client = r.coin();
    // the listening side
    net::ISocketServer* srv = nullptr; int lfd = -1;
    sockaddr_un un{}; sockaddr_in in{};
    std::string path = g_dir + "/s" + std::to_string(g_sockno++);
    bool photon_listens = both_lib || !lib_is_client;
    if (photon_listens) {
        srv = g_et ? net::new_et_tcp_socket_server() : (kind == K_UDS ? net::new_uds_server(true) : net::new_tcp_socket_server());
        if (!srv) throw Fail{"new server"};
        if (small) { srv->setsockopt<int>(SOL_SOCKET, SO_SNDBUF, snd); srv->setsockopt<int>(SOL_SOCKET, SO_RCVBUF, rcv); }
        int rc = kind == K_UDS ? srv->bind(path.c_str(), path.size()) : srv->bind_v4localhost(0);
        if (rc < 0 || srv->listen(8) < 0) { delete srv; throw Fail{"bind/listen"}; }
        if (small) { srv->setsockopt<int>(SOL_SOCKET, SO_SNDBUF, snd); srv->setsockopt<int>(SOL_SOCKET, SO_RCVBUF, rcv); }
    } else {
        lfd = socket(kind == K_UDS ? AF_UNIX : AF_INET, SOCK_STREAM, 0);
        small_bufs(lfd, snd, rcv);
        if (kind == K_UDS) { un.sun_family = AF_UNIX; strncpy(un.sun_path, path.c_str(), sizeof un.sun_path - 1);
                             if (bind(lfd, (sockaddr*)&un, sizeof un) < 0) throw Fail{"bind uds"}; }
        else { in.sin_family = AF_INET; in.sin_addr.s_addr = htonl(INADDR_LOOPBACK);
               if (bind(lfd, (sockaddr*)&in, sizeof in) < 0) throw Fail{"bind tcp"}; }
        if (listen(lfd, 8) < 0) throw Fail{"listen"};
    }
    uint16_t port = 0;
    if (kind == K_TCP) {
        if (srv) port = srv->getsockname().port;
        else { socklen_t l = sizeof in; getsockname(lfd, (sockaddr*)&in, &l); port = ntohs(in.sin_port); }
    }
    // the connecting side
    bool photon_connects = both_lib || lib_is_client;
    net::ISocketStream* cs = nullptr; int cfd = -1;
    net::ISocketStream* as = nullptr; int afd = -1;
    photon::join_handle* jh = nullptr;
    if (srv) {      // accept in a photon thread of its own (accept may have to wait for the engine)
        auto th = photon::thread_create11([&] { as = srv->accept(); });
        jh = photon::thread_enable_join(th);
    }
    if (photon_connects) {
        auto cli = g_et ? net::new_et_tcp_socket_client() : (kind == K_UDS ? net::new_uds_client() : net::new_tcp_socket_client());
        if (small) { cli->setsockopt<int>(SOL_SOCKET, SO_SNDBUF, snd); cli->setsockopt<int>(SOL_SOCKET, SO_RCVBUF, rcv); }
        cli->timeout(30 * 1000 * 1000);          // generous: the machine may be heavily loaded
        cs = kind == K_UDS ? cli->connect(path.c_str(), path.size()) : cli->connect(net::EndPoint(net::IPAddr("127.0.0.1"), port));
        delete cli;
        if (!cs) throw Fail{"photon connect"};
    } else {
        cfd = socket(kind == K_UDS ? AF_UNIX : AF_INET, SOCK_STREAM, 0);
        small_bufs(cfd, snd, rcv);
        int rc;
        if (kind == K_UDS) { un = {}; un.sun_family = AF_UNIX; strncpy(un.sun_path, path.c_str(), sizeof un.sun_path - 1); rc = connect(cfd, (sockaddr*)&un, sizeof un); }
        else { in = {}; in.sin_family = AF_INET; in.sin_addr.s_addr = htonl(INADDR_LOOPBACK); in.sin_port = htons(port); rc = connect(cfd, (sockaddr*)&in, sizeof in); }
        if (rc < 0) throw Fail{"raw connect"};
        set_nb(cfd);
        if (kind == K_TCP) { int one = 1; setsockopt(cfd, IPPROTO_TCP, TCP_NODELAY, &one, sizeof one); }
    }
    if (srv) { photon::thread_join(jh); if (!as) throw Fail{"photon accept"}; }
    else {
        {   // the connection is already established in the kernel; be generous on a heavily loaded machine
            uint64_t t0 = photon::__update_now();
            set_nb(lfd);
            while (afd < 0 && photon::now - t0 < 30 * 1000 * 1000) { afd = accept(lfd, nullptr, nullptr); if (afd < 0) photon::thread_usleep(500); }
        }
        if (afd < 0) throw Fail{"raw accept"};
        set_nb(afd);
        if (kind == K_TCP) { int one = 1; setsockopt(afd, IPPROTO_TCP, TCP_NODELAY, &one, sizeof one); }
        close(lfd);
    }
    if (srv) delete srv;
    if (kind == K_UDS) unlink(path.c_str());
    // side 0 = the library endpoint (or the client when both are library endpoints)
    if (both_lib) { c.e[0].s = cs; c.e[1].s = as; c.e[0].lib = c.e[1].lib = true; }
    else if (lib_is_client) { c.e[0].s = cs; c.e[0].lib = true; c.e[1].fd = afd; }
    else { c.e[0].s = as; c.e[0].lib = true; c.e[1].fd = cfd; }
    for (int s = 0; s < 2; s++) if (c.e[s].s) c.e[s].fd = c.e[s].s->get_underlay_fd();
}

// ------------------------------------------------------------------------------------------------ programs
// operation attributes: rw (0 read-type / 1 write-type), loop (transfers everything) or once, vec (iovec form)
struct OpDef { const char* name; int rw, loop, vec; };
static const OpDef STREAM_OPS[] = {
    {"read", 0, 1, 0}, {"readv", 0, 1, 1}, {"recv", 0, 0, 0}, {"recvv", 0, 0, 1},
    {"write", 1, 1, 0}, {"writev", 1, 1, 1}, {"send", 1, 0, 0}, {"sendv", 1, 0, 1}};
static const OpDef FD_OPS[] = {
    {"fread_n", 0, 1, 0}, {"freadv_n", 0, 1, 1}, {"fread", 0, 0, 0}, {"freadv", 0, 0, 1}, {"frecv", 0, 0, 0},
    {"fwrite_n", 1, 1, 0}, {"fwritev_n", 1, 1, 1}, {"fwrite", 1, 0, 0}, {"fwritev", 1, 0, 1}, {"fsend", 1, 0, 0},
    {"fsend_n", 1, 1, 0}, {"fsendv", 1, 0, 1}, {"fsendv_n", 1, 1, 1}};
struct Op { OpDef d; std::vector<int> iov; int64_t pause = 0; };
struct Task {
    vtp::Worker w;
    CallCtx cx;
    Endpoint* ep = nullptr;
    int role = 0;                 // 0 reader, 1 writer
    bool lib = false;
    std::vector<Op> prog;         // library tasks
    int64_t total = 0;            // raw tasks: bytes to move
    int maxchunk = 8;
    int64_t stall = 0;            // one long pause somewhere in the middle that provokes the partner's timeout: a raw task waits
                                  // until the partner's call has returned (at most STALL_CAP), a library task pauses `stall` us
    Task* partner = nullptr;      // the task at the other end of the flow
    std::atomic<int> resp_seq{0}; // number of calls that have returned
    std::atomic<bool> prog_done{false};   // the program is over (what follows is the final shutdown / drain)
    uint64_t seed = 0;
};

static std::vector<int> split_iov(int n, vt::Rng& r, bool vec) {
    std::vector<int> v;
    if (!vec) { v.push_back(n); return v; }
    int cnt = 1 + (int)r.below(g_big ? 6 : 3);
    if (r.below(12) == 0) cnt = 9 + (int)r.below(3);           // more than SmartCloneIOV's inline capacity
    int left = n;
    for (int i = 0; i < cnt; i++) {
        int l = (i == cnt - 1) ? left : (r.below(3) == 0 ? 0 : (int)r.below(left + 1));
        v.push_back(l); left -= l;
    }
    // the last element took the rest; shuffle a zero to the tail sometimes
    if (r.below(4) == 0) v.push_back(0);
    return v;
}

static void pause_us(int64_t us) { if (us < 0) photon::thread_yield(); else if (us > 0) photon::thread_usleep((uint64_t)us); }
static int64_t pick_pause(vt::Rng& r) {
    switch (r.below(8)) { case 0: case 1: case 2: return 0; case 3: case 4: return -1; case 5: return 20 + r.below(150); case 6: return 100 + r.below(600); default: return 0; }
}

// raw read of whatever is left until EOF (end of every reader: nothing stays in a pipe, nobody is left blocked)
static void drain(Endpoint* ep, Task* tk) {
    char buf[65536];
    for (int spins = 0; spins < 40000; spins++) {
        auto& sk = vt::sink(); sk.lock();
        ssize_t r = real::f().recv(ep->fd, buf, sizeof buf, MSG_DONTWAIT); int en = r < 0 ? errno : 0;
        if (r >= 0) {
            iovec v{buf, (size_t)r};
            J e("PeerRead"); e.i("f", ep->rflow).i("r", r).i("ck", r > 0 ? cksum(&v, 1, r) : 0).i("drain", 1); e.emit_locked();
            if (r > 0) g_flow[ep->rflow].rcvd += r;
        }
        sk.unlock();
        if (r == 0) return;
        if (r < 0 && en != EAGAIN && en != EINTR) { vt::Ev("PeerError").i("f", ep->rflow).i("en", en); return; }
        if (r < 0) { tk->w.where = "drain"; photon::thread_usleep(150); }
    }
}
static void shut_wr(Endpoint* ep) {
    auto& sk = vt::sink(); sk.lock();
    ::shutdown(ep->fd, SHUT_WR);
    J e("PeerShutdown"); e.i("f", ep->wflow); e.emit_locked();
    sk.unlock();
}

static const uint64_t STALL_CAP = 3000 * 1000;
// The staller waits until the partner is blocked in a call (its last syscall said EAGAIN; given up after 30 ms) and then does
// nothing until that call has returned - the partner's timeout must end it.  STALL_CAP bounds the wait when it does not.
static void stall_for_partner(Task* tk) {
    Task* p = tk->partner;
    tk->w.where = "stall";
    if (!p || !p->lib) { photon::thread_usleep(tk->stall); return; }
    uint64_t t0 = photon::__update_now();
    auto blocked = [&] { return p->cx.active && p->cx.eagain_run > 0; };
    while (!p->prog_done.load() && !blocked() && photon::now - t0 < 30000) photon::thread_usleep(100);
    if (p->prog_done.load() || !blocked()) return;
    int seq = p->resp_seq.load();
    while (!p->prog_done.load() && p->resp_seq.load() == seq && photon::now - t0 < STALL_CAP) photon::thread_usleep(200);
}

static void raw_task(Task* tk) {
    vt::Rng r(tk->seed);
    Endpoint* ep = tk->ep;
    std::vector<char> buf(tk->maxchunk + 1);
    int64_t done = 0; bool stalled = false;
    int64_t stall_at = tk->stall ? (int64_t)r.below(tk->total + 1) : -1;
    int idle = 0;
    while (done < tk->total && idle < 20000) {
        if (!stalled && tk->stall && done >= stall_at) { stalled = true; stall_for_partner(tk); }
        pause_us(pick_pause(r));
        int want = 1 + (int)r.below(tk->maxchunk);
        if (want > tk->total - done) want = (int)(tk->total - done);
        auto& sk = vt::sink(); sk.lock();
        ssize_t res; int en;
        if (tk->role == 1) {
            int64_t pos = g_flow[ep->wflow].sent;
            for (int i = 0; i < want; i++) buf[i] = (char)val(ep->wflow, pos + i);
            res = real::f().send(ep->fd, buf.data(), want, MSG_DONTWAIT | MSG_NOSIGNAL); en = res < 0 ? errno : 0;
            if (res > 0) { g_flow[ep->wflow].sent += res; J e("PeerWrite"); e.i("f", ep->wflow).i("r", res); e.emit_locked(); }
        } else {
            res = real::f().recv(ep->fd, buf.data(), want, MSG_DONTWAIT); en = res < 0 ? errno : 0;
            if (res >= 0) {
                iovec v{buf.data(), (size_t)res};
                J e("PeerRead"); e.i("f", ep->rflow).i("r", res).i("ck", res > 0 ? cksum(&v, 1, res) : 0); e.emit_locked();
                if (res > 0) g_flow[ep->rflow].rcvd += res;
            }
        }
        sk.unlock();
        if (res > 0) { done += res; idle = 0; }
        else if (res == 0 && tk->role == 0) return;                 // EOF seen by the raw reader: nothing left to drain
        else if (res < 0 && (en == EAGAIN || en == EINTR)) { idle++; tk->w.where = tk->role ? "peer-write-wait" : "peer-read-wait"; photon::thread_usleep(100 + r.below(300)); }
        else if (res < 0) { vt::Ev("PeerError").i("f", tk->role ? ep->wflow : ep->rflow).i("en", en); break; }
    }
    if (tk->role == 1) shut_wr(ep); else drain(ep, tk);
}

static void lib_task(Task* tk) {
    Endpoint* ep = tk->ep;
    CallCtx& cx = tk->cx;
    int f = tk->role ? ep->wflow : ep->rflow;
    for (auto& op : tk->prog) {
        pause_us(op.pause);
        int n = 0; for (int l : op.iov) n += l;
        // user buffers: separate regions with guard gaps, so that a pointer identifies (element, offset)
        size_t cnt = op.iov.size();
        std::vector<unsigned char> arena(n + 24 * (cnt + 2) + 64, 0xEE);
        std::vector<iovec> uiov(cnt);
        size_t at = 24;
        int64_t pos0 = tk->role ? g_flow[f].sent : g_flow[f].rcvd;
        int64_t flat = 0;
        for (size_t j = 0; j < cnt; j++) {
            uiov[j].iov_base = arena.data() + at; uiov[j].iov_len = op.iov[j];
            if (tk->role) for (int k = 0; k < op.iov[j]; k++) arena[at + k] = (unsigned char)val(f, pos0 + flat + k);
            flat += op.iov[j]; at += op.iov[j] + 24;
        }
        std::vector<iovec> arg = uiov;            // the library gets its own copy of the vector
        cx.uiov = uiov; cx.moved = 0; cx.eagain_run = 0; cx.rep = 0; cx.last_x.clear();
        vt::Arr ia; for (int l : op.iov) ia.i(l);
        uint64_t t0 = photon::__update_now();
        tk->w.where = op.d.name;
        vt::Ev("Inv").i("t", cx.t).s("op", op.d.name).i("f", f).i("rw", op.d.rw).i("loop", op.d.loop).i("vec", op.d.vec)
            .raw("iov", ia.str()).i("n", n).i("to", ep->to).i("ep", ep->id);
        cx.active = true;
        errno = 0;
        ssize_t ret;
        const std::string nm = op.d.name;
        void* b0 = arg[0].iov_base;
        if (!ep->fdapi) {
            auto s = ep->s;
            if (nm == "read") ret = s->read(b0, n);
            else if (nm == "readv") ret = s->readv(arg.data(), (int)cnt);
            else if (nm == "recv") ret = s->recv(b0, n);
            else if (nm == "recvv") ret = s->recv(arg.data(), (int)cnt);
            else if (nm == "write") ret = s->write(b0, n);
            else if (nm == "writev") ret = s->writev(arg.data(), (int)cnt);
            else if (nm == "send") ret = s->send(b0, n);
            else ret = s->send(arg.data(), (int)cnt);
        } else {
            Timeout to; if (ep->to >= 0) to = Timeout((uint64_t)ep->to);
            int fd = ep->fd;
            if (nm == "fread_n") ret = net::read_n(fd, b0, n, to);
            else if (nm == "freadv_n") ret = net::readv_n(fd, arg.data(), (int)cnt, to);
            else if (nm == "fread") ret = net::read(fd, b0, n, to);
            else if (nm == "freadv") ret = net::readv(fd, arg.data(), (int)cnt, to);
            else if (nm == "frecv") ret = net::recv(fd, b0, n, 0, to);
            else if (nm == "fwrite_n") ret = net::write_n(fd, b0, n, to);
            else if (nm == "fwritev_n") ret = net::writev_n(fd, arg.data(), (int)cnt, to);
            else if (nm == "fwrite") ret = net::write(fd, b0, n, to);
            else if (nm == "fwritev") ret = net::writev(fd, arg.data(), (int)cnt, to);
            else if (nm == "fsend") ret = net::send(fd, b0, n, MSG_NOSIGNAL, to);
            else if (nm == "fsend_n") ret = net::send_n(fd, b0, n, MSG_NOSIGNAL, to);
            else if (nm == "fsendv") ret = net::sendv(fd, arg.data(), (int)cnt, 0, to);
            else ret = net::sendv_n(fd, arg.data(), (int)cnt, 0, to);
        }
        int en = ret < 0 ? errno : 0;
        cx.active = false;
        uint64_t t1 = photon::__update_now();
        // what arrived in the user's buffers: checksum of the first `moved` bytes, and whether everything else is untouched
        int64_t m = cx.moved; int ck = 0; int clean = 1;
        if (!tk->role) {
            ck = cksum(uiov.data(), (int)cnt, (size_t)m);
            int64_t left = m; size_t p = 0;
            for (size_t j = 0; j < cnt; j++) {
                unsigned char* b = (unsigned char*)uiov[j].iov_base; size_t fill = left < (int64_t)uiov[j].iov_len ? (size_t)left : uiov[j].iov_len;
                left -= fill;
                for (; p < (size_t)(b - arena.data()); p++) if (arena[p] != 0xEE) clean = 0;      // gap before this element
                p += fill;
                for (; p < (size_t)(b - arena.data()) + uiov[j].iov_len; p++) if (arena[p] != 0xEE) clean = 0;
            }
            for (; p < arena.size(); p++) if (arena[p] != 0xEE) clean = 0;
        }
        {
            vt::Ev e("Resp");
            e.i("t", cx.t).s("op", op.d.name).i("f", f).i("r", ret).i("en", en).i("m", m).i("ck", ck).i("clean", clean).i("dt", (int64_t)(t1 - t0));
            if (cx.rep) { e.i("rep", cx.rep); cx.rep = 0; }
        }
        tk->resp_seq++;
        if (ret < 0 && en != ETIMEDOUT && en != ECANCELED) break;
        if (!tk->role && op.d.loop && ret >= 0 && ret < n) break;        // end of stream
        if (!tk->role && !op.d.loop && ret == 0 && n > 0) break;
    }
    tk->w.where = "finish";
    tk->prog_done = true;
    if (tk->role == 1) shut_wr(ep); else drain(ep, tk);
}

// ------------------------------------------------------------------------------------------------ one execution
static int64_t pick_timeout(vt::Rng& r) {
    int c = (int)r.below(20);
    if (c < 11) return -1;                         // none
    if (c < 13) return 20 * 1000 * 1000;           // long: must behave like none within an execution
    if (c < 19) return 500 + r.below(6000);        // short: really expires when the partner stalls
    return 0;
}

// returns 0 = done, 4 = a thread hung, 2 = the sockets could not be set up (infrastructure)
static int run_exec(int ex, vt::Rng& r) {
    g_truncated = false;
    for (auto& fl : g_flow) fl = FlowMirror();
    int nconn = 1 + (int)r.below(2);
    bool small = true;
    std::vector<std::unique_ptr<Conn>> conns;
    Kind kind0 = K_UDS;
    try {
        for (int ci = 0; ci < nconn; ci++) {
            Kind k = g_fdapi ? K_PAIR : (r.below(3) == 0 ? K_TCP : K_UDS);
            if (ci == 0) kind0 = k;
            bool both = r.below(4) == 0;
            conns.emplace_back(new Conn());
            make_conn(*conns.back(), ci, k, both, small, r);
        }
    } catch (Fail& f) {
        fprintf(stderr, "h_sock: setup failed: %s errno=%d\n", f.what.c_str(), errno);
        return 2;
    }
    g_inj_level = (int)r.below(3);
    g_injrng = vt::Rng(r.next());
    for (auto& c : conns) for (int s = 0; s < 2; s++) {
        auto& e = c->e[s];
        e.to = e.lib ? pick_timeout(r) : -1;
        if (e.s) e.s->timeout(e.to < 0 ? -1UL : (uint64_t)e.to);
        if (e.lib) { auto& fi = g_fd[e.fd]; fi.watch = true; fi.ep = e.id; fi.wflow = e.wflow; fi.rflow = e.rflow; fi.et = g_et; }
    }
    // flows: each direction of each connection is used with probability 2/3 (at least one overall)
    std::vector<std::unique_ptr<Task>> tasks;
    int tid = 0;
    vt::Arr fa;
    bool any = false;
    for (int pass = 0; pass < 2 && !any; pass++)
    for (auto& c : conns) for (int s = 0; s < 2; s++) {
        if (!(pass == 1 || r.below(3) < 2)) continue;
        if (pass == 1 && any) continue;
        any = true;
        Endpoint* wr = &c->e[s]; Endpoint* rd = &c->e[1 - s];
        int64_t W, D;
        if (g_big) { W = 1500 + r.below(40000); D = r.below(4) == 0 ? W + 1 + r.below(3000) : (r.below(4) == 0 ? r.below(W + 1) : W); }
        else { W = r.below(25); D = r.below(3) == 0 ? r.below(25) : W; if (D == 0) D = 1 + r.below(4); }
        fa.i(wr->wflow);
        for (int role = 1; role >= 0; role--) {
            Endpoint* ep = role ? wr : rd; Endpoint* other = role ? rd : wr;
            int64_t tot = role ? W : D;
            tasks.emplace_back(new Task()); Task* tk = tasks.back().get();
            tk->ep = ep; tk->role = role; tk->lib = ep->lib; tk->seed = r.next();
            tk->w.id = tk->cx.t = ++tid;
            tk->total = tot;
            tk->maxchunk = g_big ? (r.coin() ? 3000 : 20000) : (r.coin() ? 3 : 8);
            if (role == 0) { Task* wtk = tasks[tasks.size() - 2].get(); tk->partner = wtk; wtk->partner = tk; }
            if (other->lib && other->to > 0 && other->to < 1000000 && r.below(3) < 2) tk->stall = other->to + 1500 + r.below(3000);
            if (tk->lib) {
                int64_t left = tot; int guard = 0;
                int nops = 1 + (int)r.below(g_ops);
                for (int k = 0; k < nops && guard++ < 16; k++) {
                    Op op;
                    const OpDef* tab = ep->fdapi ? FD_OPS : STREAM_OPS; int ntab = ep->fdapi ? 13 : 8;
                    do { op.d = tab[r.below(ntab)]; } while (op.d.rw != role);
                    int64_t n = (k == nops - 1) ? left : (int64_t)r.below(left + 1);
                    if (!role && n == 0) n = 1 + r.below(3);          // a read-type call asks for at least one byte
                    if (!role && !op.d.loop && r.coin()) n += r.below(6);   // recv: a buffer larger than what will come
                    op.iov = split_iov((int)n, r, op.d.vec);
                    if (!role) { bool allz = true; for (int l : op.iov) if (l) allz = false; if (allz) op.iov.back() = 1; }
                    op.pause = pick_pause(r);
                    if (other->lib == false && tk->stall == 0 && ep->to > 0 && ep->to < 1000000 && r.below(6) == 0) op.pause = 50;
                    left -= n < left ? n : left;
                    tk->prog.push_back(op);
                }
                if (tk->stall && !tk->prog.empty()) { tk->prog[r.below(tk->prog.size())].pause = tk->stall; }
            }
        }
    }
    // two tasks of one library endpoint share the stream; register the call contexts
    g_nctx = 0;
    for (auto& t : tasks) if (t->lib) g_ctx[g_nctx++] = &t->cx;
    int intr = r.below(8) == 0 ? 1 + (int)r.below(2) : 0;
    {
        vt::Arr ta;
        for (auto& c : conns) for (int s = 0; s < 2; s++) { vt::Arr e; e.i(c->e[s].id).i(c->e[s].lib).i(c->e[s].to); ta.raw(e.str()); }
        vt::Ev("Reset").s("prim", g_prim).i("ex", ex).s("kind", KINDN[kind0]).i("nconn", nconn).i("inj", g_inj_level).i("et", g_et)
            .raw("flows", fa.str()).raw("eps", ta.str()).i("intr", intr);
    }
    std::vector<vtp::Worker*> ws;
    for (auto& t : tasks) {
        Task* tk = t.get();
        tk->w.body = [tk] { tk->cx.th = photon::CURRENT; if (tk->lib) lib_task(tk); else raw_task(tk); };
        ws.push_back(&tk->w);
    }
    { vtp::GateGuard gg; for (auto w : ws) vtp::spawn_on(w, g_vc.vc[0]); for (auto& t : tasks) t->cx.th = t->w.th; }
    // interrupter: a few interrupts aimed at library tasks
    std::atomic<bool> istop{false}; photon::join_handle* ijh = nullptr;
    if (intr) {
        uint64_t is = r.next();
        auto th = photon::thread_create11([&, is, intr] {
            vt::Rng rr(is);
            for (int k = 0; k < intr && !istop.load(); k++) {
                photon::thread_usleep(50 + rr.below(1500));
                std::vector<Task*> cand; for (auto& t : tasks) if (t->lib && !t->w.done.load()) cand.push_back(t.get());
                if (cand.empty()) break;
                Task* v = cand[rr.below(cand.size())];
                vt::Ev("Interrupt").i("t", v->cx.t).i("en", ECANCELED);
                photon::thread_interrupt(v->w.th, ECANCELED);
            }
        });
        ijh = photon::thread_enable_join(th);
    }
    bool ok = vtp::wait_done(ws, 6 * 1000 * 1000, g_prim.c_str());
    istop = true;
    if (ijh) photon::thread_join(ijh);
    if (!ok) return 4;
    vtp::join_all(ws);
    {
        vt::Arr s, rc; for (int i = 0; i < 2 * nconn; i++) { s.i(g_flow[i].sent); rc.i(g_flow[i].rcvd); }
        vt::Ev("Quiesce").raw("sent", s.str()).raw("rcvd", rc.str()).i("trunc", g_truncated);
    }
    g_nctx = 0;
    for (auto& c : conns) for (int s = 0; s < 2; s++) {
        auto& e = c->e[s];
        int fd = e.fd;
        if (e.s) delete e.s; else if (fd >= 0) close(fd);
        if (fd >= 0 && fd < MAXFD) g_fd[fd] = FdInfo();
        for (size_t i = 0; i < g_epreg.size();) if (g_epreg[i].fd == fd) g_epreg.erase(g_epreg.begin() + i); else i++;
    }
    return 0;
}

// many connections whose readers are all blocked, then made readable at once: the engine's 16-event batch boundary
static int run_batch(int ex, vt::Rng& r) {
    g_truncated = false;
    for (auto& fl : g_flow) fl = FlowMirror();
    int nconn = 17 + (int)r.below(8);
    std::vector<std::unique_ptr<Conn>> conns;
    try {
        for (int ci = 0; ci < nconn; ci++) { conns.emplace_back(new Conn()); make_conn(*conns.back(), ci, g_fdapi ? K_PAIR : K_UDS, false, true, r); }
    } catch (Fail& f) { fprintf(stderr, "h_sock: setup failed: %s errno=%d\n", f.what.c_str(), errno); return 2; }
    g_inj_level = (int)r.below(2);
    g_injrng = vt::Rng(r.next());
    std::vector<std::unique_ptr<Task>> tasks;
    vt::Arr fa, ta;
    int tid = 0;
    for (auto& c : conns) {
        auto& e = c->e[0];
        e.to = -1; if (e.s) e.s->timeout(-1UL);
        auto& fi = g_fd[e.fd]; fi.watch = true; fi.ep = e.id; fi.wflow = e.wflow; fi.rflow = e.rflow; fi.et = g_et;
        fa.i(e.rflow);
        for (int s = 0; s < 2; s++) { vt::Arr x; x.i(c->e[s].id).i(c->e[s].lib).i(c->e[s].to); ta.raw(x.str()); }
        tasks.emplace_back(new Task()); Task* tk = tasks.back().get();
        tk->ep = &e; tk->role = 0; tk->lib = true; tk->seed = r.next(); tk->w.id = tk->cx.t = ++tid;
        Op op; const OpDef* tab = e.fdapi ? FD_OPS : STREAM_OPS; int ntab = e.fdapi ? 13 : 8;
        do { op.d = tab[r.below(ntab)]; } while (op.d.rw != 0);
        op.iov = split_iov(1 + (int)r.below(3), r, op.d.vec); op.pause = 0;
        tk->prog.push_back(op);
    }
    g_nctx = 0;
    for (auto& t : tasks) g_ctx[g_nctx++] = &t->cx;
    vt::Ev("Reset").s("prim", g_prim).i("ex", ex).s("kind", "batch").i("nconn", nconn).i("inj", g_inj_level).i("et", g_et)
        .raw("flows", fa.str()).raw("eps", ta.str()).i("intr", 0);
    std::vector<vtp::Worker*> ws;
    for (auto& t : tasks) { Task* tk = t.get(); tk->w.body = [tk] { tk->cx.th = photon::CURRENT; lib_task(tk); }; ws.push_back(&tk->w); }
    vtp::Worker burst; burst.id = 60;
    uint64_t bseed = r.next();
    burst.body = [&] {
        vt::Rng rr(bseed);
        burst.where = "burst-wait";
        photon::thread_usleep(1500 + rr.below(2000));
        std::vector<int> order; for (int i = 0; i < nconn; i++) order.insert(order.begin() + rr.below(order.size() + 1), i);
        int hold = rr.below(3) == 0 ? (int)rr.below(nconn) : -1;       // sometimes one connection gets its bytes later
        for (int pass = 0; pass < 2; pass++) {
            for (int ci : order) {
                if ((pass == 0) == (ci == hold)) continue;
                Endpoint* ep = &conns[ci]->e[1];
                int n = 1 + (int)rr.below(4); char buf[8];
                auto& sk = vt::sink(); sk.lock();
                int64_t pos = g_flow[ep->wflow].sent;
                for (int i = 0; i < n; i++) buf[i] = (char)val(ep->wflow, pos + i);
                ssize_t res = real::f().send(ep->fd, buf, n, MSG_DONTWAIT | MSG_NOSIGNAL);
                if (res > 0) { g_flow[ep->wflow].sent += res; J e("PeerWrite"); e.i("f", ep->wflow).i("r", res); e.emit_locked(); }
                sk.unlock();
            }
            if (pass == 0) { burst.where = "burst-pause"; photon::thread_usleep(300 + rr.below(1500)); }
        }
        for (int ci : order) shut_wr(&conns[ci]->e[1]);
    };
    ws.push_back(&burst);
    { vtp::GateGuard gg; for (auto w : ws) vtp::spawn_on(w, g_vc.vc[0]); for (auto& t : tasks) t->cx.th = t->w.th; }
    if (!vtp::wait_done(ws, 6 * 1000 * 1000, g_prim.c_str())) return 4;
    vtp::join_all(ws);
    {
        vt::Arr s, rc; for (int i = 0; i < 2 * nconn; i++) { s.i(g_flow[i].sent); rc.i(g_flow[i].rcvd); }
        vt::Ev("Quiesce").raw("sent", s.str()).raw("rcvd", rc.str()).i("trunc", g_truncated);
    }
    g_nctx = 0;
    for (auto& c : conns) for (int s = 0; s < 2; s++) {
        auto& e = c->e[s]; int fd = e.fd;
        if (e.s) delete e.s; else if (fd >= 0) close(fd);
        if (fd >= 0 && fd < MAXFD) g_fd[fd] = FdInfo();
        for (size_t i = 0; i < g_epreg.size();) if (g_epreg[i].fd == fd) g_epreg.erase(g_epreg.begin() + i); else i++;
    }
    return 0;
}

int main(int argc, char** argv) {
    real::f();
    g_prim = vt::arg(argc, argv, "--prim", "epoll");
    g_execs = atoi(vt::arg(argc, argv, "--execs", "50"));
    g_seed = strtoull(vt::arg(argc, argv, "--seed", "1"), 0, 10);
    g_threads = atoi(vt::arg(argc, argv, "--threads", "3"));
    g_ops = atoi(vt::arg(argc, argv, "--ops", "3"));
    if (g_ops < 1) g_ops = 1; if (g_ops > 4) g_ops = 4;
    std::string p = g_prim;
    if (p.size() > 3 && p.substr(p.size() - 3) == "big") { g_big = true; p = p.substr(0, p.size() - 3); }
    uint64_t ev = photon::INIT_EVENT_EPOLL, io = photon::INIT_IO_NONE;
    bool batch = false;
    if (p.size() > 5 && p.substr(0, 5) == "batch") { batch = true; p = p.substr(5); }
    if (p == "epollng") ev = photon::INIT_EVENT_EPOLL_NG;
    else if (p == "et") { g_et = true; io = photon::INIT_IO_SOCKET_EDGE_TRIGGER; }
    else if (p == "fdapi") g_fdapi = true;
    else if (p != "epoll") { fprintf(stderr, "unknown --prim %s\n", g_prim.c_str()); return 2; }
    g_log_epoll = !vt::flag(argc, argv, "--no-epoll-log");
    vt::open(vt::arg(argc, argv, "--out", "-"));
    signal(SIGPIPE, SIG_IGN);
    set_log_output_level(ALOG_ERROR + 1);
    char tmpl[] = "/tmp/c10h.XXXXXX";
    if (!mkdtemp(tmpl)) { perror("mkdtemp"); return 2; }
    g_dir = tmpl;
    if (photon::init(ev, io) < 0) { fprintf(stderr, "photon::init failed\n"); return 2; }
    g_t0 = photon::__update_now();
    g_vc.start(1);
    vtp::Watchdog wd; wd.start(25, g_prim.c_str());
    vt::Rng r(g_seed * 1000003 + std::hash<std::string>()(g_prim) % 1000);
    int rc = 0;
    for (int ex = 0; ex < g_execs && !rc; ex++) rc = batch ? run_batch(ex, r) : run_exec(ex, r);
    wd.end();
    vt::close();
    rmdir(g_dir.c_str());
    if (rc) _exit(rc);      // a hung photon thread cannot be cleaned up
    g_vc.stop();
    photon::fini();
    return 0;
}
