// vt-build: light
// C15 harness: runs the real range_split / range_split_power2 / range_split_vi on an
// exhaustive small scope and on seeded random large values, and logs, per case, everything
// the property talks about.  One ndjson line per case; judged by spec/Trace_RangeSplit.tla.
#include <photon/fs/range-split.h>
#include <photon/fs/range-split-vi.h>
#include <vector>
#include <algorithm>
#include "vt.h"
using namespace photon::fs;

static const uint64_t INF_TAG = 1000000;   // how UINT64_MAX key point is logged

static std::string sub(const sub_range& s, uint64_t shift) {
    // an empty (cleared) sub_range keeps i/offset of whatever it was; only length matters
    uint64_t i = s.i >= shift ? s.i - shift : s.i;
    return vt::Arr().u(s.length ? i : 0).u(s.length ? s.offset : 0).u(s.length).str();
}

template <class RS>
static void emit(const char* kind, const RS& rs, uint64_t I, const std::vector<uint64_t>* kp,
                 uint64_t off, uint64_t len, uint64_t shift /* blocks subtracted from every index */,
                 uint64_t blk /* size of one block for translation */) {
    vt::note(std::string(kind) + " I=" + std::to_string(I) + " off=" + std::to_string(off) + " len=" + std::to_string(len));
    uint64_t cap = len + 4;  // same fuel as the specification (Fuel(S) = length + 4), capped for huge len
    if (cap > 64) cap = 64;
    vt::Arr all, al;
    bool allrun = false, alrun = false;
    {
        uint64_t n = 0;
        auto parts = rs.all_parts();
        for (auto it = parts.begin(); it != parts.end(); ++it) {
            if (n++ >= cap) { allrun = true; break; }
            all.raw(vt::Arr().u(it->i - shift).u(it->offset).u(it->length).str());
        }
    }
    {
        uint64_t n = 0;
        auto parts = rs.aligned_parts();
        for (auto it = parts.begin(); it != parts.end(); ++it) {
            if (n++ >= cap) { alrun = true; break; }
            al.raw(vt::Arr().u(it->i - shift).u(it->offset).u(it->length).str());
        }
    }
    vt::Ev e("Split");
    e.s("k", kind).u("I", I).u("off", off - shift * blk).u("len", len).u("cap", cap);
    if (kp) { vt::Arr a; for (auto x : *kp) a.u(x == UINT64_MAX ? INF_TAG : x); e.raw("kp", a.str()); }
    else e.raw("kp", "[]");
    e.u("ab", rs.abegin - shift).u("ae", rs.aend - shift).u("apb", rs.apbegin - shift).u("ape", rs.apend - shift);
    uint64_t abo = rs.aligned_begin_offset(), aeo = rs.aligned_end_offset();
    e.u("abo", abo == UINT64_MAX ? INF_TAG : abo - shift * blk).u("aeo", aeo == UINT64_MAX ? INF_TAG : aeo - shift * blk);
    e.raw("small", sub(rs.small_note, shift)).raw("pre", sub(rs.preface, shift)).raw("post", sub(rs.postface, shift));
    e.raw("all", all.str()).b("allrun", allrun).raw("al", al.str()).b("alrun", alrun);
}

int main(int argc, char** argv) {
    vt::open(vt::arg(argc, argv, "--out", "-"));
    uint64_t seed = strtoull(vt::arg(argc, argv, "--seed", "1"), 0, 10);
    bool thorough = !strcmp(vt::arg(argc, argv, "--tier", "quick"), "thorough");
    uint64_t maxI = thorough ? 9 : 5, mul = thorough ? 4 : 3, maxS = thorough ? 4 : 3, top = thorough ? 7 : 5;
    // exhaustive scope (same as MC_RangeSplit_<tier>.cfg)
    for (uint64_t I = 1; I <= maxI; I++)
        for (uint64_t o = 0; o <= mul * I + 1; o++)
            for (uint64_t n = 0; n <= mul * I + 2; n++)
                emit("fixed", range_split(o, n, I), I, nullptr, o, n, 0, I);
    for (uint64_t s = 0; s <= maxS; s++) {
        uint64_t I = 1ull << s;
        for (uint64_t o = 0; o <= mul * I + 1; o++)
            for (uint64_t n = 0; n <= mul * I + 2; n++)
                emit("pow2", range_split_power2(o, n, I), I, nullptr, o, n, 0, I);
    }
    for (uint64_t m = 1; m < (1ull << top); m++) {
        std::vector<uint64_t> kp{0};
        for (uint64_t b = 0; b < top; b++) if (m >> b & 1) kp.push_back(b + 1);
        uint64_t span = kp.back();
        kp.push_back(UINT64_MAX);
        for (uint64_t o = 0; o <= mul * span + 1; o++)
            for (uint64_t n = 0; n <= mul * span + 2; n++)
                emit("vi", range_split_vi(o, n, kp.data(), kp.size()), 0, &kp, o, n, 0, 0);
    }
    // seeded random large values (offsets up to 2^62), logged translated by a multiple of the interval
    vt::Rng r(seed);
    int N = thorough ? 20000 : 3000;
    for (int k = 0; k < N; k++) {
        bool p2 = r.coin();
        uint64_t I = p2 ? (1ull << r.below(21)) : 1 + r.below(1 << 20);
        uint64_t blocks = r.below(7);
        uint64_t len = r.coin(15) ? r.below(3) : blocks * I + r.below(I + 1);
        if (r.coin(20)) len = blocks * I;  // exactly aligned length
        uint64_t off = r.next() >> (2 + r.below(40));
        if (r.coin(30)) off = off / I * I;  // aligned start
        if (r.coin(10)) off = off / I * I + I - 1;
        uint64_t k0 = off / I, shift = k0 > 3 ? k0 - r.below(3) : 0;
        if (p2) emit("pow2", range_split_power2(off, len, I), I, nullptr, off, len, shift, I);
        else emit("fixed", range_split(off, len, I), I, nullptr, off, len, shift, I);
    }
    for (int k = 0; k < N / 4; k++) {
        std::vector<uint64_t> kp{0};
        int n = 1 + r.below(6);
        for (int j = 0; j < n; j++) kp.push_back(kp.back() + 1 + r.below(r.coin() ? 4 : 5000));
        uint64_t span = kp.back();
        kp.push_back(UINT64_MAX);
        uint64_t off = r.below(span + 3), len = r.below(span + 5);
        if (r.coin(30)) off = kp[r.below(kp.size() - 1)];
        if (r.coin(30)) { uint64_t e = kp[r.below(kp.size() - 1)]; len = e > off ? e - off : 0; }
        emit("vi", range_split_vi(off, len, kp.data(), kp.size()), 0, &kp, off, len, 0, 0);
    }
    vt::close();
    return 0;
}
