// C13 harness: the REAL Request/Response::receive_header, body read streams and body write streams
// of net/http, driven over a fragmenting ISocketStream.  For every message in scope it runs every
// fragmentation (cut set) x read-size pattern, groups the cases of one message by their complete
// observable outcome (parsed fields as buffer offsets, header index, look-ups, body bytes, read
// return codes) and writes
//   {"e":"M", ...}   one line per message (bytes as small integers),
//   {"e":"O", ...}   one line per distinct (read sizes, outcome) of that message with the number of cases
//                    that produced it, an example fragmentation and the largest number of socket calls,
//   {"e":"D", ...}   a case whose outcome changed with the stale content of the receive buffer.
// spec/Trace_HttpFraming.tla judges the lines with the reference grammar of spec/HttpFramingOps.tla.
// vt-flags: -I/repo
#include <photon/net/http/message.h>
#include <photon/net/socket.h>
#include <photon/common/alog.h>
#include "net/http/body.h"
#include <sys/mman.h>
#include <sys/uio.h>
#include <map>
#include <string>
#include <vector>
#include <algorithm>
#include "vt.h"
using namespace photon::net;
using namespace photon::net::http;
typedef std::string S;

// ------------------------------------------------------------------ fragmenting socket stream
struct FragStream : public ISocketStream {
    const char* data = nullptr; size_t len = 0, pos = 0;
    std::vector<uint32_t> cuts;          // ascending absolute positions where a fragment ends (end of data is implicit)
    size_t ci = 0;
    long ops = 0; bool runaway = false, closed = false;
    S wr;                                // bytes written (writer side)
    void set(const char* d, size_t n, const std::vector<uint32_t>& c, size_t start = 0) {
        data = d; len = n; pos = start; cuts = c; ci = 0; ops = 0; runaway = closed = false; wr.clear();
    }
    ssize_t recv(void* buf, size_t count, int = 0) override {
        if (++ops > 2000000) { runaway = true; errno = ELOOP; return -1; }
        if (pos >= len || count == 0) return 0;
        while (ci < cuts.size() && cuts[ci] <= pos) ci++;
        size_t fe = ci < cuts.size() ? cuts[ci] : len;
        size_t n = std::min(count, fe - pos);
        memcpy(buf, data + pos, n); pos += n;
        return n;
    }
    ssize_t recv(const struct iovec* iov, int iovcnt, int = 0) override {
        for (int i = 0; i < iovcnt; i++) if (iov[i].iov_len) return recv(iov[i].iov_base, iov[i].iov_len);
        return 0;
    }
    // IStream::read = fully read `count` bytes unless end of stream / error
    ssize_t read(void* buf, size_t count) override {
        size_t got = 0;
        while (got < count) { ssize_t r = recv((char*)buf + got, count - got); if (r < 0) return r; if (r == 0) break; got += r; }
        return got;
    }
    ssize_t readv(const struct iovec* iov, int iovcnt) override {
        ssize_t t = 0;
        for (int i = 0; i < iovcnt; i++) { ssize_t r = read(iov[i].iov_base, iov[i].iov_len); if (r < 0) return r; t += r; if ((size_t)r < iov[i].iov_len) break; }
        return t;
    }
    ssize_t write(const void* buf, size_t count) override { ops++; wr.append((const char*)buf, count); return count; }
    ssize_t writev(const struct iovec* iov, int iovcnt) override {
        ops++; ssize_t t = 0; for (int i = 0; i < iovcnt; i++) { wr.append((const char*)iov[i].iov_base, iov[i].iov_len); t += iov[i].iov_len; } return t;
    }
    ssize_t send(const void* buf, size_t count, int = 0) override { return write(buf, count); }
    ssize_t send(const struct iovec* iov, int iovcnt, int = 0) override { return writev(iov, iovcnt); }
    ssize_t sendfile(int, off_t, size_t) override { errno = ENOSYS; return -1; }
    int close() override { closed = true; return 0; }
    uint64_t timeout() const override { return -1ULL; }
    void timeout(uint64_t) override {}
    Object* get_underlay_object(uint64_t) override { return nullptr; }
    int setsockopt(int, int, const void*, socklen_t) override { return 0; }
    int getsockopt(int, int, void*, socklen_t*) override { return 0; }
    int getsockname(EndPoint&) override { return -1; }
    int getpeername(EndPoint&) override { return -1; }
    int getsockname(char*, size_t) override { return -1; }
    int getpeername(char*, size_t) override { return -1; }
};

struct Resp : public Response { using Response::Response; using Message::receive_header; using Message::partial_body; };
struct Req : public Request { using Request::Request; using Message::receive_header; using Message::partial_body; };

// ------------------------------------------------------------------ buffers (the end abuts an inaccessible page)
static const size_t ARENA = 1 << 17;
static char* g_arena_end;                 // first inaccessible byte
static char* g_buf; static size_t g_cap;  // message buffer in use
static char* g_rd; static const size_t RDMAX = 1 << 16;   // user read buffer (canary after the requested size)
static void setup_arena() {
    size_t pg = 4096;
    char* p = (char*)mmap(nullptr, ARENA + pg, PROT_READ | PROT_WRITE, MAP_PRIVATE | MAP_ANONYMOUS, -1, 0);
    if (p == MAP_FAILED) { perror("mmap"); exit(2); }
    mprotect(p + ARENA, pg, PROT_NONE);
    g_arena_end = p + ARENA;
    g_rd = (char*)malloc(RDMAX + 64);
}
static void use_cap(size_t cap) { g_cap = cap; g_buf = g_arena_end - cap; }
static long off(const char* p) { if (!p) return -1; long d = p - g_buf; return (d < 0 || d > (long)g_cap) ? -2 : d; }
static S ol(std::string_view v) { return "[" + std::to_string(off(v.data())) + "," + std::to_string((long)v.size()) + "]"; }
static S bytes(const S& s) { vt::Arr a; for (unsigned char c : s) a.i(c); return a.str(); }
static S ints(const std::vector<uint32_t>& v) { vt::Arr a; for (auto x : v) a.i(x); return a.str(); }
static S rle(const std::vector<long>& v) {
    vt::Arr a;
    for (size_t i = 0; i < v.size();) { size_t j = i; while (j < v.size() && v[j] == v[i]) j++; a.raw("[" + std::to_string(v[i]) + "," + std::to_string(j - i) + "]"); i = j; }
    return a.str();
}

// ------------------------------------------------------------------ reading a body to its end
static const size_t RS_INF = 60000;
struct BodyObs { S body; std::vector<long> rets; bool noend = false, over = false; };
static void drain(IStream* st, const std::vector<uint32_t>& rs, size_t bound, BodyObs& o) {
    size_t k = 0;
    for (size_t it = 0;; it++) {
        if (it > bound) { o.noend = true; return; }
        size_t want = rs[k++ % rs.size()];
        memset(g_rd + want, 0xA5, 16);
        ssize_t n = st->read(g_rd, want);
        for (int i = 0; i < 16; i++) if ((unsigned char)g_rd[want + i] != 0xA5) o.over = true;
        o.rets.push_back(n < 0 ? -1 : n);
        if (n <= 0) break;
        if ((size_t)n > want) { o.over = true; return; }
        o.body.append(g_rd, n);
    }
    if (o.rets.back() == 0) {              // end-of-body must be stable
        ssize_t n = st->read(g_rd, rs[0]);
        o.rets.push_back(n < 0 ? -1 : n);
        if (n > 0) o.body.append(g_rd, std::min<size_t>(n, RDMAX));
    }
}
static S body_json(const BodyObs& o) {
    S j = "\"body\":" + bytes(o.body) + ",\"rets\":" + rle(o.rets);
    if (o.noend) j += ",\"noend\":true";
    if (o.over) j += ",\"over\":true";
    return j;
}

// ------------------------------------------------------------------ one case = (message, fragmentation, read sizes, fill)
struct Msg {
    S kind;            // resp | resph (response to HEAD) | req | cbody | lbody | xbody
    S bytes;           // what the peer sends
    long n = 0;        // lbody: declared length
};
static FragStream g_st;

static S flipcase(std::string_view k) { S r(k); for (auto& c : r) { if (c >= 'a' && c <= 'z') c -= 32; else if (c >= 'A' && c <= 'Z') c += 32; } return r; }

template <class M> static S head_json(M& m, int rh) {
    S j = "\"rh\":" + std::to_string(rh < 0 ? -1 : rh);
    if (rh != 0) return j;
    j += ",\"ver\":" + ol(m.version());
    vt::Arr hs, lk;
    int cnt = 0;
    for (auto it = m.headers.begin(); it != m.headers.end() && cnt < 5000; it++, cnt++) {
        auto k = it.first(), v = it.second();
        hs.raw("[" + std::to_string(off(k.data())) + "," + std::to_string(k.size()) + "," + std::to_string(off(v.data())) + "," + std::to_string(v.size()) + "]");
        long ko = off(k.data());
        if (ko >= 0 && ko + k.size() <= g_cap && k.size() < 200 && cnt < 40) {
            auto it2 = m.headers.find(flipcase(k));
            lk.raw(it2 == m.headers.end() ? S("[-1,0]") : ol(it2.second()));
        } else lk.raw("[-3,0]");
    }
    j += ",\"hs\":" + hs.str() + ",\"lk\":" + lk.str();
    j += S(",\"nf\":") + (m.headers.find("Zq-None") == m.headers.end() ? "true" : "false");
    j += S(",\"ch\":") + (m.headers.chunked() ? "true" : "false");
    size_t bs = m.body_size();
    j += ",\"bs\":" + std::to_string(bs == SIZE_MAX ? -1L : (long)std::min<size_t>(bs, 1000000000));
    j += ",\"pb\":" + ol(m.partial_body());
    return j;
}

// runs one case and returns the outcome as a JSON object (without the braces)
static S run_case(const Msg& m, const std::vector<uint32_t>& cuts, bool pf, const std::vector<uint32_t>& rs, int fill, long* ops) {
    size_t L = m.bytes.size();
    size_t bound = L + 8;
    BodyObs bo; S j;
    if (m.kind == "resp" || m.kind == "resph" || m.kind == "req") {
        memset(g_buf, fill, std::min(g_cap, L + 64));
        g_st.set(m.bytes.data(), L, cuts);
        if (m.kind == "req") {
            Req r(g_buf, (uint16_t)g_cap); r.reset(&g_st, false);
            int rh = r.receive_header();
            j = head_json(r, rh);
            if (rh == 0) {
                j += ",\"vb\":" + std::to_string((int)r.verb()) + ",\"tg\":" + ol(r.target());
                drain(&r, rs, bound, bo); j += "," + body_json(bo);
            }
        } else {
            Resp r(g_buf, (uint16_t)g_cap);
            r.reset(g_buf, (uint16_t)g_cap, false, &g_st, false, m.kind == "resph" ? Verb::HEAD : Verb::GET);
            int rh = r.receive_header();
            j = head_json(r, rh);
            if (rh == 0) {
                j += ",\"code\":" + std::to_string(r.status_code()) + ",\"sm\":" + ol(r.status_message());
                drain(&r, rs, bound, bo); j += "," + body_json(bo);
            }
        }
    } else {
        // body streams constructed directly; the first fragment is handed over as the partial body when pf
        size_t p = 0; std::vector<uint32_t> c2 = cuts;
        if (pf) { p = cuts.empty() ? L : cuts[0]; if (!c2.empty()) c2.erase(c2.begin()); }
        char* lb = g_arena_end - 4096;                 // the chunk reader uses 4096 bytes from the partial body on
        memset(lb, fill, std::min<size_t>(4096, L + 64));
        memcpy(lb, m.bytes.data(), p);
        g_st.set(m.bytes.data(), L, c2, p);
        IStream* s = m.kind == "cbody" ? new_chunked_body_read_stream(&g_st, {lb, p})
                   : new_body_read_stream(&g_st, {lb, p}, m.kind == "xbody" ? SIZE_MAX : (size_t)m.n);
        drain(s, rs, bound, bo); j = body_json(bo);
        delete s;
    }
    if (g_st.runaway) j += ",\"runaway\":true";
    *ops = g_st.ops;
    return j;
}

// ------------------------------------------------------------------ a message with all its cases
struct Agg { long n = 0, mx = 0; std::vector<uint32_t> ex; bool expf = false; int exfill = 0; size_t order; };
struct Runner {
    const Msg* m; long id;
    std::vector<int> fills;
    std::map<S, Agg> outs;   // key = rs json + outcome json
    std::vector<S> order;
    long cases = 0, deps = 0;
    void one(const std::vector<uint32_t>& cuts, bool pf, const std::vector<uint32_t>& rs, bool allfills) {
        long ops = 0;
        S o = run_case(*m, cuts, pf, rs, fills[0], &ops);
        S key = "\"rs\":" + ints(rs) + ",\"o\":{" + o + "}";
        auto it = outs.find(key);
        if (it == outs.end()) { it = outs.emplace(key, Agg()).first; it->second.ex = cuts; it->second.expf = pf; it->second.exfill = fills[0]; order.push_back(key); }
        it->second.n++; it->second.mx = std::max(it->second.mx, ops);
        cases++;
        if (allfills) for (size_t f = 1; f < fills.size(); f++) {
            long ops2 = 0;
            S o2 = run_case(*m, cuts, pf, rs, fills[f], &ops2);
            cases++;
            if (o2 != o && deps < 3) {
                deps++;
                vt::Ev("D").i("id", id).raw("cuts", ints(cuts)).b("pf", pf).raw("rs", ints(rs)).i("fa", fills[0]).i("fb", fills[f])
                    .raw("a", "{" + o + "}").raw("b", "{" + o2 + "}");
            } else if (o2 == o) { it->second.n++; }
        }
    }
    void flush() {
        for (auto& k : order) {
            auto& a = outs[k];
            vt::Ev e("O"); e.i("id", id).i("n", a.n).i("mx", a.mx).raw("ex", ints(a.ex)).b("pf", a.expf).i("fill", a.exfill);
            e.j += "," + k;
        }
    }
};

static long g_id = 0; static long g_cases = 0;
static const std::vector<std::vector<uint32_t>> RS_STD = {{1}, {2}, {5}, {RS_INF}};

// every cut set with at most K cuts (positions 1..L-1), optionally thinned by a seeded coin for the largest size
template <class F> static void cutsets(size_t L, int K, F f) {
    std::vector<uint32_t> c;
    f(c);
    if (L < 2) return;
    for (uint32_t a = 1; a < L && K >= 1; a++) {
        c = {a}; f(c);
        for (uint32_t b = a + 1; b < L && K >= 2; b++) {
            c = {a, b}; f(c);
            for (uint32_t d = b + 1; d < L && K >= 3; d++) { c = {a, b, d}; f(c); }
        }
    }
}

struct Plan { int K = 2; int rnd3 = 0; bool bytewise = true; std::vector<int> fills = {0}; int fillK = 1; std::vector<std::vector<uint32_t>> rss = RS_STD; };

static void run_msg(const Msg& m, const Plan& pl, vt::Rng& rng) {
    long id = ++g_id;
    vt::note(m.kind + " #" + std::to_string(id));
    {
        vt::Ev e("M"); e.i("id", id).s("kind", m.kind).raw("msg", bytes(m.bytes));
        if (m.kind == "lbody") e.i("dn", m.n);
    }
    memset(g_buf, 0, g_cap);
    Runner R; R.m = &m; R.id = id; R.fills = pl.fills;
    size_t L = m.bytes.size();
    bool direct = !(m.kind == "resp" || m.kind == "resph" || m.kind == "req");
    for (auto& rs : pl.rss) {
        cutsets(L, pl.K, [&](const std::vector<uint32_t>& c) {
            bool af = (int)c.size() <= pl.fillK && pl.fills.size() > 1;
            R.one(c, false, rs, af);
            if (direct) R.one(c, true, rs, af);
        });
        for (int i = 0; i < pl.rnd3 && L > 4; i++) {       // seeded sample of larger cut sets
            size_t k = 3 + rng.below(4); std::vector<uint32_t> c;
            for (size_t q = 0; q < k; q++) c.push_back(1 + rng.below(L - 1));
            std::sort(c.begin(), c.end()); c.erase(std::unique(c.begin(), c.end()), c.end());
            R.one(c, direct && rng.coin(), rs, false);
        }
        if (pl.bytewise && L > 1) {                          // one byte per recv
            std::vector<uint32_t> c; for (uint32_t a = 1; a < L; a++) c.push_back(a);
            R.one(c, false, rs, pl.fills.size() > 1);
            if (direct) R.one(c, true, rs, false);
        }
    }
    R.flush();
    g_cases += R.cases;
}

// ------------------------------------------------------------------ scope
static S chunk(size_t n, char base) { char h[32]; snprintf(h, sizeof h, "%zx\r\n", n); S s = h; for (size_t i = 0; i < n; i++) s += (char)(base + i % 23); return s + "\r\n"; }
static S chunked_body(const std::vector<size_t>& sizes) { S s; char b = 'a'; for (auto n : sizes) { s += chunk(n, b); b = 'A'; } return s + "0\r\n\r\n"; }
static S payload(size_t n) { S s; for (size_t i = 0; i < n; i++) s += (char)('a' + i % 26); return s; }

int main(int argc, char** argv) {
    vt::open(vt::arg(argc, argv, "--out", "-"));
    signal(SIGALRM, vt::on_fatal);
    uint64_t seed = strtoull(vt::arg(argc, argv, "--seed", "1"), 0, 10);
    bool thorough = !strcmp(vt::arg(argc, argv, "--tier", "quick"), "thorough");
    S only = vt::arg(argc, argv, "--only", "");
    log_output = log_output_null;
    setup_arena();
    use_cap(65535);
    vt::Rng rng(seed);
    alarm(thorough ? 1500 : 300);
    auto want = [&](const char* part) { return only.empty() || only == part; };

    if (want("msg")) {
        // (A) complete messages through receive_header + read
        std::vector<Msg> ms = {
            {"resp", "HTTP/1.1 200 OK\r\nContent-Length: 5\r\n\r\nhello"},
            {"resp", "HTTP/1.1 200 OK\r\nTransfer-Encoding: chunked\r\n\r\n3\r\nabc\r\n0\r\n\r\n"},
            {"resp", "HTTP/1.1 200 OK\r\nConnection: close\r\n\r\nbye!"},
            {"resp", "HTTP/1.0 200 OK\r\n\r\nxy"},
            {"resp", "HTTP/1.1 404 Not Found\r\nB: 1\r\ncontent-length: 2\r\na:b\r\n\r\nhi"},
            {"resp", "HTTP/1.1 204 No Content\r\n\r\n"},
            {"resp", "HTTP/1.1 200 OK\r\nTRANSFER-ENCODING: chunked\r\nX-y:  z\r\n\r\na\r\n0123456789\r\n11\r\nABCDEFGHIJKLMNOPQ\r\n0\r\n\r\n"},
            {"resph", "HTTP/1.1 200 OK\r\nContent-Length: 5\r\n\r\n"},
            {"req", "GET /a?b=1 HTTP/1.1\r\nHost: x\r\n\r\n"},
            {"req", "POST /p HTTP/1.1\r\nContent-Length: 3\r\n\r\nabc"},
            {"req", "PUT /u HTTP/1.1\r\nhost: h\r\nTransfer-Encoding: chunked\r\n\r\n2\r\nhi\r\n1\r\n!\r\n0\r\n\r\n"},
        };
        Plan pl; pl.K = thorough ? 3 : 2; pl.rnd3 = thorough ? 2000 : 300; pl.fills = {0, '\r'}; pl.fillK = 1;
        for (auto& m : ms) run_msg(m, pl, rng);
    }
    if (want("body")) {
        // (B) body streams directly: chunk sizes {0,1,2,3,10,16,17}, at most 2 chunks; fixed length; close-delimited
        std::vector<size_t> cs = {1, 2, 3, 10, 16, 17};
        Plan pl; pl.K = thorough ? 3 : 2; pl.rnd3 = thorough ? 500 : 100;
        std::vector<Msg> ms;
        ms.push_back({"cbody", chunked_body({})});
        for (auto a : cs) ms.push_back({"cbody", chunked_body({a})});
        for (auto a : cs) for (auto b : cs) ms.push_back({"cbody", chunked_body({a, b})});
        for (size_t n : {0, 1, 2, 5, 20}) { Msg m{"lbody", payload(n)}; m.n = n; ms.push_back(m); }
        for (size_t n : {0, 1, 7, 20}) ms.push_back({"xbody", payload(n)});
        for (auto& m : ms) run_msg(m, pl, rng);
    }
    vt::Ev("End").i("messages", g_id).i("cases", g_cases);
    vt::close();
    return 0;
}
