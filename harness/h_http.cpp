// C13 harness: the REAL Request/Response::receive_header, body read streams and body write streams
// of net/http, driven over a fragmenting ISocketStream.  For every message in scope it runs every
// fragmentation (cut set) x read-size pattern, groups the cases of one message by their complete
// observable outcome (parsed fields as buffer offsets, header index, look-ups, body bytes, read
// return codes) and writes
//   {"e":"M", ...}   one line per message (bytes as small integers; for writer kinds also what was written),
//   {"e":"O", ...}   one line per distinct (read sizes, outcome) of that message with the number of cases
//                    that produced it, an example fragmentation and the largest number of socket calls,
//   {"e":"D", ...}   a case whose outcome changed with the stale content of the receive buffer,
//   {"e":"L", ...}   a large message (run-length coded) with its outcomes (see big()).
// spec/Trace_HttpFraming.tla judges the lines with the reference grammar of spec/HttpFramingOps.tla.
// The receive buffer ends at an inaccessible page; a fault is recovered and recorded as outcome {"fatal":sig}.
// vt-flags: -I/repo
#include <photon/net/http/message.h>
#include <photon/net/socket.h>
#include <photon/common/alog.h>
#include "net/http/body.h"
#include <sys/mman.h>
#include <sys/uio.h>
#include <setjmp.h>
#include <map>
#include <string>
#include <vector>
#include <algorithm>
#include "vt.h"
using namespace photon::net;
using namespace photon::net::http;
typedef std::string S;
typedef std::vector<uint32_t> V32;

// ------------------------------------------------------------------ fragmenting socket stream
struct FragStream : public ISocketStream {
    const char* data = nullptr; size_t len = 0, pos = 0;
    V32 cuts;                            // ascending absolute positions where a fragment ends (end of data is implicit)
    size_t ci = 0;
    long ops = 0; bool runaway = false, closed = false;
    S wr;                                // bytes written (writer side)
    void set(const char* d, size_t n, const V32& c, size_t start = 0) {
        data = d; len = n; pos = start; cuts = c; ci = 0; ops = 0; runaway = closed = false; wr.clear();
    }
    ssize_t recv(void* buf, size_t count, int = 0) override {
        if (++ops > 2000000) { runaway = true; errno = ELOOP; return -1; }
        if (pos >= len || count == 0) return 0;
        while (ci < cuts.size() && cuts[ci] <= pos) ci++;
        size_t fe = ci < cuts.size() ? cuts[ci] : len;
        size_t n = std::min(count, fe - pos);
        memcpy(buf, data + pos, n); pos += n;
        return n;
    }
    ssize_t recv(const struct iovec* iov, int iovcnt, int = 0) override {
        for (int i = 0; i < iovcnt; i++) if (iov[i].iov_len) return recv(iov[i].iov_base, iov[i].iov_len);
        return 0;
    }
    // IStream::read = fully read `count` bytes unless end of stream / error
    ssize_t read(void* buf, size_t count) override {
        size_t got = 0;
        while (got < count) { ssize_t r = recv((char*)buf + got, count - got); if (r < 0) return r; if (r == 0) break; got += r; }
        return got;
    }
    ssize_t readv(const struct iovec* iov, int iovcnt) override {
        ssize_t t = 0;
        for (int i = 0; i < iovcnt; i++) { ssize_t r = read(iov[i].iov_base, iov[i].iov_len); if (r < 0) return r; t += r; if ((size_t)r < iov[i].iov_len) break; }
        return t;
    }
    ssize_t write(const void* buf, size_t count) override { ops++; wr.append((const char*)buf, count); return count; }
    ssize_t writev(const struct iovec* iov, int iovcnt) override {
        ops++; ssize_t t = 0; for (int i = 0; i < iovcnt; i++) { wr.append((const char*)iov[i].iov_base, iov[i].iov_len); t += iov[i].iov_len; } return t;
    }
    ssize_t send(const void* buf, size_t count, int = 0) override { return write(buf, count); }
    ssize_t send(const struct iovec* iov, int iovcnt, int = 0) override { return writev(iov, iovcnt); }
    ssize_t sendfile(int, off_t, size_t) override { errno = ENOSYS; return -1; }
    int close() override { closed = true; return 0; }
    uint64_t timeout() const override { return -1ULL; }
    void timeout(uint64_t) override {}
    Object* get_underlay_object(uint64_t) override { return nullptr; }
    int setsockopt(int, int, const void*, socklen_t) override { return 0; }
    int getsockopt(int, int, void*, socklen_t*) override { return 0; }
    int getsockname(EndPoint&) override { return -1; }
    int getpeername(EndPoint&) override { return -1; }
    int getsockname(char*, size_t) override { return -1; }
    int getpeername(char*, size_t) override { return -1; }
};

struct Resp : public Response { using Response::Response; using Message::receive_header; using Message::partial_body; using Message::send_header; };
struct Req : public Request { using Request::Request; using Message::receive_header; using Message::partial_body; using Message::send_header; };

// ------------------------------------------------------------------ buffers (the end abuts an inaccessible page)
static const size_t ARENA = 1 << 17;
static char* g_arena_end;                 // first inaccessible byte
static char* g_buf; static size_t g_cap;  // message buffer in use
static char* g_rd; static const size_t RDMAX = 1 << 16;   // user read buffer (canary after the requested size)
static void setup_arena() {
    size_t pg = 4096;
    char* p = (char*)mmap(nullptr, ARENA + pg, PROT_READ | PROT_WRITE, MAP_PRIVATE | MAP_ANONYMOUS, -1, 0);
    if (p == MAP_FAILED) { perror("mmap"); exit(2); }
    mprotect(p + ARENA, pg, PROT_NONE);
    g_arena_end = p + ARENA;
    g_rd = (char*)malloc(RDMAX + 64);
}
static void use_cap(size_t cap) { g_cap = cap; g_buf = g_arena_end - cap; }
static long off(const char* p) { if (!p) return -1; long d = p - g_buf; return (d < 0 || d > (long)g_cap) ? -2 : d; }
static S ol(std::string_view v) { return "[" + std::to_string(off(v.data())) + "," + std::to_string((long)v.size()) + "]"; }
static S bytes(const S& s) { vt::Arr a; for (unsigned char c : s) a.i(c); return a.str(); }
static S ints(const V32& v) { vt::Arr a; for (auto x : v) a.i(x); return a.str(); }
static S longs(const std::vector<long>& v) { vt::Arr a; for (auto x : v) a.i(x); return a.str(); }
template <class T> static S rle(const T& v) {
    vt::Arr a;
    for (size_t i = 0; i < v.size();) { size_t j = i; while (j < v.size() && v[j] == v[i]) j++; a.raw("[" + std::to_string((long)v[i]) + "," + std::to_string(j - i) + "]"); i = j; }
    return a.str();
}
static S rle_bytes(const S& s) {
    vt::Arr a;
    for (size_t i = 0; i < s.size();) { size_t j = i; while (j < s.size() && s[j] == s[i]) j++; a.raw("[" + std::to_string((int)(unsigned char)s[i]) + "," + std::to_string(j - i) + "]"); i = j; }
    return a.str();
}

// ------------------------------------------------------------------ fault recovery
static sigjmp_buf g_jb; static volatile int g_armed = 0;
static void on_fault(int sig) { if (g_armed) { g_armed = 0; siglongjmp(g_jb, sig); } vt::on_fatal(sig); }

// ------------------------------------------------------------------ reading a body to its end
static const size_t RS_INF = 60000;
struct BodyObs { S body; std::vector<long> rets; bool noend = false, over = false; };
static void drain(IStream* st, const V32& rs, size_t bound, BodyObs& o) {
    size_t k = 0;
    for (size_t it = 0;; it++) {
        if (it > bound) { o.noend = true; return; }
        size_t want = rs[k++ % rs.size()];
        memset(g_rd + want, 0xA5, 16);
        ssize_t n = st->read(g_rd, want);
        for (int i = 0; i < 16; i++) if ((unsigned char)g_rd[want + i] != 0xA5) o.over = true;
        o.rets.push_back(n < 0 ? -1 : n);
        if (n <= 0) break;
        if ((size_t)n > want) { o.over = true; return; }
        o.body.append(g_rd, n);
    }
    if (o.rets.back() == 0) {              // end-of-body must be stable
        ssize_t n = st->read(g_rd, rs[0]);
        o.rets.push_back(n < 0 ? -1 : n);
        if (n > 0) o.body.append(g_rd, std::min<size_t>(n, RDMAX));
    }
}
static bool g_big = false;                 // large message: bodies run-length coded
static S body_json(const BodyObs& o) {
    S j = (g_big ? "\"bodyr\":" + rle_bytes(o.body) : "\"body\":" + bytes(o.body)) + ",\"rets\":" + rle(o.rets);
    if (o.noend) j += ",\"noend\":true";
    if (o.over) j += ",\"over\":true";
    return j;
}

// ------------------------------------------------------------------ one case = (message, fragmentation, read sizes, fill)
struct Msg {
    S kind;            // resp | resph (response to HEAD) | req | cbody | lbody | xbody | wchunk | wlen | wmsg
    S bytes;           // what the peer sends
    long n = 0;        // lbody / wlen: declared length
    S extra;           // further JSON fields of the M line
    size_t tail = 0;   // the last `tail` bytes are not part of the message: they follow it on the connection (the next message)
    S rkind() const { return kind == "wchunk" ? "cbody" : kind == "wlen" ? "lbody" : kind == "wmsg" ? "resp" : kind; }
};
static FragStream g_st;

static S flipcase(std::string_view k) { S r(k); for (auto& c : r) { if (c >= 'a' && c <= 'z') c -= 32; else if (c >= 'A' && c <= 'Z') c += 32; } return r; }

template <class M> static S head_json(M& m, int rh) {
    S j = "\"rh\":" + std::to_string(rh < 0 ? -1 : rh);
    if (rh != 0) return j;
    j += ",\"ver\":" + ol(m.version());
    vt::Arr hs, lk;
    int cnt = 0;
    for (auto it = m.headers.begin(); it != m.headers.end() && cnt < 9000; it++, cnt++) {
        auto k = it.first(), v = it.second();
        if (g_big && cnt >= 6) continue;          // large messages: the count and the first entries
        hs.raw("[" + std::to_string(off(k.data())) + "," + std::to_string(k.size()) + "," + std::to_string(off(v.data())) + "," + std::to_string(v.size()) + "]");
        long ko = off(k.data());
        if (ko >= 0 && ko + k.size() <= g_cap && k.size() < 200 && cnt < 40) {
            auto it2 = m.headers.find(flipcase(k));
            lk.raw(it2 == m.headers.end() ? S("[-1,0]") : ol(it2.second()));
        } else lk.raw("[-3,0]");
    }
    j += ",\"hs\":" + hs.str() + ",\"lk\":" + lk.str() + ",\"nh\":" + std::to_string(cnt);
    j += S(",\"nf\":") + (m.headers.find("Zq-None") == m.headers.end() ? "true" : "false");
    j += S(",\"ch\":") + (m.headers.chunked() ? "true" : "false");
    size_t bs = m.body_size();
    j += ",\"bs\":" + std::to_string(bs == SIZE_MAX ? -1L : (long)std::min<size_t>(bs, 1000000000));
    j += ",\"pbo\":" + std::to_string(off(m.partial_body().data()));
    return j;
}

// fill: value 0..255 (+256: the whole buffer is filled, else only the part the message and a little more will occupy)
static S run_case(const Msg& m, const V32& cuts, bool pf, const V32& rs, int fill, long* ops) {
    size_t L = m.bytes.size();
    size_t bound = L + 8;
    BodyObs bo; S j; S rk = m.rkind();
    if (rk == "resp" || rk == "resph" || rk == "req") {
        memset(g_buf, fill & 255, (fill & 256) ? g_cap : std::min(g_cap, L + 64));
        g_st.set(m.bytes.data(), L, cuts);
        if (rk == "req") {
            Req r(g_buf, (uint16_t)g_cap); r.reset(&g_st, false);
            int rh = r.receive_header();
            j = head_json(r, rh);
            if (rh == 0) {
                j += ",\"vb\":" + std::to_string((int)r.verb()) + ",\"tg\":" + ol(r.target());
                drain(&r, rs, bound, bo); j += "," + body_json(bo);
            }
        } else {
            Resp r(g_buf, (uint16_t)g_cap);
            r.reset(g_buf, (uint16_t)g_cap, false, &g_st, false, rk == "resph" ? Verb::HEAD : Verb::GET);
            int rh = r.receive_header();
            j = head_json(r, rh);
            if (rh == 0) {
                j += ",\"code\":" + std::to_string(r.status_code()) + ",\"sm\":" + ol(r.status_message());
                drain(&r, rs, bound, bo); j += "," + body_json(bo);
            }
        }
    } else {
        // body streams constructed directly; the first fragment is handed over as the partial body when pf
        size_t p = 0; V32 c2 = cuts;
        if (pf) { p = cuts.empty() ? L : cuts[0]; if (!c2.empty()) c2.erase(c2.begin()); }
        if (p > 4095) p = 4095;
        char* lb = g_arena_end - 4096;                 // the chunk reader uses 4096 bytes from the partial body on
        memset(lb, fill & 255, (fill & 256) ? 4096 : std::min<size_t>(4096, p + 64));
        memcpy(lb, m.bytes.data(), p);
        g_st.set(m.bytes.data(), L, c2, p);
        IStream* s = rk == "cbody" ? new_chunked_body_read_stream(&g_st, {lb, p})
                   : new_body_read_stream(&g_st, {lb, p}, rk == "xbody" ? SIZE_MAX : (size_t)m.n);
        drain(s, rs, bound, bo); j = body_json(bo);
        delete s;
    }
    if (g_st.runaway) j += ",\"runaway\":true";
    *ops = g_st.ops;
    return j;
}
static void clean_after(int fill) {        // a whole-buffer fill must not leak into the following cases
    if (fill & 256) { memset(g_buf, 0, g_cap); }
}
static S guarded(const Msg& m, const V32& cuts, bool pf, const V32& rs, int fill, long* ops) {
    int sig = sigsetjmp(g_jb, 0);
    if (sig) { *ops = g_st.ops; clean_after(fill); return "\"fatal\":" + std::to_string(sig); }
    g_armed = 1;
    S o = run_case(m, cuts, pf, rs, fill, ops);
    g_armed = 0;
    clean_after(fill);
    return o;
}

// ------------------------------------------------------------------ a message with all its cases
static long g_id = 0, g_cases = 0, g_dsupp = 0; static size_t g_dcap = 30;
static std::map<S, size_t> g_dsig;     // D lines per signature (the same defect shows in thousands of cases)
struct Agg { long n = 0, mx = 0; V32 ex; bool expf = false; int exfill = 0; };
struct Runner {
    const Msg* m; long id;
    std::vector<int> fills;
    std::map<S, Agg> outs;   // key = rs json + outcome json
    std::vector<S> order;
    long cases = 0, deps = 0;
    void one(const V32& cuts, bool pf, const V32& rs, bool allfills) {
        long ops = 0;
        S o = guarded(*m, cuts, pf, rs, fills[0], &ops);
        S key = "\"rs\":" + ints(rs) + ",\"o\":{" + o + "}";
        auto it = outs.find(key);
        if (it == outs.end()) { it = outs.emplace(key, Agg()).first; it->second.ex = cuts; it->second.expf = pf; it->second.exfill = fills[0]; order.push_back(key); }
        it->second.n++; it->second.mx = std::max(it->second.mx, ops);
        cases++;
        if (allfills) for (size_t f = 1; f < fills.size(); f++) {
            long ops2 = 0;
            S o2 = guarded(*m, cuts, pf, rs, fills[f], &ops2);
            cases++;
            if (o2 == o) { it->second.n++; continue; }
            S sig = m->rkind() + "/" + std::to_string(fills[f]) + "/" + o.substr(0, 12) + "/" + o2.substr(0, 12);
            if (deps++ < 2 && g_dsig[sig]++ < g_dcap)
                vt::Ev("D").i("id", id).raw("cuts", ints(cuts)).b("pf", pf).raw("rs", ints(rs)).i("fa", fills[0]).i("fb", fills[f])
                    .raw("a", "{" + o + "}").raw("b", "{" + o2 + "}");
        }
    }
    void flush() {
        for (auto& k : order) {
            auto& a = outs[k];
            vt::Ev e("O"); e.i("id", id).i("n", a.n).i("mx", a.mx).raw("ex", ints(a.ex)).b("pf", a.expf).i("fill", a.exfill);
            e.j += "," + k;
        }
        g_dsupp += deps;
    }
};

static const std::vector<V32> RS_STD = {{1}, {2}, {5}, {(uint32_t)RS_INF}};
static const std::vector<V32> RS_TWO = {{1}, {(uint32_t)RS_INF}};

template <class F> static void cutsets(size_t L, int K, F f) {
    V32 c;
    f(c);
    if (L < 2) return;
    for (uint32_t a = 1; a < L && K >= 1; a++) {
        c = {a}; f(c);
        for (uint32_t b = a + 1; b < L && K >= 2; b++) {
            c = {a, b}; f(c);
            for (uint32_t d = b + 1; d < L && K >= 3; d++) { c = {a, b, d}; f(c); }
        }
    }
}

struct Plan {
    int K = 2;                 // every cut set of at most K cuts
    int rnd = 0;               // plus this many seeded random cut sets with 3..8 cuts (per read-size pattern)
    bool bytewise = true;      // plus one byte per recv
    std::vector<int> fills = {0};   // fills[0] for every case; the others for cut sets of at most fillK cuts and the bytewise one
    int fillK = 1;
    std::vector<V32> rss = RS_STD;
};
static const std::vector<int> FILLS3 = {0, '\r', 'x' + 256};     // zero, CR behind the data, a buffer without any NUL byte

static void run_msg(const Msg& m, const Plan& pl, vt::Rng& rng) {
    long id = ++g_id;
    vt::note(m.kind + " #" + std::to_string(id));
    {
        vt::Ev e("M"); e.i("id", id).s("kind", m.kind).raw("msg", bytes(m.bytes));
        if (m.kind == "lbody" || m.kind == "wlen") e.i("dn", m.n);
        if (m.tail) e.i("tail", m.tail);
        if (!m.extra.empty()) e.j += "," + m.extra;
    }
    memset(g_buf, 0, g_cap);
    Runner R; R.m = &m; R.id = id; R.fills = pl.fills;
    size_t L = m.bytes.size();
    S rk = m.rkind();
    bool direct = !(rk == "resp" || rk == "resph" || rk == "req");
    for (auto& rs : pl.rss) {
        cutsets(L, pl.K, [&](const V32& c) {
            bool af = (int)c.size() <= pl.fillK && pl.fills.size() > 1;
            R.one(c, false, rs, af);
            if (direct) R.one(c, true, rs, af);
        });
        for (int i = 0; i < pl.rnd && L > 4; i++) {
            size_t k = 3 + rng.below(6); V32 c;
            for (size_t q = 0; q < k; q++) c.push_back(1 + rng.below(L - 1));
            std::sort(c.begin(), c.end()); c.erase(std::unique(c.begin(), c.end()), c.end());
            R.one(c, direct && rng.coin(), rs, false);
        }
        if (pl.bytewise && L > 1) {
            V32 c; for (uint32_t a = 1; a < L; a++) c.push_back(a);
            R.one(c, false, rs, pl.fills.size() > 1);
            if (direct) R.one(c, true, rs, false);
        }
    }
    R.flush();
    g_cases += R.cases;
}

// ------------------------------------------------------------------ scope builders
static S chunk(size_t n, char base) { char h[32]; snprintf(h, sizeof h, "%zx\r\n", n); S s = h; for (size_t i = 0; i < n; i++) s += (char)(base + i % 23); return s + "\r\n"; }
static S chunked_body(const std::vector<size_t>& sizes) { S s; char b = 'a'; for (auto n : sizes) { s += chunk(n, b); b = 'A'; } return s + "0\r\n\r\n"; }
static S payload(size_t n) { S s; for (size_t i = 0; i < n; i++) s += (char)('a' + i % 23); return s; }
static void strings(const S& alpha, int maxlen, std::vector<S>& out) {
    out.push_back("");
    size_t start = 0;
    for (int l = 1; l <= maxlen; l++) {
        size_t end = out.size();
        for (size_t i = start; i < end; i++) for (char c : alpha) out.push_back(out[i] + c);
        start = end;
    }
}
static std::vector<Msg> valid_heads() {
    return {
        {"resp", "HTTP/1.1 200 OK\r\nContent-Length: 5\r\n\r\nhello"},
        {"resp", "HTTP/1.1 200 OK\r\nTransfer-Encoding: chunked\r\n\r\n3\r\nabc\r\n0\r\n\r\n"},
        {"resp", "HTTP/1.1 200 OK\r\nConnection: close\r\n\r\nbye!"},
        {"resp", "HTTP/1.0 200 OK\r\n\r\nxy"},
        {"resp", "HTTP/1.1 404 Not Found\r\nB: 1\r\ncontent-length: 2\r\na:b\r\n\r\nhi"},
        {"resp", "HTTP/1.1 204 No Content\r\n\r\n"},
        {"resp", "HTTP/1.1 200 OK\r\nTRANSFER-ENCODING: chunked\r\nX-y:  z\r\n\r\na\r\n0123456789\r\n11\r\nABCDEFGHIJKLMNOPQ\r\n0\r\n\r\n"},
        {"resp", "HTTP/1.1 200 \r\nContent-Type: t\r\nAuthorization: k\r\nContent-Length: 1\r\n\r\n!"},
        {"resph", "HTTP/1.1 200 OK\r\nContent-Length: 5\r\n\r\n"},
        {"req", "GET /a?b=1 HTTP/1.1\r\nHost: x\r\n\r\n"},
        {"req", "POST /p HTTP/1.1\r\nContent-Length: 3\r\n\r\nabc"},
        {"req", "POST /p HTTP/1.1\r\nContent-Length: 5\r\nHost: h\r\nUser-Agent: u\r\nZONE-INFO: 1\r\n\r\nhello"},
        {"req", "PUT /u HTTP/1.1\r\nhost: h\r\nTransfer-Encoding: chunked\r\n\r\n2\r\nhi\r\n1\r\n!\r\n0\r\n\r\n"},
    };
}

// ---- writers: the real write streams produce the wire bytes, the real readers read them back
static Msg written_chunked(const std::vector<size_t>& sizes) {
    FragStream st; IStream* w = new_chunked_body_write_stream(&st);
    size_t total = 0; for (auto n : sizes) total += n;
    S data = payload(total); std::vector<long> wrc; size_t at = 0;
    for (auto n : sizes) { wrc.push_back(w->write(data.data() + at, n)); at += n; }
    delete w;                                     // the destructor closes: last chunk
    Msg m{"wchunk", st.wr};
    vt::Arr sz; for (auto n : sizes) sz.i(n);
    m.extra = "\"data\":" + bytes(data) + ",\"sizes\":" + sz.str() + ",\"wrc\":" + longs(wrc);
    return m;
}
static Msg written_len(const std::vector<size_t>& sizes, size_t declared, bool vec) {
    FragStream st; IStream* w = new_body_write_stream(&st, declared);
    size_t total = 0; for (auto n : sizes) total += n;
    S data = payload(total); std::vector<long> wrc; size_t at = 0;
    for (auto n : sizes) {
        if (vec) { struct iovec iov[2] = {{(void*)(data.data() + at), n / 2}, {(void*)(data.data() + at + n / 2), n - n / 2}}; wrc.push_back(w->writev(iov, 2)); }
        else wrc.push_back(w->write(data.data() + at, n));
        at += n;
    }
    delete w;
    Msg m{"wlen", st.wr}; m.n = declared;
    vt::Arr sz; for (auto n : sizes) sz.i(n);
    m.extra = "\"data\":" + bytes(data) + ",\"sizes\":" + sz.str() + ",\"wrc\":" + longs(wrc);
    return m;
}
// a whole response written through Response (set_result, headers, write, send)
static Msg written_msg(bool chunked, const std::vector<size_t>& sizes, bool keep, const std::vector<std::pair<S, S>>& hdrs) {
    static char wbuf[8192];
    FragStream st;
    size_t total = 0; for (auto n : sizes) total += n;
    S data = payload(total); std::vector<long> wrc; size_t at = 0;
    {
        Resp w(wbuf, sizeof wbuf); w.reset(wbuf, sizeof wbuf, false, &st, false);
        w.set_result(200, "OK");
        for (auto& h : hdrs) w.headers.insert(h.first, h.second);
        if (chunked) w.headers.insert("Transfer-Encoding", "chunked"); else w.headers.content_length(total);
        w.keep_alive(keep);
        for (auto n : sizes) { wrc.push_back(w.write(data.data() + at, n)); at += n; }
        w.send();
    }
    Msg m{"wmsg", st.wr};
    vt::Arr sz, hh; for (auto n : sizes) sz.i(n);
    for (auto& h : hdrs) hh.raw("[" + bytes(h.first) + "," + bytes(h.second) + "]");
    m.extra = "\"data\":" + bytes(data) + ",\"sizes\":" + sz.str() + ",\"wrc\":" + longs(wrc) + ",\"hdrs\":" + hh.str();
    return m;
}

// ---- seeded random messages
static const char* NAMES[] = {"Host", "Accept", "X-a", "x-b", "Content-Type", "Accept-Encoding", "Server", "Date", "ETag",
                              "Proxy-Connection", "k", "Zz", "Yyyyyyyyy", "X-Forwarded-For", "If-None-Match", "Cookie"};
static S rcase(vt::Rng& r, S s) { for (auto& c : s) if (r.coin(30)) { if (c >= 'a' && c <= 'z') c -= 32; else if (c >= 'A' && c <= 'Z') c += 32; } return s; }
static S rvalue(vt::Rng& r) {
    static const char cs[] = "abcXYZ019;=,/ -_.%\t\"";
    size_t n = r.below(14); S v;
    for (size_t i = 0; i < n; i++) v += cs[r.below(sizeof(cs) - 1)];
    while (!v.empty() && (v.front() == ' ' || v.front() == '\t')) v.erase(0, 1);
    while (!v.empty() && (v.back() == ' ' || v.back() == '\t')) v.pop_back();
    return v;
}
static S rbody(vt::Rng& r, size_t n) {
    static const unsigned char cs[] = {'a', 'b', 'z', '0', '9', ':', ' ', '\r', '\n', 0, 0xff, 0x80, 'f', 'F'};
    S b; for (size_t i = 0; i < n; i++) b += (char)cs[r.below(sizeof cs)]; return b;
}
static S rchunked(vt::Rng& r, const S& body) {
    S w; size_t at = 0;
    while (at < body.size()) {
        size_t n = 1 + r.below(std::min<size_t>(body.size() - at, 40));
        char h[40]; snprintf(h, sizeof h, r.coin(20) ? "%zX" : r.coin(15) ? "0%zx" : "%zx", n);
        w += h; if (r.coin(10)) w += ";x=1";
        w += "\r\n" + body.substr(at, n) + "\r\n"; at += n;
    }
    w += r.coin(10) ? "000" : "0"; if (r.coin(10)) w += ";last";
    return w + "\r\n\r\n";
}
static Msg random_msg(vt::Rng& r, size_t maxbody, bool allow_yz) {
    bool req = r.coin(35);
    S body = rbody(r, r.below(maxbody + 1));
    int fr = r.below(req ? 3 : 5);      // 0 none, 1 length, 2 chunked, 3 close, 4 HTTP/1.0
    S h; Msg m;
    if (req) {
        static const char* vs[] = {"GET", "POST", "PUT", "DELETE", "OPTIONS", "PATCH", "MKCALENDAR", "HEAD"};
        static const char* ts[] = {"/", "/a/b?c=d&e", "*", "http://h:80/x", "/%20"};
        S v = vs[r.below(8)];
        if (v == "HEAD") fr = r.below(2);
        h = v + " " + ts[r.below(5)] + (r.coin(80) ? " HTTP/1.1\r\n" : " HTTP/1.0\r\n");
        m.kind = "req";
        if (v == "HEAD") body.clear();
    } else {
        static const char* rs[] = {"", "OK", "Not Found", "a b  c", "Partial Content"};
        static const int cs[] = {200, 206, 404, 500, 999, 100, 301};
        h = S(fr == 4 ? "HTTP/1.0 " : "HTTP/1.1 ") + std::to_string(cs[r.below(7)]) + " " + rs[r.below(5)] + "\r\n";
        m.kind = r.coin(8) ? "resph" : "resp";
        if (m.kind == "resph") { body.clear(); if (fr > 2) fr = 1; }
    }
    std::vector<S> lines;
    size_t nh = r.below(5);
    for (size_t i = 0; i < nh; i++) {
        S nm = NAMES[r.below(16)];
        // names of 8+ bytes with y/z meet the look-up deviation of stricmp_fast in every message; only the first messages use them
        while (!allow_yz && nm.size() >= 8 && nm.find_first_of("yYzZ") != S::npos) nm = NAMES[r.below(16)];
        lines.push_back(rcase(r, nm) + ":" + S(r.below(3), ' ') + rvalue(r));
    }
    S wire = body;
    if (fr == 1) lines.push_back(rcase(r, "Content-Length") + ":" + S(r.below(2), ' ') + std::to_string(m.kind == "resph" ? r.below(50) : body.size()));
    else if (fr == 2) { lines.push_back(rcase(r, "Transfer-Encoding") + ": chunked"); wire = m.kind == "resph" ? "" : rchunked(r, body); }
    else if (fr == 3) lines.push_back(rcase(r, "Connection") + ": close");
    else if (fr == 0) { wire.clear(); if (r.coin(30)) lines.push_back("Connection: keep-alive"); }
    for (size_t i = lines.size(); i > 1; i--) std::swap(lines[i - 1], lines[r.below(i)]);
    for (auto& l : lines) h += l + "\r\n";
    m.bytes = h + "\r\n" + wire;
    if (fr != 3 && fr != 4 && !(fr == 0 && h.find("HTTP/1.0") != S::npos) && r.coin(25)) {
        S t = req ? "GET /next HTTP/1.1\r\n\r\n" : "HTTP/1.1 200 OK\r\nContent-Length: 2\r\n\r\nok";
        m.bytes += t; m.tail = t.size();
    }
    return m;
}
static S mutate(vt::Rng& r, S s) {
    static const unsigned char cs[] = {'\r', '\n', ':', ' ', '0', 'a', 0, 0xff, 'F', ';'};
    int k = 1 + r.below(2);
    for (int i = 0; i < k && !s.empty(); i++) {
        size_t p = r.below(s.size()); int op = r.below(4);
        if (op == 0) s.erase(p, 1); else if (op == 1) s[p] = cs[r.below(sizeof cs)];
        else if (op == 2) s.insert(p, 1, cs[r.below(sizeof cs)]); else s.resize(p);
    }
    return s;
}

// ---- large messages: header blocks near the limits of the 64 KB buffer, multi-kilobyte chunks.
// Written as one line {"e":"L"}: the message as runs, the expected payload as runs, and the distinct outcomes.
struct BigSpec { S kind; std::vector<std::pair<S, S>> hdrs; S startline; S bodywire; S payload; };
static void big(const BigSpec& b, const std::vector<V32>& fragsets, const std::vector<V32>& rss, vt::Rng& rng) {
    long id = ++g_id;
    S head = b.startline;
    vt::Arr hl;    // header lines as [name runs, spaces, value runs]
    for (auto& h : b.hdrs) { hl.raw("[" + rle_bytes(h.first) + "," + rle_bytes(h.second) + "," + std::to_string(head.size()) + "]"); head += h.first + ": " + h.second + "\r\n"; }
    head += "\r\n";
    Msg m{b.kind, head + b.bodywire};
    vt::note("big #" + std::to_string(id));
    memset(g_buf, 0, g_cap);
    g_big = true;
    Runner R; R.m = &m; R.id = id; R.fills = {0};
    for (auto& rs : rss) for (auto& c : fragsets) R.one(c, false, rs, false);
    {
        vt::Ev e("L"); e.i("id", id).s("kind", b.kind).raw("sl", bytes(b.startline)).raw("hl", hl.str()).i("hlen", head.size())
            .i("blen", b.bodywire.size()).raw("pay", rle_bytes(b.payload)).i("cap", g_cap);
        vt::Arr outs;
        for (auto& k : R.order) {
            auto& a = R.outs[k];
            outs.raw("{\"n\":" + std::to_string(a.n) + ",\"mx\":" + std::to_string(a.mx) + ",\"ex\":" + ints(a.ex.size() > 40 ? V32(a.ex.begin(), a.ex.begin() + 40) : a.ex)
                     + ",\"nex\":" + std::to_string(a.ex.size()) + "," + k + "}");
        }
        e.raw("outs", outs.str());
    }
    g_big = false;
    g_cases += R.cases;
}

int main(int argc, char** argv) {
    vt::open(vt::arg(argc, argv, "--out", "-"));
    struct sigaction sa; memset(&sa, 0, sizeof sa); sa.sa_handler = on_fault; sigemptyset(&sa.sa_mask); sa.sa_flags = SA_NODEFER;
    sigaction(SIGSEGV, &sa, nullptr); sigaction(SIGBUS, &sa, nullptr);
    signal(SIGALRM, vt::on_fatal);
    uint64_t seed = strtoull(vt::arg(argc, argv, "--seed", "1"), 0, 10);
    bool thorough = !strcmp(vt::arg(argc, argv, "--tier", "quick"), "thorough");
    S only = vt::arg(argc, argv, "--only", "");
    log_output = log_output_null;
    setup_arena();
    use_cap(65535);
    vt::Rng rng(seed);
    alarm(thorough ? 1500 : 300);
    g_dcap = thorough ? 60 : 30;
    auto want = [&](const char* part) { return only.empty() || only == part; };

    if (want("msg")) {
        // (A) complete messages through receive_header + read: every cut set of <= K cuts x read sizes {1,2,5,inf}
        Plan pl; pl.K = thorough ? 3 : 2; pl.rnd = thorough ? 2000 : 300; pl.fills = FILLS3; pl.fillK = 1;
        for (auto& m : valid_heads()) run_msg(m, pl, rng);
        // the same messages followed by the next message on the connection (not the close-delimited ones): nothing of it may be returned
        Plan pt; pt.K = thorough ? 2 : 1; pt.rnd = thorough ? 300 : 60;
        for (auto& m : valid_heads()) {
            if (m.bytes.find("Connection: close") != S::npos || m.bytes.find("HTTP/1.0") != S::npos) continue;
            for (S t : {S("HTTP/1.1 404 Not Found\r\nContent-Length: 1\r\n\r\nZ"), S("5\r\nHELLO\r\n0\r\n\r\n")}) { Msg f = m; f.bytes += t; f.tail = t.size(); run_msg(f, pt, rng); }
        }
    }
    if (want("body")) {
        // (B) body streams directly: chunk sizes {0,1,2,3,10,16,17}, at most 2 chunks; fixed length; close-delimited
        std::vector<size_t> cs = {1, 2, 3, 10, 16, 17};
        Plan pl; pl.K = thorough ? 3 : 2; pl.rnd = thorough ? 500 : 100;
        std::vector<Msg> ms;
        ms.push_back({"cbody", chunked_body({})});
        for (auto a : cs) ms.push_back({"cbody", chunked_body({a})});
        for (auto a : cs) for (auto b : cs) ms.push_back({"cbody", chunked_body({a, b})});
        for (size_t n : {0, 1, 2, 5, 20}) { Msg m{"lbody", payload(n)}; m.n = n; ms.push_back(m); }
        for (size_t n : {0, 1, 7, 20}) ms.push_back({"xbody", payload(n)});
        for (auto& m : ms) run_msg(m, pl, rng);
        Plan pt; pt.K = thorough ? 2 : 1; pt.rnd = thorough ? 200 : 40;
        for (auto a : cs) { Msg f{"cbody", chunked_body({a, 3})}; S t = "4\r\nNEXT\r\n0\r\n\r\n"; f.bytes += t; f.tail = t.size(); run_msg(f, pt, rng); }
        for (size_t n : {0, 2, 20}) { Msg f{"lbody", payload(n)}; f.n = n; f.bytes += "tail!"; f.tail = 5; run_msg(f, pt, rng); }
    }
    if (want("writer")) {
        // (W) writers: pieces of size {0,1,2,3,10,16,17}, at most 2 pieces (+ one of 3); read back under every cut set of <= 2 cuts
        std::vector<size_t> ws = {0, 1, 2, 3, 10, 16, 17};
        Plan pl; pl.K = thorough ? 2 : 1; pl.rnd = thorough ? 200 : 40;
        for (auto a : ws) run_msg(written_chunked({a}), pl, rng);
        for (auto a : ws) for (auto b : ws) run_msg(written_chunked({a, b}), pl, rng);
        run_msg(written_chunked({5, 1, 33}), pl, rng);
        run_msg(written_chunked({}), pl, rng);
        for (size_t d : {0, 4, 5, 40}) for (auto a : {0, 2, 3}) for (auto b : {0, 2, 3, 17}) run_msg(written_len({(size_t)a, (size_t)b}, d, (a + b + d) % 2), pl, rng);
        run_msg(written_msg(true, {3, 17}, true, {{"X-a", "1"}}), pl, rng);
        run_msg(written_msg(true, {}, false, {}), pl, rng);
        run_msg(written_msg(false, {2, 5}, true, {{"Server", "s s"}, {"ETag", "\"x\""}}), pl, rng);
        run_msg(written_msg(false, {4}, false, {}), pl, rng);
        run_msg(written_msg(false, {}, true, {{"k", ""}}), pl, rng);
    }
    if (want("mal")) {
        // (D) malformed input: every string over small alphabets as header block / start line / chunked body,
        // truncations and single-byte mutations of the valid messages
        Plan pl; pl.K = 1; pl.rss = RS_TWO; pl.fills = FILLS3; pl.fillK = 0;
        Plan pb; pb.K = 1; pb.rss = RS_TWO;
        std::vector<S> xs, ys, zs;
        strings(S("\r\n: a"), thorough ? 5 : 3, xs);
        for (auto& x : xs) { run_msg({"resp", "HTTP/1.1 200 \r\n" + x + "\r\n\r\n"}, pl, rng); run_msg({"req", "GET / HTTP/1.1\r\n" + x + "\r\n\r\n"}, pl, rng); }
        strings(thorough ? S("H/1. \r\n") : S("H1 \r\n"), thorough ? 4 : 3, ys);
        for (auto& y : ys) { run_msg({"resp", y + "\r\n\r\n"}, pl, rng); run_msg({"req", y + "\r\n\r\n"}, pl, rng); }
        strings(S("\r\n02ag"), thorough ? 5 : 4, zs);
        if (thorough) { std::vector<S> z6; strings(S("\r\n02a"), 6, z6); for (auto& z : z6) if (z.size() == 6) zs.push_back(z); }
        for (auto& z : zs) run_msg({"cbody", z}, pb, rng);
        static const unsigned char subst[] = {'\r', '\n', ':', ' ', '0', 'a', 0, 0xff};
        for (auto& m : valid_heads()) {
            if (m.bytes.find("Authorization") != S::npos || m.bytes.find("ZONE-INFO") != S::npos) continue;   // each mutant would repeat the look-up deviation
            for (size_t k = 0; k < m.bytes.size(); k++) {
                Msg t = m; t.bytes = m.bytes.substr(0, k); run_msg(t, pl, rng);
                Msg d = m; d.bytes.erase(k, 1); run_msg(d, pl, rng);
                for (size_t q = 0; q < (thorough ? sizeof subst : 1); q++) {
                    Msg s = m; if ((unsigned char)s.bytes[k] != subst[q]) { s.bytes[k] = subst[q]; run_msg(s, pl, rng); }
                    if (thorough) { Msg i = m; i.bytes.insert(k, 1, subst[q]); run_msg(i, pl, rng); }
                }
            }
        }
    }
    if (want("random")) {
        // (R) seeded random messages (valid by construction, and mutated), random fragmentations, random read-size patterns
        int N = thorough ? 4000 : 300;
        for (int i = 0; i < N; i++) {
            Msg m = random_msg(rng, i % 10 == 0 ? 150 : 40, i < (thorough ? 120 : 50));
            if (i % 3 == 2) { m.bytes = mutate(rng, m.bytes.substr(0, m.bytes.size() - m.tail)); m.tail = 0; }
            Plan pl; pl.K = (m.bytes.size() < 80) ? 1 : 0; pl.rnd = thorough ? 40 : 20; pl.fills = FILLS3; pl.fillK = 0;
            pl.rss.clear();
            pl.rss.push_back({(uint32_t)RS_INF}); pl.rss.push_back({1});
            V32 pat; for (size_t q = 0, n = 1 + rng.below(3); q < n; q++) pat.push_back(1 + rng.below(40));
            pl.rss.push_back(pat);
            run_msg(m, pl, rng);
        }
    }
    if (want("big")) {
        // (L) large messages: many / long headers up to the limits of the 64 KB receive buffer, multi-kilobyte chunks and bodies
        int N = thorough ? 60 : 16;
        for (int i = 0; i < N; i++) {
            BigSpec b; b.kind = "resp"; b.startline = "HTTP/1.1 200 OK\r\n";
            int mode = i % 4;                         // 0: chunked, few headers; 1: length, many headers; 2: close, huge header block; 3: chunked + big block
            size_t nh = mode == 0 ? rng.below(4) : mode == 1 ? 50 + rng.below(400) : 10 + rng.below(300);
            size_t target = mode == 0 ? 200 : mode == 1 ? 3000 + rng.below(40000) : 52000 + rng.below(8400);
            size_t per = nh ? std::max<size_t>(8, target / nh) : 0;
            for (size_t k = 0; k < nh; k++) {
                S name = S(1, (char)('A' + k % 24)) + S(1 + (k / 24) % 40, (char)('a' + (k / 24) % 24)) + "q";     // unique, without y/z
                size_t vl = per > name.size() + 4 ? per - name.size() - 4 : 1;
                b.hdrs.push_back({name, S(vl, (char)('0' + k % 10))});
            }
            std::vector<size_t> chunks; size_t blen = 0;
            size_t nparts = 1 + rng.below(4);
            for (size_t k = 0; k < nparts; k++) { size_t n = rng.coin(30) ? 1 + rng.below(20) : 1000 + rng.below(9000); chunks.push_back(n); blen += n; }
            for (size_t k = 0; k < chunks.size(); k++) b.payload += S(chunks[k], (char)('a' + k));
            if (mode == 0 || mode == 3) {
                b.hdrs.insert(b.hdrs.begin() + rng.below(b.hdrs.size() + 1), {"Transfer-Encoding", "chunked"});
                for (size_t k = 0; k < chunks.size(); k++) { char h[32]; snprintf(h, sizeof h, "%zx\r\n", chunks[k]); b.bodywire += S(h) + S(chunks[k], (char)('a' + k)) + "\r\n"; }
                b.bodywire += "0\r\n\r\n";
            } else if (mode == 1) { b.hdrs.insert(b.hdrs.begin() + rng.below(b.hdrs.size() + 1), {"content-length", std::to_string(blen)}); b.bodywire = b.payload; }
            else { b.hdrs.insert(b.hdrs.begin() + rng.below(b.hdrs.size() + 1), {"Connection", "close"}); b.bodywire = b.payload; }
            size_t hlen = b.startline.size() + 2; for (auto& h : b.hdrs) hlen += h.first.size() + h.second.size() + 4;
            size_t L = hlen + b.bodywire.size();
            std::vector<V32> fs;
            fs.push_back({});                                                   // as much as each recv takes
            fs.push_back({(uint32_t)hlen});                                     // head and body apart
            { V32 c; for (uint32_t a = 1000; a < L; a += 1000) c.push_back(a); fs.push_back(c); }
            { V32 c; for (uint32_t a = 4096; a < L; a += 4096) c.push_back(a); c.push_back(hlen - 2); std::sort(c.begin(), c.end()); fs.push_back(c); }
            { V32 c; for (uint32_t a = 1; a < L; a++) c.push_back(a); fs.push_back(c); }       // one byte per recv
            for (int q = 0; q < (thorough ? 12 : 5); q++) {
                V32 c; uint32_t a = 0;
                while (true) { a += 1 + (rng.coin(60) ? rng.below(5000) : rng.below(30)); if (a >= L) break; c.push_back(a); }
                if (rng.coin()) for (uint32_t d = (hlen > 6 ? hlen - 6 : 0); d < hlen + 12 && d < L; d++) if (d) c.push_back(d);   // every byte around the end of the head
                std::sort(c.begin(), c.end()); c.erase(std::unique(c.begin(), c.end()), c.end()); fs.push_back(c);
            }
            big(b, fs, {{(uint32_t)RS_INF}, {4096}, {1000, 1, 7}}, rng);
        }
    }
    vt::Ev("End").i("messages", g_id).i("cases", g_cases).i("stale_dependent_cases", g_dsupp);
    vt::close();
    return 0;
}
