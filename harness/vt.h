// Minimal ndjson trace writer shared by all /verif harnesses.
// Events are appended under one global spinlock, so the file order is a
// linearization consistent with the critical sections the events are emitted in.
#pragma once
#include <atomic>
#include <cstdint>
#include <cstdio>
#include <cstdlib>
#include <cstring>
#include <string>
#include <exception>
#include <unistd.h>
#include <signal.h>

namespace vt {

struct Sink {
    std::atomic_flag lk = ATOMIC_FLAG_INIT;
    std::string buf;
    FILE* f = nullptr;
    uint64_t n = 0;
    bool autoflush = false;        // write every event through (scenarios that are expected to crash)
    void lock() { while (lk.test_and_set(std::memory_order_acquire)) { } }
    void unlock() { lk.clear(std::memory_order_release); }
    void flush_locked() {
        if (f && !buf.empty()) { fwrite(buf.data(), 1, buf.size(), f); fflush(f); }
        buf.clear();
    }
};
inline Sink& sink() { static Sink s; return s; }

inline void flush() { auto& s = sink(); s.lock(); s.flush_locked(); s.unlock(); }

// description of the case being executed, printed with a Fatal event
inline std::string& current_case() { static std::string c; return c; }
inline void note(const std::string& c) { current_case() = c; }

inline void on_fatal(int sig) {
    auto& s = sink();
    // best effort: do not take the lock (we may hold it)
    if (s.f) {
        fwrite(s.buf.data(), 1, s.buf.size(), s.f);
        fprintf(s.f, "{\"e\":\"Fatal\",\"sig\":%d,\"case\":\"%s\"}\n", sig, current_case().c_str());
        fflush(s.f);
    }
    _exit(3);
}
inline void on_terminate() { on_fatal(-1); }
inline void on_sanitizer_death() { on_fatal(-2); }
#if defined(__SANITIZE_ADDRESS__)
// make ASan/UBSan reports end in abort() so that on_fatal() flushes the trace with a Fatal event
extern "C" __attribute__((weak, used)) const char* __asan_default_options() { return "abort_on_error=1:detect_leaks=0:handle_abort=0"; }
extern "C" __attribute__((weak, used)) const char* __ubsan_default_options() { return "abort_on_error=1:halt_on_error=1"; }
#endif

inline void open(const char* path, bool catch_signals = true) {
    auto& s = sink();
    s.f = strcmp(path, "-") ? fopen(path, "w") : stdout;
    if (!s.f) { perror(path); exit(2); }
    s.buf.reserve(1 << 20);
    std::set_terminate(on_terminate);
    if (catch_signals) {
        signal(SIGSEGV, on_fatal); signal(SIGABRT, on_fatal); signal(SIGBUS, on_fatal);
        signal(SIGFPE, on_fatal); signal(SIGILL, on_fatal);
    }
}
inline void close() { flush(); auto& s = sink(); if (s.f && s.f != stdout) fclose(s.f); s.f = nullptr; }

// One event = one JSON object on one line.  Usage: vt::Ev("Name").i("t",1).s("k","v");  (emits in dtor)
struct Ev {
    std::string j;
    bool first = true;
    explicit Ev(const char* name) { j.reserve(128); j += "{\"e\":\""; j += name; j += "\""; }
    Ev& key(const char* k) { j += ",\""; j += k; j += "\":"; return *this; }
    Ev& i(const char* k, int64_t v) { key(k); j += std::to_string(v); return *this; }
    Ev& u(const char* k, uint64_t v) { key(k); j += std::to_string(v); return *this; }
    Ev& b(const char* k, bool v) { key(k); j += v ? "true" : "false"; return *this; }
    Ev& s(const char* k, const std::string& v) {
        key(k); j += '"';
        for (unsigned char c : v) {
            if (c == '"' || c == '\\') { j += '\\'; j += (char)c; }
            else if (c < 0x20 || c >= 0x7f) { char t[8]; snprintf(t, sizeof t, "\\u%04x", c); j += t; }
            else j += (char)c;
        }
        j += '"'; return *this;
    }
    Ev& raw(const char* k, const std::string& json) { key(k); j += json; return *this; }
    ~Ev() {
        j += "}\n";
        auto& s = sink();
        s.lock();
        s.buf += j; s.n++;
        if (s.autoflush || s.buf.size() > (1 << 20)) s.flush_locked();
        s.unlock();
    }
};

// helpers to build JSON arrays
struct Arr {
    std::string j = "["; bool first = true;
    void sep() { if (!first) j += ','; first = false; }
    Arr& i(int64_t v) { sep(); j += std::to_string(v); return *this; }
    Arr& u(uint64_t v) { sep(); j += std::to_string(v); return *this; }
    Arr& raw(const std::string& s) { sep(); j += s; return *this; }
    std::string str() const { return j + "]"; }
};

// deterministic PRNG (splitmix64) so that VERIF_SEED reproduces a run
struct Rng {
    uint64_t s;
    explicit Rng(uint64_t seed) : s(seed * 0x9E3779B97F4A7C15ull + 0x1234567) {}
    uint64_t next() { uint64_t z = (s += 0x9E3779B97F4A7C15ull); z = (z ^ (z >> 30)) * 0xBF58476D1CE4E5B9ull;
                      z = (z ^ (z >> 27)) * 0x94D049BB133111EBull; return z ^ (z >> 31); }
    uint64_t below(uint64_t n) { return n ? next() % n : 0; }
    bool coin(unsigned pct = 50) { return below(100) < pct; }
};

inline const char* arg(int argc, char** argv, const char* name, const char* def) {
    for (int i = 1; i + 1 < argc; i++) if (!strcmp(argv[i], name)) return argv[i + 1];
    return def;
}
inline bool flag(int argc, char** argv, const char* name) {
    for (int i = 1; i < argc; i++) if (!strcmp(argv[i], name)) return true;
    return false;
}

}  // namespace vt
