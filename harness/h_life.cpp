// C05 harness: thread lifecycle on 1..4 vCPUs.  Random programs create joinable / detached photon threads (optionally
// stealable, optionally from a thread pool), which enter, run compute segments, yield, sleep, migrate themselves, leave;
// the main thread migrates READY threads, interrupts, and joins.  vCPUs are created with vcpu_init(flags) so that all
// four active/passive work-stealing combinations occur.  A recording stack allocator (default or pooled underneath) logs
// every stack allocation and release.  Events (one global lock, vt.h):
//   Reset{n,vcpus,flags[],pooled}  CreateInv{t,join,steal,pool}  CreateResp{t,stack}  Alloc{s}  Free{s}
//   Enter{t,v}  Seg{t,v}  SegEnd{t}  Leave{t,ret}  JoinInv{t}  JoinResp{t,ret}  Quiesce{nth:[delta per vCPU],sleeping:[...]}
// Judged by spec/Trace_LifeA.tla.
//
// --prim steal9 : the directed scenario of recorded finding F9 (a vCPU delayed between leaving the run-queue lock in
//                 thread_yield and saving the context while another vCPU's idler steals the yielding thread); runs in a
//                 forked child because the outcome is memory corruption.
#include "vt_photon.h"
#include <photon/thread/thread.h>
#include <photon/thread/thread-pool.h>
#include <photon/thread/stack-allocator.h>
#include <memory>
#include <cstring>
#include <mutex>
#include <sys/wait.h>
#include <sys/mman.h>
#include <chrono>
using namespace photon;

static int g_vcpus = 3, g_threads = 4, g_ops = 5, g_execs = 50;
static uint64_t g_seed = 1;
static bool g_pooled = false;

// ---------------------------------------------------------------------------------------------- recording allocator
struct StackRec {
    std::atomic_flag lk = ATOMIC_FLAG_INIT;
    std::map<char*, std::pair<size_t, int>> live;     // base -> (size, id)
    int next = 1;
    bool logging = false;
    void lock() { while (lk.test_and_set(std::memory_order_acquire)) {} }
    void unlock() { lk.clear(std::memory_order_release); }
    void* alloc(size_t size) {
        void* p = g_pooled ? pooled_stack_alloc(nullptr, size) : default_photon_thread_stack_alloc(nullptr, size);
        if (!p) return p;
        lock(); int id = next++; live[(char*)p] = {size, id}; bool lg = logging; unlock();
        if (lg) vt::Ev("Alloc").i("s", id);
        return p;
    }
    // A released stack is not handed back at once: it is made inaccessible and kept in quarantine until the end of the
    // execution, so that any later access by the thread that lived on it (or by anybody else) is a fault, not silent reuse.
    std::vector<std::pair<void*, size_t>> quarantine;
    bool quarantining = false;
    void dealloc(void* p, size_t size) {
        lock(); auto it = live.find((char*)p); int id = it == live.end() ? -1 : it->second.second; if (it != live.end()) live.erase(it); bool lg = logging;
        bool qn = quarantining && id > 0;
        if (qn) quarantine.emplace_back(p, size);
        unlock();
        if (lg) vt::Ev("Free").i("s", id);
        if (qn) { mprotect(p, size, PROT_NONE); return; }
        if (g_pooled) pooled_stack_dealloc(nullptr, p, size); else default_photon_thread_stack_dealloc(nullptr, p, size);
    }
    void release_quarantine() {
        lock(); auto q = quarantine; quarantine.clear(); unlock();
        for (auto& e : q) {
            mprotect(e.first, e.second, PROT_READ | PROT_WRITE);
            if (g_pooled) pooled_stack_dealloc(nullptr, e.first, e.second); else default_photon_thread_stack_dealloc(nullptr, e.first, e.second);
        }
    }
    int find(const void* inner) {
        lock(); int id = -1;
        auto it = live.upper_bound((char*)inner);
        if (it != live.begin()) { --it; if ((char*)inner < it->first + it->second.first) id = it->second.second; }
        unlock(); return id;
    }
};
static StackRec g_stacks;
static void* rec_alloc(void*, size_t size) { return g_stacks.alloc(size); }
static void rec_dealloc(void*, void* p, size_t size) { g_stacks.dealloc(p, size); }

// ---------------------------------------------------------------------------------------------- vCPUs with flags
struct FVcpus {
    std::vector<std::thread> os; std::vector<vcpu_base*> vc; std::vector<thread*> parked; std::vector<int> flags;
    std::atomic<int> ready{0}; std::atomic<bool> stopping{false};
    void start(const std::vector<int>& fl) {
        flags = fl; int n = (int)fl.size();
        vc.assign(n, nullptr); parked.assign(n, nullptr);
        vc[0] = get_vcpu();
        for (int i = 1; i < n; i++)
            os.emplace_back([this, i] {
                vcpu_init(flags[i]);
                vc[i] = get_vcpu(); parked[i] = CURRENT; ready++;
                while (!stopping.load()) thread_usleep(-1UL);
                vcpu_fini();
            });
        while (ready.load() < n - 1) thread_usleep(200);
    }
    void stop() {
        stopping = true;
        for (size_t i = 1; i < vc.size(); i++) thread_interrupt(parked[i], EINTR);
        for (auto& t : os) t.join();
    }
    int index_of(vcpu_base* v) { for (size_t i = 0; i < vc.size(); i++) if (vc[i] == v) return (int)i; return -1; }
};
static FVcpus g_vc;

struct LW {                       // one worker thread of an execution
    int id = 0; thread* th = nullptr; bool joinable = false, steal = false, pooled_thread = false;
    uint64_t seed = 0; int nops = 0; std::atomic<bool> done{false}; std::atomic<int> entered{0};
};
static void* life_entry(void* a) {
    auto w = (LW*)a;
    while (!vtp::gate().load()) thread_yield();
    vt::Rng rr(w->seed);
    w->entered++;
    vt::Ev("Enter").i("t", w->id).i("v", g_vc.index_of(get_vcpu()));
    for (int k = 0; k < w->nops; k++) {
        int c = (int)rr.below(10);
        if (c < 3) {
            int v = g_vc.index_of(get_vcpu());
            vt::Ev("Seg").i("t", w->id).i("v", v);
            for (volatile int i = 0; i < (int)rr.below(4000); i++) {}
            vt::Ev("SegEnd").i("t", w->id).i("v", g_vc.index_of(get_vcpu()));
        } else if (c < 6) thread_yield();
        else if (c < 8) thread_usleep(rr.below(300));
        else if (!w->pooled_thread) {          // (pooled threads stay on their pool's vCPU, see exec_life)
            int to = (int)rr.below(g_vc.vc.size());
            thread_migrate(CURRENT, g_vc.vc[to]);
        }
    }
    vt::Ev("Leave").i("t", w->id).i("ret", w->id * 7);
    w->done = true;
    return (void*)(uintptr_t)(w->id * 7);
}

static bool exec_life(int ex, vt::Rng& r) {
    int n = 2 + (int)r.below(g_threads);
    bool use_pool = r.coin(25);
    vt::Arr fl; for (int f : g_vc.flags) fl.i(f);
    vt::Ev("Reset").s("prim", "life").i("ex", ex).i("n", n).i("vcpus", (int)g_vc.vc.size()).raw("flags", fl.str()).b("pooled", g_pooled).b("tpool", use_pool);
    std::vector<int64_t> base;
    for (auto v : g_vc.vc) base.push_back((int64_t)get_info(INFO_THREAD_NUM, v));
    std::vector<std::unique_ptr<LW>> ws;
    ThreadPoolBase* pool = use_pool ? ThreadPoolBase::new_thread_pool(4, 256 * 1024) : nullptr;
    {
        vtp::GateGuard gg;
        for (int i = 0; i < n; i++) {
            ws.emplace_back(new LW()); auto w = ws.back().get();
            w->id = i + 1; w->seed = r.next(); w->nops = 1 + (int)r.below(g_ops);
            w->pooled_thread = use_pool && r.coin(50);
            w->joinable = !w->pooled_thread && r.coin(60);
            w->steal = !w->pooled_thread && r.coin(60);
            vt::Ev("CreateInv").i("t", w->id).b("join", w->joinable).b("steal", w->steal).b("pool", w->pooled_thread);
            if (w->pooled_thread) w->th = pool->thread_create(&life_entry, w);
            else w->th = thread_create(&life_entry, w, 128 * 1024, 0, (w->joinable ? THREAD_JOINABLE : 0) | (w->steal ? THREAD_ENABLE_WORK_STEALING : 0));
            vtp::reg().set(w->th, w->id);
            vt::Ev("CreateResp").i("t", w->id).i("stack", w->pooled_thread ? 0 : g_stacks.find(w->th));
            // (a pooled thread stays on its pool's vCPU: a pool may only be deleted when its detached threads are back in it,
            //  and after the entry function has returned that is certain only where the pool's epilogue cannot run in parallel
            //  with the deleting thread -- migrated pooled threads made `delete pool` race with ctrl.pool->put(): heap
            //  corruption about once in 30 runs)
            if (r.coin(50) && !w->pooled_thread && thread_stat(w->th) == states::READY) {
                int to = (int)r.below(g_vc.vc.size());
                if (g_vc.vc[to] != get_vcpu()) thread_migrate(w->th, g_vc.vc[to]);
            }
        }
    }
    // main: interrupt joinable threads now and then, join them in random order, wait for the detached ones
    std::vector<int> order; for (int i = 0; i < n; i++) if (ws[i]->joinable) order.push_back(i);
    for (size_t i = 0; i + 1 < order.size(); i++) std::swap(order[i], order[i + r.below(order.size() - i)]);
    for (int i : order) {
        if (r.coin(30)) thread_interrupt(ws[i]->th, EINTR);
        if (r.coin(50)) thread_usleep(r.below(300));
        vt::Ev("JoinInv").i("t", ws[i]->id);
        void* ret = thread_join((join_handle*)ws[i]->th);
        vt::Ev("JoinResp").i("t", ws[i]->id).i("ret", (int64_t)(uintptr_t)ret);
    }
    uint64_t waited = 0;
    while (true) {
        bool all = true;
        for (auto& w : ws) if (!w->done.load()) all = false;
        if (all) break;
        if (waited > 10 * 1000 * 1000) {
            vt::Arr a; for (auto& w : ws) if (!w->done.load()) a.i(w->id);
            vt::Ev("Hang").raw("blocked", a.str()).s("where", "worker never finished").s("what", "life");
            vt::flush(); return false;
        }
        thread_usleep(500); waited += 500;
    }
    if (pool) ThreadPoolBase::delete_thread_pool(pool);
    // let deferred disposals (on other vCPUs) and migrations complete: counts must return to their initial values
    vt::Arr d, sl;
    for (int tries = 0; tries < 400; tries++) {
        bool same = true;
        for (size_t v = 0; v < g_vc.vc.size(); v++) if ((int64_t)get_info(INFO_THREAD_NUM, g_vc.vc[v]) != base[v]) same = false;
        g_stacks.lock(); size_t live = 0; for (auto& w : ws) if (!w->pooled_thread) { (void)w; } live = 0; g_stacks.unlock();
        if (same) break;
        thread_usleep(500);
    }
    for (size_t v = 0; v < g_vc.vc.size(); v++) d.i((int64_t)get_info(INFO_THREAD_NUM, g_vc.vc[v]) - base[v]);
    thread_usleep(2000);
    vt::Ev("Quiesce").raw("nth", d.str());
    g_stacks.release_quarantine();
    return true;
}

// thread_join() racing with the last steps of the dying thread on another vCPU: the dying thread is held for a moment at
// the guarded hook in die() (state DONE, its lock still held, still running on its own stack) while the main thread joins it.
// The stack is released inside thread_join(); with the quarantine above any later access by the dying thread faults.
static bool exec_joinrace(int ex, vt::Rng& r) {
    int n = 2 + (int)r.below(3);
    vt::Arr fl; for (int f : g_vc.flags) fl.i(f);
    vt::Ev("Reset").s("prim", "joinrace").i("ex", ex).i("n", n).i("vcpus", (int)g_vc.vc.size()).raw("flags", fl.str()).b("pooled", g_pooled).b("tpool", false);
    std::vector<int64_t> base;
    for (auto v : g_vc.vc) base.push_back((int64_t)get_info(INFO_THREAD_NUM, v));
    std::vector<std::unique_ptr<LW>> ws;
    static std::atomic<int> hold_us{0};
    vtp::hook_callback() = [](uint32_t id, const void* obj, uint64_t, uint64_t, uint64_t) {
        if (id != VT_DIE || vtp::reg().get(obj) <= 0) return;
        auto t0 = std::chrono::steady_clock::now();
        while (std::chrono::steady_clock::now() - t0 < std::chrono::microseconds(hold_us.load())) {}
    };
    hold_us = 100 + (int)r.below(600);
    {
        vtp::GateGuard gg;
        for (int i = 0; i < n; i++) {
            ws.emplace_back(new LW()); auto w = ws.back().get();
            w->id = i + 1; w->seed = r.next(); w->nops = 1 + (int)r.below(3); w->joinable = true;
            vt::Ev("CreateInv").i("t", w->id).b("join", true).b("steal", false).b("pool", false);
            w->th = thread_create(&life_entry, w, 128 * 1024, 0, THREAD_JOINABLE);
            vtp::reg().set(w->th, w->id);
            vt::Ev("CreateResp").i("t", w->id).i("stack", g_stacks.find(w->th));
            int to = 1 + (int)r.below(g_vc.vc.size() - 1);        // always another vCPU than the joiner's
            thread_migrate(w->th, g_vc.vc[to]);
        }
    }
    for (auto& w : ws) {
        for (unsigned k = 0; !w->done.load(); k++) if (k % 256 == 255) thread_yield();   // mostly spinning: join as soon as the entry function has returned
        for (volatile int i = 0; i < (int)r.below(3000); i++) {}
        vt::Ev("JoinInv").i("t", w->id);
        void* ret = thread_join((join_handle*)w->th);
        vt::Ev("JoinResp").i("t", w->id).i("ret", (int64_t)(uintptr_t)ret);
    }
    vtp::hook_callback() = nullptr;
    vt::Arr d;
    for (int tries = 0; tries < 400; tries++) {
        bool same = true;
        for (size_t v = 0; v < g_vc.vc.size(); v++) if ((int64_t)get_info(INFO_THREAD_NUM, g_vc.vc[v]) != base[v]) same = false;
        if (same) break;
        thread_usleep(500);
    }
    for (size_t v = 0; v < g_vc.vc.size(); v++) d.i((int64_t)get_info(INFO_THREAD_NUM, g_vc.vc[v]) - base[v]);
    thread_usleep(1000);
    vt::Ev("Quiesce").raw("nth", d.str());
    g_stacks.release_quarantine();
    return true;
}


// ---------------------------------------------------------------------------------------------- F9 directed scenario
// vCPU 0 (passive stealing only) runs a stealable thread T next to a non-stealable thread U; both yield in a loop.  At the
// guarded hook between goto_next() and switch_context() of T's yield, vCPU 0 is held for a few milliseconds (an OS
// preemption can do the same).  vCPU 1 (active stealing only) is idle and scans vCPU 0's run queue: T is READY there
// although vCPU 0 still runs on T's stack and has not saved T's context.  Recorded with the ordinary lifecycle events
// plus YieldInv / YieldResp around T's yields.
struct S9 { int id; int rounds; std::atomic<bool> done{false}; };
static void* s9_entry(void* a) {
    auto w = (S9*)a;
    vt::Ev("Enter").i("t", w->id).i("v", g_vc.index_of(get_vcpu()));
    for (int k = 0; k < w->rounds; k++) {
        int v = g_vc.index_of(get_vcpu());
        vt::Ev("Seg").i("t", w->id).i("v", v).i("k", k);
        for (volatile int i = 0; i < 300; i++) {}
        vt::Ev("SegEnd").i("t", w->id).i("v", g_vc.index_of(get_vcpu())).i("k", k);
        vt::Ev("YieldInv").i("t", w->id).i("k", k);
        thread_yield();
        vt::Ev("YieldResp").i("t", w->id).i("k", k);
    }
    vt::Ev("Leave").i("t", w->id).i("ret", w->id * 7);
    w->done = true;
    return (void*)(uintptr_t)(w->id * 7);
}
static int run_steal9(int rounds) {
    vt::sink().autoflush = true;
    vt::Ev("Reset").s("prim", "steal9").i("ex", 0).i("n", 2).i("vcpus", 2).raw("flags", "[2,1]").b("pooled", g_pooled).b("tpool", false);
    S9 t; t.id = 1; t.rounds = rounds;
    S9 u; u.id = 2; u.rounds = rounds;
    static std::atomic<thread*> target{nullptr};
    static std::atomic<int> hits{0};
    vtp::hook_callback() = [](uint32_t id, const void* obj, uint64_t, uint64_t, uint64_t) {
        if (id != VT_PRESWITCH || obj != target.load()) return;
        if (hits++ % 3 != 1) return;
        auto t0 = std::chrono::steady_clock::now();
        while (std::chrono::steady_clock::now() - t0 < std::chrono::milliseconds(4)) {}     // vCPU 0 is "preempted" here
    };
    vt::Ev("CreateInv").i("t", 1).b("join", true).b("steal", true).b("pool", false);
    auto tt = thread_create(&s9_entry, &t, 128 * 1024, 0, THREAD_JOINABLE | THREAD_ENABLE_WORK_STEALING);
    vt::Ev("CreateResp").i("t", 1).i("stack", g_stacks.find(tt));
    vt::Ev("CreateInv").i("t", 2).b("join", true).b("steal", false).b("pool", false);
    auto tu = thread_create(&s9_entry, &u, 128 * 1024, 0, THREAD_JOINABLE);
    vt::Ev("CreateResp").i("t", 2).i("stack", g_stacks.find(tu));
    target = tt;
    vtp::reg().set(tt, 1); vtp::reg().set(tu, 2);
    uint64_t waited = 0;
    while (!(t.done.load() && u.done.load()) && waited < 5 * 1000 * 1000) { thread_usleep(1000); waited += 1000; }
    vtp::hook_callback() = nullptr;
    if (!(t.done.load() && u.done.load())) { vt::Ev("Hang").raw("blocked", "[]").s("where", "steal9").s("what", "life"); vt::flush(); return 4; }
    vt::Ev("JoinInv").i("t", 1); void* r1 = thread_join((join_handle*)tt); vt::Ev("JoinResp").i("t", 1).i("ret", (int64_t)(uintptr_t)r1);
    vt::Ev("JoinInv").i("t", 2); void* r2 = thread_join((join_handle*)tu); vt::Ev("JoinResp").i("t", 2).i("ret", (int64_t)(uintptr_t)r2);
    thread_usleep(3000);
    vt::Ev("Quiesce").raw("nth", "[0,0]");
    return 0;
}


// --prim stealsb: stealing from a STAND-BY queue.  vCPU 0 (passive: may be stolen from) is kept busy -- its OS thread is parked
// in ::usleep -- with T (stealable) asleep on it; vCPU 1 (active stealer) migrates a stealable READY thread M to vCPU 0 (M becomes
// the head of vCPU 0's stand-by queue), interrupts T (T queues behind M, still registered in vCPU 0's sleep queue) and goes idle.
// A thread that is stolen must not be in any sleep queue (hSteal.tidx = -1), every thread runs once, and the sleeping-thread
// counts return to zero.
struct SB { int id; std::atomic<bool> done{false}; std::atomic<int> ran_on{-9}; uint64_t sleep_us; };
static void* sb_entry(void* a) {
    auto w = (SB*)a;
    vt::Ev("Enter").i("t", w->id).i("v", g_vc.index_of(get_vcpu()));
    if (w->sleep_us) thread_usleep(w->sleep_us);
    w->ran_on = g_vc.index_of(get_vcpu());
    vt::Ev("Leave").i("t", w->id).i("ret", w->id * 7);
    w->done = true;
    return (void*)(uintptr_t)(w->id * 7);
}
static int run_stealsb(int execs) {
    for (int ex = 0; ex < execs; ex++) {
        vt::Ev("Reset").s("prim", "stealsb").i("ex", ex).i("n", 2).i("vcpus", 2).raw("flags", "[2,1]").b("pooled", g_pooled).b("tpool", false);
        SB t; t.id = 1; t.sleep_us = 2 * 1000 * 1000;
        SB m; m.id = 2; m.sleep_us = 0;
        vt::Ev("CreateInv").i("t", 1).b("join", true).b("steal", true).b("pool", false);
        auto tt = thread_create(&sb_entry, &t, 128 * 1024, 0, THREAD_JOINABLE | THREAD_ENABLE_WORK_STEALING);
        vt::Ev("CreateResp").i("t", 1).i("stack", g_stacks.find(tt));
        vtp::reg().set(tt, 1);
        while (thread_stat(tt) != states::SLEEPING) thread_yield();          // T is asleep on vCPU 0
        static std::atomic<thread*> tm; tm = nullptr;
        std::atomic<bool> pdone{false}, go{false};
        vtp::Worker P; P.id = 90;
        P.body = [&] {
            while (!go.load()) thread_yield();                                    // vCPU 0's OS thread is parked from now on
            vt::Ev("CreateInv").i("t", 2).b("join", true).b("steal", true).b("pool", false);
            auto mm = thread_create(&sb_entry, &m, 128 * 1024, 0, THREAD_JOINABLE | THREAD_ENABLE_WORK_STEALING);
            vt::Ev("CreateResp").i("t", 2).i("stack", g_stacks.find(mm));
            vtp::reg().set(mm, 2); tm = mm;
            thread_migrate(mm, g_vc.vc[0]);                                       // head of vCPU 0's stand-by queue
            thread_interrupt(tt, EINTR);                                          // T queues behind it, still in the sleep queue
            thread_usleep(8000);                                                  // vCPU 1 idles: its idler scans vCPU 0
            pdone = true;
        };
        vtp::spawn_on(&P, g_vc.vc[1]);
        thread_usleep(1000);                                                      // P is on vCPU 1, spinning on `go`
        go = true;
        ::usleep(25 * 1000);                                                      // vCPU 0 busy (does not drain its stand-by queue)
        uint64_t waited = 0;
        while (!(t.done.load() && m.done.load() && pdone.load()) && waited < 5 * 1000 * 1000) { thread_usleep(1000); waited += 1000; }
        if (!(t.done.load() && m.done.load() && pdone.load())) { vt::Ev("Hang").raw("blocked", "[]").s("where", "stealsb").s("what", "life"); vt::flush(); return 4; }
        vt::Ev("JoinInv").i("t", 1); void* r1 = thread_join((join_handle*)tt); vt::Ev("JoinResp").i("t", 1).i("ret", (int64_t)(uintptr_t)r1);
        vt::Ev("JoinInv").i("t", 2); void* r2 = thread_join((join_handle*)tm.load()); vt::Ev("JoinResp").i("t", 2).i("ret", (int64_t)(uintptr_t)r2);
        thread_join(P.jh);
        thread_usleep(2000);
        vt::Arr sl; for (size_t v = 0; v < g_vc.vc.size(); v++) sl.i((int64_t)get_info(INFO_SLEEPING_THREAD_NUM, g_vc.vc[v]) - (v > 0 ? 1 : 0));
        vt::Ev("StealSb").i("t_ran_on", t.ran_on.load()).i("m_ran_on", m.ran_on.load()).raw("sleeping", sl.str());
        vt::Ev("Quiesce").raw("nth", "[0,0]");
    }
    return 0;
}

int main(int argc, char** argv) {
    std::string prim = vt::arg(argc, argv, "--prim", "life");
    g_execs = atoi(vt::arg(argc, argv, "--execs", "50"));
    g_seed = strtoull(vt::arg(argc, argv, "--seed", "1"), 0, 10);
    g_vcpus = atoi(vt::arg(argc, argv, "--vcpus", "3"));
    g_threads = atoi(vt::arg(argc, argv, "--threads", "4"));
    g_ops = atoi(vt::arg(argc, argv, "--ops", "5"));
    g_pooled = vt::flag(argc, argv, "--pooled") || (g_seed % 2 == 0);
    vt::open(vt::arg(argc, argv, "--out", "-"));
    set_log_output_level(ALOG_ERROR + 1);
    set_photon_thread_stack_allocator({&rec_alloc, nullptr}, {&rec_dealloc, nullptr});
    vt::Rng r(g_seed * 7919 + 13);
    // work-stealing flags per vCPU: all four combinations occur over the seeds
    std::vector<int> flags;
    bool stealing = !vt::flag(argc, argv, "--nosteal");
    for (int i = 0; i < g_vcpus; i++) flags.push_back(stealing ? (int)r.below(4) : 0);
    if (prim == "steal9" || prim == "stealsb") { flags = {2, 1}; }
    vcpu_init(flags[0]);
    vtp::t0() = photon::__update_now();
    vtp::reg().set(CURRENT, 100);
    vtp::Perturb::seed() = g_seed; vtp::Perturb::level() = vt::flag(argc, argv, "--perturb") ? 1 : 0;
    vtp::install_hooks(vt::flag(argc, argv, "--hooks"), false);
    g_vc.start(flags);
    g_stacks.logging = true;
    vtp::Watchdog wd; wd.start(30, prim.c_str());
    int rc = 0;
    g_stacks.quarantining = !g_pooled;        // (the pooled allocator recycles stacks itself; quarantine only with the default one)
    if (prim == "steal9") rc = run_steal9(200);
    else if (prim == "stealsb") rc = run_stealsb(g_execs);
    else for (int ex = 0; ex < g_execs; ex++)
        if (!(prim == "joinrace" ? exec_joinrace(ex, r) : exec_life(ex, r))) { rc = 4; break; }
    wd.end();
    g_stacks.logging = false;
    vt::close();
    if (rc) _exit(rc);
    g_vc.stop();
    vcpu_fini();
    return 0;
}
