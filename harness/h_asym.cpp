// C05 / F10 litmus: mutual exclusion of the asymmetric run-queue lock (thread/thread.cpp asymmetric_spinLock) between its
// foreground side (the owning vCPU: store-release of its flag, then loads of the other flag) and its background side
// (a stealing vCPU: exchange on its flag, then a load of the other flag).  One foreground OS thread and one background OS
// thread increment a plain counter inside the lock; every lost increment is an overlap of the two critical sections.
// The real class is used through guarded accessors.  One ndjson line: {"e":"Litmus","fg":n,"bg":m,"sum":s,"lost":k}.
#include <thread>
#include <atomic>
#include <cstdio>
#include <cstdlib>
#include <chrono>
#include "vt.h"
extern "C" { void* photon_verif_asym_new(); void photon_verif_asym_delete(void*); void photon_verif_asym_fg_lock(void*);
             void photon_verif_asym_fg_unlock(void*); int photon_verif_asym_bg_try_lock(void*); void photon_verif_asym_bg_unlock(void*); }
int main(int argc, char** argv) {
    vt::open(vt::arg(argc, argv, "--out", "-"), false);
    int ms = atoi(vt::arg(argc, argv, "--ms", "1500"));
    void* lk = photon_verif_asym_new();
    volatile uint64_t counter = 0;          // protected by the lock only
    std::atomic<bool> stop{false}; std::atomic<int> ready{0};
    uint64_t nfg = 0, nbg = 0;
    std::thread fg([&] { ready++; while (ready.load() < 2) {}
        while (!stop.load(std::memory_order_relaxed)) { photon_verif_asym_fg_lock(lk); counter = counter + 1; photon_verif_asym_fg_unlock(lk); nfg++; } });
    std::thread bg([&] { ready++; while (ready.load() < 2) {}
        while (!stop.load(std::memory_order_relaxed)) { if (photon_verif_asym_bg_try_lock(lk)) { counter = counter + 1; photon_verif_asym_bg_unlock(lk); nbg++; } } });
    std::this_thread::sleep_for(std::chrono::milliseconds(ms));
    stop = true; fg.join(); bg.join();
    uint64_t sum = counter, lost = nfg + nbg - sum;
    vt::Ev("Litmus").i("fg_k", (int64_t)(nfg / 1000)).i("bg_k", (int64_t)(nbg / 1000)).i("lost", (int64_t)(lost > 2000000000 ? 2000000000 : lost));
    vt::close();
    photon_verif_asym_delete(lk);
    return 0;
}
