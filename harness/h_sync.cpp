// Harness for the synchronisation primitives (C01 mutex/spinlocks, C02 semaphore, C03 condition variable, C06 rwlocks).
// Runs many short executions of random programs on the REAL primitives on 1..4 vCPUs and records, per API call,
// an Inv event before the call and a Resp event (return value, errno) after it, plus the harness-side observations the
// properties name (critical-section enter/exit, token ledger, predicate reads).  All events go through one global
// spinlock (vt.h), so the file order is a linearization consistent with real time.  Executions are separated by
// Reset events; Quiesce closes each execution.  The Tier-A trace specifications (spec/Trace_*A.tla) check that every
// recorded execution is a behaviour of the abstract object.
//
// usage: h_sync --prim mutex|mutex0|recmutex|spin|ticket|qspin --execs N --seed S --vcpus V --threads K --ops M --out f
#include "vt_photon.h"
#include <photon/thread/thread.h>
#include <memory>
#include <cstring>
using namespace photon;

static int g_vcpus = 2, g_threads = 3, g_ops = 4, g_execs = 50;
static uint64_t g_seed = 1;
static vtp::Vcpus g_vc;
static uint64_t g_t0;

static inline int64_t now_us() { return (int64_t)(photon::__update_now() - g_t0); }

enum TO { TO_ZERO = 0, TO_SHORT = 1, TO_INF = 2 };
static Timeout mk_timeout(int k, vt::Rng& r, int64_t* us) {
    if (k == TO_ZERO) { *us = 0; return Timeout(0); }
    if (k == TO_SHORT) { *us = 20 + r.below(400); return Timeout((uint64_t)*us); }
    *us = -1; return Timeout();
}

static void pause_a_bit(vt::Rng& r) {
    switch (r.below(6)) {
    case 0: case 1: break;
    case 2: case 3: thread_yield(); break;
    case 4: thread_usleep(r.below(150)); break;
    case 5: { for (volatile int i = 0; i < (int)r.below(3000); i++) {} } break;
    }
}

// ------------------------------------------------------------------------------------------------ interrupter
struct Interrupter {
    std::vector<vtp::Worker*>* ws = nullptr;
    std::atomic<bool> stop{false};
    std::atomic<bool> done{false};
    uint64_t seed = 0;
    int budget = 0;
    thread* th = nullptr;
    std::thread os;
    void loop(bool is_photon) {
        vt::Rng r(seed);
        while (!stop.load() && budget > 0) {
            auto w = (*ws)[r.below(ws->size())];
            if (!w->done.load()) {
                budget--;
                vt::Ev("Interrupt").i("t", w->id).i("by", is_photon ? 1 : 2);
                thread_interrupt(w->th, EINTR);
            }
            if (is_photon) thread_usleep(10 + r.below(200));
            else { for (volatile int i = 0; i < (int)(2000 + r.below(60000)); i++) {} }
        }
        done = true;
    }
};

// ------------------------------------------------------------------------------------------------ mutex family
// abstraction over the lock kinds so one program interpreter serves all of them
struct LockIface {
    virtual ~LockIface() {}
    virtual int lock(Timeout t) = 0;       // 0 / -1
    virtual int try_lock() = 0;
    virtual void unlock() = 0;
    virtual int locked() = 0;              // -1 unknown
    virtual bool timed() { return true; }
    virtual bool recursive() { return false; }
};
template <class M> struct MutexLike : LockIface {
    M m;
    template <class... A> MutexLike(A... a) : m(a...) {}
    int lock(Timeout t) override { return m.lock(t); }
    int try_lock() override { return m.try_lock(); }
    void unlock() override { m.unlock(); }
    int locked() override { return m.locked(); }
};
struct RecMutex : LockIface {
    recursive_mutex m;
    int lock(Timeout t) override { return m.lock(t); }
    int try_lock() override { return m.try_lock(); }
    void unlock() override { m.unlock(); }
    int locked() override { return -1; }
    bool recursive() override { return true; }
};
template <class S> struct SpinLike : LockIface {
    S m;
    int lock(Timeout) override { return m.lock(); }
    int try_lock() override { return m.try_lock(); }
    void unlock() override { m.unlock(); }
    int locked() override { return -1; }
    bool timed() override { return false; }
};
struct TicketLike : LockIface {
    ticket_spinlock m;
    int lock(Timeout) override { return m.lock(); }
    int try_lock() override { return -2; }   // not implemented by the library (declared only)
    void unlock() override { m.unlock(); }
    int locked() override { return -1; }
    bool timed() override { return false; }
};

static std::unique_ptr<LockIface> make_lock(const std::string& prim, vt::Rng& r, int* retries, int* contending) {
    *retries = -1; *contending = 0;
    if (prim == "mutex") {
        static const int RT[] = {0, 1, 2, 100};
        *retries = RT[r.below(4)];
        return std::unique_ptr<LockIface>(new MutexLike<mutex>((uint16_t)*retries));
    }
    if (prim == "mutex0") { *retries = 0; return std::unique_ptr<LockIface>(new MutexLike<mutex>((uint16_t)0)); }
    if (prim == "mutexc") { *retries = (int)r.below(2); *contending = 1;
                            return std::unique_ptr<LockIface>(new MutexLike<mutex>((uint16_t)*retries, true)); }
    if (prim == "recmutex") return std::unique_ptr<LockIface>(new RecMutex());
    if (prim == "spin") return std::unique_ptr<LockIface>(new SpinLike<spinlock>());
    if (prim == "qspin") return std::unique_ptr<LockIface>(new SpinLike<qspinlock>());
    if (prim == "ticket") return std::unique_ptr<LockIface>(new TicketLike());
    fprintf(stderr, "unknown prim %s\n", prim.c_str()); exit(2);
}

// one execution of the lock family with photon threads as clients
static bool exec_lock_photon(const std::string& prim, int ex, vt::Rng& r) {
    int retries, contending;
    auto lk = make_lock(prim, r, &retries, &contending);
    int nth = 2 + (int)r.below(g_threads - 1);
    int nvc = 1 + (int)r.below(g_vcpus);
    bool with_intr = lk->timed() && r.coin(60);
    vt::Ev("Reset").s("prim", prim).i("ex", ex).i("n", nth).i("vcpus", nvc).i("retries", retries).i("cont", contending)
        .b("rec", lk->recursive()).b("timed", lk->timed());
    std::vector<std::unique_ptr<vtp::Worker>> own;
    std::vector<vtp::Worker*> ws;
    std::atomic<int> inside{0};
    for (int i = 0; i < nth; i++) {
        own.emplace_back(new vtp::Worker());
        auto w = own.back().get(); w->id = i + 1; ws.push_back(w);
        uint64_t wseed = r.next();
        int nops = 1 + (int)r.below(g_ops);
        LockIface* L = lk.get();
        w->body = [w, wseed, nops, L, &inside] {
            vt::Rng rr(wseed);
            int held = 0;   // recursion depth held by this thread
            for (int k = 0; k < nops; k++) {
                pause_a_bit(rr);
                int op = (int)rr.below(10);
                if (held && !(L->recursive() && op < 3 && held < 3)) {
                    // inside the critical section: observe occupancy, then unlock
                    w->where = "cs";
                    vt::Ev("CsEnter").i("t", w->id);
                    inside++;
                    pause_a_bit(rr);
                    inside--;
                    vt::Ev("CsExit").i("t", w->id);
                    w->where = "unlock";
                    vt::Ev("Inv").i("t", w->id).s("op", "unlock");
                    L->unlock();
                    vt::Ev("Resp").i("t", w->id).s("op", "unlock").i("r", 0).i("en", 0);
                    held--;
                    continue;
                }
                if (op < 7) {
                    int64_t us; int kind = L->timed() ? (int)rr.below(3) : TO_INF;
                    Timeout t = mk_timeout(kind, rr, &us);
                    w->where = "lock";
                    vt::Ev("Inv").i("t", w->id).s("op", "lock").i("to", kind).i("us", us);
                    errno = 0;
                    int ret = L->lock(t);
                    int en = ret < 0 ? errno : 0;
                    vt::Ev("Resp").i("t", w->id).s("op", "lock").i("r", ret).i("en", en);
                    if (ret == 0) held++;
                } else {
                    w->where = "try_lock";
                    vt::Ev("Inv").i("t", w->id).s("op", "try_lock");
                    int ret = L->try_lock();
                    if (ret == -2) { vt::Ev("Resp").i("t", w->id).s("op", "try_lock").i("r", -1).i("en", 0).b("skip", true); continue; }
                    vt::Ev("Resp").i("t", w->id).s("op", "try_lock").i("r", ret).i("en", 0);
                    if (ret == 0) held++;
                }
            }
            while (held) {
                vt::Ev("CsEnter").i("t", w->id); vt::Ev("CsExit").i("t", w->id);
                w->where = "final unlock";
                vt::Ev("Inv").i("t", w->id).s("op", "unlock");
                L->unlock();
                vt::Ev("Resp").i("t", w->id).s("op", "unlock").i("r", 0).i("en", 0);
                held--;
            }
            w->where = "done";
        };
    }
    for (int i = 0; i < nth; i++) vtp::spawn_on(ws[i], g_vc.vc[r.below(nvc)]);
    Interrupter in; in.ws = &ws; in.seed = r.next(); in.budget = with_intr ? 1 + (int)r.below(4) : 0;
    bool os_intr = r.coin(40);
    vtp::Worker iw; iw.id = 99;
    if (in.budget) {
        if (os_intr) in.os = std::thread([&in] { in.loop(false); });
        else { iw.body = [&in] { in.loop(true); }; vtp::spawn_on(&iw, g_vc.vc[r.below(nvc)]); }
    }
    bool ok = vtp::wait_done(ws, 3 * 1000 * 1000, prim.c_str());
    in.stop = true;
    if (in.budget || in.os.joinable() || iw.th) {
        if (os_intr) { if (in.os.joinable()) in.os.join(); }
        else if (iw.th) { while (!iw.done.load()) thread_usleep(100); thread_join(iw.jh); }
    }
    if (!ok) return false;
    vtp::join_all(ws);
    vt::Ev("Quiesce").i("locked", lk->locked());
    return true;
}

// spinlock family with plain OS threads as clients (the property's "between OS threads" clause)
static bool exec_lock_os(const std::string& prim, int ex, vt::Rng& r) {
    int retries, contending;
    auto lk = make_lock(prim, r, &retries, &contending);
    int nth = 2 + (int)r.below(3);
    vt::Ev("Reset").s("prim", prim).i("ex", ex).i("n", nth).i("vcpus", 0).i("retries", -1).i("cont", 0).b("rec", false).b("timed", false);
    std::vector<std::thread> ts;
    std::atomic<int> go{0};
    for (int i = 0; i < nth; i++) {
        uint64_t wseed = r.next();
        int nops = 2 + (int)r.below(g_ops + 2);
        LockIface* L = lk.get();
        ts.emplace_back([i, wseed, nops, L, &go] {
            vt::Rng rr(wseed);
            int id = i + 1;
            while (!go.load()) {}
            for (int k = 0; k < nops; k++) {
                for (volatile int j = 0; j < (int)rr.below(2000); j++) {}
                bool got = false;
                if (rr.below(10) < 7) {
                    vt::Ev("Inv").i("t", id).s("op", "lock").i("to", TO_INF).i("us", -1);
                    int ret = L->lock(Timeout());
                    vt::Ev("Resp").i("t", id).s("op", "lock").i("r", ret).i("en", 0);
                    got = ret == 0;
                } else {
                    vt::Ev("Inv").i("t", id).s("op", "try_lock");
                    int ret = L->try_lock();
                    if (ret == -2) { vt::Ev("Resp").i("t", id).s("op", "try_lock").i("r", -1).i("en", 0).b("skip", true); continue; }
                    vt::Ev("Resp").i("t", id).s("op", "try_lock").i("r", ret).i("en", 0);
                    got = ret == 0;
                }
                if (got) {
                    vt::Ev("CsEnter").i("t", id);
                    for (volatile int j = 0; j < (int)rr.below(1500); j++) {}
                    if (rr.coin(10)) sched_yield();
                    vt::Ev("CsExit").i("t", id);
                    vt::Ev("Inv").i("t", id).s("op", "unlock");
                    L->unlock();
                    vt::Ev("Resp").i("t", id).s("op", "unlock").i("r", 0).i("en", 0);
                }
            }
        });
    }
    go = 1;
    for (auto& t : ts) t.join();
    vt::Ev("Quiesce").i("locked", lk->locked());
    return true;
}

int main(int argc, char** argv) {
    std::string prim = vt::arg(argc, argv, "--prim", "mutex");
    g_execs = atoi(vt::arg(argc, argv, "--execs", "50"));
    g_seed = strtoull(vt::arg(argc, argv, "--seed", "1"), 0, 10);
    g_vcpus = atoi(vt::arg(argc, argv, "--vcpus", "2"));
    g_threads = atoi(vt::arg(argc, argv, "--threads", "3"));
    g_ops = atoi(vt::arg(argc, argv, "--ops", "4"));
    bool os_clients = vt::flag(argc, argv, "--os") || prim == "spin" || prim == "qspin" || prim == "ticket";   // spinlocks: OS-thread clients (a photon thread must not yield while holding one)
    vt::open(vt::arg(argc, argv, "--out", "-"));
    set_log_output_level(ALOG_ERROR + 1);
    photon::init(photon::INIT_EVENT_EPOLL, photon::INIT_IO_NONE);
    g_t0 = photon::__update_now();
    g_vc.start(g_vcpus);
    vt::Rng r(g_seed * 1000003 + std::hash<std::string>()(prim) % 1000);
    int rc = 0;
    for (int ex = 0; ex < g_execs; ex++) {
        bool ok = os_clients ? exec_lock_os(prim, ex, r) : exec_lock_photon(prim, ex, r);
        if (!ok) { rc = 4; break; }
    }
    vt::close();
    if (rc) _exit(rc);      // a hung photon thread cannot be cleaned up
    g_vc.stop();
    photon::fini();
    return 0;
}
