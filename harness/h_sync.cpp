// Harness for the synchronisation primitives (C01 mutex/spinlocks, C02 semaphore, C03 condition variable, C06 rwlocks).
// Runs many short executions of random programs on the REAL primitives on 1..4 vCPUs and records, per API call,
// an Inv event before the call and a Resp event (return value, errno) after it, plus the harness-side observations the
// properties name (critical-section enter/exit, token ledger, predicate reads).  All events go through one global
// spinlock (vt.h), so the file order is a linearization consistent with real time.  Executions are separated by
// Reset events; Quiesce closes each execution.  The Tier-A trace specifications (spec/Trace_*A.tla) check that every
// recorded execution is a behaviour of the abstract object.
//
// usage: h_sync --prim mutex|mutex0|recmutex|spin|ticket|qspin --execs N --seed S --vcpus V --threads K --ops M --out f
#include "vt_photon.h"
#include <chrono>
#include <photon/thread/thread.h>
#include <memory>
#include <cstring>
#include <algorithm>
using namespace photon;

static int g_vcpus = 2, g_threads = 3, g_ops = 4, g_execs = 50;
static uint64_t g_seed = 1;
static vtp::Vcpus g_vc;
static uint64_t g_t0;

static inline int64_t now_us() { return (int64_t)(photon::__update_now() - g_t0); }

enum TO { TO_ZERO = 0, TO_SHORT = 1, TO_INF = 2 };
static Timeout mk_timeout(int k, vt::Rng& r, int64_t* us) {
    if (k == TO_ZERO) { *us = 0; return Timeout(0); }
    if (k == TO_SHORT) { *us = 20 + r.below(400); return Timeout((uint64_t)*us); }
    *us = -1; return Timeout();
}

static void pause_a_bit(vt::Rng& r) {
    switch (r.below(6)) {
    case 0: case 1: break;
    case 2: case 3: thread_yield(); break;
    case 4: thread_usleep(r.below(150)); break;
    case 5: { for (volatile int i = 0; i < (int)r.below(3000); i++) {} } break;
    }
}

// ------------------------------------------------------------------------------------------------ interrupter
struct Interrupter {
    std::vector<vtp::Worker*>* ws = nullptr;
    std::atomic<bool> stop{false};
    std::atomic<bool> done{false};
    uint64_t seed = 0;
    int budget = 0;
    thread* th = nullptr;
    std::thread os;
    void loop(bool is_photon) {
        vt::Rng r(seed);
        while (!stop.load() && budget > 0) {
            auto w = (*ws)[r.below(ws->size())];
            if (!w->done.load()) {
                budget--;
                vt::Ev("Interrupt").i("t", w->id).i("by", is_photon ? 1 : 2);
                thread_interrupt(w->th, EINTR);
            }
            if (is_photon) thread_usleep(10 + r.below(200));
            else { for (volatile int i = 0; i < (int)(2000 + r.below(60000)); i++) {} }
        }
        done = true;
    }
};

// ------------------------------------------------------------------------------------------------ mutex family
// abstraction over the lock kinds so one program interpreter serves all of them
struct LockIface {
    virtual ~LockIface() {}
    virtual int lock(Timeout t) = 0;       // 0 / -1
    virtual int try_lock() = 0;
    virtual void unlock() = 0;
    virtual int locked() = 0;              // -1 unknown
    virtual bool timed() { return true; }
    virtual bool recursive() { return false; }
    virtual const void* addr() { return nullptr; }
};
template <class M> struct MutexLike : LockIface {
    M m;
    template <class... A> MutexLike(A... a) : m(a...) {}
    int lock(Timeout t) override { return m.lock(t); }
    int try_lock() override { return m.try_lock(); }
    void unlock() override { m.unlock(); }
    int locked() override { return m.locked(); }
    const void* addr() override { return &m; }
};
struct RecMutex : LockIface {
    recursive_mutex m;
    int lock(Timeout t) override { return m.lock(t); }
    int try_lock() override { return m.try_lock(); }
    void unlock() override { m.unlock(); }
    int locked() override { return -1; }
    bool recursive() override { return true; }
    const void* addr() override { return &m; }
};
template <class S> struct SpinLike : LockIface {
    S m;
    int lock(Timeout) override { return m.lock(); }
    int try_lock() override { return m.try_lock(); }
    void unlock() override { m.unlock(); }
    int locked() override { return -1; }
    bool timed() override { return false; }
};
struct TicketLike : LockIface {
    ticket_spinlock m;
    int lock(Timeout) override { return m.lock(); }
    int try_lock() override { return -2; }   // not implemented by the library (declared only)
    void unlock() override { m.unlock(); }
    int locked() override { return -1; }
    bool timed() override { return false; }
};

static std::unique_ptr<LockIface> make_lock(const std::string& prim, vt::Rng& r, int* retries, int* contending) {
    *retries = -1; *contending = 0;
    if (prim == "mutex") {
        static const int RT[] = {0, 1, 2, 100};
        *retries = RT[r.below(4)];
        return std::unique_ptr<LockIface>(new MutexLike<mutex>((uint16_t)*retries));
    }
    if (prim == "mutex0") { *retries = 0; return std::unique_ptr<LockIface>(new MutexLike<mutex>((uint16_t)0)); }
    if (prim == "mutexc") { *retries = (int)r.below(2); *contending = 1;
                            return std::unique_ptr<LockIface>(new MutexLike<mutex>((uint16_t)*retries, true)); }
    if (prim == "recmutex") return std::unique_ptr<LockIface>(new RecMutex());
    if (prim == "spin") return std::unique_ptr<LockIface>(new SpinLike<spinlock>());
    if (prim == "qspin") return std::unique_ptr<LockIface>(new SpinLike<qspinlock>());
    if (prim == "ticket") return std::unique_ptr<LockIface>(new TicketLike());
    fprintf(stderr, "unknown prim %s\n", prim.c_str()); exit(2);
}

// one execution of the lock family with photon threads as clients
static bool exec_lock_photon(const std::string& prim, int ex, vt::Rng& r) {
    int retries, contending;
    auto lk = make_lock(prim, r, &retries, &contending);
    int nth = 2 + (int)r.below(g_threads - 1);
    int nvc = 1 + (int)r.below(g_vcpus);
    bool with_intr = lk->timed() && r.coin(60);
    vtp::reg().set(lk->addr(), 200);
    vt::Ev("Reset").s("prim", prim).i("ex", ex).i("n", nth).i("vcpus", nvc).i("retries", retries).i("cont", contending)
        .b("rec", lk->recursive()).b("timed", lk->timed());
    std::vector<std::unique_ptr<vtp::Worker>> own;
    std::vector<vtp::Worker*> ws;
    std::atomic<int> inside{0};
    for (int i = 0; i < nth; i++) {
        own.emplace_back(new vtp::Worker());
        auto w = own.back().get(); w->id = i + 1; ws.push_back(w);
        uint64_t wseed = r.next();
        int nops = 1 + (int)r.below(g_ops);
        LockIface* L = lk.get();
        w->body = [w, wseed, nops, L, &inside] {
            vt::Rng rr(wseed);
            int held = 0;   // recursion depth held by this thread
            for (int k = 0; k < nops; k++) {
                pause_a_bit(rr);
                int op = (int)rr.below(10);
                if (held && !(L->recursive() && op < 3 && held < 3)) {
                    // inside the critical section: observe occupancy, then unlock
                    w->where = "cs";
                    vt::Ev("CsEnter").i("t", w->id);
                    inside++;
                    pause_a_bit(rr);
                    inside--;
                    vt::Ev("CsExit").i("t", w->id);
                    w->where = "unlock";
                    vt::Ev("Inv").i("t", w->id).s("op", "unlock");
                    L->unlock();
                    vt::Ev("Resp").i("t", w->id).s("op", "unlock").i("r", 0).i("en", 0);
                    held--;
                    continue;
                }
                if (op < 7) {
                    int64_t us; int kind = L->timed() ? (int)rr.below(3) : TO_INF;
                    Timeout t = mk_timeout(kind, rr, &us);
                    w->where = "lock";
                    vt::Ev("Inv").i("t", w->id).s("op", "lock").i("to", kind).i("us", us);
                    errno = 0;
                    int ret = L->lock(t);
                    int en = ret < 0 ? errno : 0;
                    vt::Ev("Resp").i("t", w->id).s("op", "lock").i("r", ret).i("en", en);
                    if (ret == 0) held++;
                } else {
                    w->where = "try_lock";
                    vt::Ev("Inv").i("t", w->id).s("op", "try_lock");
                    int ret = L->try_lock();
                    if (ret == -2) { vt::Ev("Resp").i("t", w->id).s("op", "try_lock").i("r", -1).i("en", 0).b("skip", true); continue; }
                    // spinning acquirer (half of the failed attempts): keep trying, for at most 20 ms; the call recorded is the
                    // last attempt (the earlier failed ones are failed try_locks, which change nothing)
                    if (ret != 0 && !held && rr.coin(50)) {
                        uint64_t t0 = photon::__update_now(); int n = 0;
                        while ((ret = L->try_lock()) != 0 && n < 2000 && photon::__update_now() - t0 < 20000) if ((++n & 7) == 0) thread_yield();
                    }
                    vt::Ev("Resp").i("t", w->id).s("op", "try_lock").i("r", ret).i("en", 0);
                    if (ret == 0) held++;
                }
            }
            while (held) {
                vt::Ev("CsEnter").i("t", w->id); vt::Ev("CsExit").i("t", w->id);
                w->where = "final unlock";
                vt::Ev("Inv").i("t", w->id).s("op", "unlock");
                L->unlock();
                vt::Ev("Resp").i("t", w->id).s("op", "unlock").i("r", 0).i("en", 0);
                held--;
            }
            w->where = "done";
        };
    }
    { vtp::GateGuard gg; for (int i = 0; i < nth; i++) vtp::spawn_on(ws[i], g_vc.vc[r.below(nvc)]); }
    Interrupter in; in.ws = &ws; in.seed = r.next(); in.budget = with_intr ? 1 + (int)r.below(4) : 0;
    bool os_intr = r.coin(40);
    vtp::Worker iw; iw.id = 99;
    if (in.budget) {
        if (os_intr) in.os = std::thread([&in] { in.loop(false); });
        else { iw.body = [&in] { in.loop(true); }; vtp::spawn_on(&iw, g_vc.vc[r.below(nvc)]); }
    }
    bool ok = vtp::wait_done(ws, 10 * 1000 * 1000, prim.c_str());
    in.stop = true;
    if (in.budget || in.os.joinable() || iw.th) {
        if (os_intr) { if (in.os.joinable()) in.os.join(); }
        else if (iw.th) { while (!iw.done.load()) thread_usleep(100); thread_join(iw.jh); }
    }
    if (!ok) return false;
    vtp::join_all(ws);
    vt::Ev("Quiesce").i("locked", lk->locked());
    return true;
}

// spinlock family with plain OS threads as clients (the property's "between OS threads" clause)
static bool exec_lock_os(const std::string& prim, int ex, vt::Rng& r) {
    int retries, contending;
    auto lk = make_lock(prim, r, &retries, &contending);
    int nth = 2 + (int)r.below(3);
    vt::Ev("Reset").s("prim", prim).i("ex", ex).i("n", nth).i("vcpus", 0).i("retries", -1).i("cont", 0).b("rec", false).b("timed", false);
    std::vector<std::thread> ts;
    std::atomic<int> go{0};
    for (int i = 0; i < nth; i++) {
        uint64_t wseed = r.next();
        int nops = 2 + (int)r.below(g_ops + 2);
        LockIface* L = lk.get();
        ts.emplace_back([i, wseed, nops, L, &go] {
            vt::Rng rr(wseed);
            int id = i + 1;
            while (!go.load()) {}
            for (int k = 0; k < nops; k++) {
                for (volatile int j = 0; j < (int)rr.below(2000); j++) {}
                bool got = false;
                if (rr.below(10) < 7) {
                    vt::Ev("Inv").i("t", id).s("op", "lock").i("to", TO_INF).i("us", -1);
                    int ret = L->lock(Timeout());
                    vt::Ev("Resp").i("t", id).s("op", "lock").i("r", ret).i("en", 0);
                    got = ret == 0;
                } else {
                    vt::Ev("Inv").i("t", id).s("op", "try_lock");
                    int ret = L->try_lock();
                    if (ret == -2) { vt::Ev("Resp").i("t", id).s("op", "try_lock").i("r", -1).i("en", 0).b("skip", true); continue; }
                    vt::Ev("Resp").i("t", id).s("op", "try_lock").i("r", ret).i("en", 0);
                    got = ret == 0;
                }
                if (got) {
                    vt::Ev("CsEnter").i("t", id);
                    for (volatile int j = 0; j < (int)rr.below(1500); j++) {}
                    if (rr.coin(10)) sched_yield();
                    vt::Ev("CsExit").i("t", id);
                    vt::Ev("Inv").i("t", id).s("op", "unlock");
                    L->unlock();
                    vt::Ev("Resp").i("t", id).s("op", "unlock").i("r", 0).i("en", 0);
                }
            }
        });
    }
    go = 1;
    for (auto& t : ts) t.join();
    vt::Ev("Quiesce").i("locked", lk->locked());
    return true;
}


// ------------------------------------------------------------------------------------------------ settle detection
// An execution is "settled" when every worker is done or has been observed SLEEPING inside a blocking call at two
// inspections 10 ms apart without having advanced its operation counter.  Only then are blocked threads reported.
struct Prog { std::atomic<int> opno{0}; std::atomic<int> blocked_in{0}; int64_t arg = 0; int mode = 0; };
static bool settled(std::vector<vtp::Worker*>& ws, std::vector<Prog>& pg, std::vector<int>& blocked) {
    auto snap = [&](std::vector<int>& ops) {
        blocked.clear(); ops.clear();
        for (size_t i = 0; i < ws.size(); i++) {
            ops.push_back(pg[i].opno.load());
            if (ws[i]->done.load()) continue;
            if (!pg[i].blocked_in.load() || thread_stat(ws[i]->th) != states::SLEEPING) return false;
            blocked.push_back((int)i);
        }
        return true;
    };
    std::vector<int> o1, o2, b1;
    if (!snap(o1)) return false;
    b1 = blocked;
    thread_usleep(10 * 1000);
    if (!snap(o2)) return false;
    return o1 == o2 && b1 == blocked;
}
// waits until the execution settles (or everything is done); returns false on a hang (threads neither done nor asleep)
static bool wait_settle(std::vector<vtp::Worker*>& ws, std::vector<Prog>& pg, std::vector<int>& blocked, const char* what) {
    for (int spins = 0; spins < 20000; spins++) {
        bool all = true;
        for (auto w : ws) if (!w->done.load()) { all = false; break; }
        if (all) { blocked.clear(); return true; }
        if (spins > 4 && settled(ws, pg, blocked)) return true;
        thread_usleep(500);
    }
    return vtp::wait_done(ws, 0, what);
}

// ------------------------------------------------------------------------------------------------ semaphore (C02)
static bool exec_sem(const std::string& prim, int ex, vt::Rng& r) {
    bool ooo = prim == "semooo";
    uint64_t init = r.below(3);
    semaphore sem(init, !ooo);
    vtp::reg().set(&sem, 200);
    int nth = 2 + (int)r.below(g_threads - 1);
    int nvc = 1 + (int)r.below(g_vcpus);
    bool with_intr = r.coin(40);
    bool os_signaller = r.coin(50);
    vt::Ev("Reset").s("prim", prim).i("ex", ex).i("n", nth).i("vcpus", nvc).i("init", (int64_t)init).b("ooo", ooo);
    std::vector<std::unique_ptr<vtp::Worker>> own; std::vector<vtp::Worker*> ws; std::vector<Prog> pg(nth);
    for (int i = 0; i < nth; i++) {
        own.emplace_back(new vtp::Worker()); auto w = own.back().get(); w->id = i + 1; ws.push_back(w);
        uint64_t wseed = r.next(); int nops = 1 + (int)r.below(g_ops); Prog* P = &pg[i];
        bool interruptible = r.coin(50);
        w->body = [w, wseed, nops, &sem, P, interruptible] {
            vt::Rng rr(wseed);
            for (int k = 0; k < nops; k++) {
                pause_a_bit(rr);
                P->opno++;
                if (rr.below(10) < 6) {
                    int64_t us; int kind = (int)rr.below(3); Timeout t = mk_timeout(kind, rr, &us);
                    int64_t n = 1 + (int64_t)rr.below(2);
                    w->where = "wait"; P->arg = n;
                    vt::Ev("Inv").i("t", w->id).s("op", interruptible ? "waiti" : "wait").i("n", n).i("to", kind);
                    P->blocked_in = 1; errno = 0;
                    int ret = interruptible ? sem.wait_interruptible(n, t) : sem.wait(n, t);
                    int en = ret < 0 ? errno : 0;
                    P->blocked_in = 0;
                    vt::Ev("Resp").i("t", w->id).s("op", interruptible ? "waiti" : "wait").i("r", ret).i("en", en);
                } else {
                    int64_t n = 1 + (int64_t)rr.below(2);
                    w->where = "signal";
                    vt::Ev("Inv").i("t", w->id).s("op", "signal").i("n", n);
                    sem.signal(n);
                    vt::Ev("Resp").i("t", w->id).s("op", "signal").i("r", 0).i("en", 0);
                }
            }
            w->where = "done";
        };
    }
    { vtp::GateGuard gg; for (int i = 0; i < nth; i++) vtp::spawn_on(ws[i], g_vc.vc[r.below(nvc)]); }
    // an external signaller: plain OS thread (id 90)
    std::thread oss; std::atomic<bool> oss_done{true};
    if (os_signaller) {
        oss_done = false; uint64_t sseed = r.next(); int ns = 1 + (int)r.below(3);
        oss = std::thread([&sem, sseed, ns, &oss_done] {
            vt::Rng rr(sseed);
            for (int k = 0; k < ns; k++) {
                for (volatile int j = 0; j < (int)rr.below(40000); j++) {}
                int64_t n = 1 + (int64_t)rr.below(2);
                vt::Ev("Inv").i("t", 90).s("op", "signal").i("n", n);
                sem.signal(n);
                vt::Ev("Resp").i("t", 90).s("op", "signal").i("r", 0).i("en", 0);
            }
            oss_done = true;
        });
    }
    Interrupter in; in.ws = &ws; in.seed = r.next(); in.budget = with_intr ? 1 + (int)r.below(3) : 0;
    vtp::Worker iw; iw.id = 99;
    if (in.budget) { iw.body = [&in] { in.loop(true); }; vtp::spawn_on(&iw, g_vc.vc[r.below(nvc)]); }
    std::vector<int> blocked;
    bool ok = true;
    while (true) {
        ok = wait_settle(ws, pg, blocked, prim.c_str());
        if (!ok) break;
        if (!oss_done.load() || (in.budget && !in.done.load() && !in.stop.load())) { in.stop = true; thread_usleep(300); if (blocked.empty() && oss_done.load()) break; continue; }
        break;
    }
    in.stop = true;
    if (oss.joinable()) oss.join();
    if (iw.th) { while (!iw.done.load()) thread_usleep(100); thread_join(iw.jh); }
    if (!ok) return false;
    // re-inspect after the signaller / interrupter have stopped
    ok = wait_settle(ws, pg, blocked, prim.c_str());
    if (!ok) return false;
    int guard = 0;
    while (!blocked.empty() && guard++ < 50) {
        vt::Arr a; int64_t need = 0;
        for (int i : blocked) { a.raw("[" + std::to_string(ws[i]->id) + "," + std::to_string(pg[i].arg) + "]"); need += pg[i].arg; }
        vt::Ev("Settle").raw("blocked", a.str()).i("count", (int64_t)sem.count());
        // release them so the execution can go on
        vt::Ev("Inv").i("t", 91).s("op", "signal").i("n", need);
        sem.signal(need);
        vt::Ev("Resp").i("t", 91).s("op", "signal").i("r", 0).i("en", 0);
        if (!wait_settle(ws, pg, blocked, prim.c_str())) return false;
    }
    if (!vtp::wait_done(ws, 10 * 1000 * 1000, prim.c_str())) return false;
    vtp::join_all(ws);
    vt::Ev("Quiesce").i("count", (int64_t)sem.count());
    return true;
}

// destroy-after-wait: the waiter owns the semaphore's storage and destroys + poisons it as soon as wait() returns
static bool exec_semdestroy(const std::string& prim, int ex, vt::Rng& r) {
    struct Box { alignas(64) unsigned char mem[sizeof(semaphore)]; };
    int rounds = 3 + (int)r.below(5);
    int nvc = g_vcpus;
    vt::Ev("Reset").s("prim", prim).i("ex", ex).i("n", 2).i("vcpus", nvc).i("init", 0).b("ooo", false);
    for (int k = 0; k < rounds; k++) {
        Box* box = new Box();
        vt::Ev("NewSem").i("k", k);
        semaphore* sem = new (box->mem) semaphore(0);
        std::atomic<int> phase{0};
        vtp::Worker w; w.id = 1;
        w.body = [&] {
            vt::Ev("Inv").i("t", 1).s("op", "wait").i("n", 1).i("to", TO_INF);
            int ret = sem->wait(1);
            vt::Ev("Resp").i("t", 1).s("op", "wait").i("r", ret).i("en", 0);
            sem->~semaphore();
            memset(box->mem, 0xA5, sizeof box->mem);
            vt::Ev("Destroyed").i("t", 1);
            phase = 1;
        };
        vtp::spawn_on(&w, g_vc.vc[r.below(nvc)]);
        bool by_os = r.coin(50);
        uint64_t d = r.below(300);
        auto sig = [&] {
            vt::Ev("Inv").i("t", 90).s("op", "signal").i("n", 1);
            sem->signal(1);
            vt::Ev("Resp").i("t", 90).s("op", "signal").i("r", 0).i("en", 0);
        };
        thread_usleep(d);
        if (by_os) { std::thread t(sig); t.join(); }
        else { vtp::Worker s2; s2.id = 2; s2.body = sig; vtp::spawn_on(&s2, g_vc.vc[r.below(nvc)]);
               while (!s2.done.load()) thread_usleep(50); thread_join(s2.jh); }
        std::vector<vtp::Worker*> ws{&w};
        if (!vtp::wait_done(ws, 10 * 1000 * 1000, "semdestroy")) return false;
        vtp::join_all(ws);
        bool intact = true;
        for (size_t i = 0; i < sizeof box->mem; i++) if (box->mem[i] != 0xA5) intact = false;
        vt::Ev("PoisonCheck").b("intact", intact);
        delete box;
    }
    vt::Ev("Quiesce").i("count", 0);
    return true;
}

// ------------------------------------------------------------------------------------------------ condition variable (C03)
static bool exec_cv(const std::string& prim, int ex, vt::Rng& r) {
    bool spin = prim == "cvspin";
    mutex mtx; spinlock spl; condition_variable cv;
    vtp::reg().set(&mtx, 200); vtp::reg().set(&cv, 201);
    int nth = 2 + (int)r.below(g_threads - 1);
    int nvc = 1 + (int)r.below(g_vcpus);
    vt::Ev("Reset").s("prim", prim).i("ex", ex).i("n", nth).i("vcpus", nvc).b("spin", spin);
    std::vector<std::unique_ptr<vtp::Worker>> own; std::vector<vtp::Worker*> ws; std::vector<Prog> pg(nth);
    auto lock = [&] { if (spin) spl.lock(); else mtx.lock(); };
    auto unlock = [&] { if (spin) spl.unlock(); else mtx.unlock(); };
    for (int i = 0; i < nth; i++) {
        own.emplace_back(new vtp::Worker()); auto w = own.back().get(); w->id = i + 1; ws.push_back(w);
        uint64_t wseed = r.next(); int nops = 1 + (int)r.below(g_ops); Prog* P = &pg[i];
        bool waiter = (i == 0) || r.coin(50);
        w->body = [w, wseed, nops, P, waiter, spin, &cv, &mtx, &spl, lock, unlock] {
            vt::Rng rr(wseed);
            for (int k = 0; k < nops; k++) {
                if (!spin) pause_a_bit(rr); else if (rr.coin(50)) thread_yield();
                P->opno++;
                if (waiter && rr.below(10) < 7) {
                    lock();
                    vt::Ev("Acq").i("t", w->id);
                    // hold the lock for a moment before waiting, so that notifiers queue up on it (mutex flavour: may sleep)
                    if (!spin && rr.coin(50)) { if (rr.coin(50)) thread_usleep(30 + rr.below(150)); else thread_yield(); }
                    else if (rr.coin(30)) { for (volatile int i = 0; i < (int)rr.below(20000); i++) {} }
                    int64_t us; int kind = (int)rr.below(10) < 6 ? TO_INF : TO_SHORT;
                    uint64_t t0 = photon::__update_now();
                    Timeout t = mk_timeout(kind, rr, &us);
                    w->where = "cvwait";
                    vt::Ev("Inv").i("t", w->id).s("op", "cvwait").i("to", kind).i("us", us);
                    P->blocked_in = 1; errno = 0;
                    int ret = spin ? cv.wait(spl, t) : cv.wait(mtx, t);
                    int en = ret < 0 ? errno : 0;
                    P->blocked_in = 0;
                    uint64_t t1 = photon::__update_now();
                    vt::Ev("Resp").i("t", w->id).s("op", "cvwait").i("r", ret).i("en", en).i("dt", (int64_t)(t1 - t0));
                    vt::Ev("Rel").i("t", w->id);
                    unlock();
                } else {
                    bool with_lock = rr.coin(60);
                    bool all = rr.coin(35);
                    if (with_lock) { lock(); vt::Ev("Acq").i("t", w->id); }
                    w->where = "notify";
                    vt::Ev("Inv").i("t", w->id).s("op", all ? "notify_all" : "notify_one");
                    int64_t res;
                    if (all) res = cv.notify_all();
                    else { thread* th = cv.notify_one(); res = th ? vtp::reg().get(th) : 0; }
                    vt::Ev("Resp").i("t", w->id).s("op", all ? "notify_all" : "notify_one").i("r", res).i("en", 0);
                    if (with_lock) { vt::Ev("Rel").i("t", w->id); unlock(); }
                }
            }
            w->where = "done";
        };
    }
    { vtp::GateGuard gg; for (int i = 0; i < nth; i++) vtp::spawn_on(ws[i], g_vc.vc[r.below(nvc)]); }
    std::vector<int> blocked;
    if (!wait_settle(ws, pg, blocked, prim.c_str())) return false;
    int guard = 0;
    while (!blocked.empty() && guard++ < 20) {
        vt::Arr a; for (int i : blocked) a.i(ws[i]->id);
        vt::Ev("Settle").raw("blocked", a.str());
        vt::Ev("Inv").i("t", 91).s("op", "notify_all");
        int64_t res = cv.notify_all();
        vt::Ev("Resp").i("t", 91).s("op", "notify_all").i("r", res).i("en", 0);
        if (!wait_settle(ws, pg, blocked, prim.c_str())) return false;
    }
    if (!vtp::wait_done(ws, 10 * 1000 * 1000, prim.c_str())) return false;
    vtp::join_all(ws);
    vt::Ev("Quiesce").i("locked", spin ? (int)spl.locked() : (int)mtx.locked());
    return true;
}

// ------------------------------------------------------------------------------------------------ rwlock / qrwlock (C06)
static bool exec_rw(const std::string& prim, int ex, vt::Rng& r) {
    bool q = prim == "qrw";
    rwlock rw; qrwlock qrw;
    int nth = 2 + (int)r.below(g_threads - 1);
    int nvc = 1 + (int)r.below(g_vcpus);
    bool with_intr = r.coin(40);
    vt::Ev("Reset").s("prim", prim).i("ex", ex).i("n", nth).i("vcpus", nvc);
    std::vector<std::unique_ptr<vtp::Worker>> own; std::vector<vtp::Worker*> ws; std::vector<Prog> pg(nth);
    for (int i = 0; i < nth; i++) {
        own.emplace_back(new vtp::Worker()); auto w = own.back().get(); w->id = i + 1; ws.push_back(w);
        uint64_t wseed = r.next(); int nops = 1 + (int)r.below(g_ops); Prog* P = &pg[i];
        w->body = [w, wseed, nops, P, q, &rw, &qrw] {
            vt::Rng rr(wseed);
            int held = 0;  // 0 none, 1 read, 2 write
            auto do_unlock = [&] {
                vt::Ev("CsEnter").i("t", w->id).i("mode", held);
                pause_a_bit(rr);
                vt::Ev("CsExit").i("t", w->id);
                vt::Ev("Inv").i("t", w->id).s("op", "unlock");
                int ret = q ? qrw.unlock() : rw.unlock();
                vt::Ev("Resp").i("t", w->id).s("op", "unlock").i("r", ret).i("en", 0);
                held = 0;
            };
            for (int k = 0; k < nops; k++) {
                pause_a_bit(rr);
                P->opno++;
                if (held) { w->where = "unlock"; do_unlock(); continue; }
                int mode = rr.coin(60) ? 1 : 2;
                if (q && rr.below(10) < 3) {
                    vt::Ev("Inv").i("t", w->id).s("op", "try_lock").i("mode", mode);
                    int ret = qrw.try_lock(mode == 1 ? RLOCK : WLOCK);
                    vt::Ev("Resp").i("t", w->id).s("op", "try_lock").i("r", ret).i("en", 0);
                    if (ret == 0) held = mode;
                    continue;
                }
                int64_t us; int kind = (int)rr.below(3); Timeout t = mk_timeout(kind, rr, &us);
                w->where = "rwlock"; P->mode = mode;
                vt::Ev("Inv").i("t", w->id).s("op", "lock").i("mode", mode).i("to", kind);
                P->blocked_in = 1; errno = 0;
                int ret = q ? qrw.lock(mode == 1 ? RLOCK : WLOCK, t) : rw.lock(mode == 1 ? RLOCK : WLOCK, t);
                int en = ret < 0 ? errno : 0;
                P->blocked_in = 0;
                vt::Ev("Resp").i("t", w->id).s("op", "lock").i("r", ret).i("en", en);
                if (ret == 0) held = mode;
            }
            if (held) do_unlock();
            w->where = "done";
        };
    }
    { vtp::GateGuard gg; for (int i = 0; i < nth; i++) vtp::spawn_on(ws[i], g_vc.vc[r.below(nvc)]); }
    Interrupter in; in.ws = &ws; in.seed = r.next(); in.budget = with_intr ? 1 + (int)r.below(3) : 0;
    vtp::Worker iw; iw.id = 99;
    if (in.budget) { iw.body = [&in] { in.loop(true); }; vtp::spawn_on(&iw, g_vc.vc[r.below(nvc)]); }
    std::vector<int> blocked;
    bool ok = wait_settle(ws, pg, blocked, prim.c_str());
    in.stop = true;
    if (iw.th) { while (!iw.done.load()) thread_usleep(100); thread_join(iw.jh); }
    if (!ok) return false;
    if (!wait_settle(ws, pg, blocked, prim.c_str())) return false;
    int guard = 0;
    while (!blocked.empty() && guard++ < 20) {
        // lockers asleep although every program that held the lock has ended: report, then get them out by interruption
        vt::Arr a; for (int i : blocked) a.i(ws[i]->id);
        vt::Ev("Settle").raw("blocked", a.str());
        for (int i : blocked) { vt::Ev("Interrupt").i("t", ws[i]->id).i("by", 3); thread_interrupt(ws[i]->th, EINTR); }
        if (!wait_settle(ws, pg, blocked, prim.c_str())) return false;
    }
    if (!vtp::wait_done(ws, 10 * 1000 * 1000, prim.c_str())) return false;
    vtp::join_all(ws);
    vt::Ev("Quiesce").i("locked", 0);
    return true;
}

// rwlock::unlock() racing with the reader at the head of the queue leaving (interrupt / timeout) exactly between the
// "is the head a writer?" test and the loop that wakes the run of readers (hook VT_RW_WAKE_READERS; any vCPU may deliver
// such an interrupt at that instant).  One vCPU, deterministic.  Recorded like any other rwlock execution.
static bool exec_rwrace(const std::string& prim, int ex, vt::Rng& r) {
    rwlock rw;
    int nw = 2 + (int)r.below(3);           // queued lockers behind the first holder
    int n = nw + 1;
    vt::Ev("Reset").s("prim", prim).i("ex", ex).i("n", n).i("vcpus", 1);
    std::vector<std::unique_ptr<vtp::Worker>> own; std::vector<vtp::Worker*> ws; std::vector<Prog> pg(n);
    for (int i = 0; i < n; i++) { own.emplace_back(new vtp::Worker()); own.back()->id = i + 1; ws.push_back(own.back().get()); }
    std::atomic<int> stage{0};
    auto lockop = [&](vtp::Worker* w, Prog* P, int mode) {
        P->opno++;
        vt::Ev("Inv").i("t", w->id).s("op", "lock").i("mode", mode).i("to", TO_INF);
        P->blocked_in = 1; errno = 0;
        int ret = rw.lock(mode == 1 ? RLOCK : WLOCK);
        int en = ret < 0 ? errno : 0;
        P->blocked_in = 0;
        vt::Ev("Resp").i("t", w->id).s("op", "lock").i("r", ret).i("en", en);
        return ret;
    };
    auto unlockop = [&](vtp::Worker* w, int mode) {
        vt::Ev("CsEnter").i("t", w->id).i("mode", mode); vt::Ev("CsExit").i("t", w->id);
        vt::Ev("Inv").i("t", w->id).s("op", "unlock");
        int ret = rw.unlock();
        vt::Ev("Resp").i("t", w->id).s("op", "unlock").i("r", ret).i("en", 0);
    };
    std::vector<int> modes(n);
    modes[0] = r.coin(70) ? 2 : 1;
    for (int i = 1; i < n; i++) modes[i] = r.coin(60) ? 1 : 2;
    if (modes[0] == 1) modes[1] = 2;        // a reader holds: the first waiter must conflict to be queued
    int fire_at = (int)r.below(2);          // which hook occurrence delivers the interrupt
    ws[0]->body = [&] {                     // first holder
        if (lockop(ws[0], &pg[0], modes[0]) != 0) return;
        stage = 1;
        while (stage.load() < n) thread_yield();
        int seen = 0;
        vtp::hook_callback() = [&](uint32_t id, const void*, uint64_t, uint64_t, uint64_t) {
            if (id != VT_RW_WAKE_READERS && id != VT_RW_WOKE_FIRST) return;
            if (seen++ != fire_at && id != VT_RW_WAKE_READERS) return;
            vtp::hook_callback() = nullptr;
            for (int i = 1; i < n; i++)     // the locker now at the head of the queue leaves it (interrupt from elsewhere)
                if (thread_stat(ws[i]->th) == states::SLEEPING) {
                    vt::Ev("Interrupt").i("t", ws[i]->id).i("by", 3);
                    thread_interrupt(ws[i]->th, EINTR);
                    break;
                }
        };
        unlockop(ws[0], modes[0]);
        vtp::hook_callback() = nullptr;
    };
    for (int i = 1; i < n; i++)
        ws[i]->body = [&, i] {              // queued one after the other (arrival order is deterministic on one vCPU)
            while (stage.load() < i || (i > 1 && thread_stat(ws[i - 1]->th) != states::SLEEPING)) thread_yield();
            stage = i + 1;
            if (lockop(ws[i], &pg[i], modes[i]) == 0) { if (r.coin(50)) thread_yield(); unlockop(ws[i], modes[i]); }
        };
    { vtp::GateGuard gg; for (int i = 0; i < n; i++) vtp::spawn_on(ws[i], g_vc.vc[0]); }
    std::vector<int> blocked;
    if (!wait_settle(ws, pg, blocked, prim.c_str())) return false;
    int guard = 0;
    while (!blocked.empty() && guard++ < 20) {
        vt::Arr a; for (int i : blocked) a.i(ws[i]->id);
        vt::Ev("Settle").raw("blocked", a.str());
        for (int i : blocked) { vt::Ev("Interrupt").i("t", ws[i]->id).i("by", 3); thread_interrupt(ws[i]->th, EINTR); }
        if (!wait_settle(ws, pg, blocked, prim.c_str())) return false;
    }
    if (!vtp::wait_done(ws, 10 * 1000 * 1000, prim.c_str())) return false;
    vtp::join_all(ws);
    vt::Ev("Quiesce").i("locked", 0);
    return true;
}

// ------------------------------------------------------------------------------------------------ sleep / interrupt (C04)
static bool exec_sleep(const std::string& prim, int ex, vt::Rng& r) {
    int nth = 2 + (int)r.below(g_threads + 3);
    int nvc = 1 + (int)r.below(g_vcpus);
    vt::Ev("Reset").s("prim", prim).i("ex", ex).i("n", nth).i("vcpus", nvc);
    std::vector<std::unique_ptr<vtp::Worker>> own; std::vector<vtp::Worker*> ws; std::vector<Prog> pg(nth);
    std::atomic<int> next_errno{1000};
    std::atomic<int> running{nth};
    for (int i = 0; i < nth; i++) {
        own.emplace_back(new vtp::Worker()); auto w = own.back().get(); w->id = i + 1; ws.push_back(w);
        uint64_t wseed = r.next(); int nops = 1 + (int)r.below(g_ops); Prog* P = &pg[i];
        int vidx = (int)r.below(nvc);
        P->mode = vidx;
        w->body = [w, wseed, nops, P, vidx, &ws, &pg, &next_errno, &running] {
            vt::Rng rr(wseed);
            for (int k = 0; k < nops; k++) {
                P->opno++;
                int c = (int)rr.below(10);
                if (c < 6) {
                    // sleep with a deadline from a small set so that equal deadlines occur
                    static const int64_t DUR[] = {0, 100, 100, 300, 300, 700, 1500, 3000};
                    int64_t us = DUR[rr.below(8)];
                    bool inf = rr.below(12) == 0;
                    uint64_t t0 = photon::__update_now();
                    Timeout t = inf ? Timeout() : Timeout((uint64_t)us);
                    w->where = "usleep";
                    vt::Ev("Inv").i("t", w->id).s("op", "usleep").i("us", inf ? -1 : us).i("v", vidx)
                        .i("exp", inf ? -1 : (us == 0 ? -2 : (int64_t)(t.expiration() - g_t0)));
                    P->blocked_in = 1; errno = 0;
                    int ret = thread_usleep(t);
                    int en = ret < 0 ? errno : 0;
                    P->blocked_in = 0;
                    uint64_t t1 = photon::__update_now();
                    vt::Ev("Resp").i("t", w->id).s("op", "usleep").i("r", ret).i("en", en).i("dt", (int64_t)(t1 - t0));
                } else if (c < 8) {
                    // interrupt another worker with a unique reason
                    int j = (int)rr.below(ws.size());
                    if (ws[j] == w || ws[j]->done.load()) continue;
                    int e = next_errno++;
                    vt::Ev("Inv").i("t", w->id).s("op", "interrupt").i("target", ws[j]->id).i("err", e).i("st", (int)thread_stat(ws[j]->th));
                    thread_interrupt(ws[j]->th, e);
                    vt::Ev("Resp").i("t", w->id).s("op", "interrupt").i("r", 0).i("en", 0);
                } else {
                    w->where = "yield";
                    vt::Ev("Inv").i("t", w->id).s("op", "yield");
                    int ret = thread_yield();
                    vt::Ev("Resp").i("t", w->id).s("op", "yield").i("r", ret).i("en", 0);
                }
            }
            // stay alive (so that late interrupts have a valid target) until everybody has finished its program
            running--;
            w->where = "linger";
        };
    }
    { vtp::GateGuard gg; for (int i = 0; i < nth; i++) vtp::spawn_on(ws[i], g_vc.vc[pg[i].mode]); }
    // release threads sleeping forever: an infinite sleep can only end by an interrupt
    std::vector<int> blocked;
    int guard = 0;
    while (guard++ < 50) {
        if (!wait_settle(ws, pg, blocked, prim.c_str())) return false;
        if (blocked.empty()) break;
        for (int i : blocked) {
            int e = next_errno++;
            vt::Ev("Inv").i("t", 91).s("op", "interrupt").i("target", ws[i]->id).i("err", e).i("st", (int)thread_stat(ws[i]->th));
            thread_interrupt(ws[i]->th, e);
            vt::Ev("Resp").i("t", 91).s("op", "interrupt").i("r", 0).i("en", 0);
        }
    }
    if (!vtp::wait_done(ws, 10 * 1000 * 1000, prim.c_str())) return false;
    vtp::join_all(ws);
    vt::Arr a; for (int v = 0; v < nvc; v++) a.i((int64_t)get_info(INFO_SLEEPING_THREAD_NUM, g_vc.vc[v]) - (v > 0 ? 1 : 0));   // minus the parked main thread of an extra vCPU
    vt::Ev("Quiesce").raw("sleeping", a.str());
    return true;
}



// ------------------------------------------------------------------------------------------------ thread_shutdown (C04)
// Targets sleep in a loop; the controller (main thread) marks them with thread_shutdown(th, true) while they are in a 5 s sleep
// or between two sleeps, waits until each has completed three more sleeps (each is capped at 10 ms for a marked thread: the
// wait is bounded by PROGRESS, 10 s, not by a wall-clock margin), unmarks them, waits for two ordinary short sleeps and stops.
// Judged by spec/Trace_ShutdownA.tla.
static bool exec_shutdown(const std::string& prim, int ex, vt::Rng& r) {
    int nth = 1 + (int)r.below(4);
    int nvc = 1 + (int)r.below(g_vcpus);
    vt::Ev("Reset").s("prim", prim).i("ex", ex).i("n", nth).i("vcpus", nvc);
    struct Tgt { vtp::Worker w; std::atomic<int> count{0}; std::atomic<int64_t> cur_us{0}; int vidx = 0; };
    std::vector<std::unique_ptr<Tgt>> ts; std::vector<vtp::Worker*> ws;
    std::atomic<int> phase{0}; std::atomic<bool> stop{false};
    for (int i = 0; i < nth; i++) {
        ts.emplace_back(new Tgt()); auto t = ts.back().get(); t->w.id = i + 1; t->vidx = (int)r.below(nvc); ws.push_back(&t->w);
        uint64_t wseed = r.next();
        t->w.body = [t, wseed, &phase, &stop] {
            vt::Rng rr(wseed);
            while (!stop.load()) {
                int64_t us = phase.load() == 1 ? 5000000 : 1000 + (int64_t)rr.below(3) * 1000;
                if (rr.below(5) == 0) thread_yield();
                uint64_t t0 = photon::__update_now();
                t->w.where = "usleep";
                vt::Ev("Inv").i("t", t->w.id).s("op", "usleep").i("us", us);
                t->cur_us = us;
                errno = 0;
                int ret = thread_usleep((uint64_t)us);
                int en = ret < 0 ? errno : 0;
                t->cur_us = 0;
                uint64_t t1 = photon::__update_now();
                vt::Ev("Resp").i("t", t->w.id).s("op", "usleep").i("r", ret).i("en", en).i("dt", (int64_t)(t1 - t0));
                t->count++;
            }
            t->w.where = "done";
        };
    }
    { vtp::GateGuard gg; for (auto& t : ts) vtp::spawn_on(&t->w, g_vc.vc[t->vidx]); }
    auto wait_counts = [&](int more, const char* what) -> bool {
        std::vector<int> base; for (auto& t : ts) base.push_back(t->count.load());
        uint64_t waited = 0;
        for (;;) {
            bool all = true;
            for (size_t i = 0; i < ts.size(); i++) if (ts[i]->count.load() < base[i] + more) all = false;
            if (all) return true;
            if (waited > 10 * 1000 * 1000) {
                vt::Arr a; for (size_t i = 0; i < ts.size(); i++) if (ts[i]->count.load() < base[i] + more) a.i(ts[i]->w.id);
                vt::Ev("Hang").raw("blocked", a.str()).s("where", what).s("what", "shutdown");
                vt::flush();
                return false;
            }
            thread_usleep(500); waited += 500;
        }
    };
    thread_usleep(500 + r.below(3000));
    phase = 1;                                   // from now on the targets ask for 5 s
    thread_usleep(r.below(4000));                // some are inside a 5 s sleep, some inside a short one, some in between
    for (auto& t : ts) {
        vt::Ev("ShutInv").i("target", t->w.id).b("flag", true).i("st", (int)thread_stat(t->w.th));
        thread_shutdown(t->w.th, true);
        vt::Ev("ShutResp").i("target", t->w.id).b("flag", true);
        if (r.coin(30)) thread_usleep(r.below(1500));
    }
    if (!wait_counts(3, "marked thread does not complete its capped sleeps")) return false;
    phase = 2;
    for (auto& t : ts) {
        vt::Ev("ShutInv").i("target", t->w.id).b("flag", false).i("st", (int)thread_stat(t->w.th));
        thread_shutdown(t->w.th, false);
        vt::Ev("ShutResp").i("target", t->w.id).b("flag", false);
    }
    // a target that asked for 5 s just before it was unmarked (and was not asleep yet when the unmarking call looked) would now
    // sleep its 5 s, legitimately: release it (Kick: the specification then judges that sleep as "in transition")
    thread_usleep(3000);
    for (auto& t : ts)
        if (t->cur_us.load() >= 5000000) {
            vt::Ev("Kick").i("target", t->w.id);
            thread_interrupt(t->w.th, 2000);
        }
    if (!wait_counts(3, "unmarked thread does not sleep normally")) return false;
    stop = true;
    if (!vtp::wait_done(ws, 10 * 1000 * 1000, prim.c_str())) return false;
    vtp::join_all(ws);
    vt::Ev("Quiesce").raw("sleeping", "[]");
    return true;
}


// ------------------------------------------------------------------------------------------------ expiry under a storm of cross-vCPU wake-ups (C04)
// Y sleeps for a finite time on vCPU A; X sleeps forever on the same vCPU and is interrupted from a plain OS thread whenever it
// is found asleep, so that (nearly) every scheduling round of A has a thread arriving through the stand-by queue.  "Every
// sleeping thread with a finite deadline runs again no later than the first scheduling round after its deadline, whatever other
// threads ... are interrupted from other vCPUs in the meantime": X counts the rounds in which it ran with the runtime clock
// already past Y's deadline while Y had not run yet.  Rounds are counted, not time, so machine load does not matter.
static bool exec_starve(const std::string& prim, int ex, vt::Rng& r) {
    if (g_vc.vc.size() < 2) return true;
    int64_t us = 2000 + (int64_t)r.below(4) * 2000;
    vt::Ev("Reset").s("prim", prim).i("ex", ex).i("n", 3).i("vcpus", 2);
    vtp::Worker X, Y, D; X.id = 1; Y.id = 2; D.id = 3;
    std::atomic<uint64_t> ydl{0}; std::atomic<bool> ydone{false}, stop{false}, go{false}; std::atomic<int> late{0}, xrounds{0}, rounds{0};
    std::atomic<int64_t> ydt{0}; std::atomic<int> yret{0};
    X.body = [&] { while (!stop.load()) { thread_usleep(-1); xrounds++; } };
    Y.body = [&] {
        uint64_t t0 = photon::__update_now();
        ydl = t0 + (uint64_t)us;
        int ret = thread_usleep((uint64_t)us);
        ydone = true;
        yret = ret; ydt = (int64_t)(photon::__update_now() - t0);
    };
    // the driver keeps the vCPU (spinning, no scheduling point) until X has been interrupted from outside, and only then hands
    // the vCPU on: the idler -- the place where expired sleepers are resumed -- gets its turn only with X in the stand-by queue
    // G only yields; it sleeps once first, so that it is re-inserted right before the idler, i.e. between D and the idler: X
    // (inserted right before the idler when resumed) is then never D's direct successor, thread_yield_to(X) places X before D,
    // and the vCPU comes back to D -- not to the idler -- when X sleeps again
    vtp::Worker G; G.id = 4; std::atomic<bool> gready{false};
    G.body = [&] { thread_usleep(300); gready = true; while (!stop.load()) thread_yield(); };
    D.body = [&] {
        auto t0 = std::chrono::steady_clock::now();
        auto in_standbyq = [&] { return thread_stat(X.th) == states::STANDBY && get_info(INFO_STANDBY_THREAD_NUM, nullptr) > 0; };
        while (!gready.load() || thread_stat(X.th) != states::SLEEPING) thread_yield();
        go = true;                                   // the storm may start; Y starts its sleep in the first round
        while (!ydone.load() && late.load() < 50 && std::chrono::steady_clock::now() - t0 < std::chrono::seconds(4)) {
            auto st = thread_stat(X.th);
            if (st == states::READY) { thread_yield_to(X.th); continue; }          // resumed by the idler: let it sleep again
            if (st == states::SLEEPING || !in_standbyq()) {
                auto s0 = std::chrono::steady_clock::now(); bool late_b = false;
                while (!in_standbyq() && thread_stat(X.th) != states::READY) if (std::chrono::steady_clock::now() - s0 > std::chrono::seconds(2)) { late_b = true; break; }
                if (late_b) break;
                continue;
            }
            // X sits in the stand-by queue: hand the vCPU on, the idler gets one round
            uint64_t dl = ydl.load();
            if (dl && !ydone.load() && photon::__update_now() > dl) late++;     // a round handed over after Y's deadline
            rounds++;
            thread_yield();
        }
        stop = true;
    };
    { vtp::GateGuard gg; vtp::spawn_on(&X, g_vc.vc[1]); vtp::spawn_on(&G, g_vc.vc[1]); vtp::spawn_on(&D, g_vc.vc[1]); }
    while (!go.load()) thread_usleep(200);
    { vtp::GateGuard gg; vtp::spawn_on(&Y, g_vc.vc[1]); }
    std::thread storm([&] {
        while (!stop.load())
            if (thread_stat(X.th) == states::SLEEPING) thread_interrupt(X.th, EINTR);
    });
    uint64_t waited = 0;
    while (!stop.load() && waited < 20 * 1000 * 1000) { thread_usleep(500); waited += 500; }
    stop = true;
    storm.join();
    // the storm is over: Y wakes at the latest now
    waited = 0;
    while (!ydone.load() && waited < 10 * 1000 * 1000) { thread_usleep(500); waited += 500; }
    vt::Ev("Starve").i("us", us).i("late", late.load()).i("rounds", rounds.load()).i("xrounds", xrounds.load())
        .i("r", yret.load()).i("dt", ydt.load()).b("done", ydone.load());
    for (int i = 0; i < 20000 && !X.done.load(); i++) { if (thread_stat(X.th) == states::SLEEPING) thread_interrupt(X.th, EINTR); thread_usleep(200); }
    std::vector<vtp::Worker*> ws{&X, &Y, &D, &G};
    if (!vtp::wait_done(ws, 10 * 1000 * 1000, prim.c_str())) return false;
    vtp::join_all(ws);
    vt::Ev("Quiesce").raw("sleeping", "[]");
    return true;
}

// ------------------------------------------------------------------------------------------------ conductor (scripted sequences)
// All workers live on ONE vCPU, where photon threads switch only at blocking points.  The conductor (main thread) executes a
// script step by step: it tells one worker to perform one operation (or a compound of two back-to-back operations), lets the
// system run until every worker is either waiting for its next command or asleep inside the library, and then takes the next
// step.  Arrival orders of calls are therefore exactly the script's order; timeouts expire only at explicit "advance time"
// steps; interrupts are explicit steps.  Scripts are either read from a file (one per line, produced by TLC from
// spec/SyncScripts.tla) or generated at random among the currently enabled steps.  Events are the same Inv/Resp/... as in the
// free-running modes, so the same Tier-A trace specifications judge the executions.
//
// step syntax:  <thread>:<op>   |  A (advance time past the short timeouts)  |  I<thread> (interrupt)
//   lock family / rwlock ops: L<m><to>  T<m>  U  X<m>   (m: M mutex, R read, W write; to: 1 short, 2 none; X = unlock + lock(m) back to back)
//   semaphore ops:            W<n><to>  S<n>           condition variable ops: C<to> (lock; wait; unlock)  N1 / NA (+l: holding the lock)
struct CWorker {
    vtp::Worker w; std::string cmd; std::atomic<int> state{0};   // 0 idle, 1 commanded / in op
    int held = 0;          // 0 none, 1 read/mutex, 2 write
    Prog prog;
};
struct Conductor {
    std::string kind;      // mutex | rw | qrw | sem | cv | cvspin
    mutex* mtx = nullptr; rwlock* rw = nullptr; qrwlock* qrw = nullptr; semaphore* sem = nullptr;
    condition_variable* cv = nullptr; spinlock* spl = nullptr; mutex* cvm = nullptr;
    std::vector<std::unique_ptr<CWorker>> ws;
    std::atomic<bool> quit{false};
    static constexpr uint64_t SHORT_US = 300;

    int do_lock(CWorker* c, char m, char to) {
        int id = c->w.id; int kind = to == '1' ? TO_SHORT : TO_INF;
        Timeout t = kind == TO_SHORT ? Timeout(SHORT_US) : Timeout();
        int mode = m == 'W' ? 2 : 1;
        c->prog.opno++; c->prog.mode = mode;
        if (this->kind == "mutex") vt::Ev("Inv").i("t", id).s("op", "lock").i("to", kind).i("us", kind == TO_SHORT ? (int64_t)SHORT_US : -1);
        else vt::Ev("Inv").i("t", id).s("op", "lock").i("mode", mode).i("to", kind);
        c->prog.blocked_in = 1; errno = 0;
        int ret = this->kind == "mutex" ? mtx->lock(t) : this->kind == "rw" ? rw->lock(mode == 1 ? RLOCK : WLOCK, t) : qrw->lock(mode == 1 ? RLOCK : WLOCK, t);
        int en = ret < 0 ? errno : 0;
        c->prog.blocked_in = 0;
        vt::Ev("Resp").i("t", id).s("op", "lock").i("r", ret).i("en", en);
        if (ret == 0) c->held = mode;
        return ret;
    }
    void do_try(CWorker* c, char m) {
        int id = c->w.id; int mode = m == 'W' ? 2 : 1;
        if (kind == "mutex") vt::Ev("Inv").i("t", id).s("op", "try_lock"); else vt::Ev("Inv").i("t", id).s("op", "try_lock").i("mode", mode);
        int ret = kind == "mutex" ? mtx->try_lock() : qrw->try_lock(mode == 1 ? RLOCK : WLOCK);
        vt::Ev("Resp").i("t", id).s("op", "try_lock").i("r", ret).i("en", 0);
        if (ret == 0) c->held = mode;
    }
    void do_unlock(CWorker* c) {
        int id = c->w.id;
        if (kind == "mutex") vt::Ev("CsEnter").i("t", id); else vt::Ev("CsEnter").i("t", id).i("mode", c->held);
        vt::Ev("CsExit").i("t", id);
        vt::Ev("Inv").i("t", id).s("op", "unlock");
        int ret = 0;
        if (kind == "mutex") mtx->unlock(); else ret = kind == "rw" ? rw->unlock() : qrw->unlock();
        vt::Ev("Resp").i("t", id).s("op", "unlock").i("r", ret).i("en", 0);
        c->held = 0;
    }
    void do_sem(CWorker* c, const std::string& op) {
        int id = c->w.id;
        if (op[0] == 'S') {
            int64_t n = op[1] - '0';
            vt::Ev("Inv").i("t", id).s("op", "signal").i("n", n);
            sem->signal(n);
            vt::Ev("Resp").i("t", id).s("op", "signal").i("r", 0).i("en", 0);
        } else {
            int64_t n = op[1] - '0'; int kind_ = op[2] == '1' ? TO_SHORT : TO_INF;
            Timeout t = kind_ == TO_SHORT ? Timeout(SHORT_US) : Timeout();
            c->prog.opno++; c->prog.arg = n;
            vt::Ev("Inv").i("t", id).s("op", "waiti").i("n", n).i("to", kind_);
            c->prog.blocked_in = 1; errno = 0;
            int ret = sem->wait_interruptible(n, t);
            int en = ret < 0 ? errno : 0;
            c->prog.blocked_in = 0;
            vt::Ev("Resp").i("t", id).s("op", "waiti").i("r", ret).i("en", en);
        }
    }
    void do_cv(CWorker* c, const std::string& op) {
        int id = c->w.id; bool spin = kind == "cvspin";
        auto lk = [&] { if (spin) spl->lock(); else cvm->lock(); vt::Ev("Acq").i("t", id); };
        auto ul = [&] { vt::Ev("Rel").i("t", id); if (spin) spl->unlock(); else cvm->unlock(); };
        if (op[0] == 'H') { lk(); c->held = 1; return; }                   // take the user lock and keep it across steps (mutex flavour only)
        if (op[0] == 'R' || op[0] == 'U') { c->held = 0; ul(); return; }
        if (op[0] == 'C') {
            int kind_ = op[1] == '1' ? TO_SHORT : TO_INF;
            lk();
            uint64_t t0 = photon::__update_now();
            Timeout t = kind_ == TO_SHORT ? Timeout(SHORT_US) : Timeout();
            c->prog.opno++;
            vt::Ev("Inv").i("t", id).s("op", "cvwait").i("to", kind_).i("us", kind_ == TO_SHORT ? (int64_t)SHORT_US : -1);
            c->prog.blocked_in = 1; errno = 0;
            int ret = spin ? cv->wait(*spl, t) : cv->wait(*cvm, t);
            int en = ret < 0 ? errno : 0;
            c->prog.blocked_in = 0;
            uint64_t t1 = photon::__update_now();
            vt::Ev("Resp").i("t", id).s("op", "cvwait").i("r", ret).i("en", en).i("dt", (int64_t)(t1 - t0));
            ul();
        } else {
            bool all = op[1] == 'A'; bool locked = op.size() > 2 && op[2] == 'l';
            if (locked) lk();
            vt::Ev("Inv").i("t", id).s("op", all ? "notify_all" : "notify_one");
            int64_t res;
            if (all) res = cv->notify_all(); else { thread* th = cv->notify_one(); res = th ? vtp::reg().get(th) : 0; }
            vt::Ev("Resp").i("t", id).s("op", all ? "notify_all" : "notify_one").i("r", res).i("en", 0);
            if (locked) ul();
        }
    }
    void perform(CWorker* c, const std::string& op) {
        if (kind == "sem") return do_sem(c, op);
        if (kind == "cv" || kind == "cvspin") return do_cv(c, op);
        switch (op[0]) {
        case 'L': do_lock(c, op[1], op[2]); break;
        case 'T': do_try(c, op[1]); break;
        case 'U': do_unlock(c); break;
        case 'X': do_unlock(c); do_lock(c, op[1], '2'); break;       // back to back, no scheduling point in between
        }
    }
    void worker_loop(CWorker* c) {
        while (true) {
            while (c->state.load() == 0 && !quit.load()) thread_yield();
            if (c->state.load() == 0 && quit.load()) break;
            std::string op = c->cmd;
            perform(c, op);
            c->state = 0;
        }
        if ((kind == "mutex" || kind == "rw" || kind == "qrw") && c->held) do_unlock(c);
    }
    bool busy(CWorker* c) { return c->state.load() == 1; }
    bool asleep(CWorker* c) { return busy(c) && c->prog.blocked_in.load() && thread_stat(c->w.th) == states::SLEEPING; }
    // run until every worker is idle or asleep in the library
    void settle() {
        for (int round = 0; round < 100000; round++) {
            bool quiet = true;
            for (auto& c : ws) if (busy(c.get()) && !asleep(c.get())) quiet = false;
            if (quiet) {
                // one more turn of the run queue: a thread woken a moment ago is READY, not SLEEPING, and was caught above
                return;
            }
            thread_yield();
        }
    }
    // enabled steps in the current state (for random generation); returned as strings
    std::vector<std::string> enabled() {
        std::vector<std::string> v;
        bool timed_pending = false, any_asleep = false;
        for (auto& c : ws) if (asleep(c.get())) any_asleep = true;
        for (auto& c : ws) {
            if (busy(c.get())) continue;
            std::string t = std::to_string(c->w.id) + ":";
            if (kind == "mutex") {
                if (c->held) { v.push_back(t + "U"); v.push_back(t + "XM"); }
                else { v.push_back(t + "LM1"); v.push_back(t + "LM2"); v.push_back(t + "TM"); }
            } else if (kind == "rw" || kind == "qrw") {
                if (c->held) { v.push_back(t + "U"); v.push_back(t + "XR"); v.push_back(t + "XW"); }
                else { for (const char* o : {"LR1", "LR2", "LW1", "LW2"}) v.push_back(t + o);
                       if (kind == "qrw") { v.push_back(t + "TR"); v.push_back(t + "TW"); } }
            } else if (kind == "sem") {
                for (const char* o : {"W11", "W12", "W21", "W22", "S1", "S2"}) v.push_back(t + o);
            } else {
                // H / R: a worker keeps the user lock across steps, so that a waiter that is notified, times out or is
                // interrupted meanwhile has to queue for the lock (cv with a mutex only: a photon thread must not keep a spinlock)
                bool someone = false; for (auto& o : ws) if (o->held) someone = true;
                if (c->held) { for (const char* o : {"R", "R", "N1", "NA"}) v.push_back(t + o); }
                else if (someone) { for (const char* o : {"N1", "NA"}) v.push_back(t + o); }
                else { for (const char* o : {"C1", "C2", "N1", "N1l", "NA", "NAl"}) v.push_back(t + o); if (kind == "cv") v.push_back(t + "H"); }
            }
        }
        (void)timed_pending;
        if (any_asleep) { v.push_back("A"); v.push_back("A"); for (auto& c : ws) if (asleep(c.get())) v.push_back("I" + std::to_string(c->w.id)); }
        return v;
    }
    void step(const std::string& st) {
        if (st == "A") { thread_usleep(SHORT_US * 2 + 200); settle(); return; }
        if (st[0] == 'I') {
            int id = atoi(st.c_str() + 1);
            for (auto& c : ws) if (c->w.id == id && asleep(c.get())) { vt::Ev("Interrupt").i("t", id).i("by", 1); thread_interrupt(c->w.th, EINTR); }
            settle(); return;
        }
        int id = atoi(st.c_str()); std::string op = st.substr(st.find(':') + 1);
        for (auto& c : ws) if (c->w.id == id) {
            if (busy(c.get())) return;                                   // still blocked: the step is skipped
            if ((kind == "mutex" || kind == "rw" || kind == "qrw")) {
                bool need_held = op[0] == 'U' || op[0] == 'X';
                if (need_held != (c->held != 0)) return;                  // not applicable in this state: skipped
            }
            c->cmd = op; c->state = 1;
            settle();
        }
    }
};

static bool exec_conduct(const std::string& prim, int ex, vt::Rng& r, const std::string* script) {
    Conductor C; C.kind = prim.substr(1);      // cmutex, crw, cqrw, csem, ccv, ccvspin
    mutex m0((uint16_t)(r.coin(50) ? 0 : 2)); rwlock rw; qrwlock qrw; semaphore sem(r.below(2)); condition_variable cv; spinlock spl; mutex cvm;
    C.mtx = &m0; C.rw = &rw; C.qrw = &qrw; C.sem = &sem; C.cv = &cv; C.spl = &spl; C.cvm = &cvm;
    if (C.kind == "cv" || C.kind == "cvspin") { vtp::reg().set(&cvm, 200); vtp::reg().set(&cv, 201); }
    int n = 3 + (int)r.below(2);
    if (script) { n = 0; for (char ch : *script) if (ch >= '1' && ch <= '9') n = std::max(n, ch - '0'); if (n < 2) n = 2; }
    if (C.kind == "mutex") { vtp::reg().set(&m0, 200); vt::Ev("Reset").s("prim", prim).i("ex", ex).i("n", n).i("vcpus", 1).i("retries", 0).i("cont", 0).b("rec", false).b("timed", true); }
    else if (C.kind == "sem") { vtp::reg().set(&sem, 200); vt::Ev("Reset").s("prim", prim).i("ex", ex).i("n", n).i("vcpus", 1).i("init", (int64_t)sem.count()).b("ooo", false); }
    else if (C.kind == "cv" || C.kind == "cvspin") vt::Ev("Reset").s("prim", prim).i("ex", ex).i("n", n).i("vcpus", 1).b("spin", C.kind == "cvspin");
    else vt::Ev("Reset").s("prim", prim).i("ex", ex).i("n", n).i("vcpus", 1);
    std::vector<vtp::Worker*> wv;
    for (int i = 0; i < n; i++) {
        C.ws.emplace_back(new CWorker()); auto c = C.ws.back().get(); c->w.id = i + 1;
        Conductor* CP = &C;
        c->w.body = [CP, c] { CP->worker_loop(c); };
        wv.push_back(&c->w);
    }
    { vtp::GateGuard gg; for (auto w : wv) vtp::spawn_on(w, g_vc.vc[0]); }
    std::string executed;
    auto run_step = [&](const std::string& st) { executed += st; executed += ' '; C.step(st); };
    if (script) {
        size_t p = 0;
        while (p < script->size()) { size_t q = script->find(' ', p); if (q == std::string::npos) q = script->size();
            if (q > p) run_step(script->substr(p, q - p)); p = q + 1; }
    } else {
        int len = 4 + (int)r.below(7);
        for (int k = 0; k < len; k++) { auto en = C.enabled(); if (en.empty()) break; run_step(en[r.below(en.size())]); }
    }
    vt::Ev("Script").s("s", executed);
    // wind down: let timed waits expire, release what is held, then see who is still asleep
    C.step("A");
    bool progress = true;
    while (progress) {
        progress = false;
        for (auto& c : C.ws) if (!C.busy(c.get()) && c->held) { C.step(std::to_string(c->w.id) + ":U"); progress = true; }
    }
    C.step("A");
    std::vector<int> blocked;
    for (size_t i = 0; i < C.ws.size(); i++) if (C.asleep(C.ws[i].get())) blocked.push_back((int)i);
    int guard = 0;
    while (!blocked.empty() && guard++ < 20) {
        if (C.kind == "sem") {
            vt::Arr a; int64_t need = 0;
            for (int i : blocked) { a.raw("[" + std::to_string(C.ws[i]->w.id) + "," + std::to_string(C.ws[i]->prog.arg) + "]"); need += C.ws[i]->prog.arg; }
            vt::Ev("Settle").raw("blocked", a.str()).i("count", (int64_t)sem.count());
            vt::Ev("Inv").i("t", 91).s("op", "signal").i("n", need); sem.signal(need); vt::Ev("Resp").i("t", 91).s("op", "signal").i("r", 0).i("en", 0);
        } else if (C.kind == "cv" || C.kind == "cvspin") {
            vt::Arr a; for (int i : blocked) a.i(C.ws[i]->w.id);
            vt::Ev("Settle").raw("blocked", a.str());
            vt::Ev("Inv").i("t", 91).s("op", "notify_all"); int64_t res = cv.notify_all(); vt::Ev("Resp").i("t", 91).s("op", "notify_all").i("r", res).i("en", 0);
        } else if (C.kind == "mutex") {
            // nobody holds the mutex any more: a thread still asleep in lock() is stuck
            vt::Ev("Hang").raw("blocked", "[]").s("where", "asleep in lock() although every holder has unlocked").s("what", prim); vt::flush();
            return false;
        } else {
            vt::Arr a; for (int i : blocked) a.i(C.ws[i]->w.id);
            vt::Ev("Settle").raw("blocked", a.str());
            for (int i : blocked) { vt::Ev("Interrupt").i("t", C.ws[i]->w.id).i("by", 3); thread_interrupt(C.ws[i]->w.th, EINTR); }
        }
        C.settle();
        bool progress2 = true;
        while (progress2) { progress2 = false; for (auto& c : C.ws) if (!C.busy(c.get()) && c->held) { C.step(std::to_string(c->w.id) + ":U"); progress2 = true; } }
        blocked.clear();
        for (size_t i = 0; i < C.ws.size(); i++) if (C.asleep(C.ws[i].get())) blocked.push_back((int)i);
    }
    C.quit = true;
    if (!vtp::wait_done(wv, 10 * 1000 * 1000, prim.c_str())) return false;
    vtp::join_all(wv);
    if (C.kind == "sem") vt::Ev("Quiesce").i("count", (int64_t)sem.count());
    else if (C.kind == "mutex") vt::Ev("Quiesce").i("locked", (int)m0.locked());
    else if (C.kind == "cv") vt::Ev("Quiesce").i("locked", (int)cvm.locked());
    else if (C.kind == "cvspin") vt::Ev("Quiesce").i("locked", (int)spl.locked());
    else vt::Ev("Quiesce").i("locked", 0);
    return true;
}

int main(int argc, char** argv) {
    std::string prim = vt::arg(argc, argv, "--prim", "mutex");
    g_execs = atoi(vt::arg(argc, argv, "--execs", "50"));
    g_seed = strtoull(vt::arg(argc, argv, "--seed", "1"), 0, 10);
    g_vcpus = atoi(vt::arg(argc, argv, "--vcpus", "2"));
    g_threads = atoi(vt::arg(argc, argv, "--threads", "3"));
    g_ops = atoi(vt::arg(argc, argv, "--ops", "4"));
    bool os_clients = vt::flag(argc, argv, "--os") || prim == "spin" || prim == "qspin" || prim == "ticket";   // spinlocks: OS-thread clients (a photon thread must not yield while holding one)
    vt::open(vt::arg(argc, argv, "--out", "-"));
    set_log_output_level(ALOG_ERROR + 1);
    photon::init(photon::INIT_EVENT_EPOLL, photon::INIT_IO_NONE);
    g_t0 = photon::__update_now();
    vtp::t0() = g_t0;
    vtp::reg().set(photon::CURRENT, 100);
    vtp::Perturb::seed() = g_seed; vtp::Perturb::level() = vt::flag(argc, argv, "--perturb2") ? 2 : vt::flag(argc, argv, "--perturb") ? 1 : 0;
    vtp::install_hooks(vt::flag(argc, argv, "--hooks"), vt::flag(argc, argv, "--heap"));
    g_vc.start(g_vcpus);
    vtp::Watchdog wd; wd.start(20, prim.c_str());
    vt::Rng r(g_seed * 1000003 + std::hash<std::string>()(prim) % 1000);
    std::vector<std::string> scripts;       // --scripts file: one script per line (conductor modes)
    if (const char* sf = vt::arg(argc, argv, "--scripts", nullptr)) {
        FILE* f = fopen(sf, "r"); char line[512];
        while (f && fgets(line, sizeof line, f)) { std::string l(line); while (!l.empty() && (l.back() == '\n' || l.back() == ' ')) l.pop_back(); if (!l.empty()) scripts.push_back(l); }
        if (f) fclose(f);
        if (!scripts.empty() && g_execs > (int)scripts.size()) g_execs = (int)scripts.size();
    }
    int rc = 0;
    for (int ex = 0; ex < g_execs; ex++) {
        bool ok;
        if (prim == "sem" || prim == "semooo") ok = exec_sem(prim, ex, r);
        else if (prim == "semdestroy") ok = exec_semdestroy(prim, ex, r);
        else if (prim == "cv" || prim == "cvspin") ok = exec_cv(prim, ex, r);
        else if (prim == "rw" || prim == "qrw") ok = exec_rw(prim, ex, r);
        else if (prim == "rwrace") ok = exec_rwrace(prim, ex, r);
        else if (prim[0] == 'c' && prim != "cv" && prim != "cvspin") ok = exec_conduct(prim, ex, r, scripts.empty() ? nullptr : &scripts[ex % scripts.size()]);
        else if (prim == "sleep") ok = exec_sleep(prim, ex, r);
        else if (prim == "shutdown") ok = exec_shutdown(prim, ex, r);
        else if (prim == "starve") ok = exec_starve(prim, ex, r);
        else ok = os_clients ? exec_lock_os(prim, ex, r) : exec_lock_photon(prim, ex, r);
        if (!ok) { rc = 4; break; }
    }
    wd.end();
    vt::close();
    if (rc) _exit(rc);      // a hung photon thread cannot be cleaned up
    g_vc.stop();
    photon::fini();
    return 0;
}
