// vt-build: light
// vt-src: common/iovector.cpp
// vt-flags: -fno-sanitize=null
// C14 harness: executes the REAL iovector_view / iovector (IOVector and heap new_iovector) operations and logs,
// per call, the complete observable pre-state, the arguments, and the complete observable post-state:
//   vector elements as (buffer id, offset, len), free iovec slots, nbases, memory contents of every live buffer,
//   destination vector / buffer, returned count / pointer.         One ndjson line per call, judged by
// spec/Trace_IOVector.tla with the reference operators of spec/IOVectorOps.tla.
// Every element and every flat destination is its own exact-size heap block, so ASan sees any overrun.
// (-fno-sanitize=null: alog.h's ConstString::TSCut<>::tail is odr-used by that check in C++14; a null access
//  still ends in SIGSEGV -> Fatal event.)   alog is stubbed out below (iovector.cpp only logs on ENOBUFS).
#include <photon/common/iovector.h>
#include <photon/common/alog.h>
#include <vector>
#include <string>
#include <algorithm>
#include "vt.h"

ALogLogger default_logger{nullptr, 1000};
LogBuffer& operator<<(LogBuffer& l, const Prologue&) { abort(); return l; }
void LogFormatter::put_integer(ALogBuffer&, uint64_t) { abort(); }

static const long INFSZ = 1000000;          // how SIZE_MAX is logged
static bool g_tight = false;                // --tight: iovec arrays are exact-size heap blocks too (an empty view points at a 0-byte block)

// ------------------------------------------------------------------ buffer registry
struct Buf { int id; char* p; size_t len; bool aux; bool by_alloc; bool hidden; };
static std::vector<Buf> g_bufs;
static int g_nx = 1;
static unsigned char val(int id, size_t j1) { return (unsigned char)((32 * id + (long)j1) % 256); }
static Buf& new_buf(size_t len, bool aux, bool by_alloc) {
    Buf b{g_nx++, (char*)malloc(len), len, aux, by_alloc, false};
    for (size_t j = 0; j < len; j++) b.p[j] = (char)val(b.id, j + 1);
    g_bufs.push_back(b);
    return g_bufs.back();
}
static Buf* find_id(int id) { for (auto& b : g_bufs) if (b.id == id) return &b; return nullptr; }
static void reset_registry() {
    for (auto& b : g_bufs) if (!b.by_alloc) free(b.p);     // allocator-owned blocks are freed by dispose()
    g_bufs.clear(); g_nx = 1;
}
struct Ref { long b, o, n; };
static Ref resolve(const void* ptr, size_t len) {
    if (!ptr) return {0, 0, (long)len};
    auto p = (const char*)ptr;
    for (auto& b : g_bufs)
        if (!b.aux && p >= b.p && p <= b.p + b.len && len <= (size_t)(b.p + b.len - p)) return {b.id, (long)(p - b.p), (long)len};
    return {-1, 0, (long)len};
}
static std::string refs(const iovec* iov, long cnt) {
    vt::Arr a;
    if (cnt < 0 || cnt > 64) { a.raw("[-1,0," + std::to_string(cnt) + "]"); return a.str(); }   // nonsense count
    for (long i = 0; i < cnt; i++) { auto r = resolve(iov[i].iov_base, iov[i].iov_len); a.raw(vt::Arr().i(r.b).i(r.o).i(r.n > 100000 ? 100000 : r.n).str()); }
    return a.str();
}

// ------------------------------------------------------------------ allocator handed to the iovector
static struct { size_t amax; int nb; bool aux; } g_al;
static int my_alloc(void*, IOAlloc::RangeSize sz, void** ptr) {
    if (sz.min < 0 || (size_t)sz.min > g_al.amax || sz.max < sz.min) { *ptr = nullptr; return -1; }
    size_t len = std::min((size_t)sz.max, g_al.amax);
    Buf& b = new_buf(len, g_al.aux, true);
    *ptr = b.p; g_al.nb++;
    return (int)len;
}
static int my_dealloc(void*, void* p) {
    for (size_t i = 0; i < g_bufs.size(); i++) if (g_bufs[i].p == p) { g_bufs.erase(g_bufs.begin() + i); break; }
    free(p);
    return 0;
}
static IOAlloc make_alloc() { return IOAlloc(IOAlloc::Allocator(nullptr, &my_alloc), IOAlloc::Deallocator(nullptr, &my_dealloc)); }

// ------------------------------------------------------------------ an iovec array on the heap
struct IovArr {
    iovec* base = nullptr; iovec* first = nullptr; size_t n = 0;
    void make(size_t cnt) {              // default: one spare slot after the end (see --tight)
        n = cnt;
        if (g_tight) { base = (iovec*)calloc(cnt, sizeof(iovec)); first = base; }
        else { base = (iovec*)calloc(cnt + 1, sizeof(iovec)); first = base; }
    }
    ~IovArr() { free(base); }
};

// ------------------------------------------------------------------ the vector under test
struct Subject {
    bool own = false, heap = false;
    IovArr arr; iovector_view view;        // view kind
    iovector* ov = nullptr;                // owning kind (IOVector or new_iovector)
    int cap = 0; size_t amax = 0;
    const iovec* els() const { return own ? ov->iovec() : view.iov; }
    long cnt() const { return own ? (long)ov->iovcnt() : (long)view.iovcnt; }
    long ff() const { return own ? ov->front_free_iovcnt() : 0; }
    long bf() const { return own ? ov->back_free_iovcnt() : 0; }
    ~Subject() { if (ov) { if (heap) delete_iovector(ov); else delete (IOVector*)ov; } }
};
static void make_view(Subject& s, const std::vector<int>& lens) {
    s.own = false; s.arr.make(lens.size());
    for (size_t i = 0; i < lens.size(); i++) { Buf& b = new_buf(lens[i], false, false); s.arr.first[i] = {b.p, (size_t)lens[i]}; }
    s.view = iovector_view(s.arr.first, (int)lens.size());
}
static void make_own(Subject& s, const std::vector<int>& lens, int ff, int bf, size_t amax, bool heap) {
    s.own = true; s.heap = heap; s.amax = amax; g_al = {amax, 0, false};
    if (heap) { s.cap = ff + (int)lens.size() + bf; s.ov = new_iovector(s.cap, ff); *s.ov->get_allocator() = make_alloc(); }
    else { s.cap = IOVector::capacity; s.ov = new IOVector(make_alloc(), (uint16_t)ff); }
    for (int l : lens) { Buf& b = new_buf(l, false, false); s.ov->push_back(b.p, (size_t)l); }
}

// ------------------------------------------------------------------ operations
struct Op { std::string op; long n = 0, off = 0, N = 0; std::vector<int> lens; char wk = 'v'; };

static size_t shrinklt(iovector_view& v, size_t n) { return v.shrink_less_than(n); }
static size_t shrinklt(iovector&, size_t) { abort(); }
static ssize_t xv(iovector_view&, bool, size_t, iovector*) { abort(); }
static ssize_t xv(iovector& v, bool front, size_t n, iovector* d) { return front ? v.extract_front(n, d) : v.extract_back(n, d); }
static size_t cpo(iovector_view&, const std::string&, iovector*, size_t) { abort(); }
static size_t cpo(iovector& v, const std::string& op, iovector* w, size_t size) {
    if (op == "mtov") return v.memcpy_to((const iovector*)w, size);
    if (op == "mfromv") return v.memcpy_from((const iovector*)w, size);
    if (op == "ptov") return v.pipe_to((const iovector*)w, size);
    return v.pipe_from(w, size);
}
static size_t ownop(iovector_view&, const std::string&, size_t, void*) { abort(); }
static size_t ownop(iovector& v, const std::string& op, size_t n, void* p) {
    if (op == "pb") return v.push_back(p, n);
    if (op == "pf") return v.push_front(p, n);
    if (op == "pba") return v.push_back(n);
    if (op == "pfa") return v.push_front(n);
    if (op == "popf") return v.pop_front();
    if (op == "popb") return v.pop_back();
    if (op == "trunc") return v.truncate(n);
    abort();
}

static std::string mem_json(const std::vector<std::pair<int, std::string>>& m) {
    vt::Arr a;
    for (auto& e : m) { vt::Arr v; for (unsigned char c : e.second) v.u(c); a.raw("[" + std::to_string(e.first) + "," + v.str() + "]"); }
    return a.str();
}

static long g_case = 0;
template <class V>
static void exec(Subject& s, V& v, const Op& o, int k) {
    // forget buffers that no element refers to any more (a later access to one of them is a use-after-free for ASan)
    {
        std::vector<int> live;
        for (long i = 0; i < s.cnt(); i++) { auto r = resolve(s.els()[i].iov_base, s.els()[i].iov_len); live.push_back((int)r.b); }
        for (size_t i = 0; i < g_bufs.size();) {
            auto& b = g_bufs[i];
            bool ref = std::find(live.begin(), live.end(), b.id) != live.end();
            if (ref) { b.hidden = false; i++; }
            else if (b.by_alloc) { b.hidden = true; i++; }
            else { free(b.p); g_bufs.erase(g_bufs.begin() + i); }
        }
    }
    // operands the caller provides
    int D = 0; char* dptr = nullptr;
    bool flat = o.op == "xfb" || o.op == "xbb" || o.op == "mtob" || o.op == "mfromb" || o.op == "ptob";
    if (flat) { Buf& b = new_buf(o.n, false, false); D = b.id; dptr = b.p; }
    Ref el{0, 0, 0}; void* elp = nullptr;
    if (o.op == "pb" || o.op == "pf") { Buf& b = new_buf(o.n, false, false); el = {b.id, 0, o.n}; elp = b.p; }
    bool vv = o.op == "mtov" || o.op == "mfromv" || o.op == "ptov" || o.op == "pfromv";
    bool sub = o.op == "xfv" || o.op == "xbv" || o.op == "slice";
    IovArr warr; iovector_view wview; IOVector* wown = nullptr; std::string wpre = "[]";
    if (vv) {
        warr.make(o.lens.size());
        for (size_t i = 0; i < o.lens.size(); i++) { Buf& b = new_buf(o.lens[i], false, false); warr.first[i] = {b.p, (size_t)o.lens[i]}; }
        wview = iovector_view(warr.first, (int)o.lens.size());
        wpre = refs(warr.first, o.lens.size());
        if (o.wk == 'o') { wown = new IOVector(); for (size_t i = 0; i < o.lens.size(); i++) wown->push_back(warr.first[i]); }
    }
    if (sub && o.wk == 'v') {            // N empty (null) slots; N = 0: an empty view
        if (o.N > 0) { warr.base = warr.first = (iovec*)calloc(o.N, sizeof(iovec)); warr.n = o.N; wview = iovector_view(warr.first, (int)o.N); }
        wpre = refs(warr.first, o.N);
    }
    if (sub && o.wk == 'o') wown = new IOVector();
    // pre-state
    std::vector<std::pair<int, std::string>> pre;
    for (auto& b : g_bufs) if (!b.hidden && !b.aux) pre.emplace_back(b.id, std::string(b.p, b.len));
    int nx0 = g_nx;
    vt::Ev e("Op");
    e.i("case", g_case).i("k", k).b("own", s.own).i("cap", s.own ? s.cap : 0).i("amax", s.own ? (long)std::min(s.amax, (size_t)1000) : 0);
    e.s("op", o.op).i("n", o.n).i("off", o.off).i("N", o.N).i("D", D).s("wk", std::string(1, o.wk)).raw("w", wpre)
     .raw("el", vt::Arr().i(el.b).i(el.o).i(el.n).str());
    e.raw("v", refs(s.els(), s.cnt())).i("ff", s.ff()).i("bf", s.bf()).i("nb", s.own ? g_al.nb : 0).i("nx", nx0).raw("mem", mem_json(pre));
    {
        std::string c = std::string(g_tight ? "tight " : "") + (s.own ? "own " : "view ") + o.op + " n=" + std::to_string(o.n) + " off=" + std::to_string(o.off) +
                        " N=" + std::to_string(o.N) + " wk=" + o.wk + " cnt=" + std::to_string(s.cnt()) + " wcnt=" + std::to_string(o.lens.size()) + " case=" + std::to_string(g_case);
        vt::note(c);
    }
    // the call
    size_t n = (size_t)o.n, size = o.n == INFSZ ? SIZE_MAX : (size_t)o.n;
    long ret = 0; void* rp = nullptr; bool has_ptr = false;
    g_al.aux = sub;
    if (o.op == "sum") ret = (long)v.sum();
    else if (o.op == "shrink") ret = (long)v.shrink_to(n);
    else if (o.op == "shrinklt") ret = (long)shrinklt(v, n);
    else if (o.op == "xf") ret = (long)v.extract_front(n);
    else if (o.op == "xb") ret = (long)v.extract_back(n);
    else if (o.op == "xfb") ret = (long)v.extract_front(n, (void*)dptr);
    else if (o.op == "xbb") ret = (long)v.extract_back(n, (void*)dptr);
    else if (o.op == "xfv" || o.op == "xbv") {
        bool front = o.op == "xfv";
        if (o.wk == 'o') ret = (long)xv(v, front, n, wown);
        else ret = front ? (long)v.extract_front(n, &wview) : (long)v.extract_back(n, &wview);
    }
    else if (o.op == "xfc") { rp = v.extract_front_continuous(n); has_ptr = true; }
    else if (o.op == "xbc") { rp = v.extract_back_continuous(n); has_ptr = true; }
    else if (o.op == "slice") ret = (long)v.slice(n, (off_t)o.off, &wview);
    else if (o.op == "mtob") ret = (long)v.memcpy_to((void*)dptr, n);
    else if (o.op == "mfromb") ret = (long)v.memcpy_from((const void*)dptr, n);
    else if (o.op == "ptob") ret = (long)v.pipe_to((void*)dptr, n);
    else if (vv && o.wk == 'o') ret = (long)cpo(v, o.op, wown, size);
    else if (o.op == "mtov") ret = (long)v.memcpy_to((const iovector_view*)&wview, size);
    else if (o.op == "mfromv") ret = (long)v.memcpy_from((const iovector_view*)&wview, size);
    else if (o.op == "ptov") ret = (long)v.pipe_to((const iovector_view*)&wview, size);
    else if (o.op == "pfromv") ret = (long)v.pipe_from(&wview, size);
    else ret = (long)ownop(v, o.op, n, elp);
    g_al.aux = false;
    // post-state
    Ref pr{0, 0, 0};
    if (has_ptr) pr = resolve(rp, n);
    std::string dv = "[]";
    if ((vv || sub) && o.wk == 'o') dv = refs(wown->iovec(), wown->iovcnt());
    else if (vv || sub) dv = refs(wview.iov, wview.iovcnt);
    std::vector<std::pair<int, std::string>> post;
    for (auto& b : g_bufs) {
        if (b.hidden) continue;
        if (b.id >= nx0) { post.emplace_back(b.id, b.aux ? std::string() : std::string(b.p, b.len)); continue; }
        for (auto& q : pre) if (q.first == b.id && q.second != std::string(b.p, b.len)) post.emplace_back(b.id, std::string(b.p, b.len));
    }
    e.i("ret", ret).raw("v2", refs(s.els(), s.cnt())).i("ff2", s.ff()).i("bf2", s.bf()).i("nb2", s.own ? g_al.nb : 0).i("nx2", g_nx)
     .raw("mem2", mem_json(post)).raw("dv", dv).raw("ptr", vt::Arr().i(pr.b).i(pr.o).str());
    delete wown;
}
static void run(Subject& s, const Op& o, int k) { if (s.own) exec(s, *s.ov, o, k); else exec(s, s.view, o, k); }

// ------------------------------------------------------------------ scope
static void shapes(int maxel, int maxlen, std::vector<std::vector<int>>& out) {
    out.push_back({});
    for (int m = 1; m <= maxel; m++) {
        std::vector<int> l(m, 0);
        for (;;) {
            out.push_back(l);
            int i = m - 1;
            while (i >= 0 && l[i] == maxlen) l[i--] = 0;
            if (i < 0) break;
            l[i]++;
        }
    }
}
struct Cfg { bool own; int ff, bf; size_t amax; bool heap; };
static void make(Subject& s, const Cfg& c, const std::vector<int>& lens) {
    if (c.own) make_own(s, lens, c.ff, c.bf, c.amax, c.heap); else make_view(s, lens);
}
// the calls of IOVector.tla: Choices(s, 0)
static void choices(bool own, long T, long cnt, const std::vector<std::vector<int>>& others, std::vector<Op>& out) {
    auto add = [&](const char* op, long n, long off, long N, const std::vector<int>* l, char wk) {
        Op o; o.op = op; o.n = n; o.off = off; o.N = N; if (l) o.lens = *l; o.wk = wk; out.push_back(o); };
    add("sum", 0, 0, 0, nullptr, 'v');
    for (const char* op : {"shrink", "xf", "xb", "xfb", "xbb", "xfc", "xbc", "ptob"}) for (long n = 0; n <= T + 2; n++) add(op, n, 0, 0, nullptr, 'v');
    if (!own) for (long n = 0; n <= T + 2; n++) add("shrinklt", n, 0, 0, nullptr, 'v');
    for (const char* op : {"xfv", "xbv"}) for (long n = 0; n <= T + 2; n++) {
        for (long N = 0; N <= cnt + 1; N++) add(op, n, 0, N, nullptr, 'v');
        if (own) add(op, n, 0, 0, nullptr, 'o');
    }
    for (long n = 0; n <= T + 2; n++) for (long off = 0; off <= T + 1; off++) for (long N = 0; N <= cnt + 1; N++) add("slice", n, off, N, nullptr, 'v');
    if (own) {
        for (const char* op : {"pb", "pf", "pba", "pfa", "trunc"}) for (long n = 0; n <= T + 3; n++) add(op, n, 0, 0, nullptr, 'v');
        add("popf", 0, 0, 0, nullptr, 'v'); add("popb", 0, 0, 0, nullptr, 'v');
    }
    // the operations that construct an iov_iterator come last (in --tight mode the first of them on an empty view may be fatal)
    static const std::vector<std::vector<int>> few = {{}, {2}, {1, 0, 2}};     // other operand as an iovector: thin wrappers
    for (const char* op : {"mtob", "mfromb"}) for (long n = 0; n <= T + 2; n++) add(op, n, 0, 0, nullptr, 'v');
    for (const char* op : {"mtov", "mfromv", "ptov", "pfromv"}) for (char wk : {'v', 'o'}) {
        if (wk == 'o' && !own) continue;
        for (auto& l : (wk == 'o' ? few : others)) {
            for (long n = 0; n <= T + 1; n++) add(op, n, 0, 0, &l, wk);
            add(op, INFSZ, 0, 0, &l, wk);
        }
    }
}

int main(int argc, char** argv) {
    vt::open(vt::arg(argc, argv, "--out", "-"));
    uint64_t seed = strtoull(vt::arg(argc, argv, "--seed", "1"), 0, 10);
    bool thorough = !strcmp(vt::arg(argc, argv, "--tier", "quick"), "thorough");
    g_tight = vt::flag(argc, argv, "--tight");
    int maxel = 3, maxlen = thorough ? 3 : 2, oel = thorough ? 3 : 2, olen = 2;
    long nseq = atol(vt::arg(argc, argv, "--seqs", thorough ? "12000" : "2500"));
    std::vector<std::vector<int>> sh, others;
    shapes(maxel, maxlen, sh); shapes(2, olen, others);
    if (oel >= 3) {            // thorough: three-element other vectors with element lengths 0 and 2 only (keeps the trace volume in budget)
        std::vector<std::vector<int>> o3; shapes(3, olen, o3);
        for (auto& l : o3) if (l.size() == 3 && std::all_of(l.begin(), l.end(), [](int x) { return x != 1; })) others.push_back(l);
    }
    // the configurations of IOVector.tla (view; new_iovector with the OwnCfgs) and the stack class IOVector<32,4>
    std::vector<Cfg> cfgs = {{false, 0, 0, 0, false}};
    if (!g_tight) { cfgs.push_back({true, 1, 2, 1000, true}); cfgs.push_back({true, 0, 1, 2, true});
                    if (thorough) cfgs.push_back({true, 4, 0, 1000, false}); }
    // 1. exhaustive scope: every call on every vector, each on a fresh vector
    if (!g_tight) {
        for (auto& c : cfgs) for (auto& l : sh) {
            long T = 0; for (int x : l) T += x;
            std::vector<Op> ops; choices(c.own, T, (long)l.size(), others, ops);
            for (auto& o : ops) { reset_registry(); Subject s; make(s, c, l); g_case++; run(s, o, 0); }
        }
    } else {
        // exact-size iovec arrays: a sanitizer report ends the run, so the calls that construct an iov_iterator over an
        // empty view (which reads iov[0]) are executed after everything else
        struct Item { int prio; const std::vector<int>* l; Op o; };
        std::vector<std::vector<int>> tothers = {{}, {0}, {1}, {2}, {1, 0, 2}};
        std::vector<Item> items;
        for (auto& l : sh) {
            long T = 0; for (int x : l) T += x;
            std::vector<Op> ops; choices(false, T, (long)l.size(), tothers, ops);
            for (auto& o : ops) {
                bool fam = o.op[0] == 'm' || o.op == "ptov" || o.op == "pfromv";
                bool e0 = l.empty(), w0 = o.lens.empty();
                bool empty_it = (o.op == "mtob" || o.op == "mfromb" || o.op == "pfromv") ? e0 : (o.op == "ptov") ? w0 : (e0 || w0);
                items.push_back({!fam ? 0 : !empty_it ? 1 : 2, &l, o});
            }
        }
        std::stable_sort(items.begin(), items.end(), [](const Item& a, const Item& b) { return a.prio < b.prio; });
        for (auto& it : items) { reset_registry(); Subject s; make(s, cfgs[0], *it.l); g_case++; run(s, it.o, 0); }
    }
    if (g_tight) { reset_registry(); vt::close(); return 0; }
    // 2. seeded random sequences of up to 8 calls on larger vectors
    vt::Rng r(seed);
    static const char* VOPS[] = {"sum", "shrink", "shrinklt", "xf", "xb", "xfb", "xbb", "xfv", "xbv", "xfc", "xbc", "slice", "mtob", "mfromb", "ptob",
                                 "mtov", "mfromv", "ptov", "pfromv"};
    static const char* OOPS[] = {"pb", "pf", "pba", "pfa", "popf", "popb", "trunc"};
    for (long q = 0; q < nseq; q++) {
        reset_registry(); g_case++;
        Subject s;
        std::vector<int> l(r.below(5));
        for (auto& x : l) x = r.coin(25) ? 0 : (int)r.below(7);
        Cfg c;
        switch (r.below(4)) {
            case 0: c = {false, 0, 0, 0, false}; break;
            case 1: c = {true, (int)r.below(5), 0, r.coin() ? (size_t)1000 : (size_t)(1 + r.below(4)), false}; break;
            default: c = {true, (int)r.below(3), (int)r.below(4), r.coin() ? (size_t)1000 : (size_t)(1 + r.below(4)), true}; break;
        }
        make(s, c, l);
        int len = 1 + (int)r.below(8);
        for (int k = 0; k < len; k++) {
            long T = 0, cnt = s.cnt();
            for (long i = 0; i < cnt; i++) T += (long)s.els()[i].iov_len;
            if (T > 60 || g_nx > 200) break;
            Op o;
            if (c.own && r.coin(30)) o.op = OOPS[r.below(7)]; else o.op = VOPS[r.below(19)];
            if (c.own && o.op == "shrinklt") o.op = "shrink";
            // counts: biased to the boundaries 0, element boundaries, total, beyond
            switch (r.below(6)) {
                case 0: o.n = T; break;
                case 1: o.n = T + 1 + (long)r.below(2); break;
                case 2: { long acc = 0; long upto = cnt ? (long)r.below(cnt + 1) : 0; for (long i = 0; i < upto; i++) acc += (long)s.els()[i].iov_len; o.n = acc; break; }
                case 3: o.n = r.coin(30) ? 0 : 1; break;
                default: o.n = (long)r.below(T + 1); break;
            }
            if (o.op == "slice") o.off = r.coin(20) ? T : (r.coin(10) ? T + 1 : (long)r.below(T + 1));
            if (o.op == "xfv" || o.op == "xbv" || o.op == "slice") { o.N = r.coin(35) ? 0 : (long)r.below(cnt + 2); if (c.own && o.op != "slice" && r.coin(25)) { o.wk = 'o'; o.N = 0; } }
            if (o.op == "mtov" || o.op == "mfromv" || o.op == "ptov" || o.op == "pfromv") {
                o.lens.resize(r.below(4));
                for (auto& x : o.lens) x = r.coin(25) ? 0 : (int)r.below(6);
                if (c.own && r.coin(40)) o.wk = 'o';
                if (r.coin(30)) o.n = INFSZ;
            }
            if (o.op == "pb" || o.op == "pf") o.n = r.coin(20) ? 0 : (long)r.below(6);
            if (o.op == "pba" || o.op == "pfa") o.n = (long)r.below(9);
            if (o.op == "trunc" && r.coin(40)) o.n = T + (long)r.below(8);
            run(s, o, k);
        }
    }
    reset_registry();
    vt::close();
    return 0;
}
