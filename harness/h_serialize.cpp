// vt-build: light
// vt-flags: -fno-sanitize=null,alignment,pointer-overflow -fsanitize-recover=address -O2
// (the few /repo sources needed are #included at the end of this file instead of being listed as "vt-src": the harness
//  Makefile records header dependencies of the last translation unit only, and a change to rpc/serialize.h or
//  common/iovector.h must rebuild this harness)
//
// C12 harness: runs the REAL rpc::SerializerIOV / rpc::DeserializerIOV (rpc/serialize.h) and the iovector
// they use on message types built from every field kind, over an exhaustive small scope (every length in a
// small set, every partition of the serialized bytes into <= 3 iovec elements at every cut position of the
// variable part, hostile wire words, altered bytes of checked messages) plus seeded random larger instances,
// and logs one ndjson line per case: the message schema (derived from the C++ type by visiting it with the
// library's own process_fields()), the wire words found in the bytes that are supplied, the partition, the
// outcome and, per field, where its bytes are (offset in the supplied input | copy + where the copy's bytes
// occur in the input | empty | null | wild) and its length.  After a successful deserialization every byte
// of every field is read and every map entry is looked up, so an out-of-bounds extent is a sanitizer report.
// Judged by spec/Trace_RpcSerialize.tla.
//
// Sanitizers: -fsanitize=null and alignment are switched off: the library by design returns the message body
// at whatever offset it has in the byte stream (unaligned T*), and binds references to elements of an array
// whose claim failed without touching them; neither is a read or write, which is what C12 is about.
// Sender memory is released before the bytes are deserialized (a receiver is another process): a pointer that
// comes through from the sender is a heap-use-after-free report, not a silent success.
// A fault in one case must not stop the sweep: ASan runs in recover mode (a report marks the case), SIGSEGV/SIGBUS/
// SIGFPE/SIGILL/SIGALRM inside the real code are left with siglongjmp; either way the case is written as a
// {"e":"Fatal",...} line with its description and the stage (deser | read | lookup) and the sweep goes on.  Whatever
// still kills the process (abort, uncaught exception) only ends a forked child; the next child resumes behind it.
#include <photon/rpc/serialize.h>
#include <photon/common/alog.h>
#include <photon/common/checksum/crc32c.h>
#include <vector>
#include <string>
#include <map>
#include <algorithm>
#include <new>
#include <sys/mman.h>
#include <sys/wait.h>
#include <setjmp.h>
#include <sanitizer/asan_interface.h>
#include "vt.h"

// ---- alog stubs (common/iovector.cpp and checksum/crc.cpp only log on ENOBUFS / bad arguments) ----
ALogLogger default_logger{nullptr, 1000};
LogBuffer& operator<<(LogBuffer& log, const Prologue&) { return log; }
LogBuffer& operator<<(LogBuffer& log, ERRNO) { return log; }
void LogFormatter::put_integer(ALogBuffer&, uint64_t) {}

using namespace photon::rpc;

// ------------------------------------------------------------------------------------------------
// message types: M<Base, A, B, C> with A, B, C any field kind
// ------------------------------------------------------------------------------------------------
struct Elem : Message { int32_t a; string s; PROCESS_FIELDS(a, s); };
struct MV : Message { int32_t a = 0; string b; char c = 0; PROCESS_FIELDS(a, b, c); };
typedef sorted_map<string, MV> Map;
typedef sorted_map_factory<string, MV> MapFactory;
typedef array<uint32_t> ArrU;
typedef array<Elem> ArrM;
typedef fixed_buffer<uint64_t> FBuf;
struct None { char unused; };
template <class A, class B> struct Nest : Message { int32_t a; A f1; B f2; PROCESS_FIELDS(a, f1, f2); };
template <class Base, class A, class B, class C> struct M : Base {
    int32_t tag; A a; uint64_t mid; B b; C c;
    // = PROCESS_FIELDS(tag, a, mid, b, c); spelled out because reduce() lives in a dependent base here
    template <typename AR> void process_fields(AR& ar) { return this->reduce(ar, tag, a, mid, b, c); }
};
typedef Message U;            // unchecked
typedef CheckedMessage<> K;   // checked (crc32c)
static const uint64_t MAXW = 1000000000;   // how wire values >= 10^9 are logged (TLC integers are 32 bit)

// ------------------------------------------------------------------------------------------------
// choosing lengths: enumerated digits (exhaustive scope) or random
// ------------------------------------------------------------------------------------------------
static bool g_thorough = false;
struct MapSpec { std::vector<std::pair<std::string, int>> e; };   // key, length of the value's string
struct Chooser {
    bool dry = false, rnd = false;
    std::vector<int> digits, doms; size_t k = 0;
    vt::Rng* r = nullptr; uint64_t maxlen = 0;
    int digit(int dom) {
        if (dry) { doms.push_back(dom); return 0; }
        return digits[k++];
    }
    size_t len() {
        if (rnd) return r->coin(15) ? 0 : (r->coin(30) ? r->below(4) : r->below(maxlen + 1));
        static const size_t Q[] = {0, 2}, T[] = {0, 1, 2, 3};
        return g_thorough ? T[digit(4)] : Q[digit(2)];
    }
    size_t count() {
        if (rnd) return r->below(5);
        static const size_t Q[] = {0, 2}, T[] = {0, 1, 2};
        return g_thorough ? T[digit(3)] : Q[digit(2)];
    }
    std::vector<size_t> iovlens() {
        if (rnd) { std::vector<size_t> v(r->below(6)); for (auto& x : v) x = r->coin(20) ? 0 : r->below(maxlen / 2 + 2); return v; }
        static const std::vector<size_t> Q[] = {{}, {1, 2}, {2, 0, 1}}, T[] = {{}, {0}, {3}, {1, 2}, {2, 0, 1}};
        return g_thorough ? T[digit(5)] : Q[digit(3)];
    }
    std::vector<size_t> arrmlens() {      // one string length per element
        if (rnd) { std::vector<size_t> v(r->below(4)); for (auto& x : v) x = r->below(maxlen / 4 + 2); return v; }
        static const std::vector<size_t> Q[] = {{}, {0, 3}}, T[] = {{}, {2}, {0, 3}, {1, 1}};
        return g_thorough ? T[digit(4)] : Q[digit(2)];
    }
    MapSpec mapspec() {
        if (rnd) {
            MapSpec m; int n = r->below(5);
            for (int i = 0; i < n; i++) {
                std::string key;
                for (;;) {
                    key.clear(); int kl = r->below(6);
                    for (int j = 0; j < kl; j++) key += char('a' + r->below(4));
                    bool dup = false; for (auto& e : m.e) dup |= (e.first == key);
                    if (!dup) break;
                }
                m.e.push_back({key, (int)r->below(maxlen / 4 + 2)});
            }
            return m;
        }
        static const MapSpec Q[] = {{{}}, {{{"zz", 1}, {"a", 3}}}},
                             T[] = {{{}}, {{{"m", 2}}}, {{{"zz", 1}, {"a", 3}}}, {{{"q", 0}, {"", 2}, {"qq", 1}}}};
        return g_thorough ? T[digit(4)] : Q[digit(2)];
    }
};

// ------------------------------------------------------------------------------------------------
// sender side: build a message (Fill), describe it (schema JSON, wire word locations)
// ------------------------------------------------------------------------------------------------
static uint64_t g_pat = 0;
static inline uint8_t nextbyte() { return (uint8_t)(1 + (g_pat++ % 251)); }
struct Arena {
    std::vector<void*> blocks; std::vector<MapFactory*> facs;
    void* alloc(size_t n) { void* p = malloc(n ? n : 1); blocks.push_back(p); return p; }
    void* bytes(size_t n) { auto p = (uint8_t*)alloc(n); for (size_t i = 0; i < n; i++) p[i] = nextbyte(); return p; }
    void free_all() { for (auto f : facs) delete f; facs.clear(); for (auto p : blocks) free(p); blocks.clear(); }
};
static void* const EMPTY_PTR = (void*)0x00dead0000000010ull;   // what an empty buffer points at on the sender

struct MapInfo { std::vector<std::string> keys; std::vector<int> a, blen; std::vector<char> c; };   // insertion order

struct Fill {       // archive: visits the fields of a message through process_fields()
    Chooser& ch; Arena& ar; int fix = 1; std::vector<MapInfo>& maps;
    Fill(Chooser& c, Arena& a, std::vector<MapInfo>& m) : ch(c), ar(a), maps(m) {}
    void buf(buffer& x) { size_t n = ch.len(); if (n) x.assign(ar.bytes(n), n); else x.assign(EMPTY_PTR, 0); }
    void process_field(buffer& x) { buf(x); }
    void process_field(aligned_buffer& x) { buf(x); }
    void process_field(string& x) { buf(x); }
    void process_field(ArrU& x) { size_t n = ch.count(); if (n) x.assign((uint32_t*)ar.bytes(4 * n), n); else ((buffer&)x).assign(EMPTY_PTR, 0); }
    void process_field(FBuf& x) { x.assign((uint64_t*)ar.bytes(8)); }
    void iov(iovec_array& x) {
        auto lens = ch.iovlens();
        auto v = (iovec*)ar.alloc(sizeof(iovec) * lens.size());
        for (size_t i = 0; i < lens.size(); i++) v[i] = iovec{lens[i] ? ar.bytes(lens[i]) : EMPTY_PTR, lens[i]};
        x.assign(v, (int)lens.size());
    }
    void process_field(iovec_array& x) { iov(x); }
    void process_field(aligned_iovec_array& x) { iov(x); }
    void process_field(ArrM& x) {
        auto lens = ch.arrmlens();
        if (lens.empty()) { ((buffer&)x).assign(EMPTY_PTR, 0); return; }
        auto e = (Elem*)ar.alloc(sizeof(Elem) * lens.size());
        memset((void*)e, 0, sizeof(Elem) * lens.size());
        for (size_t i = 0; i < lens.size(); i++) {
            new (&e[i]) Elem; e[i].a = 1000 + fix++;
            if (lens[i]) e[i].s.assign((const void*)ar.bytes(lens[i]), lens[i]); else e[i].s.assign((const void*)EMPTY_PTR, 0);
        }
        x.assign(e, lens.size());
    }
    void process_field(Map& x) {
        auto spec = ch.mapspec();
        maps.emplace_back(); auto& mi = maps.back();
        x.index = Map::Index(); x.base_buffer = buffer();
        ((buffer&)x.index).assign(EMPTY_PTR, 0); x.base_buffer.assign(EMPTY_PTR, 0);
        if (spec.e.empty()) return;
        auto f = new MapFactory; ar.facs.push_back(f);
        for (auto& e : spec.e) {
            auto kp = (char*)ar.alloc(e.first.size() + 1); memcpy(kp, e.first.c_str(), e.first.size() + 1);
            auto v = (MV*)ar.alloc(sizeof(MV)); memset((void*)v, 0, sizeof(MV)); new (v) MV;
            v->a = 1000 + fix++; v->c = (char)('A' + (fix % 26));
            if (e.second) v->b.assign((const void*)ar.bytes(e.second), (size_t)e.second); else v->b.assign((const void*)EMPTY_PTR, 0);
            mi.keys.push_back(e.first); mi.a.push_back(v->a); mi.blen.push_back(e.second); mi.c.push_back(v->c);
            string key; key.assign((const void*)kp, e.first.size() + 1);
            f->append(key, *v);
        }
        f->assign_to(&x);
    }
    void process_field(None&) {}
    template <class T> typename std::enable_if<std::is_base_of<Message, T>::value>::type process_field(T& x) { x.process_fields(*this); }
    template <class T> typename std::enable_if<std::is_arithmetic<T>::value>::type process_field(T& x) { x = (T)(fix++); }
};

struct Word {            // one wire word (a length that travels in the body / in an array element)
    const char* kind; size_t off;          // offset of the length word ...
    const void* holder;                    // ... inside the message (holder == nullptr) or inside element memory
    size_t ptroff;                         // offset of the pointer word next to it
    uint64_t honest; const void* data;     // honest value, sender's data pointer (to find the piece in the flat bytes)
    size_t es; size_t count;               // element size / honest element count (arrm, idx)
    size_t flatoff = 0, flatptr = 0, start = 0;   // filled after serialization: offsets in flat; start of its bytes
};
struct Describe {        // archive: schema JSON + wire word locations + expected fixed values
    const char* base; std::string sch; std::vector<Word> words; std::string fxe; bool first = true;
    const void* holder = nullptr; std::vector<MapInfo>& maps; size_t mapi = 0;
    std::vector<size_t> slice_data_index;  // words[] index of the map's idx word
    std::string lookups;                   // expected [a, blen, c] per index entry (sender's sorted order)
    std::vector<std::string> keys_sorted;
    Describe(const void* b, std::vector<MapInfo>& m) : base((const char*)b), maps(m) {}
    void sep() { if (!first) sch += ','; first = false; }
    void word(const char* kind, const void* lenp, const void* ptrp, uint64_t honest, const void* data, size_t es, size_t count) {
        Word w{kind, (size_t)((const char*)lenp - base), holder, (size_t)((const char*)ptrp - base), honest, data, es, count};
        words.push_back(w);
    }
    void simple(const char* kind, buffer& x) {
        sep(); sch += std::string("[\"") + kind + "\"," + std::to_string(x._len) + "]";
        word(kind, &x._len, &x._ptr, x._len, x._ptr, 1, 0);
    }
    void process_field(buffer& x) { simple("buf", x); }
    void process_field(aligned_buffer& x) { simple("abuf", x); }
    void process_field(string& x) { simple("str", x); }
    void process_field(ArrU& x) { sep(); sch += "[\"arr\"," + std::to_string(x._len) + ",4]"; word("arr", &x._len, &x._ptr, x._len, x._ptr, 4, 0); }
    void process_field(FBuf& x) { sep(); sch += "[\"fbuf\"," + std::to_string(x._len) + ",8]"; word("fbuf", &x._len, &x._ptr, x._len, x._ptr, 8, 0); }
    void iov(const char* kind, iovec_array& x) {
        sep(); vt::Arr a; size_t sum = 0; for (auto& v : x) { a.u(v.iov_len); sum += v.iov_len; }
        sch += std::string("[\"") + kind + "\"," + a.str() + "]";
        const void* first_data = nullptr; for (auto& v : x) if (v.iov_len) { first_data = v.iov_base; break; }
        word(kind, &x.summed_size, &x._ptr, sum, first_data, 1, 0);
    }
    void process_field(iovec_array& x) { iov("iov", x); }
    void process_field(aligned_iovec_array& x) { iov("aiov", x); }
    void process_field(ArrM& x) {
        sep(); sch += "[\"arrm\"," + std::to_string(sizeof(Elem)) + ",[";
        word("arrm", &x._len, &x._ptr, x._len, x._ptr, sizeof(Elem), x.size());
        bool f0 = first; const char* b0 = base; const void* h0 = holder;
        for (size_t i = 0; i < x.size(); i++) {
            if (i) sch += ',';
            sch += '['; first = true;
            Elem& e = ((Elem*)x._ptr)[i];
            base = (const char*)x._ptr; holder = x._ptr;      // offsets relative to the element array
            e.process_fields(*this);
            sch += ']';
        }
        base = b0; holder = h0; first = false; (void)f0;
        sch += "]]";
    }
    void process_field(Map& x) {
        auto& mi = maps[mapi++];
        sep();
        size_t n = x.index.size();
        vt::Arr sl, vals;
        // the value of entry j (insertion order) starts right after its key: recover j from the key offset
        std::vector<size_t> koffs; { size_t o = 0; for (size_t j = 0; j < mi.keys.size(); j++) { koffs.push_back(o); o += mi.keys[j].size() + 1 + mi.blen[j] + sizeof(MV); } }
        for (size_t i = 0; i < n; i++) {
            auto& e = x.index[i];
            sl.raw(vt::Arr().i(e.first.offset).u(e.first.length).i(e.second.offset).u(e.second.length).str());
            size_t j = std::find(koffs.begin(), koffs.end(), (size_t)e.first.offset) - koffs.begin();
            vals.raw(vt::Arr().i(mi.a[j]).i(mi.blen[j]).i((int)mi.c[j]).str());
            keys_sorted.push_back(mi.keys[j]);
        }
        sch += "[\"map\"," + std::to_string(sizeof(Map::ValueType)) + "," + std::to_string(x.base_buffer._len) + "," + sl.str() + "]";
        lookups = vals.str();
        slice_data_index.push_back(words.size());
        word("idx", &x.index._len, &x.index._ptr, x.index._len, x.index._ptr, sizeof(Map::ValueType), n);
        word("base", &x.base_buffer._len, &x.base_buffer._ptr, x.base_buffer._len, x.base_buffer._ptr, 1, 0);
    }
    void process_field(None&) {}
    template <class T> typename std::enable_if<std::is_base_of<Message, T>::value>::type process_field(T& x) {
        sep(); sch += "[\"msg\",["; bool f0 = first; first = true; x.process_fields(*this); first = f0; sch += "]]";
    }
    template <class T> typename std::enable_if<std::is_arithmetic<T>::value>::type process_field(T& x) {
        if (!fxe.empty()) fxe += ','; fxe += std::to_string((long long)x);
    }
};

// ------------------------------------------------------------------------------------------------
// receiver side: where does a pointer point?
// ------------------------------------------------------------------------------------------------
struct Alloc { char* p; size_t n; };
static std::vector<Alloc> g_allocs;               // buffers the iovector allocated while deserializing
static int rec_alloc(void*, IOAlloc::RangeSize sz, void** ptr) {
    *ptr = ::malloc(sz.max > 0 ? (size_t)sz.max : 1);
    g_allocs.push_back(Alloc{(char*)*ptr, (size_t)sz.max});
    return sz.max;
}
static int rec_dealloc(void*, void* ptr) { ::free(ptr); return 0; }

struct Input {
    std::vector<Alloc> els; std::vector<size_t> start;    // supplied elements (exact-size heap blocks) and their offsets
    std::string orig;                                     // the supplied bytes, as supplied
};
static Input* g_in = nullptr;

struct Where { int code; long pos; long extra; };      // 0 in, 1 copy, 2 empty, 3 null, 4 wild
static volatile uint64_t g_sink;
static std::vector<std::pair<size_t, size_t>> g_mask;   // (offset, len) ranges of a copy that deserialization rewrites
static bool g_nosearch = false;
static Where locate(const void* ptr, size_t len) {
    if (len == 0) return Where{2, 0, 0};
    if (!ptr) return Where{3, 0, 0};
    auto p = (const char*)ptr;
    for (size_t e = 0; e < g_in->els.size(); e++) {
        auto& v = g_in->els[e];
        if (v.n && p >= v.p && p < v.p + v.n) return Where{0, (long)(g_in->start[e] + (p - v.p)), 0};
    }
    for (auto& a : g_allocs)
        if (p >= a.p && p < a.p + std::max<size_t>(a.n, 1)) {
            long slack = (long)a.n - (long)(p - a.p) - (long)len;
            if (slack < 0 || g_nosearch) return Where{1, -1, slack};
            // where do the copy's bytes occur in the supplied input?  (bytes that deserialization rewrites are masked)
            long found = -1; int n = 0;
            auto& o = g_in->orig;
            for (size_t s = 0; s + len <= o.size(); s++) {
                bool eq = true;
                for (size_t i = 0; i < len && eq; i++) {
                    bool masked = false;
                    for (auto& m : g_mask) if (i >= m.first && i < m.first + m.second) masked = true;
                    if (!masked && o[s + i] != p[i]) eq = false;
                }
                if (eq) { if (n++ == 0) found = (long)s; else if (n > 1) break; }
            }
            return Where{1, n == 0 ? -1 : (n == 1 ? found : -2), slack};
        }
    return Where{4, 0, 0};
}
static volatile int g_asan_hits = 0;      // sanitizer reports in the current case (recover mode: execution goes on)
static void read_all(const void* p, size_t n) {
    uint64_t s = 0; auto c = (const volatile uint8_t*)p;
    for (size_t i = 0; i < n && !g_asan_hits; i++) s += c[i];      // (one report per case is enough)
    g_sink += s;
}

// fatal events: the case description is prepared before the real code runs
static char* g_desc = nullptr;      // lives in its own mapping: a wild write of the code under test must not garble the evidence
static const size_t DESC_MAX = 1 << 20;
static const char* g_stage = "setup"; static int g_fwi = 0; static char g_asan[64] = "";
static void my_fatal(int sig) {
    auto& s = vt::sink();
    if (s.f) {
        fwrite(s.buf.data(), 1, s.buf.size(), s.f);
        fprintf(s.f, "{\"e\":\"Fatal\",%s,\"sig\":%d,\"stage\":\"%s\",\"fwi\":%d,\"asan\":\"%s\"}\n", g_desc, sig, g_stage, g_fwi,
                g_asan[0] ? g_asan : (sig == SIGSEGV ? "SEGV" : sig == SIGALRM ? "timeout" : "abort"));
        fflush(s.f);
    }
    _exit(3);
}
static const char* g_fault_stage = ""; static int g_fault_fwi = 0;
static void asan_report(const char* rep) {
    if (g_asan_hits++) return;
    g_fault_stage = g_stage; g_fault_fwi = g_fwi;
    const char* p = strstr(rep, "AddressSanitizer: ");
    if (p) { p += 18; size_t i = 0; while (p[i] && p[i] != ' ' && p[i] != '\n' && i < sizeof(g_asan) - 1) { g_asan[i] = p[i]; i++; } g_asan[i] = 0; }
}
// signals raised inside the real code: back to run_case
static sigjmp_buf g_jmp; static volatile sig_atomic_t g_injmp = 0; static volatile int g_sig = 0;
static void on_signal(int sig) {
    if (g_injmp) { g_injmp = 0; g_sig = sig; if (!g_asan_hits) { g_fault_stage = g_stage; g_fault_fwi = g_fwi; } siglongjmp(g_jmp, 1); }
    my_fatal(sig);
}

struct Observe {        // archive over the RECEIVED message: where is every field, read every byte
    std::string res, fx; bool first = true; int wi = 0;
    std::vector<size_t> arrm_counts; size_t arrmi = 0;     // honest element counts (indexing follows the sender's schema)
    Map* map = nullptr;
    void add(const std::string& s) { if (!first) res += ','; first = false; res += s; }
    Where field(buffer& x, size_t need) {
        g_fwi = ++wi;
        Where w = locate(x._ptr, x._len);
        add(vt::Arr().i(w.code).i(w.pos).u(std::min<uint64_t>(x._len, MAXW)).i(w.extra).str());
        if (w.code <= 1) { read_all(x._ptr, x._len); if (need > x._len) read_all(x._ptr, need); }   // fixed_buffer<T> is read as a T
        return w;
    }
    void process_field(buffer& x) { field(x, 0); }
    void process_field(aligned_buffer& x) { field(x, 0); }
    void process_field(string& x) { field(x, 0); }
    void process_field(ArrU& x) { if (field(x, 0).code <= 1) for (auto& v : x) g_sink += v; }
    void process_field(FBuf& x) { field(x, sizeof(uint64_t)); }
    void process_field(iovec_array& x) {
        g_fwi = ++wi; vt::Arr ps; size_t sum = 0;
        // the iovec[] itself was allocated by the iovector; anything else is a pointer that came over the wire
        if (x.size()) {
            g_nosearch = true; Where a = locate(x.begin(), x.size() * sizeof(iovec)); g_nosearch = false;
            if (a.code != 1 || a.extra < 0) { add(vt::Arr().i(4).i(0).u(std::min<uint64_t>(x.summed_size, MAXW)).i(0).str()); return; }
            read_all(x.begin(), x.size() * sizeof(iovec));
        }
        for (auto& v : x) {
            Where w = locate(v.iov_base, v.iov_len);
            ps.raw(vt::Arr().i(w.code == 0 ? w.pos : (w.code == 2 ? 0 : -1)).u(v.iov_len).str());
            if (w.code <= 1) read_all(v.iov_base, v.iov_len);
            sum += v.iov_len;
        }
        add("[5,0," + std::to_string(std::min<uint64_t>(sum, MAXW)) + "," + ps.str() + "]");
    }
    void process_field(aligned_iovec_array& x) { process_field((iovec_array&)x); }
    void process_field(ArrM& x) {
        g_mask.clear();
        for (size_t i = 0; i < x.size(); i++) g_mask.push_back({i * sizeof(Elem) + offsetof(Elem, s) + offsetof(buffer, _ptr), sizeof(void*)});
        Where w = field(x, 0);
        g_mask.clear();
        size_t honest = arrm_counts[arrmi++];
        for (size_t i = 0; i < honest; i++) {
            if (i < x.size() && w.code <= 1) { ((Elem*)x._ptr)[i].process_fields(*this); }
            else { ++wi; add("[9,0,0,0]"); }          // element not received (one word per Elem)
        }
    }
    void process_field(Map& x) { Where a = field(x.index, 0), b = field(x.base_buffer, 0); if (a.code <= 2 && b.code <= 2) map = &x; }
    void process_field(None&) {}
    template <class T> typename std::enable_if<std::is_base_of<Message, T>::value>::type process_field(T& x) { x.process_fields(*this); }
    template <class T> typename std::enable_if<std::is_arithmetic<T>::value>::type process_field(T& x) {
        if (!fx.empty()) fx += ','; fx += std::to_string((long long)x);
    }
};

// ------------------------------------------------------------------------------------------------
// one built instance of a shape, and one case on it
// ------------------------------------------------------------------------------------------------
struct Slice4 { size_t flatoff[4]; int64_t honest[4]; };
struct Inst {
    std::string shape, flat, sch, fxe, lookups; bool ck = false; size_t S = 0, N = 0, V = 0;
    std::vector<Word> words; std::vector<Slice4> slices; std::vector<size_t> arrm_counts; std::vector<std::string> keys;
    std::vector<size_t> starts;     // where the serializer put each piece
    size_t B = 0; bool iovfull = false;
};
struct Mut { std::vector<std::pair<int, uint64_t>> w; std::vector<std::pair<std::pair<int, int>, uint64_t>> sl; long alt = -1; uint8_t mask = 0; };
struct Out { bool ok = false; std::string body = "[3,0]", res, fx, lk = "[]", fd = "[]"; };
struct Shape { const char* name; Inst (*build)(const char*, Chooser&); void (*run)(IOVector&, const Inst&, Out&, bool); void (*sign)(std::string&); };

static uint64_t g_id = 0, g_start = 0, g_only = ~0ull; static volatile uint64_t* g_shared = nullptr;
static bool g_nofork = false; static uint64_t g_fatals = 0;
// an instance whose construction (real serializer + bookkeeping) is fatal is reported once and then left out
static std::vector<std::pair<std::string, uint64_t>> g_skip;
static int g_shape_no = 0;
static bool skipped(const char* kind, uint64_t idx) {
    std::string k = std::string(kind) + std::to_string(g_shape_no);
    for (auto& s : g_skip) if (s.first == k && s.second == idx) return true;
    return false;
}
static void set_desc(const std::string& desc);
static void building(const char* shape, const char* kind, uint64_t idx) {
    g_shared[2] = kind[0]; g_shared[3] = idx;
    set_desc("\"id\":-1,\"shape\":\"" + std::string(shape) + "\",\"mode\":\"build\",\"ck\":false,\"S\":1,\"N\":0,\"sch\":[],\"W\":[" +
             std::to_string(idx) + "],\"SL\":[],\"part\":[],\"alt\":-1");
    g_stage = "build";
}
// (bounds-checked: if the serializer under test misplaces things the harness must still be able to say so)
static inline uint64_t rd64(const std::string& b, size_t off) { uint64_t v = 0; if (off + 8 <= b.size() && off + 8 >= 8) memcpy(&v, &b[off], 8); return v; }
static inline void wr64(std::string& b, size_t off, uint64_t v) { if (off + 8 <= b.size() && off + 8 >= 8) memcpy(&b[off], &v, 8); }
static inline long capu(uint64_t v) { return (long)std::min<uint64_t>(v, MAXW); }
static inline long caps(uint64_t v) { return (int64_t)v < 0 ? -1 : capu(v); }

template <class T> static Inst build(const char* shape, Chooser& ch) {
    Inst in; in.shape = shape; in.ck = std::is_base_of<K, T>::value; in.S = sizeof(T);
    Arena ar; std::vector<MapInfo> maps;
    T* m = (T*)ar.alloc(sizeof(T)); memset((void*)m, 0, sizeof(T)); new (m) T;
    Fill f(ch, ar, maps); m->process_fields(f);
    if (ch.dry) { ar.free_all(); return in; }
    Describe d(m, maps); m->process_fields(d);
    in.sch = d.sch; in.fxe = d.fxe; in.lookups = d.lookups; in.keys = d.keys_sorted;
    for (auto& w : d.words) if (!strcmp(w.kind, "arrm")) in.arrm_counts.push_back(w.count);
    // ---- the real serializer ----
    SerializerIOV s; s.serialize(*m);
    in.iovfull = s.iovfull;
    in.N = s.iov.sum(); in.V = in.N - in.S;
    in.flat.assign(in.N, 0); s.iov.memcpy_to(&in.flat[0], in.N);
    // where did each sender buffer go?  (observation of the serializer's pieces, by sender pointer)
    std::map<const void*, size_t> pos; { size_t o = 0; for (auto& v : s.iov) { if (!pos.count(v.iov_base)) pos[v.iov_base] = o; in.starts.push_back(o); o += v.iov_len; } }
    in.words = d.words;
    for (auto& w : in.words) {
        size_t hb = w.holder ? (pos.count(w.holder) ? pos[w.holder] : (size_t)-1) : in.V;   // element memory / body
        w.flatoff = hb == (size_t)-1 ? (size_t)-1 : hb + w.off; w.flatptr = hb == (size_t)-1 ? (size_t)-1 : hb + w.ptroff;
        w.start = (w.honest && pos.count(w.data)) ? pos[w.data] : in.V;
    }
    for (size_t mi : d.slice_data_index) {
        auto& iw = in.words[mi]; in.B = in.words[mi + 1].honest;
        if (!iw.honest || !pos.count(iw.data)) continue;
        for (size_t e = 0; e < iw.count; e++) {
            Slice4 s4; size_t o = pos[iw.data] + e * sizeof(Map::ValueType);
            s4.flatoff[0] = o + offsetof(Map::ValueType, first) + offsetof(slice, offset); s4.flatoff[1] = o + offsetof(Map::ValueType, first) + offsetof(slice, length);
            s4.flatoff[2] = o + offsetof(Map::ValueType, second) + offsetof(slice, offset); s4.flatoff[3] = o + offsetof(Map::ValueType, second) + offsetof(slice, length);
            for (int k = 0; k < 4; k++) s4.honest[k] = (int64_t)rd64(in.flat, s4.flatoff[k]);
            in.slices.push_back(s4);
        }
    }
    ar.free_all();          // the receiver is another process: nothing of the sender's memory is there
    return in;
}

// what a sender does last: the library's own add_checksum() over the bytes (body in place, checksum member zero)
template <class T> static void sign(std::string& bytes) {
    if (!std::is_base_of<K, T>::value || bytes.size() < sizeof(T)) return;
    // same piece structure as SerializerIOV: the variable part, then the body as a piece of its own
    IOVector iov;
    if (bytes.size() > sizeof(T)) iov.push_back(&bytes[0], bytes.size() - sizeof(T));
    iov.push_back(&bytes[bytes.size() - sizeof(T)], sizeof(T));
    T* t = (T*)&bytes[bytes.size() - sizeof(T)];
    memset((void*)t, 0, sizeof(uint32_t));       // CheckedMessage<>::m_checksum is the first member (checked at start-up)
    t->add_checksum(&iov);
}
// the real deserializer on the supplied iovector, then: where is every field, read every byte, look up every key
template <class T> static void deser_observe(IOVector& iov, const Inst& in, Out& o, bool observe) {
    DeserializerIOV des;
    T* r = des.template deserialize<T>(&iov);
    g_stage = "read";
    o.ok = r != nullptr;
    if (!r || !observe) return;
    Observe ob; ob.arrm_counts = in.arrm_counts;
    g_nosearch = true; Where w = locate(r, sizeof(T)); g_nosearch = false;     // (a copied body has its pointers rewritten by now)
    o.body = vt::Arr().i(w.code).i(w.code == 1 ? (w.extra < 0 ? -1 : -2) : w.pos).str();
    read_all(r, sizeof(T));
    r->process_fields(ob);
    o.res = ob.res; o.fx = ob.fx;
    if (!ob.map) return;
    Map& m = *ob.map; auto bb = (const char*)m.base_buffer.addr(); size_t B = m.base_buffer.size();
    {   // the slices as the receiver has them (the index was delivered and has been read above); part of the description from here on
        vt::Arr sl; size_t n = std::min<size_t>(m.index.size(), 16);
        for (size_t i = 0; i < n; i++) { auto& e = m.index[i]; sl.raw(vt::Arr().i(caps((uint64_t)e.first.offset)).i(capu(e.first.length)).i(caps((uint64_t)e.second.offset)).i(capu(e.second.length)).str()); }
        std::string add = ",\"SLr\":" + sl.str();
        size_t l = strlen(g_desc); if (l + add.size() + 1 < DESC_MAX) memcpy(g_desc + l, add.c_str(), add.size() + 1);
    }
    g_stage = "lookup"; g_fwi = 0;
    vt::Arr L, F;
    size_t cnt = 0;
    for (auto it = m.begin(); it != m.end() && cnt < 64; ++it, ++cnt) {      // every entry, in index order
        g_fwi = (int)cnt + 1;
        auto& p = *it;
        auto kp = (const char*)p.first.addr(); auto vp = (const char*)p.second.b.addr();
        read_all(kp, p.first.size()); read_all(vp, p.second.b.size());
        L.raw(vt::Arr().i(p.first.size() && kp >= bb && kp <= bb + B ? kp - bb : -1).u(std::min<uint64_t>(p.first.size(), MAXW)).i(p.second.a)
                  .i(p.second.b.size() && vp >= bb && vp <= bb + B ? vp - bb : -1).u(std::min<uint64_t>(p.second.b.size(), MAXW)).i((int)p.second.c).str());
    }
    std::vector<std::string> keys = in.keys; keys.push_back("zzzz~");          // every key the sender inserted, and one it did not
    for (auto& k : keys) {
        g_fwi++;
        string key; key.assign((const void*)k.c_str(), k.size() + 1);
        auto it = m.find(key);
        long posn = 0; for (auto w2 = m.begin(); w2 != it && w2 != m.end(); ++w2) posn++;
        if (it != m.end()) { auto& p = *it; read_all(p.first.addr(), p.first.size()); read_all(p.second.b.addr(), p.second.b.size()); }
        F.i(posn);
    }
    o.lk = L.str(); o.fd = F.str();
}

// the part of a case that may fault.  Returns false if it was left through a signal.
static __attribute__((noinline)) bool attempt(const Shape& sh, const Inst& in, Input& inp, bool observe, Out& o) {
    if (sigsetjmp(g_jmp, 1)) return false;
    g_injmp = 1;
    {
        IOVector iov(IOAlloc(IOAlloc::Allocator(nullptr, &rec_alloc), IOAlloc::Deallocator(nullptr, &rec_dealloc)));
        for (auto& e : inp.els) iov.push_back(e.p, e.n);
        sh.run(iov, in, o, observe);
        g_injmp = 0;
    }
    return true;
}

// cut: how many bytes are missing.  cut <= V: the last `cut` bytes of the variable part never arrived (the body did);
// cut > V: only the last N - cut bytes arrived (not even a whole body)
static void run_case(const Shape& sh, const Inst& in, const char* mode, const std::vector<size_t>& part, size_t cut, const Mut& mu) {
    uint64_t id = g_id++;
    if (id < g_start || (g_only != ~0ull && id != g_only)) return;
    g_shared[0] = id;
    alarm(20);
    bool rt = !strcmp(mode, "rt");
    // ---- the bytes supplied ----
    std::string bytes = in.flat;
    for (auto& w : mu.w) {
        auto& wd = in.words[w.first]; if (wd.flatoff == (size_t)-1) continue;
        wr64(bytes, wd.flatoff, w.second);
        // an iovec_array carries two words: summed_size (the one that matters) and the byte length of the iovec[];
        // keep "no bytes <=> no elements" so that the two agree about emptiness
        if (!strcmp(wd.kind, "iov") || !strcmp(wd.kind, "aiov")) {
            size_t lenoff = wd.flatptr + 8;
            if (w.second == 0) wr64(bytes, lenoff, 0); else if (rd64(bytes, lenoff) == 0) wr64(bytes, lenoff, sizeof(iovec));
        }
    }
    for (auto& s : mu.sl) wr64(bytes, in.slices[s.first.first].flatoff[s.first.second], s.second);
    if (!rt && strcmp(mode, "alter"))      // a hostile sender's pointers are garbage, and it can compute a checksum
        for (auto& wd : in.words) if (wd.flatptr != (size_t)-1) wr64(bytes, wd.flatptr, 0x00dead0000000000ull + (&wd - &in.words[0]) * 0x100);
    if (cut <= in.V) bytes = bytes.substr(0, in.V - cut) + bytes.substr(in.V); else bytes = bytes.substr(cut);
    size_t N = bytes.size();
    auto moved = [&](size_t off) -> size_t {       // where is flat offset `off` in the supplied bytes ((size_t)-1: not there)
        if (off == (size_t)-1) return off;
        if (cut > in.V) return off >= cut ? off - cut : (size_t)-1;
        if (off >= in.V) return off - cut;
        return off + 8 <= in.V - cut ? off : (size_t)-1;
    };
    if (!rt && strcmp(mode, "alter")) sh.sign(bytes);
    if (mu.alt >= 0) bytes[mu.alt] ^= mu.mask;
    Input inp; inp.orig = bytes; g_in = &inp; g_allocs.clear(); g_mask.clear();
    { size_t o = 0; for (auto n : part) { auto p = (char*)malloc(n ? n : 1); memcpy(p, bytes.data() + o, n); inp.els.push_back(Alloc{p, n}); inp.start.push_back(o); o += n; } }
    // ---- description (also used by a Fatal event) ----
    vt::Arr W, SL, P;
    bool body_there = N >= in.S;
    for (auto& wd : in.words) {
        long v = 0;
        size_t o = moved(wd.flatoff);
        if (body_there && o != (size_t)-1) v = capu(rd64(bytes, o));
        W.i(v);
    }
    for (auto& s : in.slices) { vt::Arr a; for (int k = 0; k < 4; k++) { size_t o = moved(s.flatoff[k]); uint64_t v = o != (size_t)-1 ? rd64(bytes, o) : 0; a.i((k % 2) ? capu(v) : caps(v)); } SL.raw(a.str()); }
    for (auto n : part) P.u(n);
    std::string desc = "\"id\":" + std::to_string(id) + ",\"shape\":\"" + in.shape + "\",\"mode\":\"" + mode + "\",\"ck\":" + (in.ck ? "true" : "false") +
             ",\"S\":" + std::to_string(in.S) + ",\"N\":" + std::to_string(N) + ",\"sch\":[" + in.sch + "],\"W\":" + W.str() + ",\"SL\":" + SL.str() +
             ",\"part\":" + P.str() + ",\"alt\":" + std::to_string(mu.alt);
    set_desc(desc); g_shared[2] = 0;
    g_stage = "deser"; g_fwi = 0; g_asan[0] = 0; g_asan_hits = 0; g_sig = 0; g_fault_stage = ""; g_fault_fwi = 0;
    {
        Out o;
        bool done = attempt(sh, in, inp, strcmp(mode, "alter") != 0, o);     // an altered message only has to be refused
        g_stage = "emit";
        if (!done || g_asan_hits) {
            vt::Ev e("Fatal");
            e.j += ","; e.j += g_desc;
            e.i("sig", g_sig).s("stage", g_fault_stage).i("fwi", g_fault_fwi)
             .s("asan", g_asan[0] ? g_asan : (g_sig == SIGSEGV ? "SEGV" : g_sig == SIGALRM ? "timeout" : "signal"));
            g_shared[5]++;
        } else {
            vt::Ev e("Case");
            e.j += ","; e.j += g_desc;
            e.s("out", o.ok ? "ok" : "fail").raw("body", o.body).raw("fx", "[" + o.fx + "]").raw("fxe", "[" + in.fxe + "]")
             .raw("res", "[" + o.res + "]").raw("lk", o.lk).raw("lke", in.lookups.empty() ? "[]" : in.lookups).raw("fd", o.fd);
        }
        if (!done) { g_in = nullptr; alarm(0); vt::flush(); return; }      // (what the abandoned frames held is leaked)
    }
    for (auto& e : inp.els) free(e.p);
    g_in = nullptr;
    alarm(0);
    vt::flush();
}

static void set_desc(const std::string& desc) {
    if (desc.size() >= DESC_MAX) return;
    memcpy(g_desc, desc.c_str(), desc.size() + 1);
}
// runs body() in a forked child; a fatal case ends the child (after its Fatal line) and the rest is run by the next child
template <class F> static void guarded(F body) {
    if (g_nofork) { body(); return; }
    uint64_t id0 = g_id;
    for (;;) {
        vt::flush(); fflush(stdout);
        pid_t pid = fork();
        if (pid == 0) { g_id = id0; body(); vt::flush(); g_shared[1] = g_id; _exit(0); }
        int st = 0; waitpid(pid, &st, 0);
        if (WIFEXITED(st) && WEXITSTATUS(st) == 0) { g_id = g_shared[1]; return; }
        if (WIFEXITED(st) && WEXITSTATUS(st) == 3) {       // Fatal line written by the child
            g_fatals++;
            if (g_shared[2]) { g_skip.push_back({std::string(1, (char)g_shared[2]) + std::to_string(g_shape_no), g_shared[3]}); g_shared[2] = 0; }
            else g_start = g_shared[0] + 1;
            continue;
        }
        fprintf(stdout, "h_serialize: child ended unexpectedly (status %d) at case %lu\n", st, (unsigned long)g_shared[0]);
        exit(4);
    }
}

// ---- partitions of N supplied bytes (V variable bytes, then the body) ----
// cut positions: every position of the variable part when it is short, otherwise every piece boundary -1/0/+1;
// inside the body a few representative ones (the code only asks whether the body is in one element)
static std::vector<std::vector<size_t>> partitions(const Inst& in, int level) {
    size_t N = in.N, V = in.V, S = in.S;
    std::vector<size_t> C;
    if (V <= (g_thorough ? 24u : 12u)) for (size_t c = 0; c <= V; c++) C.push_back(c);
    else { C.push_back(0); for (auto p : in.starts) for (size_t c : {p - 1, p, p + 1}) if (c <= V) C.push_back(c); C.push_back(V - 1); }
    for (size_t c : {V + 1, V + S / 2, N - 1, N}) if (c <= N) C.push_back(c);
    std::sort(C.begin(), C.end()); C.erase(std::unique(C.begin(), C.end()), C.end());
    std::vector<std::vector<size_t>> out;
    out.push_back({N});
    if (level == 0) {            // a few representative ones (hostile / altered sweeps)
        if (N > S) { out.push_back({N - S, S}); out.push_back({(N - S) / 2, N - (N - S) / 2}); out.push_back({N - S, 1, S - 1}); out.push_back({1, N - 1}); }
        out.push_back({0, N});
        return out;
    }
    for (size_t c : C) out.push_back({c, N - c});
    for (size_t i = 0; i < C.size(); i++) for (size_t j = i; j < C.size(); j++) out.push_back({C[i], C[j] - C[i], N - C[j]});
    return out;
}

static std::vector<uint64_t> hostile_values(const Word& w, size_t V, bool lite) {
    uint64_t n = w.honest, rem = V - std::min(V, w.start);
    std::vector<uint64_t> c = lite ? (g_thorough ? std::vector<uint64_t>{0, 1, n + 1, rem, rem + 1, (1ull << 32) + n, ~0ull} : std::vector<uint64_t>{0, n + 1, rem + 1, ~0ull})
                                   : std::vector<uint64_t>{0, 1, n - 1, n + 1, rem - 1, rem, rem + 1, 1ull << 31, (1ull << 32) + n, 1ull << 63, ~0ull};
    std::vector<uint64_t> out;
    for (auto v : c) {
        if (v == n) continue;
        if ((int64_t)v < 0 && v != ~0ull && v != (1ull << 63)) continue;                 // n-1 / rem-1 below zero
        if ((!strcmp(w.kind, "arrm") || !strcmp(w.kind, "idx")) && v / w.es > w.count && v <= V) continue;   // would read element words from other fields' bytes
        if (std::find(out.begin(), out.end(), v) == out.end()) out.push_back(v);
    }
    return out;
}

static void sweep_rt(const Shape& sh, const Inst& in) {
    Mut none;
    if (in.iovfull) return;
    for (auto& p : partitions(in, 1)) run_case(sh, in, "rt", p, 0, none);     // round trip over every partition
}
static void sweep_hostile(const Shape& sh, const Inst& in) {
    if (in.iovfull) return;
    auto parts = partitions(in, 0);
    size_t nw = in.words.size();
    std::vector<std::vector<uint64_t>> hv, hl;
    for (auto& w : in.words) { hv.push_back(hostile_values(w, in.V, false)); hl.push_back(hostile_values(w, in.V, true)); }
    if (!g_thorough) parts.resize(std::min<size_t>(parts.size(), 4));
    for (auto& p : parts) {
        size_t pi = &p - &parts[0];
        // single deviations (all values), pairs (lite values; thorough: all values), thorough: triples of lite values
        for (size_t i = 0; i < nw; i++) for (auto v : hv[i]) { Mut m; m.w.push_back({(int)i, v}); run_case(sh, in, "hostile", p, 0, m); }
        if (g_thorough || pi < 1)
        for (size_t i = 0; i < nw; i++) for (size_t j = i + 1; j < nw; j++)
            for (auto v : (g_thorough ? hv[i] : hl[i])) for (auto u : (g_thorough ? hv[j] : hl[j])) {
                Mut m; m.w.push_back({(int)i, v}); m.w.push_back({(int)j, u}); run_case(sh, in, "hostile", p, 0, m);
            }
        if (g_thorough && pi < 3)
            for (size_t i = 0; i < nw; i++) for (size_t j = i + 1; j < nw; j++) for (size_t k = j + 1; k < nw; k++)
                for (auto v : hl[i]) for (auto u : hl[j]) for (auto x : hl[k]) {
                    Mut m; m.w.push_back({(int)i, v}); m.w.push_back({(int)j, u}); m.w.push_back({(int)k, x}); run_case(sh, in, "hostile", p, 0, m);
                }
        // map slices: the (offset, length) pair of one slice
        uint64_t B = in.B;
        std::vector<uint64_t> offs{0, 1, B - 1, B, B + 1, ~0ull, 1ull << 63, (1ull << 63) - 1}, lens{0, 1, B - 1, B, B + 1, ~0ull, 1ull << 63, 2};
        if (!g_thorough) { offs = {0, 1, B, B + 1, ~0ull, 1ull << 63}; lens = {0, 2, B, B + 1, ~0ull}; }
        if (pi < (g_thorough ? 6u : 1u))
            for (size_t e = 0; e < in.slices.size(); e++) for (int which = 0; which < 2; which++)
                for (auto o : offs) for (auto l : lens) {
                    if ((int64_t)o == in.slices[e].honest[2 * which] && (int64_t)l == in.slices[e].honest[2 * which + 1]) continue;
                    Mut m; m.sl.push_back({{(int)e, 2 * which}, o}); m.sl.push_back({{(int)e, 2 * which + 1}, l}); run_case(sh, in, "hostile", p, 0, m);
                }
    }
    // fewer bytes than the message needs: the tail of the variable part is missing / not even a whole body arrived
    Mut none;
    std::vector<size_t> cuts{1, 2, in.V / 2, in.V - 1, in.V, in.V + 1, in.N - 1, in.N};
    std::sort(cuts.begin(), cuts.end()); cuts.erase(std::unique(cuts.begin(), cuts.end()), cuts.end());
    for (size_t cut : cuts) {
        if (cut == 0 || cut > in.N) continue;
        size_t keep = in.N - cut;
        run_case(sh, in, "hostile", {keep}, cut, none);
        if (keep > in.S) run_case(sh, in, "hostile", {keep - in.S, in.S}, cut, none);
        if (keep >= 2) run_case(sh, in, "hostile", {1, keep - 1}, cut, none);
    }
    run_case(sh, in, "hostile", {}, in.N, none);      // no element at all
    // checked messages: any altered byte is refused
    if (in.ck) {
        size_t np = 0;
        for (auto& p : parts) {
            if (np++ >= (g_thorough ? 4u : 2u)) break;
            for (size_t pos = 0; pos < in.N; pos++) for (uint8_t mask : {(uint8_t)0x01, (uint8_t)0x80, (uint8_t)0xff}) {
                if (!g_thorough && ((mask != 0x01 && pos % 4) || (in.N > 120 && pos % 3 && (pos + 8 < in.V || pos > in.V + 8)))) continue;
                Mut m; m.alt = (long)pos; m.mask = mask; run_case(sh, in, "alter", p, 0, m);
            }
        }
    }
}

static uint64_t g_seed = 1; static int g_random = 0;
static void run_shape_exhaustive(const Shape& sh) {
    Chooser dry; dry.dry = true; sh.build(sh.name, dry);
    std::vector<int> d(dry.doms.size(), 0);
    size_t ninst = 0;
    for (;;) {                   // exhaustive over the digits
        bool last = true; for (size_t i = 0; i < d.size(); i++) last &= (d[i] == dry.doms[i] - 1);
        // hostile sweeps on the fullest instance (every field non-empty) and, thorough, on the emptiest one too
        bool hostile = last || (g_thorough && ninst == 0);
        if (!skipped("e", ninst)) {
            Chooser ch; ch.digits = d;
            g_pat = 0;
            building(sh.name, "e", ninst);
            Inst in = sh.build(sh.name, ch);
            sweep_rt(sh, in);
            if (hostile) sweep_hostile(sh, in);
        }
        ninst++;
        size_t i = 0; for (; i < d.size(); i++) { if (++d[i] < dry.doms[i]) break; d[i] = 0; }
        if (i == d.size()) break;
    }
}
static void run_shape(const Shape& sh) {
    guarded([&] { run_shape_exhaustive(sh); });
    // seeded random larger instances of this shape
    guarded([&] {
      for (int k = 0; k < g_random; k++) {
        if (skipped("r", k)) continue;
        building(sh.name, "r", k);
        vt::Rng r(g_seed * 1000003 + g_id * 7919 + k);
        Chooser ch; ch.rnd = true; ch.r = &r; ch.maxlen = r.coin(30) ? 8 : (g_thorough ? 1500 : 200);
        g_pat = r.below(251);
        Inst in = sh.build(sh.name, ch);
        if (in.iovfull) continue;
        std::vector<size_t> part; size_t left = in.N; int ne = 1 + r.below(6);
        for (int e = 0; e < ne - 1; e++) { size_t n = r.coin(15) ? 0 : r.below(left + 1); if (r.coin(30) && left >= in.S) n = std::min(n, left - in.S); part.push_back(n); left -= n; }
        part.push_back(left);
        Mut m;
        int kind = r.below(4);
        if (kind == 0 || in.words.empty()) { run_case(sh, in, "rt", part, 0, m); continue; }
        if (kind == 3 && in.ck) { m.alt = r.below(in.N); m.mask = 1 + r.below(255); run_case(sh, in, "alter", part, 0, m); continue; }
        for (size_t i = 0; i < in.words.size(); i++) if (r.coin(35)) { auto hv = hostile_values(in.words[i], in.V, false); if (!hv.empty()) m.w.push_back({(int)i, hv[r.below(hv.size())]}); }
        if (!in.slices.empty() && r.coin(50)) {
            size_t e = r.below(in.slices.size()); int which = r.below(2); uint64_t B = in.B;
            uint64_t c[] = {0, 1, B - 1, B, B + 1, ~0ull, 1ull << 63, r.below(B + 2)};
            m.sl.push_back({{(int)e, 2 * which}, c[r.below(8)]}); m.sl.push_back({{(int)e, 2 * which + 1}, c[r.below(8)]});
        }
        run_case(sh, in, "hostile", part, 0, m);
      }
    });
}

template <class T> static Shape mk(const char* name) { return Shape{name, &build<T>, &deser_observe<T>, &sign<T>}; }
static std::vector<Shape> all_shapes() {
    return {
    // flat: buffer + string + array, with an aligned buffer so that both passes are exercised
    mk<M<U, buffer, string, ArrU>>("buf-str-arr"),
    mk<M<K, aligned_buffer, FBuf, string>>("K:abuf-fbuf-str"),
    // embedded message, array of messages, checked
    mk<M<K, string, Nest<buffer, string>, aligned_buffer>>("K:str-nest(buf,str)-abuf"),
    mk<M<U, Nest<string, None>, ArrM, string>>("nest(str)-arrm-str"),
    mk<M<K, ArrM, buffer, None>>("K:arrm-buf"),
    // iovec arrays
    mk<M<U, iovec_array, buffer, aligned_iovec_array>>("iov-buf-aiov"),
    mk<M<K, string, aligned_iovec_array, iovec_array>>("K:str-aiov-iov"),
    mk<M<U, Nest<iovec_array, buffer>, aligned_buffer, None>>("nest(iov,buf)-abuf"),
    // sorted map
    mk<M<U, buffer, Map, string>>("buf-map-str"),
    mk<M<K, Map, aligned_buffer, None>>("K:map-abuf"),
    // aligned kinds inside an embedded message
    mk<M<U, buffer, Nest<aligned_buffer, string>, None>>("buf-nest(abuf,str)"),
    mk<M<K, Nest<buffer, aligned_iovec_array>, string, None>>("K:nest(buf,aiov)-str"),
    };
}

// the harness relies on two layout facts; refuse to run (exit 2) if they do not hold
static void selfcheck() {
    typedef M<K, buffer, None, None> T;
    char data[3] = {1, 2, 3};
    T m; memset((void*)&m, 0, sizeof m); new (&m) T; m.tag = 7; m.mid = 9; m.a.assign(data, 3);
    SerializerIOV s; s.serialize(m);
    std::string f(s.iov.sum(), 0); s.iov.memcpy_to(&f[0], f.size());
    std::string g = f; sign<T>(g);
    if (f != g || f.size() != sizeof(T) + 3) { printf("h_serialize: self-check failed (checksum member is not where the harness expects it)\n"); exit(2); }
}

int main(int argc, char** argv) {
    if (!getenv("ASAN_OPTIONS")) {     // reports are events here, not something to read: no symbolizer, no leak check
        setenv("ASAN_OPTIONS", "halt_on_error=0:abort_on_error=1:detect_leaks=0:handle_abort=0:symbolize=0:fast_unwind_on_fatal=1:print_summary=0", 1);
        setenv("UBSAN_OPTIONS", "abort_on_error=1:halt_on_error=1:symbolize=0", 1);
        execv("/proc/self/exe", argv);
    }
    const char* out = vt::arg(argc, argv, "--out", "-");
    g_seed = strtoull(vt::arg(argc, argv, "--seed", "1"), 0, 10);
    g_thorough = !strcmp(vt::arg(argc, argv, "--tier", "quick"), "thorough");
    g_random = atoi(vt::arg(argc, argv, "--random", g_thorough ? "1500" : "150"));
    g_nofork = vt::flag(argc, argv, "--nofork");
    const char* only_shape = vt::arg(argc, argv, "--shape", "");
    if (strcmp(vt::arg(argc, argv, "--case", ""), "")) { g_only = strtoull(vt::arg(argc, argv, "--case", "0"), 0, 10); g_nofork = true; }
    vt::open(out);
    g_shared = (volatile uint64_t*)mmap(nullptr, 4096, PROT_READ | PROT_WRITE, MAP_SHARED | MAP_ANONYMOUS, -1, 0);
    g_desc = (char*)mmap(nullptr, DESC_MAX, PROT_READ | PROT_WRITE, MAP_PRIVATE | MAP_ANONYMOUS, -1, 0); g_desc[0] = 0;
    selfcheck();
    for (int s : {SIGSEGV, SIGBUS, SIGFPE, SIGILL, SIGALRM}) {
        struct sigaction sa; memset(&sa, 0, sizeof sa); sa.sa_handler = on_signal; sa.sa_flags = SA_NODEFER | SA_ONSTACK; sigaction(s, &sa, nullptr);
    }
    signal(SIGABRT, my_fatal);
    __asan_set_error_report_callback(asan_report);
    if (!vt::flag(argc, argv, "--stderr")) { if (!freopen("/dev/null", "w", stderr)) {} }
    for (auto& sh : all_shapes()) { g_shape_no++; if (!only_shape[0] || !strcmp(only_shape, sh.name)) run_shape(sh); }
    vt::close();
    printf("cases=%lu fatal=%lu restarts=%lu\n", (unsigned long)g_id, (unsigned long)g_shared[5], (unsigned long)g_fatals);
    return 0;
}

// ---- the library sources this harness needs, compiled into this translation unit (see the note at the top) ----
#define VT_STR2(x) #x
#define VT_STR(x) VT_STR2(x)
#define VT_REPO_FILE(rel) VT_STR(VT_REPO_ROOT/rel)
#include VT_REPO_FILE(common/iovector.cpp)
#undef protected
#include VT_REPO_FILE(common/checksum/crc.cpp)
#include VT_REPO_FILE(common/checksum/crc_tables.cpp)
