// C20 harness: real new_subfs() over a recording IFileSystem.  For every path string in scope
// and every operation taking one or two paths, logs whether the operation was rejected (the
// underlay received a null path) or which path was forwarded.  Judged by spec/Trace_SubFS.tla.
#include <photon/fs/filesystem.h>
#include <photon/fs/subfs.h>
#include <photon/common/alog.h>
#include <sys/stat.h>
#include <string>
#include <vector>
#include "vt.h"
using namespace photon::fs;

struct Rec : public IFileSystem, public IFileSystemXAttr {
    bool got1 = false, got2 = false, null1 = false, null2 = false;
    std::string p1, p2;
    void r1(const char* p) { got1 = true; null1 = !p; p1 = p ? p : ""; }
    void r2(const char* p) { got2 = true; null2 = !p; p2 = p ? p : ""; }
    void clear() { got1 = got2 = null1 = null2 = false; p1.clear(); p2.clear(); }
    IFile* open(const char* p, int) override { r1(p); return nullptr; }
    IFile* open(const char* p, int, mode_t) override { r1(p); return nullptr; }
    IFile* creat(const char* p, mode_t) override { r1(p); return nullptr; }
    int mkdir(const char* p, mode_t) override { r1(p); return 0; }
    int rmdir(const char* p) override { r1(p); return 0; }
    int symlink(const char* o, const char* n) override { r1(n); return 0; }
    ssize_t readlink(const char* p, char*, size_t) override { r1(p); return 0; }
    int link(const char* o, const char* n) override { r1(o); r2(n); return 0; }
    int rename(const char* o, const char* n) override { r1(o); r2(n); return 0; }
    int unlink(const char* p) override { r1(p); return 0; }
    int chmod(const char* p, mode_t) override { r1(p); return 0; }
    int chown(const char* p, uid_t, gid_t) override { r1(p); return 0; }
    int lchown(const char* p, uid_t, gid_t) override { r1(p); return 0; }
    int statfs(const char* p, struct statfs*) override { r1(p); return 0; }
    int statvfs(const char* p, struct statvfs*) override { r1(p); return 0; }
    int stat(const char* p, struct stat* st) override { r1(p); memset(st, 0, sizeof *st); st->st_mode = S_IFDIR | 0755; return 0; }
    int lstat(const char* p, struct stat*) override { r1(p); return 0; }
    int access(const char* p, int) override { r1(p); return 0; }
    int truncate(const char* p, off_t) override { r1(p); return 0; }
    int utime(const char* p, const struct utimbuf*) override { r1(p); return 0; }
    int utimes(const char* p, const struct timeval[2]) override { r1(p); return 0; }
    int lutimes(const char* p, const struct timeval[2]) override { r1(p); return 0; }
    int mknod(const char* p, mode_t, dev_t) override { r1(p); return 0; }
    int syncfs() override { return 0; }
    DIR* opendir(const char* p) override { r1(p); return nullptr; }
    ssize_t getxattr(const char* p, const char*, void*, size_t) override { r1(p); return 0; }
    ssize_t lgetxattr(const char* p, const char*, void*, size_t) override { r1(p); return 0; }
    ssize_t listxattr(const char* p, char*, size_t) override { r1(p); return 0; }
    ssize_t llistxattr(const char* p, char*, size_t) override { r1(p); return 0; }
    int setxattr(const char* p, const char*, const void*, size_t, int) override { r1(p); return 0; }
    int lsetxattr(const char* p, const char*, const void*, size_t, int) override { r1(p); return 0; }
    int removexattr(const char* p, const char*) override { r1(p); return 0; }
    int lremovexattr(const char* p, const char*) override { r1(p); return 0; }
};

static const char* OPS1[] = {"stat", "open", "open3", "creat", "mkdir", "rmdir", "symlink", "readlink", "unlink", "chmod",
    "chown", "lchown", "statfs", "statvfs", "lstat", "access", "truncate", "utime", "utimes", "lutimes", "mknod", "opendir",
    "getxattr", "lgetxattr", "listxattr", "llistxattr", "setxattr", "lsetxattr", "removexattr", "lremovexattr"};
static const int NOPS1 = sizeof(OPS1) / sizeof(OPS1[0]);

static void call1(IFileSystem* fs, int op, const char* p) {
    auto x = dynamic_cast<IFileSystemXAttr*>(fs);
    struct stat st; char buf[8];
    switch (op) {
    case 0: fs->stat(p, &st); break;          case 1: fs->open(p, 0); break;
    case 2: fs->open(p, 0, 0644); break;      case 3: fs->creat(p, 0644); break;
    case 4: fs->mkdir(p, 0755); break;        case 5: fs->rmdir(p); break;
    case 6: fs->symlink("target", p); break;  case 7: fs->readlink(p, buf, sizeof buf); break;
    case 8: fs->unlink(p); break;             case 9: fs->chmod(p, 0); break;
    case 10: fs->chown(p, 0, 0); break;       case 11: fs->lchown(p, 0, 0); break;
    case 12: fs->statfs(p, nullptr); break;   case 13: fs->statvfs(p, nullptr); break;
    case 14: fs->lstat(p, &st); break;        case 15: fs->access(p, 0); break;
    case 16: fs->truncate(p, 0); break;       case 17: fs->utime(p, nullptr); break;
    case 18: fs->utimes(p, nullptr); break;   case 19: fs->lutimes(p, nullptr); break;
    case 20: fs->mknod(p, 0, 0); break;       case 21: fs->opendir(p); break;
    case 22: x->getxattr(p, "n", buf, 1); break;   case 23: x->lgetxattr(p, "n", buf, 1); break;
    case 24: x->listxattr(p, buf, 1); break;       case 25: x->llistxattr(p, buf, 1); break;
    case 26: x->setxattr(p, "n", buf, 1, 0); break; case 27: x->lsetxattr(p, "n", buf, 1, 0); break;
    case 28: x->removexattr(p, "n"); break;        case 29: x->lremovexattr(p, "n"); break;
    }
}

// run-length encoded JSON form of a string: [["a",3],["/",1]]
static std::string rle(const std::string& s) {
    vt::Arr a;
    for (size_t i = 0; i < s.size();) {
        size_t j = i; while (j < s.size() && s[j] == s[i]) j++;
        std::string c; if (s[i] == '"' || s[i] == '\\') c += '\\'; c += s[i];
        a.raw("[\"" + c + "\"," + std::to_string(j - i) + "]");
        i = j;
    }
    return a.str();
}

static Rec* rec; static IFileSystem* sub; static std::string base;

static void one(int op, const std::string& p) {
    vt::note(std::string(OPS1[op]) + " " + p.substr(0, 60));
    rec->clear();
    call1(sub, op, p.c_str());
    vt::Ev e("Op1");
    e.s("op", OPS1[op]).raw("base", rle(base)).raw("p", rle(p)).b("called", rec->got1).b("rej", rec->null1).raw("fwd", rle(rec->p1));
}
static void two(bool ren, const std::string& a, const std::string& b) {
    vt::note(std::string(ren ? "rename " : "link ") + a + " " + b);
    rec->clear();
    if (ren) sub->rename(a.c_str(), b.c_str()); else sub->link(a.c_str(), b.c_str());
    vt::Ev e("Op2");
    e.s("op", ren ? "rename" : "link").raw("base", rle(base)).raw("p", rle(a)).raw("q", rle(b)).b("called", rec->got1 && rec->got2)
        .b("rej", rec->null1).raw("fwd", rle(rec->p1)).b("rej2", rec->null2).raw("fwd2", rle(rec->p2));
}

static void strings(const char* alpha, int maxlen, std::vector<std::string>& out) {
    out.push_back("");
    size_t start = 0, na = strlen(alpha);
    for (int l = 1; l <= maxlen; l++) {
        size_t end = out.size();
        for (size_t i = start; i < end; i++) for (size_t k = 0; k < na; k++) out.push_back(out[i] + alpha[k]);
        start = end;
    }
}

int main(int argc, char** argv) {
    vt::open(vt::arg(argc, argv, "--out", "-"));
    uint64_t seed = strtoull(vt::arg(argc, argv, "--seed", "1"), 0, 10);
    bool thorough = !strcmp(vt::arg(argc, argv, "--tier", "quick"), "thorough");
    log_output = log_output_null;
    rec = new Rec;
    const char* bases[] = {"/base", "/b/"};
    for (int bi = 0; bi < 2; bi++) {
        sub = new_subfs(rec, bases[bi], false);
        if (!sub) { fprintf(stderr, "new_subfs failed\n"); return 2; }
        base = bases[bi]; if (base.back() != '/') base += '/';
        const char* alpha = "/.ab";
        if (bi == 0) {
            std::vector<std::string> all; strings(thorough ? alpha : "/.a", 8, all);
            for (auto& s : all) one(0, s);                       // full scope on stat
        }
        std::vector<std::string> mid; strings(alpha, bi == 0 ? (thorough ? 6 : 5) : 4, mid);
        for (int op = 1; op < NOPS1; op++) for (auto& s : mid) one(op, s);
        std::vector<std::string> sm; strings("/.a", bi == 0 ? (thorough ? 4 : 3) : 2, sm);
        for (auto& a : sm) for (auto& b : sm) { two(false, a, b); two(true, a, b); }
        // seeded random: wider alphabet, and lengths around the PATH_MAX limit
        vt::Rng r(seed + bi);
        const char wide[] = "/./../a.b-_ x~..//";
        int N = thorough ? 4000 : 600;
        for (int k = 0; k < N; k++) {
            std::string s; int n = r.below(40);
            for (int i = 0; i < n; i++) s += wide[r.below(sizeof(wide) - 1)];
            one(r.below(NOPS1), s);
            if (k % 7 == 0) { std::string t; int m = r.below(20); for (int i = 0; i < m; i++) t += wide[r.below(sizeof(wide) - 1)]; two(r.coin(), s, t); }
        }
        for (int k = 0; k < (thorough ? 300 : 60); k++) {
            size_t L = 4096 - 2 - base.size() - 6 + r.below(12);   // around the limit len+base >= 4094
            std::string s; const char* pre[] = {"", "/", "a/../", "../", "./", "a/b/../../../"};
            s = pre[r.below(6)]; while (s.size() < L) s += (r.coin(3) && s.size() + 1 < L) ? '/' : 'x';
            one(r.below(NOPS1), s);
        }
        delete sub;
    }
    vt::close();
    return 0;
}
