// C16 harness: the REAL file adaptors (new_aligned_file_adaptor, new_fixed_size_linear_file, new_linear_file,
// new_stripe_file) over in-memory recording IFile implementations (VirtualFile base).  One ndjson line per
// request sequence: configuration, every request with its result, the underlay requests it caused
// (op, offset, length, address bits below the alignment) and the content of the underlay / of every sub-file
// after the request.  Nothing is judged here: Trace_FileAdaptors.tla replays every sequence on the plain
// reference file and compares.
//
// Bytes.  A data byte is  sym | (tag << 3):  sym 1 = initial content, 2..6 = the writer (request) that sent it,
// tag = (position the byte is meant for) mod 31.  0x00 = zero fill, 0xFF = poison (read buffers, harness
// allocator).  Contents and read results are logged as runs [sym, delta, len] with
// delta = (tag - position where the byte was found) mod 31 (31 = poison tag, 0 for a zero byte) - a pure
// translation, the expectation is computed by the trace specification.
#include <photon/fs/filesystem.h>
#include <photon/fs/virtual-file.h>
#include <photon/fs/aligned-file.h>
#include <photon/fs/xfile.h>
#include <photon/common/io-alloc.h>
#include <photon/common/alog.h>
#include <sys/stat.h>
#include <sys/uio.h>
#include <string>
#include <vector>
#include <functional>
#include "vt.h"
using namespace photon::fs;

static inline uint8_t enc(int sym, uint64_t pos) { return (uint8_t)(sym | ((pos % 31) << 3)); }
static const uint8_t POISON = 0xFF;

// runs [[sym,delta,len],...] of n bytes found at positions at, at+1, ...
// No correct content has more than a few dozen runs (2 per write request + the initial layout); arbitrary bytes
// (uninitialised memory that reached a file) would give thousands: after MAXRUNS runs the rest is logged as one
// run of poison [7,31,rest], which keeps the length and equals no expectation.
static const int MAXRUNS = 100;
static std::string runs(const uint8_t* p, size_t n, uint64_t at) {
    vt::Arr a;
    int cs = -1, cd = -1, nr = 0; uint64_t cl = 0;
    auto emit = [&](int s, int d, uint64_t l) { a.raw("[" + std::to_string(s) + "," + std::to_string(d) + "," + std::to_string(l) + "]"); nr++; };
    for (size_t i = 0; i < n; i++) {
        int s, d; uint8_t b = p[i];
        if (b == 0) { s = 0; d = 0; }
        else { s = b & 7; int tag = b >> 3; d = (tag == 31) ? 31 : (int)((tag + 31 - (at + i) % 31) % 31); }
        if (s == cs && d == cd) { cl++; continue; }
        if (cl) emit(cs, cd, cl);
        if (nr >= MAXRUNS) { emit(7, 31, n - i); return a.str(); }
        cs = s; cd = d; cl = 1;
    }
    if (cl) emit(cs, cd, cl);
    return a.str();
}

// ---- in-memory plain file that records the requests it receives -------------------------------------------
struct Call { const char* op; uint64_t off, len, mis; };
struct MemFile : public VirtualFile {
    std::string data;
    uint64_t amask = 0;            // alignment - 1 of the adaptor above (for the address bits), 0 = do not care
    std::vector<Call> calls;
    void rec(const char* op, uint64_t off, uint64_t len, uint64_t mis) { calls.push_back(Call{op, off, len, mis}); }
    ssize_t rd(void* buf, size_t count, uint64_t off) {
        if (off >= data.size()) return 0;
        size_t n = std::min<uint64_t>(count, data.size() - off);
        memcpy(buf, data.data() + off, n);
        return n;
    }
    ssize_t wr(const void* buf, size_t count, uint64_t off) {
        if (count == 0) return 0;
        if (off + count > data.size()) data.resize(off + count, '\0');
        memcpy(&data[off], buf, count);
        return count;
    }
    ssize_t pread(void* buf, size_t count, off_t off) override {
        rec("pread", off, count, (uint64_t)buf & amask);
        return rd(buf, count, off);
    }
    ssize_t pwrite(const void* buf, size_t count, off_t off) override {
        rec("pwrite", off, count, (uint64_t)buf & amask);
        return wr(buf, count, off);
    }
    // the v2 / mutable variants of IFile funnel into these two; one request = one record
    ssize_t preadv(const struct iovec* iov, int iovcnt, off_t off) override {
        uint64_t sum = 0, mis = 0;
        for (int i = 0; i < iovcnt; i++) { sum += iov[i].iov_len; if (iov[i].iov_len) mis |= (uint64_t)iov[i].iov_base & amask; }
        rec("preadv", off, sum, mis);
        ssize_t total = 0;
        for (int i = 0; i < iovcnt; i++) {
            ssize_t r = rd(iov[i].iov_base, iov[i].iov_len, off + total);
            total += r;
            if (r < (ssize_t)iov[i].iov_len) break;
        }
        return total;
    }
    ssize_t pwritev(const struct iovec* iov, int iovcnt, off_t off) override {
        uint64_t sum = 0, mis = 0;
        for (int i = 0; i < iovcnt; i++) { sum += iov[i].iov_len; if (iov[i].iov_len) mis |= (uint64_t)iov[i].iov_base & amask; }
        rec("pwritev", off, sum, mis);
        ssize_t total = 0;
        for (int i = 0; i < iovcnt; i++) total += wr(iov[i].iov_base, iov[i].iov_len, off + total);
        return total;
    }
    int fstat(struct stat* st) override { memset(st, 0, sizeof *st); st->st_mode = S_IFREG | 0644; st->st_size = data.size(); return 0; }
    int ftruncate(off_t len) override { rec("ftruncate", 0, len, 0); data.resize(len, '\0'); return 0; }
    IFileSystem* filesystem() override { return nullptr; }
    int fsync() override { return 0; }
    int fdatasync() override { return 0; }
    int fchmod(mode_t) override { return 0; }
    int fchown(uid_t, gid_t) override { return 0; }
    int close() override { return 0; }
    std::string calls_json() {
        vt::Arr a;
        for (auto& c : calls)
            a.raw(std::string("[\"") + c.op + "\"," + std::to_string(c.off) + "," + std::to_string(c.len) + "," + std::to_string(c.mis) + "]");
        calls.clear();
        return a.str();
    }
    std::string content() { return runs((const uint8_t*)data.data(), data.size(), 0); }
};

// allocator handed to the aligned adaptor in the "alloc":1 configurations: memory aligned as the adaptor was
// told (at least pointer size, posix_memalign's minimum) and poisoned.  Must be free()-able: the adaptor's
// single-buffer paths release with free().
static int poison_alloc(void* al, IOAlloc::RangeSize sz, void** ptr) {
    size_t a = (size_t)al; if (a < sizeof(void*)) a = sizeof(void*);
    if (posix_memalign(ptr, a, (size_t)sz.max)) { *ptr = nullptr; return -1; }
    memset(*ptr, POISON, (size_t)sz.max);
    return sz.max;
}
static int poison_dealloc(void*, void* p) { free(p); return 0; }

// ---- one request --------------------------------------------------------------------------------------------
struct Op {
    bool write = false;
    int variant = 0;                 // 0 pread/pwrite; 1 p*v; 2 p*v2; 3 p*v_mutable; 4 p*v2_mutable
    uint64_t off = 0;
    std::vector<uint32_t> lens;      // element lengths (one for variant 0)
    std::vector<uint32_t> misoff;    // per element: offset of the buffer from an A-aligned address
    int sym = 2;
};
static const char* VNAME_R[] = {"pread", "preadv", "preadv2", "preadv_mutable", "preadv2_mutable"};
static const char* VNAME_W[] = {"pwrite", "pwritev", "pwritev2", "pwritev_mutable", "pwritev2_mutable"};

// executes op on f; returns the JSON members describing request and result (no braces)
static std::string exec(IFile* f, const Op& op, uint64_t A) {
    size_t ne = op.lens.size();
    uint64_t align = A < 16 ? 16 : A;
    std::vector<void*> blocks(ne, nullptr);
    std::vector<struct iovec> iov(ne);
    uint64_t total = 0;
    vt::Arr jl, jb;
    for (size_t i = 0; i < ne; i++) {
        uint32_t mo = i < op.misoff.size() ? op.misoff[i] : 0;
        if (posix_memalign(&blocks[i], align, op.lens[i] + 2 * align)) { fprintf(stderr, "oom\n"); exit(2); }
        uint8_t* p = (uint8_t*)blocks[i] + mo;
        if (op.write) for (uint32_t j = 0; j < op.lens[i]; j++) p[j] = enc(op.sym, op.off + total + j);
        else memset(p, POISON, op.lens[i]);
        iov[i].iov_base = p; iov[i].iov_len = op.lens[i];
        total += op.lens[i];
        jl.u(op.lens[i]); jb.u((uint64_t)p & (A - 1));
    }
    std::vector<struct iovec> iovc(iov);   // the *_mutable variants may change the array they are given
    ssize_t ret;
    if (op.variant == 0) {
        ret = op.write ? f->pwrite(iov[0].iov_base, iov[0].iov_len, op.off) : f->pread(iov[0].iov_base, iov[0].iov_len, op.off);
    } else if (op.write) {
        ret = op.variant == 1 ? f->pwritev(iovc.data(), ne, op.off) : op.variant == 2 ? f->pwritev2(iovc.data(), ne, op.off, 0)
            : op.variant == 3 ? f->pwritev_mutable(iovc.data(), ne, op.off) : f->pwritev2_mutable(iovc.data(), ne, op.off, 0);
    } else {
        ret = op.variant == 1 ? f->preadv(iovc.data(), ne, op.off) : op.variant == 2 ? f->preadv2(iovc.data(), ne, op.off, 0)
            : op.variant == 3 ? f->preadv_mutable(iovc.data(), ne, op.off) : f->preadv2_mutable(iovc.data(), ne, op.off, 0);
    }
    std::string data = "[]";
    if (!op.write && ret > 0) {      // the bytes returned: elements in order, the first ret bytes
        std::string cat;
        for (size_t i = 0; i < ne; i++) cat.append((const char*)iov[i].iov_base, iov[i].iov_len);
        size_t n = std::min<uint64_t>((uint64_t)ret, cat.size());
        data = runs((const uint8_t*)cat.data(), n, op.off);
    }
    for (auto b : blocks) free(b);
    std::string j;
    j += std::string("\"k\":\"") + (op.write ? "w" : "r") + "\",\"vec\":" + (op.variant ? "true" : "false");
    j += std::string(",\"v\":\"") + (op.write ? VNAME_W : VNAME_R)[op.variant] + "\"";
    j += ",\"off\":" + std::to_string(op.off) + ",\"lens\":" + jl.str() + ",\"ba\":" + jb.str();
    j += ",\"sym\":" + std::to_string(op.sym) + ",\"ret\":" + std::to_string((long long)ret) + ",\"data\":" + data;
    return j;
}

// a sequence generator: fills `op` for request number idx given the current size; false = end of sequence
typedef std::function<bool(Op& op, int idx, uint64_t cursize)> Gen;

static uint64_t n_seq = 0, n_ops = 0;

static void run_aligned(uint64_t A, bool am, int alloc, uint64_t size0, const Gen& gen) {
    MemFile und; und.amask = A - 1;
    und.data.resize(size0);
    for (uint64_t i = 0; i < size0; i++) und.data[i] = enc(1, i);
    IOAlloc custom(IOAlloc::Allocator{(void*)(am ? A : 1), &poison_alloc}, IOAlloc::Deallocator{nullptr, &poison_dealloc});
    IFile* f = new_aligned_file_adaptor(&und, A, am, false, alloc ? &custom : nullptr);
    if (!f) { fprintf(stderr, "new_aligned_file_adaptor failed\n"); exit(2); }
    vt::Arr ops;
    Op op;
    for (int idx = 0; ; idx++) {
        op = Op();
        if (!gen(op, idx, und.data.size())) break;
        vt::note("aligned A=" + std::to_string(A) + " off=" + std::to_string(op.off));
        und.calls.clear();
        std::string j = exec(f, op, A);
        ops.raw("{" + j + ",\"ul\":" + und.calls_json() + ",\"after\":" + und.content() + "}");
        n_ops++;
    }
    delete f;
    vt::Ev("Seq").s("ad", "aligned").u("A", A).b("am", am).i("alloc", alloc).u("size0", size0).raw("ops", ops.str());
    n_seq++;
}

struct Comp { int kind; uint64_t unit = 0, n = 0, st = 0, rows = 0; std::vector<uint64_t> sizes; };   // kind 0 fixed, 1 var, 2 stripe
static uint64_t comp_size(const Comp& c) {
    if (c.kind == 0) return c.unit * c.n;
    if (c.kind == 2) return c.st * c.rows * c.n;
    uint64_t s = 0; for (auto x : c.sizes) s += x; return s;
}
static void run_comp(const Comp& c, const Gen& gen) {
    size_t n = c.kind == 1 ? c.sizes.size() : c.n;
    std::vector<MemFile> subs(n);
    std::vector<IFile*> ptrs(n);
    for (size_t i = 0; i < n; i++) {
        uint64_t sz = c.kind == 0 ? c.unit : c.kind == 1 ? c.sizes[i] : c.st * c.rows;
        subs[i].data.resize(sz);
        for (uint64_t j = 0; j < sz; j++) subs[i].data[j] = enc(1, j);     // tagged with the position inside the sub-file
        ptrs[i] = &subs[i];
    }
    IFile* f = c.kind == 0 ? new_fixed_size_linear_file(c.unit, ptrs.data(), n, false)
             : c.kind == 1 ? new_linear_file(ptrs.data(), n, false) : new_stripe_file(c.st, ptrs.data(), n, false);
    if (!f) { fprintf(stderr, "composite constructor failed (kind %d)\n", c.kind); exit(2); }
    vt::Arr ops;
    Op op;
    for (int idx = 0; ; idx++) {
        op = Op();
        if (!gen(op, idx, comp_size(c))) break;
        vt::note("composite kind=" + std::to_string(c.kind) + " off=" + std::to_string(op.off));
        std::string j = exec(f, op, 1);
        vt::Arr sub;
        for (auto& s : subs) { sub.raw(s.content()); s.calls.clear(); }
        ops.raw("{" + j + ",\"sub\":" + sub.str() + "}");
        n_ops++;
    }
    delete f;
    vt::Ev e("Seq");
    if (c.kind == 0) e.s("ad", "fixed").u("unit", c.unit).u("n", c.n);
    else if (c.kind == 1) { vt::Arr a; for (auto x : c.sizes) a.u(x); e.s("ad", "var").raw("sizes", a.str()); }
    else e.s("ad", "stripe").u("st", c.st).u("n", c.n).u("rows", c.rows);
    e.raw("ops", ops.str());
    n_seq++;
}

// ---- request generators --------------------------------------------------------------------------------------
static vt::Rng* rng;
static uint32_t pick_mis(uint64_t A) {          // a non-zero offset from an aligned address
    if (A <= 1) return 0;
    switch (rng->below(3)) { case 0: return 1; case 1: return (uint32_t)(A / 2); default: return (uint32_t)(A - 1); }
}
// value near a multiple of A (or near one of g_bounds, the sub-file boundaries of a variable-size composite) within [0, limit)
static std::vector<uint64_t> g_bounds;
static uint64_t near_boundary(uint64_t A, uint64_t limit) {
    if (limit == 0) return 0;
    if (rng->coin(25)) return rng->below(limit);
    if (!g_bounds.empty()) {
        int64_t v = (int64_t)g_bounds[rng->below(g_bounds.size())] + (int64_t)rng->below(5) - 2;
        if (v < 0) v = 0;
        if ((uint64_t)v >= limit) v = limit - 1;
        return v;
    }
    uint64_t blocks = limit / A + 1;
    int64_t v = (int64_t)(rng->below(blocks + 1) * A) + (int64_t)rng->below(5) - 2;
    if (v < 0) v = 0;
    if ((uint64_t)v >= limit) v = limit - 1;
    return v;
}
// split count into k element lengths (zero-length elements allowed)
static void split(uint64_t count, int k, uint64_t A, std::vector<uint32_t>& lens) {
    lens.clear();
    uint64_t left = count;
    for (int i = 0; i + 1 < k; i++) {
        uint64_t l;
        if (rng->coin(15)) l = 0;
        else if (rng->coin(40) && A > 1 && left >= A) l = (1 + rng->below(left / A)) * A;   // an aligned element
        else l = rng->below(left + 1);
        lens.push_back(l); left -= l;
    }
    lens.push_back(left);
}
// a random request on a file of size cursize; A = granularity that matters (alignment / unit / stripe)
static void random_op(Op& op, int idx, uint64_t cursize, uint64_t A, uint64_t maxlen, bool want_mis, int maxelems) {
    op.write = rng->coin(55);
    op.sym = 2 + idx % 5;
    op.off = near_boundary(A, cursize);
    uint64_t count;
    if (rng->coin(5)) count = 0;
    else if (rng->coin(30)) count = rng->below(maxlen + 1);
    else { count = near_boundary(A, maxlen + 1); }
    if (rng->coin(35)) {     // end near a boundary
        int64_t e = g_bounds.empty() ? (int64_t)((op.off / A + rng->below(maxlen / A + 1)) * A) : (int64_t)g_bounds[rng->below(g_bounds.size())];
        int64_t c = e - (int64_t)op.off + (int64_t)rng->below(3) - 1;
        if (c >= 0 && (uint64_t)c <= maxlen) count = c;
    }
    if (rng->coin(45)) { op.variant = 0; op.lens.assign(1, (uint32_t)count); }
    else { op.variant = 1 + rng->below(4); split(count, 1 + rng->below(maxelems), A, op.lens); }
    op.misoff.assign(op.lens.size(), 0);
    if (want_mis) for (auto& m : op.misoff) if (rng->coin(30)) m = pick_mis(A);
}

int main(int argc, char** argv) {
    vt::open(vt::arg(argc, argv, "--out", "-"));
    uint64_t seed = strtoull(vt::arg(argc, argv, "--seed", "1"), 0, 10);
    bool thorough = !strcmp(vt::arg(argc, argv, "--tier", "quick"), "thorough");
    log_output = log_output_null;
    vt::Rng r(seed); rng = &r;

    // ---------- 1. aligned adaptor, exhaustive small scope: every (size, offset, length), single buffer, both
    //               operations (then one random follow-up request), A in {2,4} (8 too in thorough)
    std::vector<uint64_t> smallA = {2, 4}; if (thorough) smallA.push_back(8);
    for (uint64_t A : smallA) for (int am = 0; am < 2; am++) {
        // allocator of the adaptor's temporary buffers: 0 = its own (AlignedAlloc when alignMemory), 1 = the harness' poisoning
        // one.  AlignedAlloc (posix_memalign) refuses alignments below sizeof(void*) (finding C16a): for those the harness
        // allocator is the main one, so that the small scope is covered, and the adaptor's own is run on a third of the cases.
        int alloc0 = (am && A < sizeof(void*)) ? 1 : 0;
        uint64_t M = 3 * A + 2;
        for (int alloc = 0; alloc < 2; alloc++)
        for (uint64_t s0 = 1; s0 <= M; s0++) for (uint64_t off = 0; off < s0; off++) for (uint64_t len = 0; len <= M; len++)
        for (int w = 0; w < 2; w++) for (int mis = 0; mis <= am; mis++) {
            if (alloc != alloc0 && (len + off + s0) % 3) continue;          // the other allocator: a third of the cases
            run_aligned(A, am, alloc, s0, [&](Op& op, int idx, uint64_t cur) {
                if (idx == 0) { op.write = w; op.variant = 0; op.off = off; op.lens.assign(1, len); op.misoff.assign(1, mis ? pick_mis(A) : 0); op.sym = 2; return true; }
                if (idx == 1 && cur > 0) { random_op(op, idx, cur, A, M, am, 3); return true; }
                return false;
            });
        }
        // vectored: every segmentation into two elements (A = 2: three elements), every misalignment position
        int K = (A == 2) ? 3 : 2;
        for (uint64_t s0 = 1; s0 <= M; s0++) for (uint64_t off = 0; off < s0; off++) for (uint64_t len = 0; len <= M; len++)
        for (int w = 0; w < 2; w++) {
            std::vector<std::vector<uint32_t>> segs;
            for (uint64_t a = 0; a <= len; a++) {
                segs.push_back({(uint32_t)a, (uint32_t)(len - a)});
                if (K == 3) for (uint64_t b = 0; a + b <= len; b++) segs.push_back({(uint32_t)a, (uint32_t)b, (uint32_t)(len - a - b)});
            }
            segs.push_back({(uint32_t)len});
            for (auto& sg : segs) for (int mis = 0; mis <= (am ? (int)sg.size() : 0); mis++) {
                // sampling of the vectored scope: quick a fifth (A = 2) / a twelfth (A = 4); thorough all (A = 2), a third (A = 4), 1/32 (A = 8)
                uint64_t hsh = (s0 * 131 + off * 31 + len * 7 + sg[0] * 3 + sg.size() + mis + w) ;
                uint64_t den = thorough ? (A == 8 ? 32 : A == 4 ? 3 : 1) : (A == 2 ? 5 : 12);
                if (hsh % den) continue;
                run_aligned(A, am, alloc0, s0, [&](Op& op, int idx, uint64_t cur) {
                    if (idx == 0) { op.write = w; op.variant = 1 + (int)((s0 + off + len + sg[0]) % 4); op.off = off; op.lens = sg;
                                    op.misoff.assign(sg.size(), 0); if (mis) op.misoff[mis - 1] = pick_mis(A); op.sym = 2; return true; }
                    return false;
                });
            }
        }
    }

    // ---------- 2. composites, exhaustive small scope
    {
        std::vector<Comp> comps;
        for (uint64_t u = 1; u <= 5; u++) for (uint64_t n = 1; n <= 3; n++) { Comp c; c.kind = 0; c.unit = u; c.n = n; comps.push_back(c); }
        for (int k = 1; k <= 3; k++) {
            int ms = thorough ? 4 : 3, total = 1; for (int i = 0; i < k; i++) total *= ms;
            for (int code = 0; code < total; code++) { Comp c; c.kind = 1; int x = code; for (int i = 0; i < k; i++) { c.sizes.push_back(1 + x % ms); x /= ms; } comps.push_back(c); }
        }
        for (uint64_t st : {1, 2, 4}) for (uint64_t n = 1; n <= 3; n++) for (uint64_t rows = 1; rows <= 2; rows++) { Comp c; c.kind = 2; c.st = st; c.n = n; c.rows = rows; comps.push_back(c); }
        for (auto& c : comps) {
            uint64_t size = comp_size(c), g = c.kind == 0 ? c.unit : c.kind == 2 ? c.st : 2;
            for (uint64_t off = 0; off < size; off++) for (uint64_t len = 0; len <= size + 2; len++) for (int w = 0; w < 2; w++) for (int vec = 0; vec < 2; vec++)
                run_comp(c, [&](Op& op, int idx, uint64_t cur) {
                    if (idx == 0) { op.write = w; op.off = off; op.sym = 2;
                                    if (vec) { op.variant = 1 + rng->below(4); split(len, 1 + rng->below(3), g, op.lens); } else { op.variant = 0; op.lens.assign(1, len); }
                                    op.misoff.assign(op.lens.size(), 0); return true; }
                    if (idx == 1) { random_op(op, idx, cur, g, size + 2, false, 3); return true; }
                    return false;
                });
        }
    }

    // ---------- 3. seeded random sequences: larger alignments / units / files
    {
        int NA = thorough ? 6000 : 900, NC = thorough ? 6000 : 900;
        const uint64_t As[] = {512, 4096, 512, 4096, 8, 16, 64, 1024};
        for (int k = 0; k < NA; k++) {
            uint64_t A = As[r.below(8)];
            bool am = r.coin(50);
            int alloc = (am && A < sizeof(void*)) ? 1 : (int)r.coin(30);
            uint64_t s0 = 1 + near_boundary(A, 6 * A);
            int nops = 3 + r.below(6);
            run_aligned(A, am, alloc, s0, [&](Op& op, int idx, uint64_t cur) {
                if (idx >= nops || cur == 0) return false;
                random_op(op, idx, cur, A, 3 * A + 2, true, 4);
                return true;
            });
        }
        for (int k = 0; k < NC; k++) {
            Comp c; c.kind = r.below(3);
            uint64_t g;
            if (c.kind == 0) { c.n = 1 + r.below(5); c.unit = r.coin(50) ? (uint64_t)1 << r.below(14) : 1 + r.below(5000); g = c.unit; }
            else if (c.kind == 1) { int n = 1 + r.below(5); for (int i = 0; i < n; i++) c.sizes.push_back(r.coin(30) ? 1 + r.below(8) : 1 + r.below(6000)); g = 512; }
            g_bounds.clear();
            if (c.kind == 1) { uint64_t b = 0; for (auto x : c.sizes) { b += x; g_bounds.push_back(b); } }
            else { c.n = 1 + r.below(5); c.st = (uint64_t)1 << r.below(13); c.rows = 1 + r.below(4); g = c.st; }
            uint64_t size = comp_size(c);
            int nops = 3 + r.below(6);
            run_comp(c, [&](Op& op, int idx, uint64_t cur) {
                if (idx >= nops) return false;
                random_op(op, idx, cur, g, r.coin(70) ? std::min<uint64_t>(size + 2, 3 * g + 2) : size + 2, false, 4);
                return true;
            });
            g_bounds.clear();
        }
    }
    fprintf(stderr, "sequences %llu requests %llu\n", (unsigned long long)n_seq, (unsigned long long)n_ops);
    vt::close();
    return 0;
}
