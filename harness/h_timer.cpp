// h_timer: photon::Timer driven on one vCPU by two controller threads (reset / cancel / destroy at seeded points, busy
// spins that let a deadline pass without a scheduling point, yields that put the expired timer thread in the run queue
// before a controller acts), recorded for Trace_TimerA.tla.  Beyond the listed properties (spec growth, DESIGN.md 6/8.7):
// Timer is the in-tree client of the wake-up reason mechanism that finding F2 (C04) is about.
//
// Every event carries "now" = photon::now (runtime clock, us since the start of the execution), read BEFORE the call it
// announces: the specification only uses it as a lower bound of the arming time.  All threads run on one vCPU, so the
// file order is the program order of that vCPU and an Inv event and the state change it announces are atomic (no
// scheduling point between the event and the change inside reset()/~Timer()).
#include <photon/photon.h>
#include <photon/thread/thread.h>
#include <photon/thread/timer.h>
#include <photon/common/alog.h>
#include <time.h>
#include <vector>
#include <string>
#include "vt.h"
#include "vt_photon.h"

static uint64_t g_base;
static inline int64_t nowus() { return (int64_t)(photon::now - g_base); }
static inline uint64_t mono_us() { timespec ts; clock_gettime(CLOCK_MONOTONIC, &ts); return ts.tv_sec * 1000000ull + ts.tv_nsec / 1000; }

struct Exec {
    photon::Timer* tm = nullptr;
    bool gone = false;                 // ~Timer() has been invoked (nobody may touch the object any more)
    uint64_t cb_sleep = 0;             // the callback sleeps this long (controllers run meanwhile), 0 = returns at once
    std::vector<uint64_t> nexts;       // value returned by the k-th callback (0 = default timeout)
    int fires = 0;
    int done = 0;
    uint64_t on_timer() {
        int k = fires++;
        vt::Ev("Fire").i("k", k).i("now", nowus());
        if (cb_sleep) photon::thread_usleep(cb_sleep);
        uint64_t nx = k < (int)nexts.size() ? nexts[k] : 0;
        vt::Ev("FireEnd").i("k", k).i("next", (int64_t)nx).i("now", nowus());
        return nx;
    }
};

struct Step { char op; int64_t arg; };      // S sleep, P spin (no scheduling point), Y yield, R reset(arg), C cancel, D destroy
struct Ctl { Exec* x; int id; std::vector<Step> steps; };

static void destroy(Exec* x, int by) {
    if (x->gone) return;
    x->gone = true;
    vt::Ev("DtorInv").i("t", by).i("now", nowus());
    delete x->tm;
    vt::Ev("DtorRet").i("t", by).i("now", nowus());
}

static void* controller(void* a) {
    auto c = (Ctl*)a; auto x = c->x;
    for (auto& s : c->steps) {
        switch (s.op) {
        case 'S': photon::thread_usleep(s.arg); break;
        case 'Y': photon::thread_yield(); break;
        case 'P': { auto t0 = mono_us(); while (mono_us() - t0 < (uint64_t)s.arg) { } break; }
        case 'R': case 'C':
            if (x->gone) break;
            vt::Ev(s.op == 'R' ? "ResetInv" : "CancelInv").i("t", c->id).i("to", s.op == 'R' ? s.arg : -1).i("now", nowus());
            { int r = s.op == 'R' ? x->tm->reset(s.arg) : x->tm->cancel();
              vt::Ev("OpRet").i("t", c->id).i("r", r).i("now", nowus()); }
            break;
        case 'D': destroy(x, c->id); break;
        }
    }
    x->done++;
    return nullptr;
}

static void one_exec(int ex, vt::Rng& r) {
    static const uint64_t TO[] = {1000, 3000, 8000};
    Exec x;
    uint64_t dflt = TO[r.below(3)];
    bool rep = r.coin(75);
    x.cb_sleep = r.coin(35) ? 1500 : 0;
    for (int i = 0; i < 6; i++) x.nexts.push_back(r.coin(60) ? 0 : TO[r.below(3)]);
    g_base = photon::__update_now();
    vt::Ev("Reset").i("exec", ex).i("dflt", (int64_t)dflt).b("rep", rep).i("cbs", (int64_t)x.cb_sleep);
    vt::Ev("New").i("now", nowus());
    x.tm = new photon::Timer(dflt, {&x, &Exec::on_timer}, rep);
    Ctl c[2];
    for (int i = 0; i < 2; i++) {
        c[i].x = &x; c[i].id = i + 1;
        int n = 3 + r.below(5);
        for (int k = 0; k < n; k++) {
            unsigned d = r.below(100);
            if (d < 22) c[i].steps.push_back({'S', (int64_t)(500 + r.below(6) * 1500)});
            else if (d < 40) c[i].steps.push_back({'P', (int64_t)(600 + r.below(4) * 1400)});
            else if (d < 55) c[i].steps.push_back({'Y', 0});
            else if (d < 78) c[i].steps.push_back({'R', (int64_t)TO[r.below(3)]});
            else if (d < 94) c[i].steps.push_back({'C', 0});
            else c[i].steps.push_back({'D', 0});
        }
    }
    photon::join_handle* jh[2];
    for (int i = 0; i < 2; i++) jh[i] = photon::thread_enable_join(photon::thread_create(controller, &c[i]));
    for (int i = 0; i < 2; i++) photon::thread_join(jh[i]);
    // let every pending deadline pass, then let every thread that the expiry pass made READY run
    photon::thread_usleep(8000 + 1500 + 30000);
    for (int i = 0; i < 3; i++) photon::thread_yield();
    vt::Ev("Check").i("now", nowus());
    destroy(&x, 0);
    vt::Ev("Quiesce").i("fires", x.fires);
}

int main(int argc, char** argv) {
    int execs = atoi(vt::arg(argc, argv, "--execs", "50"));
    uint64_t seed = strtoull(vt::arg(argc, argv, "--seed", "1"), 0, 10);
    vt::open(vt::arg(argc, argv, "--out", "-"));
    set_log_output_level(ALOG_ERROR + 1);
    photon::init(photon::INIT_EVENT_EPOLL, photon::INIT_IO_NONE);
    vtp::Watchdog wd; wd.start(20, "timer");
    vt::Rng r(seed * 7919 + 11);
    for (int ex = 0; ex < execs; ex++) one_exec(ex, r);
    wd.end();
    vt::close();
    photon::fini();
    return 0;
}
