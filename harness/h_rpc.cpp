// Harness for C11 (RPC: each call gets its own response or an error; no access after it returns).
// A REAL rpc::Stub (rpc/rpc.cpp StubImpl + rpc/out-of-order-execution.cpp engine) runs on top of a SCRIPTED stream
// (the IStream seam): per execution the script says which responses arrive (per request, in which order, unknown /
// duplicate tags), how header and body are fragmented, how long every fragment is delayed (the stream honours the
// timeout the stub gives it: "whole" = one deadline per transfer as kernel sockets do, "perwait" = every wait of a
// fragmented transfer is bounded by it), and where the stream fails.  Callers are photon threads on ONE vCPU (the API
// requires it), one call each, with per-call request / response buffers registered with the harness.  When a call
// returns, its result is decoded (which payload does the caller hold?), its buffers are POISONED and marked returned,
// and the caller parks in a frame laid over the frames the call has just left (a snapshot of that stack area is compared
// at the end of the execution: the call's OutOfOrderContext lives there).  The stream records every writev (tag) and
// every copy into a destination buffer with the identity of the buffer's owner.
//
// Events: Reset, CallInv{c,to,bsz}, StreamWrite{c,by,tag,n}, StreamRead{kind,by,owner,rc,tag,off,n},
//         StreamFault{kind,op,by}, CallResp{c,ret,en,pay,got,tag}, LateInterrupt{c}, CtxTouched{c,n,lo,hi},
//         BufTouched{c,which,n}, Quiesce{qc}, Hang, Fatal.       (spec/Trace_RpcA.tla)
//
// usage: h_rpc --prim rand|enum|f4|early --execs N --seed S [--vcpus 1 --threads K --ops M] --out file
#include "vt_photon.h"
#include <photon/rpc/rpc.h>
#include <photon/common/iovector.h>
#include <photon/common/stream.h>
#include <photon/thread/thread.h>
#include <memory>
#include <cstring>
#include <deque>
#include <string>
using namespace photon;

static uint64_t g_seed = 1;
static int g_execs = 50, g_threads = 4;
static vtp::Vcpus g_vc;

static inline uint64_t now_us() { return photon::__update_now(); }

// ------------------------------------------------------------------------------------------------ scripts
struct Frag { int n; int delay_us; };          // n bytes become available delay_us after the previous fragment
struct CallScript {
    int pre_us = 0;            // start delay of the caller (0: none, -1: one yield)
    int to_us = -1;            // call timeout, -1 = none
    int bsz = 24;              // size of the response body the peer produces for this call
    int bufkind = 0;           // 0 exact block, 1 larger block, 2 two blocks, 3 empty iovector (allocated by the stub)
    int wd_us = 0;             // how long the write takes
    bool early = false;        // the peer has the request at the START of the write (answers may precede its return)
    int rd_us = 0;             // delay of the response (after the peer has the request); -1: never answered
    std::vector<Frag> hfr;     // fragments of the header (sum 40) ; empty = one fragment, no extra delay
    std::vector<Frag> bfr;     // fragments of the body (sum bsz)
    bool fail_write = false;   // the write fails (connection reset)
};
struct Bogus { int after_call; int delay_us; int dup_of; int bsz; };       // dup_of = 0: unknown tag
struct Script {
    std::vector<CallScript> calls;
    std::vector<Bogus> bogus;
    long err_at = -1;          // inbound byte offset at which the stream fails (connection reset), -1 never
    int perwait = 0;           // timeout semantics of the stream
    std::string label;
};

static inline uint8_t pat(int c, size_t i) { return (uint8_t)(c * 41 + i * 7 + 3); }
static const int UNKNOWN_PAT = 90;

// ------------------------------------------------------------------------------------------------ per-call record
static const size_t PADSZ = 6144;
struct CallRec {
    int id = 0;
    CallScript sc;
    IOVector* req = nullptr; IOVector* resp = nullptr;
    char* reqbuf = nullptr; size_t reqlen = 0;
    char* rb[2] = {nullptr, nullptr}; size_t rl[2] = {0, 0};
    uint64_t tag = 0;
    bool invoked = false, written = false, returned = false, parked_done = false;
    std::vector<std::pair<char*, size_t>> poisoned;        // areas poisoned at return
    char* snap = nullptr; char* pad = nullptr;
};
static std::vector<CallRec*> g_calls;
static std::atomic<bool> g_release{false};
static rpc::Stub* g_stub = nullptr;

static int cur_id() { int id = vtp::reg().get(photon::CURRENT); return id; }
// which call owns the memory [p, p+n) ?  0 = none of the registered buffers (e.g. the stub's own header)
static int owner_of(const void* p_, size_t n, const char** which) {
    auto p = (const char*)p_;
    for (auto r : g_calls) {
        if (r->reqbuf && p >= r->reqbuf && p + n <= r->reqbuf + r->reqlen) { *which = "req"; return r->id; }
        for (int k = 0; k < 2; k++)
            if (r->rb[k] && p >= r->rb[k] && p + n <= r->rb[k] + r->rl[k]) { *which = "resp"; return r->id; }
        if (r->resp)
            for (int i = 0; i < r->resp->iovcnt(); i++) {
                auto& v = (*r->resp)[i];
                if (v.iov_base && p >= (char*)v.iov_base && p + n <= (char*)v.iov_base + v.iov_len) { *which = "resp"; return r->id; }
            }
        for (auto& a : r->poisoned) if (p >= a.first && p + n <= a.first + a.second) { *which = "resp"; return r->id; }
    }
    *which = "none";
    return 0;
}
static CallRec* call_by_id(int id) { for (auto r : g_calls) if (r->id == id) return r; return nullptr; }
static CallRec* call_by_tag(uint64_t tag) { for (auto r : g_calls) if (r->written && r->tag == tag) return r; return nullptr; }

// ------------------------------------------------------------------------------------------------ the scripted stream
struct WireResp {
    uint64_t tag; int rc;              // rc: call whose response this is (0: unknown tag, its body has the UNKNOWN pattern)
    uint64_t t0;                       // the first fragment is available at t0 + frs[0].delay
    std::vector<Frag> frs;             // header fragments then body fragments
    std::string bytes;                 // header + body
    bool consumed = false;
};
class ScriptStream : public IStream {
public:
    Script* sc;
    std::deque<WireResp> resps;
    int curi = -1; size_t pos = 0;
    uint64_t m_timeout = -1;
    bool shut = false, broken = false;
    long in_off = 0;
    uint64_t last_activity = 0;
    photon::condition_variable cv;
    static const uint64_t EOF_IDLE = 15000;
    explicit ScriptStream(Script* s) : sc(s) { last_activity = now_us(); }
    int close() override { return 0; }
    int shutdown(ShutdownHow) override {
        if (!shut) vt::Ev("StreamFault").s("kind", "shutdown").s("op", "shutdown").i("by", cur_id());
        shut = true; cv.notify_all(); return 0;
    }
    uint64_t timeout() const override { return m_timeout; }
    void timeout(uint64_t tm) override { m_timeout = tm; }

    int fault(const char* kind, const char* op, int en) {
        vt::Ev("StreamFault").s("kind", kind).s("op", op).i("by", cur_id());
        errno = en; return -1;
    }
    // sleeps until `until` (absolute), bounded by the transfer's / the wait's deadline.  0 ok, -1 fault (logged)
    int wait_until(uint64_t until, uint64_t deadline, const char* op) {
        while (true) {
            if (shut) return fault("closed", op, ESHUTDOWN);
            uint64_t now = now_us();
            if (now >= until) return 0;
            if (now >= deadline) return fault("timeout", op, ETIMEDOUT);
            uint64_t t = std::min(until, deadline) - now;
            int r = cv.wait_no_lock(Timeout(t));
            if (r < 0 && errno != ETIMEDOUT) return fault("intr", op, errno ? errno : EINTR);
            if (r == 0) return 1;      // notified: something changed, let the caller look again
        }
    }
    static uint64_t dl(uint64_t start, uint64_t tmo) {
        return tmo == (uint64_t)-1 ? (uint64_t)-1 : sat_add(start, tmo);
    }
    void answer(CallRec* r) {
        auto& cs = r->sc;
        uint64_t now = now_us();
        auto mk = [&](uint64_t tag, int rc, int bsz, int patid, uint64_t t0, const std::vector<Frag>& hfr, const std::vector<Frag>& bfr) {
            WireResp w; w.tag = tag; w.rc = rc; w.t0 = t0;
            rpc::Header h; h.size = bsz; h.function = 7; h.tag = tag; h.reserved = 0;
            w.bytes.assign((char*)&h, sizeof(h));
            for (int i = 0; i < bsz; i++) w.bytes.push_back((char)pat(patid, i));
            if (hfr.empty()) w.frs.push_back({(int)sizeof(h), 0}); else w.frs = hfr;
            if (bfr.empty()) w.frs.push_back({bsz, 0}); else for (auto f : bfr) w.frs.push_back(f);
            resps.push_back(w);
        };
        if (cs.rd_us >= 0) mk(r->tag, r->id, cs.bsz, r->id, now + cs.rd_us, cs.hfr, cs.bfr);
        for (auto& b : sc->bogus)
            if (b.after_call == r->id) {
                if (b.dup_of == 0) mk(7000 + r->id, 0, b.bsz, UNKNOWN_PAT, now + b.delay_us, {}, {});
                else { auto d = call_by_id(b.dup_of); if (d && d->written) mk(d->tag, d->id, d->sc.bsz, d->id, now + b.delay_us, {}, {}); }
            }
        cv.notify_all();
    }
    ssize_t writev(const struct iovec* iov, int iovcnt) override {
        std::string s;
        for (int i = 0; i < iovcnt; i++) s.append((const char*)iov[i].iov_base, iov[i].iov_len);
        uint64_t start = now_us(), deadline = dl(start, m_timeout);
        if (shut || broken) return fault("closed", "write", EPIPE);
        if (s.size() < sizeof(rpc::Header) + 8) return fault("error", "write", EINVAL);
        rpc::Header h; memcpy(&h, s.data(), sizeof(h));
        uint32_t cid; memcpy(&cid, s.data() + sizeof(h), 4);
        auto r = call_by_id((int)cid);
        if (!r) return fault("error", "write", EINVAL);
        const char* which; int src = owner_of(iov[iovcnt - 1].iov_base, iov[iovcnt - 1].iov_len, &which);
        if (r->sc.fail_write) { broken = true; return fault("error", "write", ECONNRESET); }
        auto reg = [&] {
            r->tag = h.tag; r->written = true; last_activity = now_us();
            vt::Ev("StreamWrite").i("c", r->id).i("by", cur_id()).i("tag", (int64_t)(h.tag & 0x3fffffff)).i("n", (int64_t)s.size()).i("src", src);
            answer(r);
        };
        if (r->sc.early) reg();
        if (r->sc.wd_us > 0) {
            uint64_t until = start + r->sc.wd_us;
            while (true) { int w = wait_until(until, deadline, "write"); if (w < 0) return -1; if (w == 0) break; }
        }
        if (!r->sc.early) reg();
        return (ssize_t)s.size();
    }
    ssize_t write(const void* buf, size_t count) override { struct iovec v{(void*)buf, count}; return writev(&v, 1); }
    ssize_t read(void* buf, size_t count) override { struct iovec v{buf, count}; return readv(&v, 1); }
    bool writers_pending() {
        for (auto r : g_calls) if (!r->returned && !r->written) return true;
        return false;
    }
    ssize_t readv(const struct iovec* iov_, int iovcnt) override {
        std::vector<struct iovec> iov(iov_, iov_ + iovcnt);
        size_t total = 0; for (auto& v : iov) total += v.iov_len;
        size_t n = 0; int vi = 0; size_t vo = 0;
        uint64_t tmo = m_timeout;          // the time this transfer was given (a concurrent writer may change the member)
        uint64_t start = now_us(), deadline = dl(start, tmo);
        while (n < total) {
            if (shut || broken) return fault("closed", "read", ECONNRESET);
            uint64_t now = now_us();
            if (sc->perwait) deadline = dl(now, tmo);
            if (curi < 0) {
                int best = -1;
                for (size_t i = 0; i < resps.size(); i++)
                    if (!resps[i].consumed && (best < 0 || resps[i].t0 < resps[best].t0)) best = (int)i;
                if (best < 0) {
                    uint64_t until = now + 1000;        // a request may still be written: look again soon
                    if (!writers_pending()) {
                        until = last_activity + EOF_IDLE;
                        if (now >= until) { vt::Ev("StreamFault").s("kind", "eof").s("op", "read").i("by", cur_id()); return (ssize_t)n; }
                    }
                    int w = wait_until(until, deadline, "read"); if (w < 0) return -1;
                    continue;
                }
                if (resps[best].t0 > now) { int w = wait_until(resps[best].t0, deadline, "read"); if (w < 0) return -1; continue; }
                curi = best; pos = 0;
            }
            auto& w = resps[curi];
            // bytes available by now
            size_t avail = 0; uint64_t t = w.t0, next_at = 0; bool more = false;
            for (auto& f : w.frs) { t += f.delay_us; if (t <= now) avail += f.n; else { next_at = t; more = true; break; } }
            if (avail <= pos) {
                if (!more) { w.consumed = true; curi = -1; continue; }
                int r = wait_until(next_at, deadline, "read"); if (r < 0) return -1;
                continue;
            }
            size_t k = std::min(avail - pos, total - n);
            while (k > 0) {
                if (sc->err_at >= 0 && in_off >= sc->err_at) { broken = true; return fault("error", "read", ECONNRESET); }
                size_t room = iov[vi].iov_len - vo;
                if (room == 0) { vi++; vo = 0; continue; }
                size_t m = std::min(k, room);
                if (sc->err_at >= 0 && in_off + (long)m > sc->err_at) m = (size_t)(sc->err_at - in_off);
                if (m > 0) {
                    const char* which; int owner = owner_of((char*)iov[vi].iov_base + vo, m, &which);
                    auto orec = call_by_id(owner);
                    bool hdr = pos < sizeof(rpc::Header);
                    if (hdr && pos + m > sizeof(rpc::Header)) m = sizeof(rpc::Header) - pos;
                    vt::Ev("StreamRead").s("kind", hdr ? "hdr" : "body").i("by", cur_id()).i("owner", owner).i("rc", w.rc)
                        .i("tag", (int64_t)(w.tag & 0x3fffffff)).i("off", (int64_t)(hdr ? pos : pos - sizeof(rpc::Header))).i("n", (int64_t)m)
                        .i("dead", orec && orec->returned ? 1 : 0);
                    memcpy((char*)iov[vi].iov_base + vo, w.bytes.data() + pos, m);
                    vo += m; pos += m; n += m; k -= m; in_off += (long)m; last_activity = now_us();
                } else { broken = true; return fault("error", "read", ECONNRESET); }
            }
            if (pos >= w.bytes.size()) { w.consumed = true; curi = -1; }
        }
        return (ssize_t)n;
    }
};

// ------------------------------------------------------------------------------------------------ callers
struct StubAccess : rpc::Stub { using rpc::Stub::do_call; };

static void poison(CallRec* r, char* p, size_t n) { if (p && n) { memset(p, 0xDB, n); r->poisoned.push_back({p, n}); } }

// Runs in a frame laid over the frames the call has just left: `pad` is never written by this function.
__attribute__((noinline)) static void finish_call(CallRec* r, int ret, int en) {
    volatile char padv[PADSZ];
    char* pad = (char*)padv;
    asm volatile("" : "+r"(pad) : : "memory");
    memcpy(r->snap, pad, PADSZ);
    r->pad = pad;
    // which payload does the caller hold?
    int pay = -1, got = 0;
    if (ret >= 0) {
        std::string data;
        for (int i = 0; i < r->resp->iovcnt(); i++) data.append((char*)(*r->resp)[i].iov_base, (*r->resp)[i].iov_len);
        if ((size_t)ret <= data.size()) {
            for (auto q : g_calls) {
                bool all = true;
                for (int i = 0; i < ret && all; i++) all = (uint8_t)data[i] == pat(q->id, i);
                if (all && ret > 0) { pay = q->id; break; }
            }
            if (pay < 0) { bool all = ret > 0; for (int i = 0; i < ret && all; i++) all = (uint8_t)data[i] == pat(UNKNOWN_PAT, i); if (all) pay = UNKNOWN_PAT; }
            for (int i = 0; i < ret; i++) if ((uint8_t)data[i] == pat(r->id, i)) got++;
        }
    }
    // the call is over: its buffers belong to the caller again -> poison them, mark the call returned
    for (int i = 0; i < r->resp->iovcnt(); i++) poison(r, (char*)(*r->resp)[i].iov_base, (*r->resp)[i].iov_len);
    for (int k = 0; k < 2; k++) if (r->rb[k]) poison(r, r->rb[k], r->rl[k]);
    poison(r, r->reqbuf, r->reqlen);
    r->returned = true;
    vt::Ev("CallResp").i("c", r->id).i("ret", ret).i("en", en).i("pay", pay).i("got", got).i("tag", (int64_t)(r->tag & 0x3fffffff));
    // park (a reader that still works on this call's context will interrupt this thread)
    while (!g_release.load()) {
        int rc = thread_usleep(1000);
        if (rc < 0 && errno == EINTR) vt::Ev("LateInterrupt").i("c", r->id);
    }
    asm volatile("" : "+r"(pad) : : "memory");
    size_t nd = 0, lo = 0, hi = 0;
    for (size_t i = 0; i < PADSZ; i++) if (pad[i] != r->snap[i]) { if (!nd) lo = i; hi = i; nd++; }
    if (nd) vt::Ev("CtxTouched").i("c", r->id).i("n", (int64_t)nd).i("lo", (int64_t)lo).i("hi", (int64_t)hi);
    r->parked_done = true;
}

// the call is made one frame (plus a spacer) below caller_body, so that finish_call's pad - which starts where this frame
// started - lies over the whole frame of StubImpl::do_call (the OutOfOrderContext is at its top)
__attribute__((noinline)) static int invoke(CallRec* r, Timeout tmo) {
    volatile char spacer[256];
    spacer[0] = 0; spacer[255] = 0;
    int ret = (g_stub->*(&StubAccess::do_call))(rpc::FunctionID(7), r->req, r->resp, tmo);
    asm volatile("" : : "r"(spacer) : "memory");
    return ret;
}
__attribute__((noinline)) static void caller_body(CallRec* r) {
    auto& cs = r->sc;
    if (cs.pre_us > 0) thread_usleep(cs.pre_us); else if (cs.pre_us < 0) thread_yield();
    vt::Ev("CallInv").i("c", r->id).i("to", cs.to_us).i("bsz", cs.bsz).i("buf", cs.bufkind).i("early", cs.early ? 1 : 0);
    r->invoked = true;
    Timeout tmo = cs.to_us < 0 ? Timeout() : Timeout((uint64_t)cs.to_us);
    errno = 0;
    int ret = invoke(r, tmo);
    int en = ret < 0 ? errno : 0;
    finish_call(r, ret, en);
}

static CallRec* make_call(int id, const CallScript& cs) {
    auto r = new CallRec(); r->id = id; r->sc = cs;
    r->snap = (char*)malloc(PADSZ);
    r->reqlen = 16 + (id % 3) * 8; r->reqbuf = (char*)malloc(r->reqlen);
    uint32_t cid = id; memcpy(r->reqbuf, &cid, 4);
    for (size_t i = 4; i < r->reqlen; i++) r->reqbuf[i] = (char)pat(id + 50, i);
    r->req = new IOVector(); r->req->push_back(r->reqbuf, r->reqlen);
    r->resp = new IOVector();
    auto blk = [&](int k, size_t n) { r->rb[k] = (char*)malloc(n); r->rl[k] = n; memset(r->rb[k], 0xA5, n); r->resp->push_back(r->rb[k], n); };
    switch (cs.bufkind) {
    case 0: blk(0, cs.bsz); break;
    case 1: blk(0, cs.bsz + 16); break;
    case 2: blk(0, cs.bsz / 2); blk(1, cs.bsz - cs.bsz / 2 + 8); break;
    default: break;        // empty: do_recv_body allocates
    }
    return r;
}
static void free_call(CallRec* r) {
    delete r->req; delete r->resp;
    free(r->reqbuf); free(r->rb[0]); free(r->rb[1]); free(r->snap);
    delete r;
}

// ------------------------------------------------------------------------------------------------ one execution
static bool run_exec(const std::string& prim, int ex, Script& sc) {
    int n = (int)sc.calls.size();
    vt::Ev("Reset").s("prim", prim).i("ex", ex).i("n", n).i("perwait", sc.perwait).i("err_at", sc.err_at)
        .i("bogus", (int64_t)sc.bogus.size()).s("label", sc.label);
    vt::note(prim + " ex " + std::to_string(ex) + " " + sc.label);
    auto stream = new ScriptStream(&sc);
    g_stub = rpc::new_rpc_stub(stream, false);
    g_release = false;
    g_calls.clear();
    std::vector<std::unique_ptr<vtp::Worker>> own; std::vector<vtp::Worker*> ws;
    for (int i = 0; i < n; i++) {
        g_calls.push_back(make_call(i + 1, sc.calls[i]));
        own.emplace_back(new vtp::Worker()); own.back()->id = i + 1; ws.push_back(own.back().get());
        auto r = g_calls.back();
        ws.back()->body = [r] { caller_body(r); };
    }
    { vtp::GateGuard gg; for (int i = 0; i < n; i++) vtp::spawn_on(ws[i], g_vc.vc[0]); }
    // wait until every call has returned
    uint64_t wait_start = now_us();
    while (true) {
        bool all = true; for (auto r : g_calls) if (!r->returned) { all = false; break; }
        if (all) break;
        if (now_us() - wait_start > 8 * 1000 * 1000) {
            vt::Arr a; std::string wh;
            for (auto r : g_calls) if (!r->returned) { a.i(r->id); wh += std::to_string(r->id) + (r->written ? ":waiting " : r->invoked ? ":issuing " : ":notstarted "); }
            vt::Ev("Hang").raw("blocked", a.str()).s("where", wh).s("what", prim + " " + sc.label);
            vt::flush();
            return false;
        }
        thread_usleep(500);
    }
    thread_usleep(300);
    g_release = true;
    if (!vtp::wait_done(ws, 10 * 1000 * 1000, prim.c_str())) return false;
    vtp::join_all(ws);
    // poison intact?
    for (auto r : g_calls) {
        size_t bad = 0;
        for (auto& a : r->poisoned) for (size_t i = 0; i < a.second; i++) if ((uint8_t)a.first[i] != 0xDB) bad++;
        if (bad) vt::Ev("BufTouched").i("c", r->id).s("which", "resp").i("n", (int64_t)bad);
    }
    int qc = g_stub->get_queue_count();
    vt::Ev("Quiesce").i("qc", qc);
    if (qc == 0) { delete g_stub; delete stream; }      // with a non-empty map the engine's destructor would wait forever
    g_stub = nullptr;
    for (auto r : g_calls) free_call(r);
    g_calls.clear();
    return true;
}

// ------------------------------------------------------------------------------------------------ script generators
static std::vector<Frag> split(vt::Rng& r, int total, int maxparts, int maxdelay) {
    std::vector<Frag> v;
    int parts = 1 + (int)r.below(maxparts);
    int left = total;
    for (int i = 0; i < parts && left > 0; i++) {
        int n = (i == parts - 1) ? left : 1 + (int)r.below(left);
        v.push_back({n, i == 0 ? 0 : (int)r.below(maxdelay + 1)});
        left -= n;
    }
    if (left > 0) v.push_back({left, (int)r.below(maxdelay + 1)});
    return v;
}
static Script gen_rand(vt::Rng& r) {
    Script s;
    int n = 2 + (int)r.below(std::max(1, g_threads - 1));
    s.perwait = r.coin(50);
    bool timed_exec = r.coin(70);
    for (int i = 0; i < n; i++) {
        CallScript c;
        c.pre_us = r.coin(40) ? 0 : (r.coin(50) ? -1 : (int)r.below(1500));
        c.to_us = (timed_exec && r.coin(45)) ? 300 + (int)r.below(4000) : -1;
        c.bsz = 16 + 8 * i + (int)r.below(4) * 32;
        c.bufkind = (int)r.below(4);
        c.wd_us = r.coin(25) ? (int)r.below(600) : 0;
        c.rd_us = r.coin(6) ? -1 : (int)r.below(r.coin(60) ? 800 : 5000);
        if (r.coin(35)) c.hfr = split(r, 40, 3, 400);
        if (r.coin(60)) c.bfr = split(r, c.bsz, 3, r.coin(50) ? 300 : 3000);
        s.calls.push_back(c);
    }
    if (r.coin(18)) {
        Bogus b; b.after_call = 1 + (int)r.below(n); b.delay_us = (int)r.below(3000); b.bsz = r.coin(50) ? 0 : 8 + (int)r.below(24);
        b.dup_of = r.coin(50) ? 0 : 1 + (int)r.below(n);
        s.bogus.push_back(b);
    }
    if (r.coin(12)) s.err_at = (long)r.below(40 * n + 60);
    if (r.coin(5)) s.calls[r.below(n)].fail_write = true;
    s.label = "rand";
    return s;
}
// systematic small scope: 3 callers that start together; every order of the three responses x which caller has a deadline
// and where it falls (before the header / between header and body / after the body) x one fault
static int enum_size() { return 6 * 10 * 6 * 3; }
static Script gen_enum(int k) {
    static const int PERM[6][3] = {{0, 1, 2}, {0, 2, 1}, {1, 0, 2}, {1, 2, 0}, {2, 0, 1}, {2, 1, 0}};
    int perm = k % 6; k /= 6;
    int tsel = k % 10; k /= 10;           // 0: no deadline; else caller (tsel-1)/3, placement (tsel-1)%3
    int fault = k % 6; k /= 6;
    int first = k % 3;                    // which caller arrives first (it becomes the reader)
    Script s; s.perwait = (perm + tsel + fault + first) & 1;
    const int SLOT = 3000;                // responses are released one slot after the other
    for (int i = 0; i < 3; i++) {
        CallScript c; c.bsz = 24 + 16 * i; c.bufkind = (i + perm) % 4; c.pre_us = i == first ? 0 : -1;
        int rank = 0; for (int j = 0; j < 3; j++) if (PERM[perm][j] == i) rank = j;
        c.rd_us = 500 + rank * SLOT;
        c.bfr = {{c.bsz / 2, 700}, {c.bsz - c.bsz / 2, 700}};       // body complete 1400 us after the header
        s.calls.push_back(c);
    }
    if (tsel > 0) {
        int who = (tsel - 1) / 3, place = (tsel - 1) % 3;
        auto& c = s.calls[who];
        int hdr_at = c.rd_us;
        c.to_us = place == 0 ? std::max(200, hdr_at - 400) : place == 1 ? hdr_at + 700 : hdr_at + 2600;
    }
    switch (fault) {
    case 1: s.err_at = 20; break;                                   // inside the first header
    case 2: s.err_at = 40 + 10; break;                              // inside the first body
    case 3: s.bogus.push_back({1, 100, 0, 0}); break;               // unknown tag first (empty body)
    case 4: s.bogus.push_back({1, 100, 0, 16}); break;              // unknown tag first with a body nobody reads
    case 5: s.bogus.push_back({3, 3 * SLOT + 2500, 1, 0}); break;   // duplicate of call 1's response at the end
    default: break;
    }
    s.label = "enum p" + std::to_string(perm) + " t" + std::to_string(tsel) + " f" + std::to_string(fault) + " a" + std::to_string(first);
    return s;
}
// directed: the follower's deadline falls between the header and the body of ITS response while another caller reads
static Script gen_f4(int k) {
    Script s; s.perwait = (k & 1) ? 0 : 1;
    int nf = 1 + (k / 2) % 2;          // followers before the victim
    int n = 2 + nf;
    for (int i = 0; i < n; i++) {
        CallScript c; c.bsz = 32 + 8 * i; c.bufkind = (i + k) % 3; c.pre_us = i == 0 ? 0 : -1;
        c.rd_us = 40000 + 3000 * i;    // everybody else is answered late
        s.calls.push_back(c);
    }
    auto& v = s.calls[n - 1];          // the victim: a follower (the first caller is the reader)
    v.to_us = 12000; v.rd_us = 2000;   // header 2 ms after its request, deadline at 12 ms
    if (s.perwait) v.bfr = {{v.bsz / 2, 7000}, {v.bsz - v.bsz / 2, 7000}};     // each wait shorter than the time given, done at 16 ms
    else v.bfr = {{v.bsz, 30000}};                                              // the read given the victim's remaining time times out
    s.label = std::string("f4 ") + (s.perwait ? "perwait" : "whole") + " n" + std::to_string(n);
    return s;
}
// directed: the peer answers before the write call returns (a stream whose writev returns late)
static Script gen_early(int k) {
    Script s; s.perwait = (k / 2) & 1;
    for (int i = 0; i < 3; i++) {
        CallScript c; c.bsz = 32 + 8 * i; c.bufkind = (i + k) % 3; c.pre_us = i == 0 ? 0 : -1; c.rd_us = 30000 + 2000 * i;
        s.calls.push_back(c);
    }
    auto& v = s.calls[1 + (k / 4) % 2];
    v.early = true; v.wd_us = 5000; v.rd_us = 500;
    bool during = (k % 2) == 0;
    if (during) v.bfr = {{v.bsz, 9000}};               // the body arrives after the write has returned
    else v.bfr = {{v.bsz, 300}};                       // collected completely before the write returns
    s.label = std::string("early ") + (during ? "during" : "before");
    return s;
}

int main(int argc, char** argv) {
    std::string prim = vt::arg(argc, argv, "--prim", "rand");
    g_execs = atoi(vt::arg(argc, argv, "--execs", "50"));
    g_seed = strtoull(vt::arg(argc, argv, "--seed", "1"), 0, 10);
    g_threads = atoi(vt::arg(argc, argv, "--threads", "4"));
    if (g_threads < 2) g_threads = 2;
    if (g_threads > 6) g_threads = 6;
    vt::open(vt::arg(argc, argv, "--out", "-"));
    set_log_output_level(ALOG_ERROR + 1);
    photon::init(photon::INIT_EVENT_EPOLL, photon::INIT_IO_NONE);
    vtp::t0() = photon::__update_now();
    vtp::reg().set(photon::CURRENT, 100);
    vtp::install_hooks(false, false);
    g_vc.start(1);                      // the stub API requires one vCPU
    vtp::Watchdog wd; wd.start(25, prim.c_str());
    vt::Rng r(g_seed * 1000003 + std::hash<std::string>()(prim) % 1000);
    int rc = 0;
    int first = prim == "enum" ? (int)((g_seed * 7919) % enum_size()) : 0;
    for (int ex = 0; ex < g_execs; ex++) {
        Script sc;
        if (prim == "enum") sc = gen_enum((int)((first + (long)ex * 7) % enum_size()));     // stride 7 is coprime to the size: a short run samples every dimension
        else if (prim == "f4") sc = gen_f4(ex);
        else if (prim == "early") sc = gen_early(ex);
        else sc = gen_rand(r);
        if (!run_exec(prim, ex, sc)) { rc = 4; break; }
    }
    wd.end();
    vt::close();
    if (rc) _exit(rc);
    g_vc.stop();
    photon::fini();
    return 0;
}
