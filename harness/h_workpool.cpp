// C08 harness: photon::WorkPool.  Each execution builds a REAL WorkPool (1..3 vCPUs, thread mode -1 / 0 / 4 given by --prim,
// ring of 1/2/4/64 slots, optionally one more vCPU that joins through join_current_vcpu_into_workpool()), lets 1..K submitters
// (photon threads on the harness's vCPUs and plain OS threads, PhotonContext / StdContext / AutoContext) hand over a seeded
// random program of call() and async_call() with task bodies that return at once, yield, sleep, spin, and destroys the pool
// (--prim threadx etc.: always with the joined vCPU next to one owned vCPU and long sleeps) right after the last hand-over returned (by the submitter that finished last - a photon thread or an OS thread - or by the
// main thread), i.e. while tasks are still queued or running.  Events (one global lock, vt.h), judged by spec/Trace_WorkPoolA.tla:
//   Reset{prim,ex,mode,nv,ext,ring,nsub,ntask,by}   PoolCtorInv  PoolCtorResp{n}   ExtJoinInv  ExtJoinResp{r}
//   CallInv{s,id,ctx,os}  CallResp{s,id}   AsyncInv{s,id,os}  AsyncResp{s,id}
//   TaskStart{id,v}  TaskEnd{id,v}  (v: pool vCPUs are numbered 1.. in order of appearance, the harness's own are -1.., none = 0)
//   TaskDeleted{id} (destructor of the async functor)   BadTask{id,magic} (a functor that is not intact when run / deleted)
//   PoolDtorInv{by}  PoolDtorResp   Quiesce   Hang
#include "vt_photon.h"
#include <photon/thread/workerpool.h>
#include <memory>
#include <chrono>
using namespace photon;

static int g_vcpus = 3, g_threads = 4, g_ops = 5, g_execs = 50, g_mode = -1, g_poolv = 3;
static bool g_extheavy = false;      // --prim threadx / inlinex / pooledx: always an externally joined vCPU next to ONE owned vCPU, long sleeps
static uint64_t g_seed = 1;
static vtp::Vcpus g_vc;

// ---------------------------------------------------------------------------------------------- vCPU numbering
struct VcpuIds {
    std::atomic_flag lk = ATOMIC_FLAG_INIT;
    std::vector<vcpu_base*> seen;
    void lock() { while (lk.test_and_set(std::memory_order_acquire)) {} }
    void unlock() { lk.clear(std::memory_order_release); }
    void reset() { lock(); seen.clear(); unlock(); }
    int id() {
        if (!CURRENT) return 0;
        auto v = get_vcpu();
        for (size_t i = 0; i < g_vc.vc.size(); i++) if (g_vc.vc[i] == v) return -(int)(i + 1);
        lock();
        int r = 0;
        for (size_t i = 0; i < seen.size(); i++) if (seen[i] == v) r = (int)i + 1;
        if (!r) { seen.push_back(v); r = (int)seen.size(); }
        unlock();
        return r;
    }
};
static VcpuIds g_vid;

// ---------------------------------------------------------------------------------------------- task bodies
struct Body { int steps[4]; int n; };          // step: 0 nothing, 1..3 = that many yields, >= 10 sleep that many microseconds, -k spin
static Body random_body(vt::Rng& r) {
    Body b; b.n = 0;
    int c = (int)r.below(10);
    if (c < 3) return b;                                        // returns at once
    int n = 1 + (int)r.below(3);
    for (int i = 0; i < n; i++) {
        int k = (int)r.below(10);
        if (k < 4) b.steps[b.n++] = 1 + (int)r.below(3);
        else if (k < 8) { int c2 = (int)r.below(10); b.steps[b.n++] = c2 < 6 ? 10 + (int)r.below(400) : c2 < 9 ? 400 + (int)r.below(2500) : 3000 + (int)r.below(4000); }
        else b.steps[b.n++] = -(int)(1 + r.below(3000));
    }
    return b;
}
static const uint64_t MAGIC = 0x5ca1ab1e0000ull;
static void run_body(int id, const Body& b) {
    vt::Ev("TaskStart").i("id", id).i("v", g_vid.id());
    for (int i = 0; i < b.n; i++) {
        int s = b.steps[i];
        if (s >= 10) thread_usleep(s);
        else if (s > 0) { for (int k = 0; k < s; k++) thread_yield(); }
        else { for (volatile int k = 0; k < -s; k++) {} }
    }
    vt::Ev("TaskEnd").i("id", id).i("v", g_vid.id());
}
struct AsyncTask {                    // owned by the pool after async_call(): run once, then deleted by the pool
    uint64_t magic; int id; Body b;
    AsyncTask(int id_, const Body& b_) : magic(MAGIC + id_), id(id_), b(b_) {}
    void operator()() {
        if (magic != MAGIC + id) { vt::Ev("BadTask").i("id", id).i("magic", (int64_t)(magic & 0xffff)).s("at", "run"); return; }
        run_body(id, b);
    }
    ~AsyncTask() {
        if (magic != MAGIC + id) vt::Ev("BadTask").i("id", id).i("magic", (int64_t)(magic & 0xffff)).s("at", "delete");
        else vt::Ev("TaskDeleted").i("id", id);
        magic = 0xdead;
    }
};
struct CallTask {                     // lives in the caller's frame for the duration of call()
    uint64_t magic; int id; Body b;
    CallTask(int id_, const Body& b_) : magic(MAGIC + id_), id(id_), b(b_) {}
    void operator()() {
        if (magic != MAGIC + id) { vt::Ev("BadTask").i("id", id).i("magic", (int64_t)(magic & 0xffff)).s("at", "run"); return; }
        run_body(id, b);
    }
    ~CallTask() { magic = 0xdead; }
};
static void call_with_arg(CallTask* t, int check) {        // call(f, args...) form
    if (check != t->id) { vt::Ev("BadTask").i("id", t->id).i("magic", check).s("at", "arg"); return; }
    (*t)();
}

// ---------------------------------------------------------------------------------------------- one execution
struct Op { bool is_call; int id; int ctx; bool argform; Body b; int pause; };     // ctx: 0 Photon 1 Std 2 Auto
struct Sub {
    int sid; bool os; int vcpu; std::vector<Op> ops;
    std::atomic<bool> done{false}; const char* where = "";
    vtp::Worker w; std::thread th;
};
struct Exec {
    WorkPool* pool = nullptr;
    std::atomic<int> remaining{0};
    int dtor_by = 0;                  // 0: the submitter that finishes last, 1: main thread
    std::atomic<bool> dtor_done{false};
};
static void destroy_pool(Exec& x, int by) {
    vt::Ev("PoolDtorInv").i("by", by);
    delete x.pool;
    x.pool = nullptr;
    vt::Ev("PoolDtorResp");
    x.dtor_done = true;
}
static void submitter(Exec& x, Sub& s) {
    for (auto& op : s.ops) {
        if (op.is_call) {
            s.where = "call";
            vt::Ev("CallInv").i("s", s.sid).i("id", op.id).i("ctx", op.ctx).b("os", s.os);
            {
                CallTask t(op.id, op.b);
                if (op.argform) {
                    if (op.ctx == 0) x.pool->call<PhotonContext>(&call_with_arg, &t, op.id);
                    else if (op.ctx == 1) x.pool->call<StdContext>(&call_with_arg, &t, op.id);
                    else x.pool->call<AutoContext>(&call_with_arg, &t, op.id);
                } else {
                    if (op.ctx == 0) x.pool->call<PhotonContext>(t);
                    else if (op.ctx == 1) x.pool->call<StdContext>(t);
                    else x.pool->call<AutoContext>(t);
                }
            }
            vt::Ev("CallResp").i("s", s.sid).i("id", op.id);
        } else {
            s.where = "async_call";
            vt::Ev("AsyncInv").i("s", s.sid).i("id", op.id).b("os", s.os);
            x.pool->async_call(new AsyncTask(op.id, op.b));
            vt::Ev("AsyncResp").i("s", s.sid).i("id", op.id);
        }
        s.where = "between";
        if (op.pause) {
            if (s.os) { if (op.pause == 1) sched_yield(); else usleep(op.pause); }
            else { if (op.pause == 1) thread_yield(); else thread_usleep(op.pause); }
        }
    }
    if (x.remaining.fetch_sub(1) == 1 && x.dtor_by == 0) { s.where = "~WorkPool"; destroy_pool(x, s.sid); }
    s.where = "done";
    s.done = true;
}

static bool hang(const char* where, std::vector<std::unique_ptr<Sub>>& subs) {
    vt::Arr a; std::string wh;
    for (auto& s : subs) if (!s->done.load()) { a.i(s->sid); wh += std::to_string(s->sid); wh += ':'; wh += s->where; wh += ' '; }
    vt::Ev("Hang").raw("blocked", a.str()).s("where", wh + where).s("what", "workpool");
    vt::flush();
    return false;
}

static bool exec_pool(int ex, vt::Rng& r) {
    g_vid.reset();
    Exec x;
    int nv = 1 + (int)r.below(g_poolv);
    int ext = r.coin(30) ? 1 : 0;                              // one more vCPU joins through join_current_vcpu_into_workpool()
    if (ext && r.coin(60)) nv = 1;                             // ... and then often does a large share of the work
    if (g_extheavy) { ext = 1; nv = 1; }
    static const int rings[] = {2, 2, 4, 4, 64, 1, 3};
    int ring = rings[r.below(7)];
    int nsub = 1 + (int)r.below(g_threads);
    x.dtor_by = r.coin(75) ? 0 : 1;
    std::vector<std::unique_ptr<Sub>> subs;
    int next_id = 1;
    bool empty = r.coin(3);                                    // a pool that never gets a task
    for (int i = 0; i < nsub; i++) {
        subs.emplace_back(new Sub()); auto s = subs.back().get();
        s->sid = i + 1; s->os = r.coin(40); s->vcpu = (int)r.below(g_vc.vc.size());
        int nops = empty ? 0 : 1 + (int)r.below(g_ops);
        bool burst = r.coin(40);                               // a burst of async_call()s larger than a small ring
        for (int k = 0; k < nops && next_id <= 36; k++) {
            Op op; op.id = next_id++; op.b = random_body(r);
            if (g_extheavy && r.coin(50) && op.b.n < 4) op.b.steps[op.b.n++] = 2000 + (int)r.below(4000);
            op.is_call = burst ? (k == nops - 1 && r.coin(50)) : r.coin(50);
            op.ctx = s->os ? (r.coin(50) ? 1 : 2) : (r.coin(10) ? 1 : (r.coin(50) ? 0 : 2));
            op.argform = r.coin(30);
            op.pause = burst ? 0 : (r.coin(60) ? 0 : (r.coin(50) ? 1 : 10 + (int)r.below(300)));
            s->ops.push_back(op);
        }
    }
    int ntask = next_id - 1;
    vt::Ev("Reset").s("prim", std::string(g_mode < 0 ? "inline" : g_mode == 0 ? "thread" : "pooled") + (g_extheavy ? "x" : "")).i("ex", ex).i("mode", g_mode).i("nv", nv)
        .i("ext", ext).i("ring", ring).i("nsub", nsub).i("ntask", ntask).i("by", x.dtor_by);
    vt::Ev("PoolCtorInv");
    x.pool = new WorkPool(nv, INIT_EVENT_EPOLL, INIT_IO_NONE, g_mode, ring);
    vt::Ev("PoolCtorResp").i("n", x.pool->get_vcpu_num());
    std::thread extth; std::atomic<bool> ext_done{false};
    if (ext) {
        WorkPool* p = x.pool;
        extth = std::thread([p, &ext_done] {
            photon::init(INIT_EVENT_EPOLL, INIT_IO_NONE);
            vt::Ev("ExtJoinInv");
            int rr = p->join_current_vcpu_into_workpool();
            vt::Ev("ExtJoinResp").i("r", rr);
            photon::fini();
            ext_done = true;
        });
        uint64_t waited = 0;
        while (x.pool->get_vcpu_num() < nv + 1) {               // registered before any task is handed over
            thread_usleep(200); waited += 200;
            if (waited > 10 * 1000 * 1000) { hang("external worker never registered", subs); return false; }
        }
    }
    x.remaining = nsub;
    {
        vtp::GateGuard gg;
        for (auto& s : subs) {
            Sub* sp = s.get();
            if (sp->os) sp->th = std::thread([&x, sp] { while (!vtp::gate().load()) sched_yield(); submitter(x, *sp); });
            else { sp->w.id = sp->sid; sp->w.body = [&x, sp] { submitter(x, *sp); }; vtp::spawn_on(&sp->w, g_vc.vc[sp->vcpu]); }
        }
    }
    // wait for the submitters (the last one may be destroying the pool)
    // ... and, in some executions, interrupt photon submitters that are blocked inside call(): thread_interrupt() is what any
    // other component may do to a thread; call() must still not return before its task has finished.  Only where the main thread
    // destroys the pool (an interrupt is never aimed at a thread that may be inside ~WorkPool()); the submitters stay joinable
    // until the thread_join below, so their handles stay valid.
    bool intr = x.dtor_by == 1 && r.coin(60);
    int nintr = 0;
    uint64_t waited = 0;
    for (;;) {
        bool all = true;
        for (auto& s : subs) if (!s->done.load()) all = false;
        if (all) break;
        if (waited > 15 * 1000 * 1000) return hang("", subs);
        if (intr && nintr < 40)
            for (auto& s : subs)
                if (!s->os && !s->done.load() && !strcmp(s->where, "call") && r.coin(50)) {
                    vt::Ev("Intr").i("s", s->sid);
                    thread_interrupt(s->w.th, EINTR);
                    nintr++;
                }
        thread_usleep(300); waited += 300;
    }
    if (x.dtor_by == 1) {
        if (r.coin(50)) thread_usleep(r.below(1500));
        destroy_pool(x, 0);
    }
    if (!x.dtor_done.load()) return hang("pool not destroyed", subs);
    for (auto& s : subs) { if (s->os) s->th.join(); else thread_join(s->w.jh); }
    if (ext) {
        waited = 0;
        while (!ext_done.load()) {
            thread_usleep(300); waited += 300;
            if (waited > 10 * 1000 * 1000) { hang("join_current_vcpu_into_workpool never returned", subs); return false; }
        }
        extth.join();
    }
    vt::Ev("Quiesce");
    return true;
}

int main(int argc, char** argv) {
    std::string prim = vt::arg(argc, argv, "--prim", "inline");
    g_execs = atoi(vt::arg(argc, argv, "--execs", "50"));
    g_seed = strtoull(vt::arg(argc, argv, "--seed", "1"), 0, 10);
    g_vcpus = atoi(vt::arg(argc, argv, "--vcpus", "3"));
    g_threads = atoi(vt::arg(argc, argv, "--threads", "4"));
    g_ops = atoi(vt::arg(argc, argv, "--ops", "5"));
    g_poolv = atoi(vt::arg(argc, argv, "--poolvcpus", "3"));
    if (prim.size() > 1 && prim.back() == 'x') { g_extheavy = true; prim.pop_back(); }
    g_mode = prim == "inline" ? -1 : prim == "thread" ? 0 : prim == "pooled" ? 4 : atoi(prim.c_str());
    vt::open(vt::arg(argc, argv, "--out", "-"));
    set_log_output_level(ALOG_ERROR + 1);
    photon::init(INIT_EVENT_EPOLL, INIT_IO_NONE);
    vtp::t0() = photon::__update_now();
    g_vc.start(g_vcpus);
    vtp::Watchdog wd; wd.start(25, prim.c_str());
    vt::Rng r(g_seed * 1000003 + (uint64_t)(g_mode + 7) * 131 + (g_extheavy ? 17 : 0));
    int rc = 0;
    for (int ex = 0; ex < g_execs; ex++)
        if (!exec_pool(ex, r)) { rc = 4; break; }
    wd.end();
    vt::close();
    if (rc) _exit(rc);
    g_vc.stop();
    photon::fini();
    return 0;
}
