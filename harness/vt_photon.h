// Shared helpers for harnesses that drive the real photon runtime:
//  * Vcpus      : N vCPUs (main OS thread + N-1 std::threads that run photon::init and park)
//  * spawn_on   : create a joinable photon thread and migrate it to a vCPU
//  * Watch      : join with a deadline; a hang becomes a "Hang" event and exit code 4
//  * hook sink  : when the library is built with -DPHOTON_VERIF, Tier-B events emitted by the guarded hooks are
//                 appended to the same ndjson trace, with thread / object pointers mapped to small ids
//  * perturbation: bounded seeded delays at hook points (widens race windows; cannot block)
#pragma once
#include <photon/photon.h>
#include <photon/thread/thread.h>
#include <photon/thread/thread11.h>
#include <photon/common/alog.h>
#include <photon/common/verif-hook.h>
#include <thread>
#include <vector>
#include <atomic>
#include <map>
#include <functional>
#include <sched.h>
#include "vt.h"

namespace vtp {

struct Vcpus {
    std::vector<std::thread> os;
    std::vector<photon::vcpu_base*> vc;
    std::vector<photon::thread*> parked;
    std::atomic<int> ready{0};
    std::atomic<bool> stopping{false};
    int n = 1;
    // call from a thread that has already run photon::init()
    void start(int nv, uint64_t vcpu_flags = 0) {
        n = nv;
        vc.assign(nv, nullptr); parked.assign(nv, nullptr);
        vc[0] = photon::get_vcpu();
        for (int i = 1; i < nv; i++) {
            os.emplace_back([this, i, vcpu_flags] {
                photon::init(photon::INIT_EVENT_EPOLL, photon::INIT_IO_NONE);
                vc[i] = photon::get_vcpu();
                parked[i] = photon::CURRENT;
                ready++;
                while (!stopping.load()) photon::thread_usleep(-1UL);
                photon::fini();
            });
        }
        while (ready.load() < nv - 1) photon::thread_usleep(200);
    }
    void stop() {
        stopping = true;
        for (int i = 1; i < n; i++) photon::thread_interrupt(parked[i], EINTR);
        for (auto& t : os) t.join();
        os.clear();
    }
};

// ---- object / thread id registry for hook events (pointers -> small ids) ----
struct Registry {
    std::atomic_flag lk = ATOMIC_FLAG_INIT;
    std::map<const void*, int> ids;
    void lock() { while (lk.test_and_set(std::memory_order_acquire)) {} }
    void unlock() { lk.clear(std::memory_order_release); }
    void set(const void* p, int id) { lock(); ids[p] = id; unlock(); }
    void clear() { lock(); ids.clear(); unlock(); }
    int get(const void* p) {
        if (!p) return 0;
        lock(); auto it = ids.find(p); int r = it == ids.end() ? -1 : it->second; unlock(); return r;
    }
};
inline Registry& reg() { static Registry r; return r; }

// per-OS-thread perturbation state
struct Perturb {
    static std::atomic<uint64_t>& seed() { static std::atomic<uint64_t> s{0}; return s; }
    static std::atomic<int>& level() { static std::atomic<int> l{0}; return l; }   // 0 = off
    static void maybe() {
        int lv = level().load(std::memory_order_relaxed);
        if (!lv) return;
        static thread_local uint64_t s = 0;
        if (!s) s = seed().load() * 0x9E3779B97F4A7C15ull + (uint64_t)pthread_self();
        s ^= s << 13; s ^= s >> 7; s ^= s << 17;
        unsigned r = s & 0xff;
        if (r < 200) return;                       // most hook points: no delay
        if (r < 240) { for (volatile int i = 0; i < (int)((s >> 8) & 0x3ff); i++) {} return; }
        if (r < 252) { sched_yield(); return; }
        for (volatile int i = 0; i < 20000; i++) {}
    }
};

struct Worker {
    int id = 0;
    photon::thread* th = nullptr;
    photon::join_handle* jh = nullptr;
    std::function<void()> body;
    std::atomic<bool> done{false};
    const char* where = "";      // current operation (for Hang reports)
};

// start gate: workers begin their programs only after every worker of the execution has been created
inline std::atomic<bool>& gate() { static std::atomic<bool> g{true}; return g; }
struct GateGuard { GateGuard() { gate() = false; } ~GateGuard() { gate() = true; } void open() { gate() = true; } };

inline void* worker_entry(void* a) {
    auto w = (Worker*)a;
    while (!gate().load()) photon::thread_yield();
    w->body();
    w->done.store(true);
    return nullptr;
}

// creates the photon thread on the current vCPU and migrates it (while READY) to `target`
inline void spawn_on(Worker* w, photon::vcpu_base* target, uint64_t stack = 256 * 1024) {
    w->done = false;
    w->th = photon::thread_create(&worker_entry, w, stack);
    w->jh = photon::thread_enable_join(w->th);
    reg().set(w->th, w->id);
    if (target && target != photon::get_vcpu()) photon::thread_migrate(w->th, target);
}

// wait until all workers are done or the deadline passes; on a hang: Hang event + exit(4)
inline void join_all(std::vector<Worker*>& ws) { for (auto w : ws) photon::thread_join(w->jh); }
// waits for the done flags only (threads stay joinable, so their handles stay valid); call join_all afterwards
inline bool wait_done(std::vector<Worker*>& ws, uint64_t timeout_us, const char* what) {
    uint64_t waited = 0;
    while (true) {
        bool all = true;
        for (auto w : ws) if (!w->done.load()) { all = false; break; }
        if (all) break;
        if (waited > timeout_us) {
            vt::Arr a;
            for (auto w : ws) if (!w->done.load()) a.i(w->id);
            std::string wh;
            for (auto w : ws) if (!w->done.load()) { wh += std::to_string(w->id); wh += ':'; wh += w->where; wh += ' '; }
            vt::Ev("Hang").raw("blocked", a.str()).s("where", wh).s("what", what);
            vt::flush();
            return false;
        }
        photon::thread_usleep(500);
        waited += 500;
    }
    return true;
}

// Watchdog (plain OS thread): if no event has been recorded for `secs` seconds the process is stuck in a way the photon-level
// wait loops cannot see (e.g. an OS thread spinning forever on a spinlock).  It records a Hang event and ends the process
// with exit code 4; the trace up to that point shows which calls had been invoked and had not returned.
struct Watchdog {
    std::thread th; std::atomic<bool> stop{false};
    void start(int secs, const char* what) {
        th = std::thread([this, secs, what] {
            uint64_t last = vt::sink().n; int idle = 0;
            while (!stop.load()) {
                usleep(250 * 1000);
                uint64_t n = vt::sink().n;
                if (n != last) { last = n; idle = 0; continue; }
                if (++idle < secs * 4) continue;
                auto& s = vt::sink();
                for (int i = 0; i < 2000 && s.lk.test_and_set(std::memory_order_acquire); i++) usleep(1000);
                if (s.f) {
                    fwrite(s.buf.data(), 1, s.buf.size(), s.f);
                    fprintf(s.f, "{\"e\":\"Hang\",\"blocked\":[],\"where\":\"watchdog: no event recorded for %d s\",\"what\":\"%s\"}\n", secs, what);
                    fflush(s.f);
                }
                _exit(4);
            }
        });
    }
    void end() { stop = true; if (th.joinable()) th.join(); }
};

}  // namespace vtp
