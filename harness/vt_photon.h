// Shared helpers for harnesses that drive the real photon runtime:
//  * Vcpus      : N vCPUs (main OS thread + N-1 std::threads that run photon::init and park)
//  * spawn_on   : create a joinable photon thread and migrate it to a vCPU
//  * Watch      : join with a deadline; a hang becomes a "Hang" event and exit code 4
//  * hook sink  : when the library is built with -DPHOTON_VERIF, Tier-B events emitted by the guarded hooks are
//                 appended to the same ndjson trace, with thread / object pointers mapped to small ids
//  * perturbation: bounded seeded delays at hook points (widens race windows; cannot block)
#pragma once
#include <photon/photon.h>
#include <photon/thread/thread.h>
#include <photon/thread/thread11.h>
#include <photon/common/alog.h>
#include <photon/common/verif-hook.h>
#include <thread>
#include <vector>
#include <atomic>
#include <map>
#include <functional>
#include <sched.h>
#include "vt.h"

namespace vtp {

struct Vcpus {
    std::vector<std::thread> os;
    std::vector<photon::vcpu_base*> vc;
    std::vector<photon::thread*> parked;
    std::atomic<int> ready{0};
    std::atomic<bool> stopping{false};
    int n = 1;
    // call from a thread that has already run photon::init()
    void start(int nv, uint64_t vcpu_flags = 0) {
        n = nv;
        vc.assign(nv, nullptr); parked.assign(nv, nullptr);
        vc[0] = photon::get_vcpu();
        for (int i = 1; i < nv; i++) {
            os.emplace_back([this, i, vcpu_flags] {
                photon::init(photon::INIT_EVENT_EPOLL, photon::INIT_IO_NONE);
                vc[i] = photon::get_vcpu();
                parked[i] = photon::CURRENT;
                ready++;
                while (!stopping.load()) photon::thread_usleep(-1UL);
                photon::fini();
            });
        }
        while (ready.load() < nv - 1) photon::thread_usleep(200);
    }
    void stop() {
        stopping = true;
        for (int i = 1; i < n; i++) photon::thread_interrupt(parked[i], EINTR);
        for (auto& t : os) t.join();
        os.clear();
    }
};

// ---- object / thread id registry for hook events (pointers -> small ids) ----
struct Registry {
    std::atomic_flag lk = ATOMIC_FLAG_INIT;
    std::map<const void*, int> ids;
    void lock() { while (lk.test_and_set(std::memory_order_acquire)) {} }
    void unlock() { lk.clear(std::memory_order_release); }
    void set(const void* p, int id) { lock(); ids[p] = id; unlock(); }
    void clear() { lock(); ids.clear(); unlock(); }
    int get(const void* p) {
        if (!p) return 0;
        lock(); auto it = ids.find(p); int r = it == ids.end() ? -1 : it->second; unlock(); return r;
    }
};
inline Registry& reg() { static Registry r; return r; }

// per-OS-thread perturbation state
struct Perturb {
    static std::atomic<uint64_t>& seed() { static std::atomic<uint64_t> s{0}; return s; }
    static std::atomic<int>& level() { static std::atomic<int> l{0}; return l; }   // 0 = off
    static void maybe() {
        int lv = level().load(std::memory_order_relaxed);
        if (!lv) return;
        static thread_local uint64_t s = 0;
        if (!s) s = seed().load() * 0x9E3779B97F4A7C15ull + (uint64_t)pthread_self();
        s ^= s << 13; s ^= s >> 7; s ^= s << 17;
        unsigned r = s & 0xff;
        if (r < 200) return;                       // most hook points: no delay
        if (r < 240) { for (volatile int i = 0; i < (int)((s >> 8) & 0x3ff); i++) {} return; }
        if (r < 252) { sched_yield(); return; }
        for (volatile int i = 0; i < 20000; i++) {}
    }
    // end of an atomic bracket (the releasing store / the CAS of a lock word has just become visible): level 2 holds the thread
    // here for 20-80 us half of the time, so that whatever it still does "after the release" happens after other vCPUs reacted
    static void bracket_end() {
        int lv = level().load(std::memory_order_relaxed);
        if (lv < 2) { maybe(); return; }
        static thread_local uint64_t s = 0;
        if (!s) s = seed().load() * 0xD1B54A32D192ED03ull + (uint64_t)pthread_self();
        s ^= s << 13; s ^= s >> 7; s ^= s << 17;
        if (s & 1) return;
        timespec a, b; clock_gettime(CLOCK_MONOTONIC, &a);
        uint64_t ns = 20000 + ((s >> 8) % 60000);
        do { clock_gettime(CLOCK_MONOTONIC, &b); } while ((uint64_t)(b.tv_sec - a.tv_sec) * 1000000000ull + b.tv_nsec - a.tv_nsec < ns);
    }
};

struct Worker {
    int id = 0;
    photon::thread* th = nullptr;
    photon::join_handle* jh = nullptr;
    std::function<void()> body;
    std::atomic<bool> done{false};
    const char* where = "";      // current operation (for Hang reports)
};

// start gate: workers begin their programs only after every worker of the execution has been created
inline std::atomic<bool>& gate() { static std::atomic<bool> g{true}; return g; }
struct GateGuard { GateGuard() { gate() = false; } ~GateGuard() { gate() = true; } void open() { gate() = true; } };

inline void* worker_entry(void* a) {
    auto w = (Worker*)a;
    while (!gate().load()) photon::thread_yield();
    w->body();
    w->done.store(true);
    return nullptr;
}

// creates the photon thread on the current vCPU and migrates it (while READY) to `target`
inline void spawn_on(Worker* w, photon::vcpu_base* target, uint64_t stack = 256 * 1024) {
    w->done = false;
    w->th = photon::thread_create(&worker_entry, w, stack);
    w->jh = photon::thread_enable_join(w->th);
    reg().set(w->th, w->id);
    if (target && target != photon::get_vcpu()) photon::thread_migrate(w->th, target);
}

// wait until all workers are done or the deadline passes; on a hang: Hang event + exit(4)
inline void join_all(std::vector<Worker*>& ws) { for (auto w : ws) photon::thread_join(w->jh); }
// waits for the done flags only (threads stay joinable, so their handles stay valid); call join_all afterwards
inline bool wait_done(std::vector<Worker*>& ws, uint64_t timeout_us, const char* what) {
    uint64_t waited = 0;
    while (true) {
        bool all = true;
        for (auto w : ws) if (!w->done.load()) { all = false; break; }
        if (all) break;
        if (waited > timeout_us) {
            vt::Arr a;
            for (auto w : ws) if (!w->done.load()) a.i(w->id);
            std::string wh;
            for (auto w : ws) if (!w->done.load()) { wh += std::to_string(w->id); wh += ':'; wh += w->where; wh += ' '; }
            vt::Ev("Hang").raw("blocked", a.str()).s("where", wh).s("what", what);
            vt::flush();
            return false;
        }
        photon::thread_usleep(500);
        waited += 500;
    }
    return true;
}


// ---------------------------------------------------------------------------------------------------- hook sink (Tier B)
// Events emitted by the guarded hooks inside the library are appended to the same trace, named "h...".  Thread and object
// pointers are mapped to the small ids registered by the harness (0 = null, -1 = not registered).  Times are logged
// relative to t0().  An event raised inside a VT_ATOMIC bracket is appended while the bracket holds the sink lock.
extern "C" int photon_verif_sleepq_dump(const void* sq, const void** th, uint64_t* ts, int* idx, int max);
extern "C" int photon_verif_thread_sleepq_idx(const void* th);
inline uint64_t& t0() { static uint64_t t = 0; return t; }
inline int& in_bracket() { static thread_local int b = 0; return b; }
inline std::atomic<bool>& hooks_logged() { static std::atomic<bool> b{false}; return b; }
inline std::atomic<bool>& heap_logged() { static std::atomic<bool> b{false}; return b; }
typedef std::function<void(uint32_t, const void*, uint64_t, uint64_t, uint64_t)> hook_cb_t;
inline hook_cb_t& hook_callback() { static hook_cb_t cb; return cb; }     // scenario-specific gate / fault injection
inline int64_t rel(uint64_t ts) { return ts == (uint64_t)-1 ? -1 : (ts < t0() ? 0 : (int64_t)(ts - t0())); }

inline void hook_lock(int on) {
    auto& s = vt::sink();
    if (on) { s.lock(); in_bracket() = 1; }
    else { in_bracket() = 0; s.unlock(); Perturb::bracket_end(); }
}
inline void hook_emit(const std::string& j) {
    auto& s = vt::sink();
    if (in_bracket()) { s.buf += j; s.n++; return; }
    s.lock(); s.buf += j; s.n++; if (s.autoflush || s.buf.size() > (1 << 20)) s.flush_locked(); s.unlock();
}
inline void hook_fn(uint32_t id, const void* obj, uint64_t a, uint64_t b, uint64_t c) {
    struct After {      // the scenario callback / perturbation runs after the event has been recorded
        uint32_t id; const void* obj; uint64_t a, b, c;
        ~After() { if (!in_bracket()) { auto& cb = hook_callback(); if (cb) cb(id, obj, a, b, c); Perturb::maybe(); } }
    } after{id, obj, a, b, c};
    if (!hooks_logged().load(std::memory_order_relaxed)) return;
    char buf[256]; buf[0] = 0;
    auto T = [](const void* p) { return reg().get(p); };
    switch (id) {
    case VT_SLEEP: snprintf(buf, sizeof buf, "{\"e\":\"hSleep\",\"t\":%d,\"q\":%d,\"dl\":%lld,\"now\":%lld}\n", T(obj), T((void*)a), (long long)rel(b), (long long)rel(c)); break;
    case VT_WAKE: snprintf(buf, sizeof buf, "{\"e\":\"hWake\",\"t\":%d,\"r\":%d}\n", T(obj), (int)(int64_t)a); break;
    case VT_INTR: snprintf(buf, sizeof buf, "{\"e\":\"hIntr\",\"t\":%d,\"r\":%d,\"sb\":%d}\n", T(obj), (int)(int64_t)a, (int)b); break;
    case VT_INTR_READY: snprintf(buf, sizeof buf, "{\"e\":\"hIntrReady\",\"t\":%d,\"r\":%d,\"st\":%d}\n", T(obj), (int)(int64_t)a, (int)b); break;
    case VT_EXPIRE: snprintf(buf, sizeof buf, "{\"e\":\"hExpire\",\"t\":%d,\"now\":%lld,\"dl\":%lld}\n", T(obj), (long long)rel(a), (long long)rel(b)); break;
    case VT_DRAIN: snprintf(buf, sizeof buf, "{\"e\":\"hDrain\",\"t\":%d}\n", T(obj)); break;
    case VT_MTX_TRY: snprintf(buf, sizeof buf, "{\"e\":\"hMtxTry\",\"m\":%d,\"t\":%d,\"ok\":%d}\n", T(obj), T((void*)a), (int)b); break;
    case VT_MTX_UNLOCK: snprintf(buf, sizeof buf, "{\"e\":\"hMtxUnlock\",\"m\":%d,\"h\":%d,\"by\":%d,\"fl\":%d}\n", T(obj), T((void*)a), T((void*)b), (int)c); break;
    case VT_SEM_SUB: snprintf(buf, sizeof buf, "{\"e\":\"hSemSub\",\"s\":%d,\"n\":%d,\"ok\":%d,\"cnt\":%d}\n", T(obj), (int)a, (int)b, (int)c); break;
    case VT_SEM_ADD: snprintf(buf, sizeof buf, "{\"e\":\"hSemAdd\",\"s\":%d,\"n\":%d,\"cnt\":%d,\"lk\":%d}\n", T(obj), (int)a, (int)b, (int)c); break;
    case VT_SEM_RESUME: snprintf(buf, sizeof buf, "{\"e\":\"hSemResume\",\"s\":%d,\"t\":%d,\"left\":%d}\n", T(obj), T((void*)a), (int)b); break;
    case VT_RW_STATE: snprintf(buf, sizeof buf, "{\"e\":\"hRwState\",\"o\":%d,\"st\":%d,\"mode\":%d,\"t\":%d}\n", T(obj), (int)(int64_t)a, (int)b, T((void*)c)); break;
    case VT_RW_WAKE_READERS: snprintf(buf, sizeof buf, "{\"e\":\"hRwWakeReaders\",\"o\":%d}\n", T(obj)); break;
    case VT_STEAL: snprintf(buf, sizeof buf, "{\"e\":\"hSteal\",\"t\":%d,\"src\":%d,\"tidx\":%d}\n", T(obj), (int)c, photon_verif_thread_sleepq_idx(obj)); break;
    case VT_PRESWITCH: snprintf(buf, sizeof buf, "{\"e\":\"hPreSwitch\",\"t\":%d,\"to\":%d}\n", T(obj), T((void*)a)); break;
    case VT_HEAP_OP: {
        if (!heap_logged().load(std::memory_order_relaxed)) return;
        const void* th[64]; uint64_t ts[64]; int idx[64];
        int n = photon_verif_sleepq_dump(obj, th, ts, idx, 64);
        if (n > 64) return;       // too large to log; not an error
        int qid = T(obj);
        if (qid < 0) { static std::atomic<int> next{300}; qid = next++; reg().set(obj, qid); }
        std::string j = "{\"e\":\"hHeap\",\"q\":" + std::to_string(qid) + ",\"op\":" + std::to_string((int)a) + ",\"t\":" + std::to_string(T((void*)b)) + ",\"tidx\":" + std::to_string(photon_verif_thread_sleepq_idx((void*)b)) + ",\"n\":" + std::to_string((int)c) + ",\"a\":[";
        for (int i = 0; i < n; i++) { if (i) j += ','; j += '['; j += std::to_string(T(th[i])); j += ','; j += std::to_string((long long)rel(ts[i])); j += ','; j += std::to_string(idx[i]); j += ']'; }
        j += "]}\n";
        hook_emit(j); return; }
    default: return;
    }
    if (buf[0]) hook_emit(buf);
}
inline void install_hooks(bool log_events, bool log_heap = false) {
    hooks_logged() = log_events; heap_logged() = log_heap;
    photon_verif_lock = &hook_lock;
    photon_verif_hook = &hook_fn;
}

// Watchdog (plain OS thread): if no event has been recorded for `secs` seconds the process is stuck in a way the photon-level
// wait loops cannot see (e.g. an OS thread spinning forever on a spinlock).  It records a Hang event and ends the process
// with exit code 4; the trace up to that point shows which calls had been invoked and had not returned.
struct Watchdog {
    std::thread th; std::atomic<bool> stop{false};
    void start(int secs, const char* what) {
        th = std::thread([this, secs, what] {
            uint64_t last = vt::sink().n; int idle = 0;
            while (!stop.load()) {
                usleep(250 * 1000);
                uint64_t n = vt::sink().n;
                if (n != last) { last = n; idle = 0; continue; }
                if (++idle < secs * 4) continue;
                auto& s = vt::sink();
                for (int i = 0; i < 2000 && s.lk.test_and_set(std::memory_order_acquire); i++) usleep(1000);
                if (s.f) {
                    fwrite(s.buf.data(), 1, s.buf.size(), s.f);
                    fprintf(s.f, "{\"e\":\"Hang\",\"blocked\":[],\"where\":\"watchdog: no event recorded for %d s\",\"what\":\"%s\"}\n", secs, what);
                    fflush(s.f);
                }
                _exit(4);
            }
        });
    }
    void end() { stop = true; if (th.joinable()) th.join(); }
};

}  // namespace vtp
