---- MODULE Trace_RingA ----
(* C07, Tier-A trace validation of the lock-free ring queues and of RingChannel / FlexRingChannel (common/lockfree_queue.h),  *)
(* harness/h_ring.cpp.  The recorded history must be a behaviour of the ABSTRACT object: one bounded FIFO `q` of capacity   *)
(* cap; every call takes effect atomically at one instant between its Inv and its Resp (silent Lin steps).                   *)
(*   push / push_batch(vals) -> k : the first k values are appended at one instant, Len(q) + k <= cap (CapacityBound);       *)
(*        k < asked only if the queue was that full at one instant of the call, not later than the instant the values         *)
(*        appear (the code computes the room from one read of the indices and publishes afterwards): Occupancy + k >= cap,    *)
(*        where Occupancy is what the queue's full test counts: pfail = "strict" (MPMC: indices move at the claim) Len(q);    *)
(*        pfail = "pops" (SPSC: the consumer moves head after copying) Len(q) + values taken by pops that have not returned;  *)
(*        pfail = "inflight" (batch MPMC: tail counts claimed, head counts completed) additionally + values of other pushes   *)
(*        invoked and not yet effective; pfail = "free": a push may be refused freely (MPMC push() next to fetch_add recv():  *)
(*        outside what C07 states);                                                                                           *)
(*   send(v) (blocking)       : appended at an instant with Len(q) < cap;                                                     *)
(*   pop / pop_batch(n) -> vals : vals are the first Len(vals) elements of q at one instant (so: only values that were        *)
(*        pushed with success, each at most once, FIFO, per-producer order); fewer than asked only if the queue held         *)
(*        exactly that many;                                                                                                  *)
(*   recv() (blocking) -> v   : v = Head(q) at an instant with q non-empty;                                                   *)
(*   Settle{blocked}          : the harness found every thread that is inside a call asleep (photon state SLEEPING at two     *)
(*        inspections 10 ms apart, nothing else in flight): those calls have not taken effect, a receiver is asleep only     *)
(*        while q is empty and a sender only while q is full (no lost wake-up of RingChannel);                                *)
(*   Quiesce{left}            : after the harness drained the queue with ordinary pops nothing is pending and                *)
(*        Len(q) = left = read_available() (so every value reported pushed was received exactly once).                       *)
(*   Gate{..}, Observed{..}   : bookkeeping of the directed scenarios (a thread held right before idler.fetch_add /           *)
(*        send_waiters.fetch_add while the partner call completes); no condition.                                           *)
(*   A Hang event has no action.                                                                                              *)
(* Silent steps are taken only right before a Resp / Settle / Quiesce event (a linearization point commutes with later        *)
(* invocations, so this loses no behaviour).                                                                                  *)
EXTENDS Naturals, Integers, Sequences, FiniteSets, TLC, Json, IOUtils
Tr == ndJsonDeserialize(IOEnv.TRACE)
T == 1..9
NoOp == [op |-> "none", st |-> "none", vals |-> <<>>, n |-> 0, blk |-> FALSE]
VARIABLES l, cap, pfail, q, pend
vars == <<l, cap, pfail, q, pend>>
Init == l = 1 /\ cap = 2 /\ pfail = "strict" /\ q = <<>> /\ pend = [t \in T |-> NoOp] /\ TLCSet(1, 0)
Ev(e) == l <= Len(Tr) /\ Tr[l].e = e /\ l' = l + 1
R == Tr[l]
Pushes == {"push", "pushn", "send"}
Pops == {"pop", "popn", "recv"}
Reset == /\ Ev("Reset") /\ cap' = R.cap /\ pfail' = R.pfail /\ q' = <<>> /\ pend' = [t \in T |-> NoOp]
\* Inv{t, op, vals (pushes), n (pops: number asked)}
Inv == /\ Ev("Inv") /\ pend[R.t].op = "none"
       /\ pend' = [pend EXCEPT ![R.t] = [op |-> R.op, st |-> "inv", vals |-> IF R.op \in Pushes THEN R.vals ELSE <<>>,
                                          n |-> IF R.op \in Pushes THEN Len(R.vals) ELSE R.n, blk |-> R.op \in {"send", "recv"}]]
       /\ UNCHANGED <<cap, pfail, q>>
Now == l <= Len(Tr) /\ Tr[l].e \in {"Resp", "Settle", "Quiesce"}
Sum(f, S) == LET RECURSIVE sm(_) sm(X) == IF X = {} THEN 0 ELSE LET x == CHOOSE y \in X : TRUE IN f[x] + sm(X \ {x}) IN sm(S)
\* values in flight around thread t: taken by pops that have not returned yet; asked / reserved by pushes that are not effective yet
PopsInFlight(t) == Sum([u \in T |-> IF u # t /\ pend[u].op \in Pops /\ pend[u].st = "lin" THEN Len(pend[u].vals) ELSE 0], T)
PushesInFlight(t) == Sum([u \in T |-> IF u # t /\ pend[u].op \in Pushes /\ pend[u].st \in {"inv", "dec"} THEN pend[u].n ELSE 0], T)
\* what the full test of the queue counts at one instant (see the header comment)
Occupancy(t) == Len(q) + (IF pfail = "strict" THEN 0 ELSE PopsInFlight(t)) + (IF pfail = "inflight" THEN PushesInFlight(t) ELSE 0)
\* a push that accepts everything takes effect in one step
LinPush(t) == /\ Now /\ pend[t].op \in Pushes /\ pend[t].st = "inv"
              /\ Len(q) + pend[t].n <= cap
              /\ q' = q \o pend[t].vals
              /\ pend' = [pend EXCEPT ![t].st = "lin"]
              /\ UNCHANGED <<l, cap, pfail>>
\* a push that accepts only k < asked values decides that at one instant at which the queue is that full (Decide), and the k
\* values become visible at the same or a later instant of the call (Effect) - as the code does: the room is computed from one
\* read of the indices, the elements are published by a later store
Decide(t) == /\ Now /\ pend[t].op \in Pushes /\ pend[t].st = "inv" /\ ~pend[t].blk
             /\ \E k \in 0..pend[t].n - 1 :
                   /\ pfail = "free" \/ Occupancy(t) + k >= cap
                   /\ pend' = [pend EXCEPT ![t].st = "dec", ![t].n = k]
             /\ UNCHANGED <<l, cap, pfail, q>>
Effect(t) == /\ Now /\ pend[t].op \in Pushes /\ pend[t].st = "dec"
             /\ Len(q) + pend[t].n <= cap
             /\ q' = q \o SubSeq(pend[t].vals, 1, pend[t].n)
             /\ pend' = [pend EXCEPT ![t].st = "lin"]
             /\ UNCHANGED <<l, cap, pfail>>
LinPop(t) == /\ Now /\ pend[t].op \in Pops /\ pend[t].st = "inv"
             /\ LET k == IF Len(q) < pend[t].n THEN Len(q) ELSE pend[t].n IN     \* takes min(asked, available)
                /\ pend[t].blk => k = 1
                /\ q' = SubSeq(q, k + 1, Len(q))
                /\ pend' = [pend EXCEPT ![t].st = "lin", ![t].vals = SubSeq(q, 1, k)]
             /\ UNCHANGED <<l, cap, pfail>>
\* Resp{t, op, k (pushes: values accepted), vals (pops: values returned)}
Resp == /\ Ev("Resp")
        /\ LET p == pend[R.t] IN
           /\ p.op = R.op /\ p.st = "lin"
           /\ IF R.op \in Pushes THEN p.n = R.k ELSE p.vals = R.vals
        /\ pend' = [pend EXCEPT ![R.t] = NoOp]
        /\ UNCHANGED <<cap, pfail, q>>
BlockedSet == {R.blocked[i][1] : i \in 1..Len(R.blocked)}
Settle == /\ Ev("Settle")
          /\ \A i \in 1..Len(R.blocked) : LET p == pend[R.blocked[i][1]] IN
                /\ p.st = "inv"
                /\ IF R.blocked[i][2] = 1 THEN p.op = "send" /\ Len(q) = cap       \* a sender sleeps only on a full queue
                                          ELSE p.op = "recv" /\ q = <<>>           \* a receiver sleeps only on an empty queue
          /\ \A t \in T \ BlockedSet : pend[t].op = "none" \/ pend[t].st = "inv"    \* (a call invoked after the inspection, not yet effective)
          /\ UNCHANGED <<cap, pfail, q, pend>>
Quiesce == /\ Ev("Quiesce") /\ \A t \in T : pend[t].op = "none" /\ Len(q) = R.left
           /\ UNCHANGED <<cap, pfail, q, pend>>
\* directed scenario bookkeeping (whether the held thread reached its gate): informational
Gate == (Ev("Gate") \/ Ev("Observed")) /\ UNCHANGED <<cap, pfail, q, pend>>
Next == Reset \/ Inv \/ Resp \/ Settle \/ Quiesce \/ Gate \/ \E t \in T : LinPush(t) \/ Decide(t) \/ Effect(t) \/ LinPop(t)
Spec == Init /\ [][Next]_vars
NotAccepted == l <= Len(Tr)
Progress == TLCSet(1, IF TLCGet(1) < l THEN l ELSE TLCGet(1))
Post == PrintT(<<"MAXL", TLCGet(1), Len(Tr)>>)
====
