SPECIFICATION Spec
CONSTANTS
  K = 2
  WProgs <- W11
  RProgs <- R11
  RawW = FALSE
  RawR = FALSE
  RawTotal = 0
  Tmos <- TI
  MaxT = 0
  Spurious = FALSE
  Interrupts = TRUE
  Bug = "none"
INVARIANTS ViewIsFunctionOfMoved StreamExact ReadWriteComplete RecvSendBounds NoHangPastTimeout WaitsOnlyForData
CHECK_DEADLOCK FALSE
