SPECIFICATION Spec
CONSTANTS
  K = 2
  WProgs <- W11
  RProgs <- R11
  RawW = FALSE
  RawR = FALSE
  RawTotal = 0
  Tmos <- T1
  MaxT = 1
  Spurious = TRUE
  Interrupts = FALSE
  Bug = "none"
INVARIANTS ViewIsFunctionOfMoved StreamExact ReadWriteComplete RecvSendBounds NoHangPastTimeout WaitsOnlyForData
CHECK_DEADLOCK FALSE
