---- MODULE Trace_SleepA ----
(* Tier-A trace validation of the scheduler's sleep / interrupt contract (C04) on recorded executions                  *)
(* (h_sync --prim sleep: populations of sleepers with equal, different, zero and infinite deadlines on 1-3 vCPUs,      *)
(* yields, same-vCPU / cross-vCPU interrupts each carrying a unique reason).                                           *)
(*   usleep(d) = 0  only for a finite d and only after d elapsed on the runtime clock (dt >= d);                       *)
(*   usleep = -1/e  only if an interrupt with reason e was issued to this thread, is consumed by no other sleep, and    *)
(*                  was not already complete before this sleep was invoked (never delivered to a later sleep);         *)
(*   no later than the first scheduling round after the deadline: if sleep A (same vCPU, invoked after sleep B, later   *)
(*          deadline than B) ran to its deadline, and the same thread then completed ANOTHER full sleep to its deadline *)
(*          (so a second expiry pass took place), B -- whose deadline had passed at the first of these passes -- must   *)
(*          not still be asleep and then report a normal expiry: it was passed over in an expiry pass.  (The order in   *)
(*          which threads woken by the same pass get to run is not constrained.)                                       *)
(*   Quiesce: no thread is left in any sleep queue; a Hang (a finite sleeper that never woke) has no action.           *)
(* KF_F2 (environment KF_F2=1) additionally accepts the recorded defect F2, and only it: a reason left by an interrupt *)
(* that had completed before the sleep was invoked AND whose target was READY when thread_interrupt() looked at it      *)
(* (recorded state 0 READY, or 1 RUNNING / 8 STANDBY an instant earlier)      , is returned by that thread's later sleep.  *)
EXTENDS Naturals, Integers, Sequences, FiniteSets, TLC, Json, IOUtils
Tr == ndJsonDeserialize(IOEnv.TRACE)
KF_F2 == "KF_F2" \in DOMAIN IOEnv /\ IOEnv.KF_F2 = "1"
T == (1..16) \cup {91}
NoOp == [op |-> "none", us |-> 0, exp |-> 0, v |-> 0, pos |-> 0, over |-> FALSE, ov1 |-> {}, e |-> 0, target |-> 0]
VARIABLES l, pend, intrs
vars == <<l, pend, intrs>>
Init == l = 1 /\ pend = [t \in T |-> NoOp] /\ intrs = {} /\ TLCSet(1, 0)
Ev(e) == l <= Len(Tr) /\ Tr[l].e = e /\ l' = l + 1
R == Tr[l]
Reset == Ev("Reset") /\ pend' = [t \in T |-> NoOp] /\ intrs' = {}
Inv == /\ Ev("Inv") /\ pend[R.t].op = "none"
       /\ CASE R.op = "usleep" ->
                 /\ pend' = [pend EXCEPT ![R.t] = [NoOp EXCEPT !.op = "usleep", !.us = R.us, !.exp = R.exp, !.v = R.v, !.pos = l]]
                 /\ UNCHANGED intrs
            [] R.op = "interrupt" ->
                 /\ pend' = [pend EXCEPT ![R.t] = [NoOp EXCEPT !.op = "interrupt", !.e = R.err, !.target = R.target]]
                 /\ intrs' = intrs \cup {[e |-> R.err, target |-> R.target, rpos |-> 0, used |-> FALSE, st |-> R.st]}
            [] R.op = "yield" -> pend' = [pend EXCEPT ![R.t] = [NoOp EXCEPT !.op = "yield"]] /\ UNCHANGED intrs
Deliverable(i, t, en) ==
  /\ i.target = t /\ i.e = en
  /\ \/ ~i.used /\ (i.rpos = 0 \/ i.rpos > pend[t].pos)
     \/ KF_F2 /\ i.st \in {0, 1, 8} /\ (i.used \/ (i.rpos # 0 /\ i.rpos < pend[t].pos))  \* F2 (i.used: reported once by a zero-length sleep = yield, which does not clear it, and now again): stale reason of an interrupt to a READY thread (possibly
                                                                    \* already reported once by the yield it interrupted).  st is read
                                                                    \* by the harness just before the call: a target seen RUNNING (1) or STANDBY (8) on
                                                                    \* another vCPU may be READY by the time thread_interrupt() looks
                                                                    \* (a target still RUNNING then is not touched at all)
Overtakes(a, b) ==     \* sleep a (returning 0 now) passes over pending sleep b
  /\ pend[b].op = "usleep" /\ b # a /\ pend[b].v = pend[a].v
  /\ pend[b].pos < pend[a].pos /\ pend[b].exp >= 0 /\ pend[a].exp >= 0 /\ pend[b].exp < pend[a].exp
Resp == /\ Ev("Resp")
        /\ LET t == R.t  p == pend[t] IN
           /\ p.op = R.op
           /\ CASE R.op = "usleep" ->
                     IF R.r = 0
                     THEN /\ p.us >= 0 /\ R.dt >= p.us /\ ~p.over
                          /\ pend' = [b \in T |-> IF b = t THEN NoOp
                                                  ELSE IF pend[b].op = "usleep" /\ t \in pend[b].ov1 /\ p.us > 0 /\ p.pos > pend[b].pos
                                                       THEN [pend[b] EXCEPT !.over = TRUE]        \* second full sleep of an overtaker
                                                  ELSE IF Overtakes(t, b) THEN [pend[b] EXCEPT !.ov1 = @ \cup {t}] ELSE pend[b]]
                          /\ UNCHANGED intrs
                     ELSE /\ \E i \in intrs : /\ Deliverable(i, t, R.en)
                                              /\ intrs' = (intrs \ {i}) \cup {[i EXCEPT !.used = TRUE]}
                          /\ pend' = [pend EXCEPT ![t] = NoOp]
                [] R.op = "interrupt" ->
                     /\ intrs' = {IF i.e = p.e THEN [i EXCEPT !.rpos = l] ELSE i : i \in intrs}
                     /\ pend' = [pend EXCEPT ![t] = NoOp]
                [] R.op = "yield" ->      \* a yield that reports a stored reason (R.r) does not clear it: it counts as reported once
                     /\ pend' = [pend EXCEPT ![t] = NoOp]
                     /\ intrs' = {IF i.target = t /\ i.e = R.r /\ R.r # 0 THEN [i EXCEPT !.used = TRUE] ELSE i : i \in intrs}
Quiesce == /\ Ev("Quiesce") /\ \A t \in T : pend[t].op = "none"
           /\ \A k \in 1..Len(R.sleeping) : R.sleeping[k] = 0
           /\ UNCHANGED <<pend, intrs>>
Next == Reset \/ Inv \/ Resp \/ Quiesce
Spec == Init /\ [][Next]_vars
NotAccepted == l <= Len(Tr)
Progress == TLCSet(1, IF TLCGet(1) < l THEN l ELSE TLCGet(1))
Post == PrintT(<<"MAXL", TLCGet(1), Len(Tr)>>)
====
