\* C18 RangeLock with the proposed repairs (FixEmpty: ranges covering no byte are granted without being stored; FixAdjust: adjust_range wakes waiters): every invariant on the whole scope. Quick tier: word 0..2, lock() and try_lock_wait callers.
SPECIFICATION Spec
CONSTANTS
  MAXU = 2
  Offs = {0,1,2}
  Lens = {0,1,2,3}
  Threads = {t1,t2,t3}
  t1 = t1
  t2 = t2
  t3 = t3
  MaxOps = 2
  Kinds = {"lock","try1"}
  MaxIntr = 0
  FixEmpty = TRUE
  FixAdjust = TRUE
  Broken = "none"
  OnlyNonEmpty = FALSE
SYMMETRY Sym
CHECK_DEADLOCK FALSE
INVARIANTS TypeOK HeldDisjoint IndexOrdered LookupExact IndexIsHeld WaiterAttached NoStaleWaiter NoStuck
