SPECIFICATION Spec
CONSTANTS
  t1 = t1
  t2 = t2
  t3 = t3
  f1 = f1
  f2 = f2
  FDS = {f1, f2}
  Threads = {t1, t2}
  B = 2
  Bug = "nodrain"
SYMMETRY Sym2
INVARIANTS NoDanglingEvent
PROPERTY TimeoutIsolated
CHECK_DEADLOCK FALSE
