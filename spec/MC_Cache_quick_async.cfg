\* quick: in-memory map, asynchronous writer, refill unit = 2 blocks, capacity 0 (every write -> forceRecycle sweep) + 1 external eviction, 3 ranges
SPECIFICATION Spec
CONSTANTS
  NF = 1
  SZ = 7
  BLK = 2
  RU = 4
  Readers = {r1, r2}
  r1 = r1
  r2 = r2
  ReadSet <- RS_q3
  NReads = 1
  MaxEv = 1
  Async = TRUE
  MaxRefilling = 1
  Faults = 0
  Fiemap = FALSE
  CapFull = TRUE
  ReopenMax = 0
  PunchMax = 0
  PunchGuard = FALSE
  Bug = "none"
SYMMETRY Sym
INVARIANTS ReadsEqualSource FailedSourceNeverWrongBytes NeverBeyondSize MediaOnlyCorrectOrHole RefillDedup RangeLockDisjoint RefillingCount LocksAtRest TypeOK
