SPECIFICATION FairSpec
CONSTANTS
  Kind = "mpmc"
  Cap = 2
  M = 8
  MarkMod = 8
  Prod = {1, 2}
  Cons = {3}
  Prog <- Prog_w21
  StartSet = {5, 6, 7}
  Bug = "none"
INVARIANTS ExactlyOnce FifoLinearizable PerProducerOrder CapacityBound NoTornSlot
PROPERTY Terminates
