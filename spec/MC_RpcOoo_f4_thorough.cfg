\* C11 thorough: the code as written against the strict NoAccessAfterReturn: EXPECTED TO BE VIOLATED (finding F4; the check
\* verifies that the counterexample has F4's shape).  3 callers, responses in all orders (header and body separate arrivals), 2 deadline(s) may pass anywhere, 1 stream error(s), 1 unknown-or-duplicate response(s)
SPECIFICATION Spec
CONSTANTS
  C = {c1, c2, c3}
  Timed = {c1, c2, c3}
  MaxExpire = 2
  MaxErr = 1
  MaxBogus = 1
  Variant = "asis"
  EarlyResponse = FALSE
INVARIANTS NoAccessAfterReturn
SYMMETRY Sym
CHECK_DEADLOCK FALSE
