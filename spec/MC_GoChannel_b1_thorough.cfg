\* buffered cap 1, repaired protocol, 2 senders x 1 call, 1 receiver x 2 calls, with and without timeout, close()
SPECIFICATION Spec
CONSTANTS
  Cap = 1
  S = {"s1", "s2"}
  R = {"r1"}
  NV = 1
  NR = 2
  SKinds = {"inf", "timed"}
  RKinds = {"inf", "timed"}
  WithClose = TRUE
  KF = {}
INVARIANTS TypeOK DeliveredExactlyOnce PerSenderOrder FalseOnlyOnCloseOrTimeout DrainAfterClose ReleasedWhenPartnerExists ReleasedOnClose
CHECK_DEADLOCK FALSE
