SPECIFICATION Spec
CONSTANTS
  Classify = FALSE
  KF_NestedAligned = FALSE
  KF_MapSlices = FALSE
  KF_FixedLen = FALSE
  KF_ArrayWalk = FALSE
  KF_Checksum = FALSE
INVARIANT NotAccepted
CHECK_DEADLOCK FALSE
