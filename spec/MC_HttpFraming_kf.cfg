\* C13 known-finding configuration: the transcription with ONE deviation of the code enabled (environment variable KF =
\* verbStrlen | staleHeaderRead | zeroWrite | icmpYZ | headChunked).  TLC is EXPECTED to report a violated invariant; the counterexample documents
\* the finding.  Constants are scaled down so that the runaway header loop of staleHeaderRead stays short.
SPECIFICATION Spec
CONSTANTS
  MaxTransfer = 64
  ReservedIndex = 16
  LineBuf = 64
  KF <- KFEnv
  Scope = "kf"
  Msgs <- ScopeMsgs
  MaxCuts = 1
  Bytewise = TRUE
  ReadSizes = {1, 1000000}
  Cap = 200
  Stales = {0, 13}
INVARIANTS FragmentationIndependent BodyExactThenEOF WriterReaderRoundTrip MalformedTerminates InBounds
CHECK_DEADLOCK FALSE
