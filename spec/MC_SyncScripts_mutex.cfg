SPECIFICATION Spec
CONSTANTS
  NT = 3
  MaxLen = 4
  Kind = "mutex"
INVARIANT Emit
CHECK_DEADLOCK FALSE
