SPECIFICATION Spec
CONSTANTS
  NT = 3
  MaxLen = 6
  Kind = "mutex"
INVARIANT Emit
CHECK_DEADLOCK FALSE
