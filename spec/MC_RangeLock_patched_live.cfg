\* C18 RangeLock with the proposed repairs: liveness under weak fairness of every thread, callers using only the blocking lock() (plus adjust / unlock).
SPECIFICATION FairSpec
CONSTANTS
  MAXU = 2
  Offs = {0,1,2}
  Lens = {0,1,2,3}
  Threads = {t1,t2,t3}
  t1 = t1
  t2 = t2
  t3 = t3
  MaxOps = 2
  Kinds = {"lock"}
  MaxIntr = 0
  FixEmpty = TRUE
  FixAdjust = TRUE
  Broken = "none"
  OnlyNonEmpty = FALSE
CHECK_DEADLOCK FALSE
INVARIANTS TypeOK HeldDisjoint
PROPERTY WaitersProceed
