---- MODULE MC_ObjectCache ----
EXTENDS ObjectCache
CONSTANTS t1, t2, t3
Perm2 == Permutations({t1, t2})
Perm3 == Permutations({t1, t2, t3})
====
