---------------------------- MODULE HttpFraming ----------------------------
(* Step machine over HttpFramingOps explored exhaustively by TLC (C13).                       *)
(* One behaviour = one message of the scope, one fragmentation of its bytes into recv()      *)
(* results, one read size: receive_bytes is called until the header is parsed (one step per  *)
(* call), the body read stream is created as in prepare_body_read_stream, read(rs) is called *)
(* until it returns <= 0 (one step per call) and once more after end-of-body.                 *)
(* Message kinds: "resp" / "resph" (response to GET / HEAD), "req": whole messages;           *)
(* "cbody", "lbody" (field dn = declared length), "xbody": body streams created directly on   *)
(* a partial body (the first fragment when pf) -- chunked, fixed length, close-delimited;     *)
(* "wchunk" / "wlen": a body written through the transcribed writers (fields data, sizes,     *)
(* dn) and read back.                                                                         *)
EXTENDS HttpFramingOps
CONSTANTS Msgs,          \* set of message records of the scope
          MaxCuts,       \* every set of at most MaxCuts cut positions (0..3), plus one byte per recv when Bytewise
          Bytewise,
          ReadSizes,     \* sizes of the caller's read(); INF = larger than any body
          Cap,           \* capacity of the receive buffer
          Stales         \* values of the byte behind the received data (stale buffer content)
VARIABLES msg, wire, ref, frags, rs, pc, H, R, out, rets, ops, nsteps, bad
vars == <<msg, wire, ref, frags, rs, pc, H, R, out, rets, ops, nsteps, bad>>
INF == 1000000

CutSets(L) == {<<>>}
   \cup (IF MaxCuts >= 1 THEN {<<a>> : a \in 1..(L - 1)} ELSE {})
   \cup (IF MaxCuts >= 2 THEN {c \in (1..(L - 1)) \X (1..(L - 1)) : c[1] < c[2]} ELSE {})
   \cup (IF MaxCuts >= 3 THEN {c \in (1..(L - 1)) \X (1..(L - 1)) \X (1..(L - 1)) : c[1] < c[2] /\ c[2] < c[3]} ELSE {})
   \cup (IF Bytewise /\ L > 1 THEN {[i \in 1..(L - 1) |-> i]} ELSE {})

Init ==
  \E m \in Msgs : \E st \in (IF m.kind \in HeadKinds THEN Stales ELSE {CHOOSE x \in Stales : TRUE}) :    \* the body streams read no stale byte
    LET w == Wire(m) IN
    \E cs \in CutSets(Len(w)) : \E pf \in (IF m.kind \in HeadKinds THEN {FALSE} ELSE BOOLEAN) :
      LET fr == Fragment(w, cs, 0)
          partial == IF pf /\ fr # <<>> THEN Head(fr) ELSE <<>>
          rest == IF pf /\ fr # <<>> THEN Tail(fr) ELSE fr
          k == ReaderKind(m)
      IN /\ msg = m /\ wire = w /\ ref = Expect(m, Own(m, w))
         /\ frags = rest /\ rs = 0 /\ out = <<>> /\ rets = <<>> /\ ops = 0 /\ nsteps = 0 /\ bad = {}
         /\ H = [HInit EXCEPT !.oob = FALSE] @@ [stale |-> st]
         /\ IF m.kind \in HeadKinds THEN pc = "hdr" /\ R = [t |-> "none"]
            ELSE /\ pc = "body"
                 /\ R = IF k = "cbody" THEN [t |-> "chunked", st |-> ChunkInit(partial)]
                        ELSE [t |-> "plain", st |-> BodyInit(partial, IF k = "lbody" THEN m.dn ELSE -1)]

Fuel == 4 * Len(wire) + 20
RecvHdr ==
  /\ pc = "hdr"
  /\ LET r == ReceiveBytes(msg.kind, H, frags, Cap, H.stale) IN
     /\ frags' = r.frags /\ ops' = ops + r.ops
     /\ IF r.H.rc = 2 THEN H' = r.H /\ UNCHANGED <<pc, R>>
        ELSE IF r.H.rc = 1 THEN H' = r.H /\ pc' = "done" /\ UNCHANGED R
        ELSE IF r.H.rc < 0 THEN H' = r.H /\ pc' = "done" /\ UNCHANGED R
        ELSE \* prepare_body_read_stream
             LET partial == Sub0(r.H.buf, r.H.body[1], r.H.body[2]) IN
             IF UseChunkedReader(msg.kind, r.H)
             THEN IF HeadersSpaceRemain(r.H, Cap) < LineBuf THEN H' = [r.H EXCEPT !.rc = -1] /\ pc' = "done" /\ UNCHANGED R
                  ELSE H' = r.H /\ pc' = "body" /\ R' = [t |-> "chunked", st |-> ChunkInit(partial)]
             ELSE H' = r.H /\ pc' = "body" /\ R' = [t |-> "plain", st |-> BodyInit(partial, BodySize(msg.kind, r.H))]
  /\ nsteps' = nsteps + 1
  /\ UNCHANGED <<msg, wire, ref, rs, out, rets, bad>>

DoRead(size) ==
  LET r == IF R.t = "chunked" THEN ChunkedRead(R.st, frags, size, Fuel) ELSE BodyRead(R.st, frags, size) IN
  /\ R' = [R EXCEPT !.st = r.st] /\ frags' = r.frags /\ ops' = ops + r.ops
  /\ rets' = Append(rets, r.ret)
  /\ out' = IF r.ret > 0 THEN out \o r.data ELSE out
  /\ bad' = bad \cup (IF r.runaway THEN {"runaway"} ELSE {}) \cup (IF r.ret > size THEN {"more than asked"} ELSE {})
  /\ pc' = IF pc = "after" \/ r.ret < 0 \/ r.runaway THEN "done" ELSE IF r.ret = 0 THEN "after" ELSE "body"
Read ==
  /\ pc \in {"body", "after"}
  /\ IF rs = 0 THEN \E s \in ReadSizes : rs' = s /\ DoRead(s) ELSE UNCHANGED rs /\ DoRead(rs)
  /\ nsteps' = nsteps + 1
  /\ UNCHANGED <<msg, wire, ref, H>>
Next == RecvHdr \/ Read
Spec == Init /\ [][Next]_vars


(* ---------------------------------------------------------------- properties ---------------------------------------------------------------- *)
Done == pc = "done"
IsHead == msg.kind \in HeadKinds
\* the parsed start line, header multimap and look-ups equal the reference, whatever the fragmentation
HeadAgrees ==
  /\ H.rc = 0
  /\ H.sl.ver = ref.sl.ver
  /\ IF msg.kind = "req" THEN H.sl.verb = ref.sl.verb /\ H.sl.tgt = ref.sl.tgt ELSE H.sl.code = ref.sl.code /\ H.sl.sm = ref.sl.sm
  /\ Len(H.idx) = Len(ref.hs) /\ {H.idx[i] : i \in 1..Len(H.idx)} = {ref.hs[i] : i \in 1..Len(ref.hs)}
  /\ \A i \in 1..Len(ref.hs) : HFind(H.buf, H.idx, Flip(KeyOf(wire, ref.hs[i]))) \in RefLookup(wire, ref.hs, KeyOf(wire, ref.hs[i]))
  /\ H.body[1] = ref.bodyOff
FragmentationIndependent == (Done /\ ref.valid) => ((IsHead => HeadAgrees) /\ out = ref.payload)
BodyExactThenEOF == (Done /\ ref.valid) => (RetsOK(rets, Len(ref.payload)) /\ SumSeq(rets, Len(rets)) = Len(ref.payload))
BodyPrefix == ref.valid => (Len(out) <= Len(ref.payload) /\ out = SubSeq(ref.payload, 1, Len(out)))
WriterReaderRoundTrip == (Done /\ msg.kind \in {"wchunk", "wlen"}) => out = ref.payload
\* every input, malformed or not: ends with error / end-of-stream within the step bound, touches nothing outside the received bytes
MalformedTerminates ==
  /\ bad = {} /\ ops <= StepBound(Len(wire)) /\ nsteps <= 2 * Len(wire) + 6
  /\ Done => (IF IsHead /\ H.rc # 0 THEN H.rc \in {-1, 1} ELSE RetsEnd(rets))
InBounds ==
  /\ ~H.oob
  /\ (IsHead /\ H.rc = 0 /\ H.parsed) =>
        /\ InRange(H.sl.ver, Len(H.buf)) /\ InRange(H.body, Len(H.buf))
        /\ (msg.kind = "req" => InRange(H.sl.tgt, Len(H.buf))) /\ (msg.kind # "req" => InRange(H.sl.sm, Len(H.buf)))
        /\ \A i \in 1..Len(H.idx) : InRange(<<H.idx[i][1], H.idx[i][2]>>, Len(H.buf)) /\ InRange(<<H.idx[i][3], H.idx[i][4]>>, Len(H.buf))
  /\ IsSubsequence(out, 1, Own(msg, wire), 1)
  /\ (R.t = "chunked" => Len(R.st.lb) <= LineBuf /\ R.st.cur <= Len(R.st.lb))
ScopeValid == ref.valid          \* used by the configurations whose scope is meant to consist of valid messages only
=============================================================================
