---- MODULE GoChannel ----
(* C09.  Protocol model of photon::channel<T> (thread/go.h), BOTH implementations.                                      *)
(*                                                                                                                      *)
(* Cap = 0: unbuffered rendezvous (go.h:361-469).  All code runs under m_unbuf_mutex and every block ends by giving the  *)
(*   mutex up (condition_variable::wait = enqueue + unlock in one instant, established by C03; or return), so one        *)
(*   action = one statement block between two blocking points; "woken, waiting for the mutex" is a pc value and the      *)
(*   choice of the next block is the mutex hand-over (any order).  Condition variables are FIFO queues, notify_one wakes  *)
(*   the head.  close() sets m_closed WITHOUT the mutex (go.h:144) and then notifies under it: two steps.  (A flag flip   *)
(*   in the middle of a block has the same outcome as one before or after that block: the blocks read m_closed in the     *)
(*   order guard, closed-test, loop-2 guard, return expression, and a flip between two of these reads gives the result    *)
(*   of "flip before the block" resp. of "block, flip, notification, woken again with nobody else running in between".)   *)
(* Cap > 0: buffered (go.h:259-355): the MPMC ring is an atomic FIFO (C07) whose real size is RingCap >= Cap, every      *)
(*   atomic access (m_closed load, read_available, push, pop, waiter-counter load / fetch_add / fetch_sub, semaphore      *)
(*   signal / wait) is one step; thread-local work (Timeout::expired) is merged into the preceding step.  The semaphores  *)
(*   are the abstract counting semaphore of C02.                                                                         *)
(* Environment: a timed call may expire at any moment (Expire), a timed sleeper may be woken by its deadline             *)
(*   (UTimeout / BTimeout); clients start their next call at any moment (SStart / RStart / CloseFlag).                    *)
(*   "At rest" = no call can take a step by itself; the stuck-ness properties are phrased on states at rest.              *)
(*                                                                                                                      *)
(* KF = set of recorded deviations of the code that are switched ON, i.e. modelled AS WRITTEN:                            *)
(*   "F3"     go.h:368 the wait-for-receiver guard lets a sender through while the hand-off slot is occupied, and the     *)
(*            single slot / m_handoff_ready flag / m_unbuf_send_cv are shared by all senders without telling whose value  *)
(*            is in the slot (go.h:387-405).  OFF = the proposed patch: the guard also waits while the slot is occupied   *)
(*            and one sender at a time is inside unbuffered_send (a second mutex, try_lock in unbuffered_try_send).       *)
(*   "LW"     go.h:277-284 / 312-318 a buffered sender (receiver) registers as waiter AFTER it found the ring full        *)
(*            (empty): a pop (push) in between sees no waiter and does not signal.  OFF = re-check after registering.      *)
(*   "CL"     go.h:155-158 / 261,283 / 308,317 close() reads the waiter counters once; a caller that passed its m_closed   *)
(*            test and registers afterwards is never woken.  OFF = the re-check above also reads m_closed.                 *)
(*   "DR"     go.h:298-309 buffered_recv reports "closed" after ONE failed pop although an item pushed by a send that      *)
(*            passed its m_closed test may have arrived in between.  OFF = pop again after m_closed was seen.              *)
(* KF = {} is the repaired protocol (= spec/GoChannel_go_h.patch), KF = all four is the code as written.                  *)
(*   ("F3g" / "F3t": the F3 patch without its guard change / without its sender-turn mutex - each half alone must fail.)  *)
EXTENDS Naturals, Integers, Sequences, FiniteSets, TLC
CONSTANTS Cap,        \* 0 unbuffered, 1, 2 buffered
          S, R,       \* sender / receiver threads
          NV, NR,     \* calls per sender / per receiver
          SKinds, RKinds,   \* kinds a call may be: "inf" (no timeout), "timed", "try"
          WithClose,  \* a client calls close() at some moment
          KF
None == "none"
P == S \cup R
RingCap == IF Cap <= 2 THEN 2 ELSE 4                  \* lockfree_queue.h:97-99
VARIABLES pc, kind, n, exp, ret,                      \* per thread: control, kind of call, calls begun, deadline passed, sem.wait result
          closed, cpc, csw, crw,                      \* m_closed; close() in progress and its two counter snapshots
          scv, rcv, sw, rw, slot, ready, turn,        \* unbuffered: the two cv queues, counters, hand-off slot, sender-turn mutex (patch)
          q, ssem, rsem,                              \* buffered: ring content, semaphore counts
          passed, okSent, rlog, viol                  \* history: values given to send, sends that returned true, receive log, flagged returns
vars == <<pc, kind, n, exp, ret, closed, cpc, csw, crw, scv, rcv, sw, rw, slot, ready, turn, q, ssem, rsem, passed, okSent, rlog, viol>>
Val(s) == <<s, n[s]>>
InSeq(x, sq) == \E i \in 1..Len(sq) : sq[i] = x
Remove(sq, x) == SelectSeq(sq, LAMBDA y : y # x)
Range(sq) == {sq[i] : i \in 1..Len(sq)}

Init == /\ pc = [p \in P |-> "idle"] /\ kind = [p \in P |-> None] /\ n = [p \in P |-> 0] /\ exp = [p \in P |-> FALSE]
        /\ ret = [p \in P |-> None]
        /\ closed = FALSE /\ cpc = "idle" /\ csw = 0 /\ crw = 0
        /\ scv = <<>> /\ rcv = <<>> /\ sw = 0 /\ rw = 0 /\ slot = None /\ ready = FALSE /\ turn = None
        /\ q = <<>> /\ ssem = 0 /\ rsem = 0
        /\ passed = {} /\ okSent = {} /\ rlog = <<>> /\ viol = "ok"

(* ------------------------------------------------------------------------------------------------ clients *)
SStart(s) == /\ pc[s] = "idle" /\ n[s] < NV
             /\ \E k \in SKinds : kind' = [kind EXCEPT ![s] = k]
                                  /\ pc' = [pc EXCEPT ![s] = IF Cap > 0 THEN "bs_c"
                                                          ELSE IF "F3" \in KF \/ "F3t" \in KF THEN (IF k = "try" THEN "s_try" ELSE "s_enter")
                                                          ELSE (IF k = "try" THEN "s_tryturn" ELSE "s_turn")]
             /\ n' = [n EXCEPT ![s] = @ + 1] /\ exp' = [exp EXCEPT ![s] = FALSE]
             /\ passed' = passed \cup {<<s, n[s] + 1>>}
             /\ UNCHANGED <<ret, closed, cpc, csw, crw, scv, rcv, sw, rw, slot, ready, turn, q, ssem, rsem, okSent, rlog, viol>>
RStart(r) == /\ pc[r] = "idle" /\ n[r] < NR
             /\ \E k \in RKinds : kind' = [kind EXCEPT ![r] = k]
                                  /\ pc' = [pc EXCEPT ![r] = IF Cap > 0 THEN "br_pop" ELSE IF k = "try" THEN "r_try" ELSE "r_enter"]
             /\ n' = [n EXCEPT ![r] = @ + 1] /\ exp' = [exp EXCEPT ![r] = FALSE]
             /\ UNCHANGED <<ret, closed, cpc, csw, crw, scv, rcv, sw, rw, slot, ready, turn, q, ssem, rsem, passed, okSent, rlog, viol>>
(* environment: the deadline of a timed call passes *)
Expire(p) == /\ pc[p] # "idle" /\ kind[p] = "timed" /\ ~exp[p] /\ exp' = [exp EXCEPT ![p] = TRUE]
             /\ UNCHANGED <<pc, kind, n, ret, closed, cpc, csw, crw, scv, rcv, sw, rw, slot, ready, turn, q, ssem, rsem, passed, okSent, rlog, viol>>

(* ------------------------------------------------------------------------------------------------ unbuffered *)
(* a block maps the record st (everything a block can change) to its successor *)
Patched == "F3" \notin KF
GuardFixed == Patched /\ "F3g" \notin KF        \* experiments: "F3g" = patch without the guard change, "F3t" = without the turn mutex
TurnFixed == Patched /\ "F3t" \notin KF
St == [pc |-> pc, scv |-> scv, rcv |-> rcv, sw |-> sw, rw |-> rw, slot |-> slot, ready |-> ready, turn |-> turn,
       okSent |-> okSent, rlog |-> rlog, viol |-> viol]
Commit(st) == /\ pc' = st.pc /\ scv' = st.scv /\ rcv' = st.rcv /\ sw' = st.sw /\ rw' = st.rw /\ slot' = st.slot
              /\ ready' = st.ready /\ turn' = st.turn /\ okSent' = st.okSent /\ rlog' = st.rlog /\ viol' = st.viol
WakePc(p, st) == CASE st.pc[p] = "s_sleep1" -> "s_w1n" [] st.pc[p] = "s_sleep2" -> "s_w2" [] st.pc[p] = "r_sleep" -> "r_wn"
                   [] OTHER -> st.pc[p]
NotifyOneS(st) == IF st.scv = <<>> THEN st ELSE [st EXCEPT !.scv = Tail(@), !.pc[Head(st.scv)] = WakePc(Head(st.scv), st)]
NotifyOneR(st) == IF st.rcv = <<>> THEN st ELSE [st EXCEPT !.rcv = Tail(@), !.pc[Head(st.rcv)] = WakePc(Head(st.rcv), st)]
NotifyAllS(st) == [st EXCEPT !.scv = <<>>, !.pc = [p \in P |-> IF InSeq(p, st.scv) THEN WakePc(p, st) ELSE st.pc[p]]]
NotifyAllR(st) == [st EXCEPT !.rcv = <<>>, !.pc = [p \in P |-> IF InSeq(p, st.rcv) THEN WakePc(p, st) ELSE st.pc[p]]]
\* a false return of a blocking call needs close() or an expired deadline
Why(st, p, ok) == IF ~ok /\ kind[p] # "try" /\ ~closed /\ ~exp[p] THEN "false without close or timeout" ELSE st.viol
\* return of unbuffered_send: DEFER(m_senders_waiting--), unlock; patch: the sender's turn ends
SRet(st, s, ok) == [st EXCEPT !.pc[s] = "idle", !.sw = @ - 1, !.okSent = IF ok THEN @ \cup {Val(s)} ELSE @, !.viol = Why(st, s, ok),
                              !.turn = IF TurnFixed THEN None ELSE @]
RRet(st, r, ok) == [st EXCEPT !.pc[r] = "idle", !.rw = @ - 1, !.viol = Why(st, r, ok)]
Take(st) == [st EXCEPT !.rlog = Append(@, st.slot), !.slot = None, !.ready = FALSE]
\* go.h:391-405
ULoop2(st, s) == IF st.ready /\ ~closed
                 THEN IF exp[s] THEN SRet([st EXCEPT !.slot = None, !.ready = FALSE], s, FALSE)        \* go.h:393-400
                      ELSE [st EXCEPT !.scv = Append(@, s), !.pc[s] = "s_sleep2"]                       \* go.h:402
                 ELSE SRet(st, s, ~closed \/ ~st.ready)                                                 \* go.h:405
\* go.h:368  while (!m_closed && m_receivers_waiting == 0 && !m_handoff_ready)
Guard1(st) == IF GuardFixed THEN ~closed /\ (st.rw = 0 \/ st.ready)
                         ELSE ~closed /\ st.rw = 0 /\ ~st.ready
ULoop1(st, s) == IF Guard1(st)
                 THEN IF exp[s] THEN SRet(st, s, FALSE)                                                 \* go.h:369-373
                      ELSE [st EXCEPT !.scv = Append(@, s), !.pc[s] = "s_sleep1"]                       \* go.h:374
                 ELSE IF closed THEN SRet(st, s, FALSE)                                                 \* go.h:380-384
                 ELSE ULoop2(NotifyOneR([st EXCEPT !.slot = Val(s), !.ready = TRUE]), s)                \* go.h:387-389
\* go.h:417-436
RLoop(st, r) == IF ~st.ready /\ ~closed
                THEN IF exp[r] THEN RRet(st, r, FALSE)
                     ELSE [st EXCEPT !.rcv = Append(@, r), !.pc[r] = "r_sleep"]
                ELSE IF st.ready THEN RRet(NotifyOneS(Take(st)), r, TRUE)
                ELSE RRet(st, r, FALSE)
TryRet(st, p) == [st EXCEPT !.pc[p] = "idle", !.turn = IF TurnFixed /\ p \in S THEN None ELSE @]
UBlock(p) ==
  CASE pc[p] = "s_enter" -> ULoop1([St EXCEPT !.sw = @ + 1], p)                                         \* go.h:362-365
    [] pc[p] = "s_w1n"   -> ULoop1(St, p)
    [] pc[p] = "s_w1t"   -> SRet(St, p, FALSE)                                                          \* go.h:374-377
    [] pc[p] = "s_w2"    -> ULoop2(St, p)
    [] pc[p] = "s_try"   -> IF closed THEN TryRet(St, p)                                                \* go.h:439-455
                            ELSE IF St.rw > 0 /\ ~St.ready
                                 THEN TryRet([NotifyOneR([St EXCEPT !.slot = Val(p), !.ready = TRUE]) EXCEPT !.okSent = @ \cup {Val(p)}], p)
                                 ELSE TryRet(St, p)
    [] pc[p] = "r_enter" -> RLoop(NotifyOneS([St EXCEPT !.rw = @ + 1]), p)                              \* go.h:409-414
    [] pc[p] = "r_wn"    -> RLoop(St, p)
    [] pc[p] = "r_wt"    -> RRet(St, p, FALSE)                                                          \* go.h:422-424
    [] pc[p] = "r_try"   -> IF St.ready THEN TryRet(NotifyOneS(Take(St)), p)                            \* go.h:457-469
                            ELSE TryRet(St, p)
URun(p) == /\ Cap = 0 /\ pc[p] \in {"s_enter", "s_w1n", "s_w1t", "s_w2", "s_try", "r_enter", "r_wn", "r_wt", "r_try"}
           /\ Commit(UBlock(p))
           /\ UNCHANGED <<kind, n, exp, ret, closed, cpc, csw, crw, q, ssem, rsem, passed>>
\* patch only: the sender-turn mutex.  send: lock(timeout) before anything else; try_send: try_lock
UTurn(s) == /\ Cap = 0 /\ pc[s] \in {"s_turn", "s_tryturn"}
            /\ IF pc[s] = "s_turn" THEN turn = None /\ turn' = s /\ pc' = [pc EXCEPT ![s] = "s_enter"]
               ELSE IF turn = None THEN turn' = s /\ pc' = [pc EXCEPT ![s] = "s_try"]
                    ELSE pc' = [pc EXCEPT ![s] = "idle"] /\ UNCHANGED turn
            /\ UNCHANGED <<kind, n, exp, ret, closed, cpc, csw, crw, scv, rcv, sw, rw, slot, ready, q, ssem, rsem, passed, okSent, rlog, viol>>
\* deadline of a sleeper: removed from its queue by the timer
UTimeout(p) == /\ Cap = 0 /\ kind[p] = "timed" /\ pc[p] \in {"s_sleep1", "s_sleep2", "r_sleep", "s_turn"}
               /\ pc' = [pc EXCEPT ![p] = CASE pc[p] = "s_sleep1" -> "s_w1t" [] pc[p] = "s_sleep2" -> "s_w2" [] pc[p] = "r_sleep" -> "r_wt"
                                                 [] pc[p] = "s_turn" -> "idle"]
               /\ scv' = Remove(scv, p) /\ rcv' = Remove(rcv, p) /\ exp' = [exp EXCEPT ![p] = TRUE]
               /\ UNCHANGED <<kind, n, ret, closed, cpc, csw, crw, sw, rw, slot, ready, turn, q, ssem, rsem, passed, okSent, rlog, viol>>
\* close(): go.h:144 exchange without the mutex, then go.h:150-152 under it
CloseFlag == /\ WithClose /\ cpc = "idle"
             /\ IF closed THEN cpc' = "done" ELSE cpc' = IF Cap = 0 THEN "u_notify" ELSE "c_rs"
             /\ closed' = TRUE
             /\ UNCHANGED <<pc, kind, n, exp, ret, csw, crw, scv, rcv, sw, rw, slot, ready, turn, q, ssem, rsem, passed, okSent, rlog, viol>>
UCloseNotify == /\ cpc = "u_notify" /\ Commit(NotifyAllR(NotifyAllS(St))) /\ cpc' = "done"
                /\ UNCHANGED <<kind, n, exp, ret, closed, csw, crw, q, ssem, rsem, passed>>

(* ------------------------------------------------------------------------------------------------ buffered *)
Goto(p, l) == pc' = [pc EXCEPT ![p] = l]
BRetS(s, ok) == /\ Goto(s, "idle") /\ okSent' = IF ok THEN okSent \cup {Val(s)} ELSE okSent
                /\ viol' = IF ~ok /\ kind[s] # "try" /\ ~closed /\ ~exp[s] THEN "false without close or timeout" ELSE viol
BRetR(r, ok, why) == /\ Goto(r, "idle")
                     /\ viol' = IF ~ok /\ kind[r] # "try" /\ ~closed /\ ~exp[r] THEN "false without close or timeout"
                                ELSE IF why = "closed" /\ q # <<>> THEN "recv reports closed while an item is buffered" ELSE viol
\* after a failed push attempt: go.h:277-283 (try_send: go.h:340-341)
SFull(s) == IF kind[s] = "try" \/ exp[s] THEN BRetS(s, FALSE) ELSE Goto(s, "bs_inc") /\ UNCHANGED <<okSent, viol>>
BSend(s) ==
  /\ Cap > 0 /\ pc[s] \in {"bs_c", "bs_ra", "bs_push", "bs_rw", "bs_sig", "bs_inc", "bs_re1", "bs_re2", "bs_sleep", "bs_dec"}
  /\ CASE pc[s] = "bs_c"    -> /\ IF closed THEN BRetS(s, FALSE) ELSE Goto(s, "bs_ra") /\ UNCHANGED <<okSent, viol>>     \* go.h:261 / 328
                               /\ UNCHANGED <<q, sw, ssem, rsem, ret>>
       [] pc[s] = "bs_ra"   -> /\ IF Len(q) < Cap THEN Goto(s, "bs_push") /\ UNCHANGED <<okSent, viol>> ELSE SFull(s)     \* go.h:268 read_available()
                               /\ UNCHANGED <<q, sw, ssem, rsem, ret>>
       [] pc[s] = "bs_push" -> /\ IF Len(q) < RingCap THEN q' = Append(q, Val(s)) /\ Goto(s, "bs_rw") /\ UNCHANGED <<okSent, viol>>
                                  ELSE SFull(s) /\ UNCHANGED q                                                          \* go.h:268 push()
                               /\ UNCHANGED <<sw, ssem, rsem, ret>>
       [] pc[s] = "bs_rw"   -> /\ IF rw > 0 THEN Goto(s, "bs_sig") /\ UNCHANGED <<okSent, viol>> ELSE BRetS(s, TRUE)      \* go.h:270
                               /\ UNCHANGED <<q, sw, ssem, rsem, ret>>
       [] pc[s] = "bs_sig"  -> /\ rsem' = rsem + 1 /\ BRetS(s, TRUE) /\ UNCHANGED <<q, sw, ssem, ret>>                    \* go.h:271
       [] pc[s] = "bs_inc"  -> /\ sw' = sw + 1 /\ ret' = [ret EXCEPT ![s] = None]                                         \* go.h:283
                               /\ Goto(s, IF {"LW", "CL"} \subseteq KF THEN "bs_sleep" ELSE "bs_re1")
                               /\ UNCHANGED <<q, ssem, rsem, okSent, viol>>
       \* patch: look again after registering
       [] pc[s] = "bs_re1"  -> /\ IF "LW" \notin KF /\ Len(q) < Cap THEN Goto(s, "bs_dec") /\ ret' = [ret EXCEPT ![s] = "again"]
                                  ELSE Goto(s, IF "CL" \in KF THEN "bs_sleep" ELSE "bs_re2") /\ UNCHANGED ret
                               /\ UNCHANGED <<q, sw, ssem, rsem, okSent, viol>>
       [] pc[s] = "bs_re2"  -> /\ IF closed THEN Goto(s, "bs_dec") /\ ret' = [ret EXCEPT ![s] = "again"] ELSE Goto(s, "bs_sleep") /\ UNCHANGED ret
                               /\ UNCHANGED <<q, sw, ssem, rsem, okSent, viol>>
       [] pc[s] = "bs_sleep" -> /\ ssem > 0 /\ ssem' = ssem - 1 /\ ret' = [ret EXCEPT ![s] = "ok"] /\ Goto(s, "bs_dec")  \* go.h:284 returns 0
                                /\ UNCHANGED <<q, sw, rsem, okSent, viol>>
       [] pc[s] = "bs_dec"  -> /\ sw' = sw - 1                                                                            \* go.h:285-290
                               /\ IF ret[s] = "timeout" THEN BRetS(s, FALSE) ELSE Goto(s, "bs_c") /\ UNCHANGED <<okSent, viol>>
                               /\ UNCHANGED <<q, ssem, rsem, ret>>
  /\ UNCHANGED <<kind, n, exp, closed, cpc, csw, crw, scv, rcv, rw, slot, ready, turn, passed, rlog>>
\* after a failed pop: go.h:308-317 (try_recv: go.h:354)
BRecv(r) ==
  /\ Cap > 0 /\ pc[r] \in {"br_pop", "br_pop2", "br_sw", "br_sig", "br_c", "br_inc", "br_re1", "br_re2", "br_sleep", "br_dec"}
  /\ CASE pc[r] \in {"br_pop", "br_pop2"} ->                                                                              \* go.h:298 / 346
             /\ IF q # <<>> THEN q' = Tail(q) /\ rlog' = Append(rlog, Head(q)) /\ Goto(r, "br_sw") /\ UNCHANGED viol
                ELSE /\ UNCHANGED <<q, rlog>>
                     /\ IF kind[r] = "try" THEN BRetR(r, FALSE, "empty")
                        ELSE IF pc[r] = "br_pop2" THEN BRetR(r, FALSE, "closed")
                        ELSE Goto(r, "br_c") /\ UNCHANGED viol
             /\ UNCHANGED <<rw, ssem, rsem, ret>>
       [] pc[r] = "br_sw"   -> /\ IF sw > 0 THEN Goto(r, "br_sig") /\ UNCHANGED viol ELSE BRetR(r, TRUE, "")              \* go.h:302
                               /\ UNCHANGED <<q, rlog, rw, ssem, rsem, ret>>
       [] pc[r] = "br_sig"  -> /\ ssem' = ssem + 1 /\ BRetR(r, TRUE, "") /\ UNCHANGED <<q, rlog, rw, rsem, ret>>          \* go.h:303
       [] pc[r] = "br_c"    -> /\ IF closed THEN (IF "DR" \in KF THEN BRetR(r, FALSE, "closed") ELSE Goto(r, "br_pop2") /\ UNCHANGED viol)   \* go.h:308
                                  ELSE IF exp[r] THEN BRetR(r, FALSE, "timeout")                                          \* go.h:312
                                  ELSE Goto(r, "br_inc") /\ UNCHANGED viol
                               /\ UNCHANGED <<q, rlog, rw, ssem, rsem, ret>>
       [] pc[r] = "br_inc"  -> /\ rw' = rw + 1 /\ ret' = [ret EXCEPT ![r] = None]                                         \* go.h:317
                               /\ Goto(r, IF {"LW", "CL"} \subseteq KF THEN "br_sleep" ELSE "br_re1")
                               /\ UNCHANGED <<q, rlog, ssem, rsem, viol>>
       [] pc[r] = "br_re1"  -> /\ IF "LW" \notin KF /\ q # <<>> THEN Goto(r, "br_dec") /\ ret' = [ret EXCEPT ![r] = "again"]
                                  ELSE Goto(r, IF "CL" \in KF THEN "br_sleep" ELSE "br_re2") /\ UNCHANGED ret
                               /\ UNCHANGED <<q, rlog, rw, ssem, rsem, viol>>
       [] pc[r] = "br_re2"  -> /\ IF closed THEN Goto(r, "br_dec") /\ ret' = [ret EXCEPT ![r] = "again"] ELSE Goto(r, "br_sleep") /\ UNCHANGED ret
                               /\ UNCHANGED <<q, rlog, rw, ssem, rsem, viol>>
       [] pc[r] = "br_sleep" -> /\ rsem > 0 /\ rsem' = rsem - 1 /\ ret' = [ret EXCEPT ![r] = "ok"] /\ Goto(r, "br_dec")  \* go.h:318
                                /\ UNCHANGED <<q, rlog, rw, ssem, viol>>
       [] pc[r] = "br_dec"  -> /\ rw' = rw - 1                                                                            \* go.h:319-323
                               /\ IF ret[r] = "timeout" THEN BRetR(r, FALSE, "timeout") ELSE Goto(r, "br_pop") /\ UNCHANGED viol
                               /\ UNCHANGED <<q, rlog, ssem, rsem, ret>>
  /\ UNCHANGED <<kind, n, exp, closed, cpc, csw, crw, scv, rcv, sw, slot, ready, turn, passed, okSent>>
BTimeout(p) == /\ Cap > 0 /\ kind[p] = "timed" /\ pc[p] \in {"bs_sleep", "br_sleep"}
               /\ ret' = [ret EXCEPT ![p] = "timeout"] /\ exp' = [exp EXCEPT ![p] = TRUE]
               /\ Goto(p, IF pc[p] = "bs_sleep" THEN "bs_dec" ELSE "br_dec")
               /\ UNCHANGED <<kind, n, closed, cpc, csw, crw, scv, rcv, sw, rw, slot, ready, turn, q, ssem, rsem, passed, okSent, rlog, viol>>
\* close(), buffered: go.h:155-158
BClose == /\ cpc \in {"c_rs", "c_rr", "c_ss", "c_sr"}
          /\ CASE cpc = "c_rs" -> csw' = sw /\ cpc' = "c_rr" /\ UNCHANGED <<crw, ssem, rsem>>
               [] cpc = "c_rr" -> crw' = rw /\ cpc' = "c_ss" /\ UNCHANGED <<csw, ssem, rsem>>
               [] cpc = "c_ss" -> ssem' = ssem + csw /\ cpc' = "c_sr" /\ UNCHANGED <<csw, crw, rsem>>
               [] cpc = "c_sr" -> rsem' = rsem + crw /\ cpc' = "done" /\ UNCHANGED <<csw, crw, ssem>>
          /\ UNCHANGED <<pc, kind, n, exp, ret, closed, scv, rcv, sw, rw, slot, ready, turn, q, passed, okSent, rlog, viol>>

Finished == (\A p \in P : pc[p] = "idle") /\ UNCHANGED vars
Next == \/ \E s \in S : SStart(s) \/ BSend(s)
        \/ \E r \in R : RStart(r) \/ BRecv(r)
        \/ \E p \in P : Expire(p) \/ URun(p) \/ UTimeout(p) \/ BTimeout(p)
        \/ \E s \in S : UTurn(s)
        \/ CloseFlag \/ UCloseNotify \/ BClose \/ Finished
Spec == Init /\ [][Next]_vars

(* ------------------------------------------------------------------------------------------------ properties *)
Content == IF Cap = 0 THEN (IF ready THEN {slot} ELSE {}) ELSE Range(q)
Received == Range(rlog)
\* every value reported sent has been received or is still in the channel; nothing twice; nothing that was never sent
DeliveredExactlyOnce ==
  /\ okSent \subseteq Received \cup Content
  /\ Received \subseteq passed /\ Content \subseteq passed
  /\ \A i, j \in 1..Len(rlog) : i # j => rlog[i] # rlog[j]
  /\ Received \cap Content = {}
  /\ Cap > 0 => \A i, j \in 1..Len(q) : i # j => q[i] # q[j]
PerSenderOrder == \A i, j \in 1..Len(rlog) : (i < j /\ rlog[i][1] = rlog[j][1]) => rlog[i][2] < rlog[j][2]
\* FalseOnlyOnCloseOrTimeout and DrainAfterClose are judged at the returning step and latched in viol
FalseOnlyOnCloseOrTimeout == viol # "false without close or timeout"
DrainAfterClose == viol # "recv reports closed while an item is buffered"
\* no call can take a step by itself (deadlines and new calls are the environment's)
Asleep(p) == \/ pc[p] \in {"s_sleep1", "s_sleep2", "r_sleep"}
             \/ pc[p] = "s_turn" /\ turn # None
             \/ pc[p] = "bs_sleep" /\ ssem = 0
             \/ pc[p] = "br_sleep" /\ rsem = 0
AtRest == (\A p \in P : pc[p] = "idle" \/ Asleep(p)) /\ cpc \in {"idle", "done"}
ReleasedWhenPartnerExists ==
  (AtRest /\ ~closed) =>
     /\ Cap = 0 => /\ ~(\E s \in S, r \in R : Asleep(s) /\ Asleep(r))                   \* blocked sender + blocked receiver
                   /\ ~(\E s \in S : Asleep(s) /\ Val(s) \in Received)                  \* its value was taken, yet it sleeps
     /\ Cap > 0 => /\ ~(\E r \in R : Asleep(r) /\ q # <<>>)                             \* blocked receiver, item present
                   /\ ~(\E s \in S : Asleep(s) /\ Len(q) < Cap)                         \* blocked sender, free slot
\* close() wakes every blocked caller (go.h:143-160 "wake up all waiting threads")
ReleasedOnClose == (AtRest /\ closed /\ cpc = "done") => \A p \in P : ~Asleep(p)
TypeOK == /\ sw \in 0..Cardinality(S) /\ rw \in 0..Cardinality(R) /\ Len(q) <= RingCap
====
