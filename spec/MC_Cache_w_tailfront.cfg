\* witness: the tail part of a refill is copied to the front of the caller's buffer
SPECIFICATION Spec
CONSTANTS
  NF = 1
  SZ = 7
  BLK = 2
  RU = 2
  Readers = {r1, r2}
  r1 = r1
  r2 = r2
  ReadSet <- RS_q
  NReads = 1
  MaxEv = 1
  Async = FALSE
  MaxRefilling = 2
  Faults = 1
  Fiemap = TRUE
  CapFull = FALSE
  ReopenMax = 0
  PunchMax = 0
  PunchGuard = FALSE
  Bug = "tailfront"
SYMMETRY Sym
INVARIANTS ReadsEqualSource FailedSourceNeverWrongBytes NeverBeyondSize MediaOnlyCorrectOrHole RefillDedup RangeLockDisjoint RefillingCount LocksAtRest
