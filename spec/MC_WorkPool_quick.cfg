SPECIFICATION Spec
CONSTANTS
  Workers = {w1, w2}
  External = {}
  w1 = w1
  w2 = w2
  w3 = w3
  s1 = s1
  s2 = s2
  Subs = {s1, s2}
  RingCap = 2
  PoolCap = 1
  NH = 3
  Bodies = {"plain", "yield", "sleep"}
  Cfgs <- CfgQuick
INVARIANTS NoFault RunsExactlyOnce CallReturnsAfterFinish AsyncDeletedOnceAfterRun RecordCopiedBeforeReuse DestructorWaits EveryWorkerGetsOneMarker NoStuck RingBounded RunningCounts
SYMMETRY Sym
