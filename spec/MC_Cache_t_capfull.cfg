\* thorough: extent map, asynchronous writer, capacity 0 + 1 external eviction
SPECIFICATION Spec
CONSTANTS
  NF = 1
  SZ = 7
  BLK = 2
  RU = 2
  Readers = {r1, r2}
  r1 = r1
  r2 = r2
  ReadSet <- RS_q
  NReads = 1
  MaxEv = 1
  Async = TRUE
  MaxRefilling = 2
  Faults = 0
  Fiemap = TRUE
  CapFull = TRUE
  ReopenMax = 0
  PunchMax = 0
  PunchGuard = FALSE
  Bug = "none"
SYMMETRY Sym
INVARIANTS ReadsEqualSource FailedSourceNeverWrongBytes NeverBeyondSize MediaOnlyCorrectOrHole RefillDedup RangeLockDisjoint RefillingCount LocksAtRest TypeOK
