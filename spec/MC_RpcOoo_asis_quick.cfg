\* C11 quick: the engine + stub as written; 3 callers, responses in all orders, header/body separate, one deadline may pass
\* anywhere (any caller), one stream error (read or write side), one unknown-or-duplicate response.
\* Every invariant except the strict NoAccessAfterReturn (recorded finding F4: see MC_RpcOoo_f4_quick.cfg); the KF form
\* tolerates exactly the accesses whose victim returned by the follower-timeout path after a reader had taken its tag.
SPECIFICATION Spec
CONSTANTS
  C = {c1, c2, c3}
  Timed = {c1, c2, c3}
  MaxExpire = 1
  MaxErr = 1
  MaxBogus = 1
  Variant = "asis"
  EarlyResponse = FALSE
INVARIANTS TypeOK OwnResponse TagsUnique FailureIsolated MapLive OneReader LeaderHandover QueueSane NoAccessAfterReturnKF
SYMMETRY Sym
CHECK_DEADLOCK FALSE
