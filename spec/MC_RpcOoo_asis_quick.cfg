\* C11 quick: the engine + stub AS WRITTEN.  3 callers, responses in all orders (header and body separate arrivals), 1 deadline(s) may pass anywhere, 1 stream error(s), 0 unknown-or-duplicate response(s)
\* Every invariant; NoAccessAfterReturn in its KF form, which tolerates exactly the accesses whose victim returned by the
\* follower-timeout path after a reader had taken its tag out of the map (recorded finding F4, see MC_RpcOoo_f4_*.cfg).
SPECIFICATION Spec
CONSTANTS
  C = {c1, c2, c3}
  Timed = {c1, c2, c3}
  MaxExpire = 1
  MaxErr = 1
  MaxBogus = 0
  Variant = "asis"
  EarlyResponse = FALSE
INVARIANTS TypeOK OwnResponse TagsUnique FailureIsolated MapLive OneReader LeaderHandover QueueSane NoAccessAfterReturnKF
SYMMETRY Sym
CHECK_DEADLOCK FALSE
