---------------------------- MODULE MutexCore ----------------------------
(* L0 model for C01: the photon scheduler core (run queue, sleep queue, standby queue, per-thread lock, wait-queue lock,
   context save as a separate step, deferred unlock on the next stack, idler expiry pass, external interrupter) and
   mutex::lock / do_mutex_unlock on top of it, one action per critical section; every spinlock acquisition that nests
   inside another is its own blocking step.  Transcribed from thread/thread.cpp (see DESIGN.md 3.0 and C01). *)
EXTENDS Naturals, Sequences, FiniteSets, TLC

CONSTANTS VCPU, THREAD, Home, MaxNow, Rounds, Contending, IntrBudget
\* Home: [THREAD -> VCPU]
None == "none"
IDLE == "idle"
Inf == 99
EXT == "ext"

VARIABLES
  now,
  st,        \* thread state
  err,       \* pending reason: 0 none, -1 resumed(as 255), else errno
  inq,       \* thread linked in mutex waitq?
  insleep,   \* in sleep queue
  wake,      \* deadline
  saved,     \* context saved
  pc, dl, hd, res, rounds, incs,
  cur,       \* [VCPU -> THREAD \cup {IDLE}]
  ready,     \* [VCPU -> SUBSET THREAD]
  standby,   \* [VCPU -> Seq(THREAD)]
  limbo,     \* [VCPU -> THREAD \cup {None}] thread whose context is being saved
  defer,     \* [VCPU -> BOOLEAN] pending "unlock splock"
  ipc,       \* idler pc per vcpu
  ih,        \* idler local: thread being expired
  q,         \* mutex wait queue (Seq)
  owner,
  lk,        \* [LockId -> holder]
  xpc, xt, xbudget   \* external interrupter

vars == <<now, st, err, inq, insleep, wake, saved, pc, dl, hd, res, rounds, incs, cur, ready,
          standby, limbo, defer, ipc, ih, q, owner, lk, xpc, xt, xbudget>>

RESUMED == 255
EINTR == 4
ETIMEDOUT == 110

LockIds == {<<"sp", "m">>, <<"ql", "m">>} \cup {<<"t", t>> : t \in THREAD} \cup {<<"sb", v>> : v \in VCPU}
Free(l) == lk[l] = None
Acquire(l, who) == lk' = [lk EXCEPT ![l] = who]

cpuOf(t) == Home[t]

Init ==
  /\ now = 0
  /\ st = [t \in THREAD |-> "READY"]
  /\ err = [t \in THREAD |-> 0]
  /\ inq = [t \in THREAD |-> FALSE]
  /\ insleep = [t \in THREAD |-> FALSE]
  /\ wake = [t \in THREAD |-> Inf]
  /\ saved = [t \in THREAD |-> TRUE]
  /\ pc = [t \in THREAD |-> "start"]
  /\ dl = [t \in THREAD |-> Inf]
  /\ hd = [t \in THREAD |-> None]
  /\ res = [t \in THREAD |-> 0]
  /\ rounds = [t \in THREAD |-> Rounds]
  /\ incs = [t \in THREAD |-> FALSE]
  /\ cur = [v \in VCPU |-> IDLE]
  /\ ready = [v \in VCPU |-> {t \in THREAD : Home[t] = v}]
  /\ standby = [v \in VCPU |-> <<>>]
  /\ limbo = [v \in VCPU |-> None]
  /\ defer = [v \in VCPU |-> FALSE]
  /\ ipc = [v \in VCPU |-> "i0"]
  /\ ih = [v \in VCPU |-> None]
  /\ q = <<>>
  /\ owner = None
  /\ lk = [l \in LockIds |-> None]
  /\ xpc = "x0" /\ xt = None /\ xbudget = IntrBudget

Busy(v) == limbo[v] # None \/ defer[v]

(* ---------- vCPU housekeeping after a switch ---------- *)
CtxSave(v) ==
  /\ limbo[v] # None
  /\ saved' = [saved EXCEPT ![limbo[v]] = TRUE]
  /\ limbo' = [limbo EXCEPT ![v] = None]
  /\ UNCHANGED <<now, st, err, inq, insleep, wake, pc, dl, hd, res, rounds, incs, cur, ready, standby, defer, ipc, ih, q, owner, lk, xpc, xt, xbudget>>

RunDefer(v) ==
  /\ limbo[v] = None /\ defer[v]
  /\ lk[<<"sp", "m">>] = v
  /\ lk' = [lk EXCEPT ![<<"sp", "m">>] = None]
  /\ defer' = [defer EXCEPT ![v] = FALSE]
  /\ UNCHANGED <<now, st, err, inq, insleep, wake, saved, pc, dl, hd, res, rounds, incs, cur, ready, standby, limbo, ipc, ih, q, owner, xpc, xt, xbudget>>

(* switch vCPU v from its current thread to some next runnable (or idler) *)
PickNext(v, nxt) ==
  /\ nxt \in ready[v] \cup {IDLE}
  /\ nxt # IDLE => saved[nxt]      \* OneRunner is checked as invariant separately via ghost below

(* ---------- thread steps (t is cur[v]) ---------- *)
Running(t, v) == cur[v] = t /\ ~Busy(v) /\ cpuOf(t) = v

TStart(t, v) ==
  /\ Running(t, v) /\ pc[t] = "start"
  /\ \E d \in {Inf, 0, now + 1} :
       /\ dl' = [dl EXCEPT ![t] = d]
  /\ pc' = [pc EXCEPT ![t] = "L0"]
  /\ UNCHANGED <<now, st, err, inq, insleep, wake, saved, hd, res, rounds, incs, cur, ready, standby, limbo, defer, ipc, ih, q, owner, lk, xpc, xt, xbudget>>

\* L0 / L3: CAS
TTry(t, v) ==
  /\ Running(t, v) /\ pc[t] \in {"L0", "L3"}
  /\ IF owner = None
       THEN /\ owner' = t
            /\ IF pc[t] = "L3" THEN lk' = [lk EXCEPT ![<<"sp", "m">>] = None] ELSE UNCHANGED lk
            /\ pc' = [pc EXCEPT ![t] = "ret"]
            /\ res' = [res EXCEPT ![t] = 0]
       ELSE /\ UNCHANGED <<owner, lk, res>>
            /\ pc' = [pc EXCEPT ![t] = IF pc[t] = "L0" THEN "L2" ELSE "L4"]
  /\ UNCHANGED <<now, st, err, inq, insleep, wake, saved, dl, hd, rounds, incs, cur, ready, standby, limbo, defer, ipc, ih, q, xpc, xt, xbudget>>

TSplock(t, v) ==
  /\ Running(t, v) /\ pc[t] = "L2"
  /\ Free(<<"sp", "m">>) /\ Acquire(<<"sp", "m">>, v)
  /\ pc' = [pc EXCEPT ![t] = "L3"]
  /\ UNCHANGED <<now, st, err, inq, insleep, wake, saved, dl, hd, res, rounds, incs, cur, ready, standby, limbo, defer, ipc, ih, q, owner, xpc, xt, xbudget>>

TCheckTimeout(t, v) ==
  /\ Running(t, v) /\ pc[t] = "L4"
  /\ IF dl[t] <= now
       THEN /\ lk' = [lk EXCEPT ![<<"sp", "m">>] = None]
            /\ res' = [res EXCEPT ![t] = ETIMEDOUT]
            /\ pc' = [pc EXCEPT ![t] = "ret"]
       ELSE /\ pc' = [pc EXCEPT ![t] = "L5"] /\ UNCHANGED <<lk, res>>
  /\ UNCHANGED <<now, st, err, inq, insleep, wake, saved, dl, hd, rounds, incs, cur, ready, standby, limbo, defer, ipc, ih, q, owner, xpc, xt, xbudget>>

TQlock(t, v) ==
  /\ Running(t, v) /\ pc[t] = "L5"
  /\ Free(<<"ql", "m">>) /\ Acquire(<<"ql", "m">>, v)
  /\ pc' = [pc EXCEPT ![t] = "L6"]
  /\ UNCHANGED <<now, st, err, inq, insleep, wake, saved, dl, hd, res, rounds, incs, cur, ready, standby, limbo, defer, ipc, ih, q, owner, xpc, xt, xbudget>>

TSelfLock(t, v) ==
  /\ Running(t, v) /\ pc[t] = "L6"
  /\ Free(<<"t", t>>) /\ Acquire(<<"t", t>>, v)
  /\ pc' = [pc EXCEPT ![t] = "L7"]
  /\ UNCHANGED <<now, st, err, inq, insleep, wake, saved, dl, hd, res, rounds, incs, cur, ready, standby, limbo, defer, ipc, ih, q, owner, xpc, xt, xbudget>>

\* prepare_usleep body + release both locks + pick next thread; context not yet saved
TSleep(t, v) ==
  /\ Running(t, v) /\ pc[t] = "L7"
  /\ \E nxt \in (ready[v] \cup {IDLE}) :
       /\ cur' = [cur EXCEPT ![v] = nxt]
       /\ ready' = [ready EXCEPT ![v] = @ \ {nxt}]
       /\ st' = [st EXCEPT ![t] = "SLEEPING", ![nxt] = IF nxt = IDLE THEN @ ELSE "RUNNING"]
  /\ q' = Append(q, t)
  /\ inq' = [inq EXCEPT ![t] = TRUE]
  /\ insleep' = [insleep EXCEPT ![t] = TRUE]
  /\ wake' = [wake EXCEPT ![t] = dl[t]]
  /\ saved' = [saved EXCEPT ![t] = FALSE]
  /\ limbo' = [limbo EXCEPT ![v] = t]
  /\ defer' = [defer EXCEPT ![v] = TRUE]
  /\ lk' = [lk EXCEPT ![<<"t", t>>] = None, ![<<"ql", "m">>] = None]
  /\ pc' = [pc EXCEPT ![t] = "L9"]
  /\ UNCHANGED <<now, err, dl, hd, res, rounds, incs, standby, ipc, ih, owner, xpc, xt, xbudget>>

\* woken up: consume reason
TWake(t, v) ==
  /\ Running(t, v) /\ pc[t] = "L9"
  /\ IF err[t] = RESUMED
       THEN IF owner = t THEN /\ res' = [res EXCEPT ![t] = 0] /\ pc' = [pc EXCEPT ![t] = "ret"]
                         ELSE /\ Contending /\ pc' = [pc EXCEPT ![t] = "L2"] /\ UNCHANGED res
       ELSE /\ res' = [res EXCEPT ![t] = IF err[t] = 0 THEN ETIMEDOUT ELSE err[t]]
            /\ pc' = [pc EXCEPT ![t] = "ret"]
  /\ err' = [err EXCEPT ![t] = 0]
  /\ UNCHANGED <<now, st, inq, insleep, wake, saved, dl, hd, rounds, incs, cur, ready, standby, limbo, defer, ipc, ih, q, owner, lk, xpc, xt, xbudget>>

TRet(t, v) ==
  /\ Running(t, v) /\ pc[t] = "ret"
  /\ IF res[t] = 0
       THEN /\ incs' = [incs EXCEPT ![t] = TRUE] /\ pc' = [pc EXCEPT ![t] = "cs"]
       ELSE /\ pc' = [pc EXCEPT ![t] = "done"] /\ UNCHANGED incs
  /\ UNCHANGED <<now, st, err, inq, insleep, wake, saved, dl, hd, res, rounds, cur, ready, standby, limbo, defer, ipc, ih, q, owner, lk, xpc, xt, xbudget>>

\* unlock
TUnlock0(t, v) ==
  /\ Running(t, v) /\ pc[t] = "cs"
  /\ incs' = [incs EXCEPT ![t] = FALSE]
  /\ pc' = [pc EXCEPT ![t] = "U1"]
  /\ UNCHANGED <<now, st, err, inq, insleep, wake, saved, dl, hd, res, rounds, cur, ready, standby, limbo, defer, ipc, ih, q, owner, lk, xpc, xt, xbudget>>

TUSplock(t, v) ==
  /\ Running(t, v) /\ pc[t] = "U1"
  /\ Free(<<"sp", "m">>) /\ Acquire(<<"sp", "m">>, v)
  /\ pc' = [pc EXCEPT ![t] = "U2"]
  /\ UNCHANGED <<now, st, err, inq, insleep, wake, saved, dl, hd, res, rounds, incs, cur, ready, standby, limbo, defer, ipc, ih, q, owner, xpc, xt, xbudget>>

TULockHead(t, v) ==
  /\ Running(t, v) /\ pc[t] = "U2"
  /\ IF q = <<>>
       THEN /\ hd' = [hd EXCEPT ![t] = None] /\ UNCHANGED lk
       ELSE /\ Free(<<"t", Head(q)>>) /\ Acquire(<<"t", Head(q)>>, v)
            /\ hd' = [hd EXCEPT ![t] = Head(q)]
  /\ pc' = [pc EXCEPT ![t] = "U3"]
  /\ UNCHANGED <<now, st, err, inq, insleep, wake, saved, dl, res, rounds, incs, cur, ready, standby, limbo, defer, ipc, ih, q, owner, xpc, xt, xbudget>>

TUSetOwner(t, v) ==
  /\ Running(t, v) /\ pc[t] = "U3"
  /\ owner' = IF Contending THEN None ELSE hd[t]
  /\ pc' = [pc EXCEPT ![t] = IF hd[t] = None THEN "U7" ELSE "U4"]
  /\ UNCHANGED <<now, st, err, inq, insleep, wake, saved, dl, hd, res, rounds, incs, cur, ready, standby, limbo, defer, ipc, ih, q, lk, xpc, xt, xbudget>>

(* prelocked_thread_interrupt(h, e) split: D1 set err + take ql ; D2 dequeue, release ql, set state ; D3 push (standby: take sb) *)
DeliverA(who, h, e, pcset) == \* set reason, acquire ql
  /\ Free(<<"ql", "m">>) /\ Acquire(<<"ql", "m">>, who)
  /\ err' = [err EXCEPT ![h] = e]

TUDeliver1(t, v) ==
  /\ Running(t, v) /\ pc[t] = "U4"
  /\ DeliverA(v, hd[t], RESUMED, 0)
  /\ pc' = [pc EXCEPT ![t] = "U5"]
  /\ UNCHANGED <<now, st, inq, insleep, wake, saved, dl, hd, res, rounds, incs, cur, ready, standby, limbo, defer, ipc, ih, q, owner, xpc, xt, xbudget>>

RemoveFromQ(h) == SelectSeq(q, LAMBDA x : x # h)

\* dequeue + make runnable (same vcpu: ready; other: standby under sb lock -- merged into one step holding sb)
DeliverB(who, whoCpu, h) ==
  /\ q' = RemoveFromQ(h)
  /\ inq' = [inq EXCEPT ![h] = FALSE]
  /\ IF whoCpu = cpuOf(h)
       THEN /\ st' = [st EXCEPT ![h] = "READY"]
            /\ insleep' = [insleep EXCEPT ![h] = FALSE]
            /\ ready' = [ready EXCEPT ![cpuOf(h)] = @ \cup {h}]
            /\ UNCHANGED standby
            /\ lk' = [lk EXCEPT ![<<"ql", "m">>] = None]
       ELSE /\ Free(<<"sb", cpuOf(h)>>)
            /\ st' = [st EXCEPT ![h] = "STANDBY"]
            /\ standby' = [standby EXCEPT ![cpuOf(h)] = Append(@, h)]
            /\ UNCHANGED <<insleep, ready>>
            /\ lk' = [lk EXCEPT ![<<"ql", "m">>] = None]

TUDeliver2(t, v) ==
  /\ Running(t, v) /\ pc[t] = "U5"
  /\ DeliverB(v, v, hd[t])
  /\ pc' = [pc EXCEPT ![t] = "U6"]
  /\ UNCHANGED <<now, err, wake, saved, dl, hd, res, rounds, incs, cur, limbo, defer, ipc, ih, owner, xpc, xt, xbudget>>

TURelease(t, v) ==
  /\ Running(t, v) /\ pc[t] \in {"U6", "U7"}
  /\ lk' = IF pc[t] = "U6" THEN [lk EXCEPT ![<<"t", hd[t]>>] = None, ![<<"sp", "m">>] = None]
                          ELSE [lk EXCEPT ![<<"sp", "m">>] = None]
  /\ hd' = [hd EXCEPT ![t] = None]
  /\ rounds' = [rounds EXCEPT ![t] = @ - 1]
  /\ pc' = [pc EXCEPT ![t] = IF rounds[t] > 1 THEN "start" ELSE "done"]
  /\ UNCHANGED <<now, st, err, inq, insleep, wake, saved, dl, res, incs, cur, ready, standby, limbo, defer, ipc, ih, q, owner, xpc, xt, xbudget>>

\* finished thread leaves the vCPU (die abstracted): switch to next
TDone(t, v) ==
  /\ Running(t, v) /\ pc[t] = "done" /\ st[t] # "DONE"
  /\ \E nxt \in (ready[v] \cup {IDLE}) :
       /\ cur' = [cur EXCEPT ![v] = nxt]
       /\ ready' = [ready EXCEPT ![v] = @ \ {nxt}]
       /\ st' = [st EXCEPT ![t] = "DONE", ![nxt] = IF nxt = IDLE THEN @ ELSE "RUNNING"]
  /\ UNCHANGED <<now, err, inq, insleep, wake, saved, pc, dl, hd, res, rounds, incs, standby, limbo, defer, ipc, ih, q, owner, lk, xpc, xt, xbudget>>

(* ---------- idler ---------- *)
IdleRunning(v) == cur[v] = IDLE /\ ~Busy(v)

IDrain(v) ==
  /\ IdleRunning(v) /\ ipc[v] = "i0"
  /\ Free(<<"sb", v>>)
  /\ standby' = [standby EXCEPT ![v] = <<>>]
  /\ LET S == {standby[v][i] : i \in 1..Len(standby[v])} IN
       /\ st' = [t \in THREAD |-> IF t \in S THEN "READY" ELSE st[t]]
       /\ insleep' = [t \in THREAD |-> IF t \in S THEN FALSE ELSE insleep[t]]
       /\ ready' = [ready EXCEPT ![v] = @ \cup S]
  /\ ipc' = [ipc EXCEPT ![v] = "i1"]
  /\ UNCHANGED <<now, err, inq, wake, saved, pc, dl, hd, res, rounds, incs, cur, limbo, defer, ih, q, owner, lk, xpc, xt, xbudget>>

Expired(v) == {t \in THREAD : cpuOf(t) = v /\ insleep[t] /\ wake[t] <= now}

\* pick expired front, lock it
IExpireLock(v) ==
  /\ IdleRunning(v) /\ ipc[v] = "i1"
  /\ IF Expired(v) = {}
       THEN /\ ipc' = [ipc EXCEPT ![v] = "i3"] /\ UNCHANGED <<lk, ih>>
       ELSE \E t \in Expired(v) :
              /\ Free(<<"t", t>>) /\ Acquire(<<"t", t>>, v)
              /\ ih' = [ih EXCEPT ![v] = t]
              /\ ipc' = [ipc EXCEPT ![v] = "i2"]
  /\ UNCHANGED <<now, st, err, inq, insleep, wake, saved, pc, dl, hd, res, rounds, incs, cur, ready, standby, limbo, defer, q, owner, xpc, xt, xbudget>>

\* pop; if still SLEEPING dequeue (needs ql) and make ready
IExpireDo(v) ==
  /\ IdleRunning(v) /\ ipc[v] = "i2"
  /\ LET t == ih[v] IN
       /\ insleep' = [insleep EXCEPT ![t] = FALSE]
       /\ IF st[t] = "SLEEPING"
            THEN /\ (inq[t] => Free(<<"ql", "m">>))
                 /\ q' = RemoveFromQ(t)
                 /\ inq' = [inq EXCEPT ![t] = FALSE]
                 /\ st' = [st EXCEPT ![t] = "READY"]
                 /\ ready' = [ready EXCEPT ![v] = @ \cup {t}]
            ELSE UNCHANGED <<q, inq, st, ready>>
       /\ lk' = [lk EXCEPT ![<<"t", t>>] = None]
  /\ ih' = [ih EXCEPT ![v] = None]
  /\ ipc' = [ipc EXCEPT ![v] = "i1"]
  /\ UNCHANGED <<now, err, wake, saved, pc, dl, hd, res, rounds, incs, cur, standby, limbo, defer, owner, xpc, xt, xbudget>>

\* idler yields to a ready thread, or loops
ISwitch(v) ==
  /\ IdleRunning(v) /\ ipc[v] = "i3"
  /\ \/ \E nxt \in ready[v] :
          /\ cur' = [cur EXCEPT ![v] = nxt]
          /\ ready' = [ready EXCEPT ![v] = @ \ {nxt}]
          /\ st' = [st EXCEPT ![nxt] = "RUNNING"]
     \/ UNCHANGED <<cur, ready, st>>
  /\ ipc' = [ipc EXCEPT ![v] = "i0"]
  /\ UNCHANGED <<now, err, inq, insleep, wake, saved, pc, dl, hd, res, rounds, incs, standby, limbo, defer, ih, q, owner, lk, xpc, xt, xbudget>>

Tick ==
  /\ now < MaxNow
  /\ now' = now + 1
  /\ UNCHANGED <<st, err, inq, insleep, wake, saved, pc, dl, hd, res, rounds, incs, cur, ready, standby, limbo, defer, ipc, ih, q, owner, lk, xpc, xt, xbudget>>

(* ---------- external interrupter (non-photon OS thread) ---------- *)
XPeek ==
  /\ xpc = "x0" /\ xbudget > 0
  /\ \E t \in THREAD :
       /\ xt' = t
       /\ IF st[t] = "SLEEPING"
            THEN /\ xpc' = "x1" /\ UNCHANGED err
            ELSE /\ xpc' = "x0"
                 /\ err' = IF st[t] = "READY" /\ err[t] = 0 THEN [err EXCEPT ![t] = EINTR] ELSE err
  /\ xbudget' = xbudget - 1
  /\ UNCHANGED <<now, st, inq, insleep, wake, saved, pc, dl, hd, res, rounds, incs, cur, ready, standby, limbo, defer, ipc, ih, q, owner, lk>>

XLock ==
  /\ xpc = "x1"
  /\ Free(<<"t", xt>>) /\ Acquire(<<"t", xt>>, EXT)
  /\ xpc' = "x2"
  /\ UNCHANGED <<now, st, err, inq, insleep, wake, saved, pc, dl, hd, res, rounds, incs, cur, ready, standby, limbo, defer, ipc, ih, q, owner, xt, xbudget>>

XRecheck ==
  /\ xpc = "x2"
  /\ IF st[xt] = "SLEEPING"
       THEN /\ Free(<<"ql", "m">>) /\ lk' = [lk EXCEPT ![<<"ql", "m">>] = EXT]
            /\ err' = [err EXCEPT ![xt] = EINTR]
            /\ xpc' = "x3"
       ELSE /\ err' = IF st[xt] = "READY" /\ err[xt] = 0 THEN [err EXCEPT ![xt] = EINTR] ELSE err
            /\ lk' = [lk EXCEPT ![<<"t", xt>>] = None]
            /\ xpc' = "x0"
  /\ UNCHANGED <<now, st, inq, insleep, wake, saved, pc, dl, hd, res, rounds, incs, cur, ready, standby, limbo, defer, ipc, ih, q, owner, xt, xbudget>>

XDeliver ==
  /\ xpc = "x3"
  /\ q' = RemoveFromQ(xt)
  /\ inq' = [inq EXCEPT ![xt] = FALSE]
  /\ Free(<<"sb", cpuOf(xt)>>)
  /\ st' = [st EXCEPT ![xt] = "STANDBY"]
  /\ standby' = [standby EXCEPT ![cpuOf(xt)] = Append(@, xt)]
  /\ lk' = [lk EXCEPT ![<<"ql", "m">>] = None, ![<<"t", xt>>] = None]
  /\ xpc' = "x0"
  /\ UNCHANGED <<now, err, insleep, wake, saved, pc, dl, hd, res, rounds, incs, cur, ready, limbo, defer, ipc, ih, owner, xt, xbudget>>

ThreadStep(t, v) ==
  \/ TStart(t, v) \/ TTry(t, v) \/ TSplock(t, v) \/ TCheckTimeout(t, v) \/ TQlock(t, v)
  \/ TSelfLock(t, v) \/ TSleep(t, v) \/ TWake(t, v) \/ TRet(t, v) \/ TUnlock0(t, v)
  \/ TUSplock(t, v) \/ TULockHead(t, v) \/ TUSetOwner(t, v) \/ TUDeliver1(t, v)
  \/ TUDeliver2(t, v) \/ TURelease(t, v) \/ TDone(t, v)

Next ==
  \/ \E v \in VCPU : CtxSave(v) \/ RunDefer(v) \/ IDrain(v) \/ IExpireLock(v) \/ IExpireDo(v) \/ ISwitch(v)
  \/ \E v \in VCPU, t \in THREAD : ThreadStep(t, v)
  \/ Tick \/ XPeek \/ XLock \/ XRecheck \/ XDeliver

Spec == Init /\ [][Next]_vars

(* ---------- properties ---------- *)
MutualExclusion == Cardinality({t \in THREAD : incs[t]}) <= 1
OwnerConsistent == \A t \in THREAD : incs[t] => owner = t
ResultMatches == \A t \in THREAD : pc[t] = "ret" => ((res[t] = 0) <=> (owner = t))
FailedNotQueued == \A t \in THREAD : pc[t] \in {"ret", "done", "cs"} => ~inq[t]
OneRunner == \A v \in VCPU : cur[v] # IDLE => (saved[cur[v]] /\ cpuOf(cur[v]) = v)
AllDone == \A t \in THREAD : st[t] = "DONE"
\* no stuck: if everything is at rest (no enabled thread/idler progress besides idle loop) then all done
Quiet == /\ \A v \in VCPU : cur[v] = IDLE /\ ready[v] = {} /\ standby[v] = <<>> /\ ~Busy(v)
         /\ xpc = "x0" /\ now = MaxNow
         /\ \A t \in THREAD : ~(insleep[t] /\ wake[t] <= now)
NotStuck == Quiet => \A t \in THREAD : st[t] = "DONE"
WaitersHaveOwner == (q # <<>> /\ Free(<<"sp", "m">>) /\ \A v \in VCPU : ~defer[v])
                      => (owner # None /\ st[owner] # "DONE")
FairSpec == Spec /\ \A v \in VCPU : WF_vars(CtxSave(v) \/ RunDefer(v) \/ IDrain(v) \/ IExpireLock(v) \/ IExpireDo(v) \/ ISwitch(v))
                 /\ \A w \in VCPU, t \in THREAD : WF_vars(ThreadStep(t, w))
                 /\ WF_vars(Tick) /\ WF_vars(XLock \/ XRecheck \/ XDeliver)
Termination == <>(\A t \in THREAD : st[t] = "DONE")
=============================================================================
