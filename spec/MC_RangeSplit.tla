---- MODULE MC_RangeSplit ----
EXTENDS RangeSplit
FixedGeoms(maxI) == {[kind |-> "fixed", I |-> i] : i \in 1..maxI}
Pow2Geoms(maxS) == {[kind |-> "pow2", I |-> 2^s] : s \in 0..maxS}
\* all ascending key-point lists 0 < k1 < ... < INF over 1..top
RECURSIVE SetToSeq(_)
SetToSeq(s) == IF s = {} THEN <<>> ELSE LET m == CHOOSE x \in s : \A y \in s : x <= y IN <<m>> \o SetToSeq(s \ {m})
ViGeoms(top) == {[kind |-> "vi", kp |-> <<0>> \o SetToSeq(ks) \o <<INF>>] : ks \in (SUBSET (1..top)) \ {{}}}
GeomsQuick == FixedGeoms(5) \cup Pow2Geoms(3) \cup ViGeoms(5)
GeomsThorough == FixedGeoms(9) \cup Pow2Geoms(4) \cup ViGeoms(7)
====
