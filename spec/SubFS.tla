---------------------------- MODULE SubFS ----------------------------
(* Step machine of Path::level_valid over every path string in scope (C20). *)
EXTENDS SubFSOps
CONSTANTS Alphabet, MaxLen
VARIABLES path, pos, level, verdict
vars == <<path, pos, level, verdict>>
Strings(n) == UNION {[1..k -> Alphabet] : k \in 0..n}
Init == path \in Strings(MaxLen) /\ pos = 1 /\ level = 0 /\ verdict = "scan"
Step ==
  /\ verdict = "scan"
  /\ LET c == Comp(path, pos) IN
     IF c.from = c.to THEN verdict' = "accept" /\ UNCHANGED <<pos, level>>
     ELSE LET l2 == LevelStep(SubSeq(path, c.from, c.to - 1), level) IN
          IF l2 < 0 THEN verdict' = "refuse" /\ UNCHANGED <<pos, level>>
          ELSE level' = l2 /\ pos' = c.to /\ UNCHANGED verdict
  /\ UNCHANGED path
Spec == Init /\ [][Step]_vars
NoEscape == verdict = "accept" => StaysInside(path)
NoFalseRefusal == verdict = "refuse" => ~StaysInside(path)
FuncAgree == verdict # "scan" => ((verdict = "accept") = LevelValid(path))
LevelIsDepth == verdict = "scan" => level >= 0
=============================================================================
