---- MODULE Trace_MutexB ----
(* Tier-B trace validation for the photon mutex (C01): the events emitted by the guarded hooks INSIDE the library at the   *)
(* end of each critical section (recorded by h_sync --prim mutex|mutex0|mutexc|recmutex --hooks, interleaved with the       *)
(* API-level events) must be a behaviour of the mutex protocol at critical-section granularity:                             *)
(*   hMtxTry{t,ok}      the CAS on the owner word (bracketed: the event is atomic with the CAS): ok <=> the word was free;   *)
(*   hSleep{t,q}        prepare_usleep: t linked into wait queue q (the mutex, or none) -- only while the mutex is owned;    *)
(*   hMtxUnlock{h,by,fl} do_mutex_unlock (bracketed store): by the owner, with the internal spinlock held, h = the waiter at  *)
(*                      the head of the queue (0 iff the queue is empty); the word becomes h (hand-off), or 0 (contending);    *)
(*   hIntr{t,r}         prelocked_thread_interrupt: t was asleep and is claimed with reason r; reason -1 from the mutex queue  *)
(*                      only for the head that the preceding unlock named;                                                     *)
(*   hExpire{t}         the expiry pass claimed t (reason 0);  a thread is claimed by exactly one of these per sleep;          *)
(*   hWake{t,r}         the blocking call returns reason r: the reason of its claim (or a stale reason left by an interrupt on *)
(*                      a READY thread, hIntrReady, see finding F2 of C04).                                                    *)
(* API events tie the protocol to what the caller sees: lock() = 0 <=> the owner word holds the caller at that moment;         *)
(* a failed lock() leaves the caller outside the queue.  Other events are accepted without effect.                             *)
EXTENDS Naturals, Integers, Sequences, FiniteSets, TLC, Json, IOUtils
Tr == ndJsonDeserialize(IOEnv.TRACE)
T == (1..12) \cup {99, 100}
M == 200
VARIABLES l, owner, depth, q, sl, rsn, stale, cont, rec, lasthead
vars == <<l, owner, depth, q, sl, rsn, stale, cont, rec, lasthead>>
Init == /\ l = 1 /\ owner = 0 /\ depth = [t \in T |-> 0] /\ q = <<>> /\ sl = [t \in T |-> "run"] /\ rsn = [t \in T |-> 0]
        /\ stale = [t \in T |-> {}] /\ cont = FALSE /\ rec = FALSE /\ lasthead = 0 /\ TLCSet(1, 0)
Ev(e) == l <= Len(Tr) /\ Tr[l].e = e /\ l' = l + 1
R == Tr[l]
Known(t) == t \in T
Remove(seq, x) == SelectSeq(seq, LAMBDA y : y # x)
InQ(x) == \E i \in 1..Len(q) : q[i] = x
Reset == /\ Ev("Reset") /\ owner' = 0 /\ depth' = [t \in T |-> 0] /\ q' = <<>> /\ sl' = [t \in T |-> "run"] /\ rsn' = [t \in T |-> 0]
         /\ stale' = [t \in T |-> {}] /\ cont' = (R.cont = 1) /\ rec' = R.rec /\ lasthead' = 0
MtxTry == /\ Ev("hMtxTry") /\ R.m = M /\ Known(R.t)
          /\ IF R.ok = 1 THEN owner = 0 /\ owner' = R.t ELSE owner # 0 /\ UNCHANGED owner
          /\ UNCHANGED <<depth, q, sl, rsn, stale, cont, rec, lasthead>>
Sleep == /\ Ev("hSleep")
         /\ IF ~Known(R.t) THEN UNCHANGED <<q, sl, rsn>>
            ELSE /\ sl[R.t] = "run"
                 /\ sl' = [sl EXCEPT ![R.t] = "asleep"] /\ rsn' = [rsn EXCEPT ![R.t] = 0]
                 /\ IF R.q = M THEN owner # 0 /\ owner # R.t /\ q' = Append(q, R.t) ELSE UNCHANGED q
         /\ UNCHANGED <<owner, depth, stale, cont, rec, lasthead>>
MtxUnlock == /\ Ev("hMtxUnlock") /\ R.m = M
             /\ owner = R.by /\ owner # 0
             /\ (R.fl % 2) = 1                                     \* internal spinlock held
             /\ R.h = (IF q = <<>> THEN 0 ELSE Head(q))              \* hand-off goes to the head of the queue
             /\ owner' = IF cont THEN 0 ELSE R.h
             /\ lasthead' = R.h
             /\ UNCHANGED <<depth, q, sl, rsn, stale, cont, rec>>
Intr == /\ Ev("hIntr")
        /\ IF ~Known(R.t) THEN UNCHANGED <<q, sl, rsn, lasthead>>
           ELSE /\ sl[R.t] = "asleep"                                \* claimed exactly once per sleep
                /\ (R.r = -1 /\ InQ(R.t)) => (R.t = lasthead /\ Head(q) = R.t /\ (cont \/ owner = R.t))
                /\ sl' = [sl EXCEPT ![R.t] = "claimed"] /\ rsn' = [rsn EXCEPT ![R.t] = R.r]
                /\ q' = Remove(q, R.t) /\ lasthead' = IF R.r = -1 THEN 0 ELSE lasthead
        /\ UNCHANGED <<owner, depth, stale, cont, rec>>
Expire == /\ Ev("hExpire")
          /\ IF ~Known(R.t) THEN UNCHANGED <<q, sl, rsn>>
             ELSE /\ sl[R.t] = "asleep"
                  /\ sl' = [sl EXCEPT ![R.t] = "claimed"] /\ rsn' = [rsn EXCEPT ![R.t] = 0] /\ q' = Remove(q, R.t)
          /\ UNCHANGED <<owner, depth, stale, cont, rec, lasthead>>
IntrReady == /\ Ev("hIntrReady")
             /\ IF Known(R.t) /\ R.st = 0 THEN stale' = [stale EXCEPT ![R.t] = @ \cup {R.r}] ELSE UNCHANGED stale
             /\ UNCHANGED <<owner, depth, q, sl, rsn, cont, rec, lasthead>>
Wake == /\ Ev("hWake")
        /\ IF ~Known(R.t) THEN UNCHANGED <<sl, stale>>
           ELSE /\ sl[R.t] = "claimed" /\ ~InQ(R.t)
                /\ (R.r = rsn[R.t] \/ R.r \in stale[R.t])
                /\ sl' = [sl EXCEPT ![R.t] = "run"] /\ stale' = [stale EXCEPT ![R.t] = {}]
        /\ UNCHANGED <<owner, depth, q, rsn, cont, rec, lasthead>>
\* API level
Resp == /\ Ev("Resp")
        \* depth[t] = recursion depth of thread t as the API calls tell it (per thread: the Resp events of two threads may be
        \* logged in either order around a hand-over, the hook events inside the brackets are what orders ownership)
        /\ CASE R.op = "lock" /\ R.r = 0 -> /\ owner = R.t /\ ~InQ(R.t) /\ depth' = [depth EXCEPT ![R.t] = IF rec THEN @ + 1 ELSE 1]
             [] R.op = "lock" /\ R.r # 0 -> /\ owner # R.t /\ ~InQ(R.t) /\ UNCHANGED depth
             [] R.op = "try_lock" /\ R.r = 0 /\ "skip" \notin DOMAIN R -> owner = R.t /\ depth' = [depth EXCEPT ![R.t] = IF rec THEN @ + 1 ELSE 1]
             [] R.op = "unlock" -> (IF rec /\ depth[R.t] > 1 THEN owner = R.t ELSE TRUE) /\ depth' = [depth EXCEPT ![R.t] = IF @ > 0 THEN @ - 1 ELSE 0]
             [] OTHER -> UNCHANGED depth
        /\ UNCHANGED <<owner, q, sl, rsn, stale, cont, rec, lasthead>>
CsEnter == Ev("CsEnter") /\ owner = R.t /\ UNCHANGED <<owner, depth, q, sl, rsn, stale, cont, rec, lasthead>>
Quiesce == /\ Ev("Quiesce") /\ owner = 0 /\ q = <<>> /\ \A t \in 1..12 : sl[t] = "run"
           /\ UNCHANGED <<owner, depth, q, sl, rsn, stale, cont, rec, lasthead>>
Other == /\ l <= Len(Tr) /\ Tr[l].e \in {"Inv", "CsExit", "Interrupt", "hDrain", "hPreSwitch", "hSteal", "hHeap"} /\ l' = l + 1
         /\ UNCHANGED <<owner, depth, q, sl, rsn, stale, cont, rec, lasthead>>
\* events about other mutexes (the library's own, or none registered): accepted without effect
Foreign == /\ l <= Len(Tr) /\ Tr[l].e \in {"hMtxTry", "hMtxUnlock"} /\ Tr[l].m # M /\ l' = l + 1
           /\ UNCHANGED <<owner, depth, q, sl, rsn, stale, cont, rec, lasthead>>
Next == Reset \/ MtxTry \/ Sleep \/ MtxUnlock \/ Intr \/ Expire \/ IntrReady \/ Wake \/ Resp \/ CsEnter \/ Quiesce \/ Other \/ Foreign
Spec == Init /\ [][Next]_vars
QueueOnlyAsleep == \A i \in 1..Len(q) : sl[q[i]] = "asleep"
NotAccepted == l <= Len(Tr)
Progress == TLCSet(1, IF TLCGet(1) < l THEN l ELSE TLCGet(1))
Post == PrintT(<<"MAXL", TLCGet(1), Len(Tr)>>)
====
