---- MODULE Trace_TimerA ----
(* Tier-A trace validation for photon::Timer (thread/timer.h, Timer::stub in thread/thread.cpp); beyond the listed     *)
(* properties.  Timer.tla is the design-level model (timer thread + controller + the scheduler's wake-up reason); this  *)
(* module is the contract an execution recorded by h_timer (one vCPU: the file order is the program order) must obey:   *)
(*   - the callback starts only while the timer is armed, and not before  arming time + timeout  on the runtime clock;  *)
(*   - reset(t)/cancel() return 0 exactly when the timer is waiting (armed or cancelled) and then re-arm it from that    *)
(*     instant / disarm it; they return -1 inside the callback and after a one-shot timer has fired, changing nothing;   *)
(*     in particular a cancel() that arrives after the deadline passed but before the timer thread ran (expired, READY)  *)
(*     still prevents the callback (the case that depends on thread_interrupt storing a reason for a READY thread);      *)
(*   - the value returned by the callback (0 = default) is the next timeout of a repeating timer;                        *)
(*   - once ~Timer() has been invoked the callback never starts, and ~Timer() returns only outside the callback;         *)
(*   - an armed timer has fired by the time the vCPU has been idle well past its deadline (Check).                       *)
EXTENDS Naturals, Integers, Sequences, FiniteSets, TLC, Json, IOUtils
Tr == ndJsonDeserialize(IOEnv.TRACE)
T == 0..2
NoRet == -2
Slack == 20000        \* us
VARIABLES l, mode, armedAt, to, dflt, rep, pend, nf
vars == <<l, mode, armedAt, to, dflt, rep, pend, nf>>
\* mode: "none" | "armed" | "idle" (cancelled: sleeps forever) | "cb" | "done" (one-shot fired) | "cbdying" | "dying" | "gone"
Init == l = 1 /\ mode = "gone" /\ armedAt = 0 /\ to = 0 /\ dflt = 0 /\ rep = FALSE /\ pend = [t \in T |-> NoRet] /\ nf = 0 /\ TLCSet(1, 0)
Ev(e) == l <= Len(Tr) /\ Tr[l].e = e /\ l' = l + 1
R == Tr[l]
Reset == /\ Ev("Reset") /\ mode = "gone" /\ \A t \in T : pend[t] = NoRet
         /\ mode' = "none" /\ dflt' = R.dflt /\ rep' = R.rep /\ nf' = 0 /\ armedAt' = 0 /\ to' = 0 /\ UNCHANGED pend
New == /\ Ev("New") /\ mode = "none"
       /\ mode' = "armed" /\ armedAt' = R.now /\ to' = dflt /\ UNCHANGED <<dflt, rep, pend, nf>>
Fire == /\ Ev("Fire") /\ mode = "armed" /\ R.now >= armedAt + to /\ R.k = nf
        /\ mode' = "cb" /\ nf' = nf + 1 /\ UNCHANGED <<armedAt, to, dflt, rep, pend>>
FireEnd == /\ Ev("FireEnd") /\ mode \in {"cb", "cbdying"}
           /\ IF mode = "cbdying" THEN mode' = "dying" /\ UNCHANGED <<armedAt, to>>
              ELSE IF rep THEN mode' = "armed" /\ armedAt' = R.now /\ to' = (IF R.next = 0 THEN dflt ELSE R.next)
              ELSE mode' = "done" /\ UNCHANGED <<armedAt, to>>
           /\ UNCHANGED <<dflt, rep, pend, nf>>
OpInv == /\ (Ev("ResetInv") \/ Ev("CancelInv")) /\ pend[R.t] = NoRet /\ mode \in {"armed", "idle", "cb", "done"}
         /\ IF mode \in {"armed", "idle"}
            THEN /\ pend' = [pend EXCEPT ![R.t] = 0]
                 /\ IF R.to = -1 THEN mode' = "idle" /\ UNCHANGED <<armedAt, to>>
                    ELSE mode' = "armed" /\ armedAt' = R.now /\ to' = R.to
            ELSE pend' = [pend EXCEPT ![R.t] = -1] /\ UNCHANGED <<mode, armedAt, to>>
         /\ UNCHANGED <<dflt, rep, nf>>
OpRet == /\ Ev("OpRet") /\ pend[R.t] = R.r
         /\ pend' = [pend EXCEPT ![R.t] = NoRet] /\ UNCHANGED <<mode, armedAt, to, dflt, rep, nf>>
DtorInv == /\ Ev("DtorInv") /\ mode \in {"armed", "idle", "done", "cb"}
           /\ mode' = (IF mode = "cb" THEN "cbdying" ELSE "dying") /\ UNCHANGED <<armedAt, to, dflt, rep, pend, nf>>
DtorRet == /\ Ev("DtorRet") /\ mode = "dying" /\ mode' = "gone" /\ UNCHANGED <<armedAt, to, dflt, rep, pend, nf>>
Check == /\ Ev("Check") /\ ~(mode = "armed" /\ R.now > armedAt + to + Slack)
         /\ UNCHANGED <<mode, armedAt, to, dflt, rep, pend, nf>>
Quiesce == /\ Ev("Quiesce") /\ mode = "gone" /\ R.fires = nf /\ \A t \in T : pend[t] = NoRet
           /\ UNCHANGED <<mode, armedAt, to, dflt, rep, pend, nf>>
Next == Reset \/ New \/ Fire \/ FireEnd \/ OpInv \/ OpRet \/ DtorInv \/ DtorRet \/ Check \/ Quiesce
Spec == Init /\ [][Next]_vars
NotAccepted == l <= Len(Tr)
Progress == TLCSet(1, IF TLCGet(1) < l THEN l ELSE TLCGet(1))
Post == PrintT(<<"MAXL", TLCGet(1), Len(Tr)>>)
====
