---- MODULE MC_Lifecycle ----
EXTENDS Lifecycle
CONSTANTS v1, v2, v3, m, w1, w2, w3
====
