---- MODULE Trace_SubFS ----
(* Judges recorded sub-filesystem operations (harness/h_subfs.cpp) with the C20 reference:   *)
(*   NoEscape        : a forwarded path is base \o path and path stays inside lexically;      *)
(*   NoFalseRefusal  : a path that stays inside and fits the buffer is forwarded unchanged;   *)
(* and against the transcription (PathCat).                                                   *)
EXTENDS SubFSOps, Json, IOUtils
Tr == ndJsonDeserialize(IOEnv.TRACE)
VARIABLE l
RECURSIVE Rep(_, _)
Rep(c, n) == IF n = 0 THEN <<>> ELSE <<c>> \o Rep(c, n - 1)
RECURSIVE Expand(_, _)
Expand(r, k) == IF k > Len(r) THEN <<>> ELSE Rep(r[k][1], r[k][2]) \o Expand(r, k + 1)
RLen(r) == LET RECURSIVE S(_)  S(k) == IF k = 0 THEN 0 ELSE S(k-1) + r[k][2] IN S(Len(r))
\* long paths (around the buffer limit) are judged on their run-length form: only the length rule
\* and the leading components matter; the harness builds them as <prefix> x x x / x x ...
JudgeOne(base, prle, rej, fwdrle) ==
  LET n == RLen(prle)  nb == RLen(base) IN
  IF n > 300
  THEN (IF n + nb >= PATHBUF - 2 THEN (IF rej THEN {} ELSE {"over-long path forwarded"})
        ELSE LET head == Expand(SubSeq(prle, 1, IF Len(prle) < 12 THEN Len(prle) ELSE 12), 1)
                 inside == StaysInside(SubSeq(head, 1, IF Len(head) < 40 THEN Len(head) ELSE 40))
             IN IF inside /\ rej THEN {"false refusal (long path)"}
                ELSE IF ~inside /\ ~rej THEN {"escape (long path)"}
                ELSE IF ~rej /\ RLen(fwdrle) # n + nb THEN {"forwarded path is not base + path"} ELSE {})
  ELSE
  LET p == Expand(prle, 1)  b == Expand(base, 1)  fwd == Expand(fwdrle, 1)
      inside == StaysInside(p)
      fits == Len(p) + Len(b) < PATHBUF - 2
      model == PathCat(b, p)
  IN  (IF ~rej /\ ~inside THEN {"ESCAPE: forwarded a path that leaves the base"} ELSE {})
 \cup (IF ~rej /\ fwd # b \o p THEN {"forwarded path is not base + path"} ELSE {})
 \cup (IF rej /\ inside /\ fits THEN {"false refusal of a path that stays inside"} ELSE {})
 \cup (IF rej # model.rejected THEN {"differs from transcribed PathCat"} ELSE {})
Problems(r) ==
  IF r.e = "Fatal" THEN {"fatal"}
  ELSE IF r.e = "Op1" THEN (IF r.called THEN {} ELSE {"underlay not called"}) \cup JudgeOne(r.base, r.p, r.rej, r.fwd)
  ELSE (IF r.called THEN {} ELSE {"underlay not called"}) \cup JudgeOne(r.base, r.p, r.rej, r.fwd) \cup JudgeOne(r.base, r.q, r.rej2, r.fwd2)
Init == l = 1
Next == /\ l <= Len(Tr)
        /\ LET p == Problems(Tr[l]) IN IF p = {} THEN TRUE ELSE PrintT("MISMATCH " \o ToString(l) \o " " \o ToString(p))
        /\ l' = l + 1
Spec == Init /\ [][Next]_l
NotAccepted == l <= Len(Tr)
====
