---- MODULE EpollNG ----
(* C10, part 2b: the engine of io/epoll-ng.cpp (EventEngineEPollNG).  One epoll instance per direction; wait_for_fd ADDs a  *)
(* one-shot registration whose data pointer is an Event object ON THE WAITER'S STACK, sleeps, and DELs the registration     *)
(* afterwards.  wait_for_events first fires every fetched, unfired event of all pollers (rm_interest of the Event the data pointer refers to, i.e. a read   *)
(* of the waiter's stack, then thread_interrupt); only when nothing was fired it fetches (reaps) up to B events per poller  *)
(* WITHOUT firing them - they are fired by the next call, so photon threads run in between.  A waiter that leaves            *)
(* wait_for_fd by expiry or interrupt therefore calls wait_and_fire_events(0) itself before its stack frame dies.            *)
EXTENDS Naturals, Integers, Sequences, FiniteSets, TLC
CONSTANTS FDS, Threads, B,
          Bug            \* "none" | "nodrain" (the waiter does not fire pending events before returning)
D == {"R", "W"}
None == "none"
VARIABLES ready, reg, batch, th, dangling, addfail
vars == <<ready, reg, batch, th, dangling, addfail>>
(* reg[f][d] : [st |-> "none" | "armed" | "off", t, g]   batch[d] : sequence of [t, g, f] (pointer to t's Event of wait number g) *)
NoReg == [st |-> "none", t |-> None, g |-> 0]
Idle(g) == [pc |-> "idle", fd |-> None, dir |-> None, reason |-> None, by |-> <<>>, g |-> g]
Init == /\ ready = [f \in FDS |-> {}] /\ reg = [f \in FDS |-> [d \in D |-> NoReg]] /\ batch = [d \in D |-> <<>>]
        /\ th = [t \in Threads |-> Idle(0)] /\ dangling = FALSE /\ addfail = FALSE
StartWait(t, f, d) ==
    /\ th[t].pc = "idle"
    /\ \A u \in Threads : ~(th[u].pc # "idle" /\ th[u].fd = f /\ th[u].dir = d)
    /\ IF reg[f][d].st # "none" THEN addfail' = TRUE /\ UNCHANGED <<ready, reg, batch, th, dangling>>       \* EPOLL_CTL_ADD -> EEXIST
       ELSE LET g == 1 - th[t].g IN
            /\ reg' = [reg EXCEPT ![f][d] = [st |-> "armed", t |-> t, g |-> g]]
            /\ th' = [th EXCEPT ![t] = [pc |-> "sleeping", fd |-> f, dir |-> d, reason |-> None, by |-> <<>>, g |-> g]]
            /\ UNCHANGED <<ready, batch, dangling, addfail>>
(* ---- firing: state = <<reg, th, dangling>> threaded through the pending events ---- *)
Wake(thr, t, f, d) ==
    IF thr[t].pc = "sleeping" THEN [thr EXCEPT ![t].pc = "ready", ![t].reason = "event", ![t].by = <<f, d>>]
    ELSE IF thr[t].pc = "ready" /\ thr[t].reason = "timeout" THEN [thr EXCEPT ![t].reason = "event", ![t].by = <<f, d>>]
    ELSE thr                                                               \* RUNNING (the caller itself) or already woken: no effect
FireOne(st, e, d) ==        \* st = <<reg, th, dangling>>; e = [t, g, f]
    LET rg == st[1]  thr == st[2]  t == e.t
        alive == thr[t].pc \in {"sleeping", "ready", "running"} /\ thr[t].g = e.g          \* the Event object still exists
    IN IF ~alive THEN <<rg, thr, TRUE>>                                                     \* rm_interest of the Event the data pointer refers to reads a dead stack frame
       ELSE LET f == thr[t].fd  dd == thr[t].dir IN
            <<[rg EXCEPT ![f][dd] = NoReg], Wake(thr, t, e.f, d), st[3]>>                  \* EPOLL_CTL_DEL (errors ignored), thread_interrupt(EOK)
RECURSIVE FireAll(_, _, _)
FireAll(st, br, bw) ==      \* do { r.notify_one + w.notify_one } while (turn): each poller is consumed from its end
    IF br = <<>> /\ bw = <<>> THEN st
    ELSE LET s1 == IF br # <<>> THEN FireOne(st, br[Len(br)], "R") ELSE st
             s2 == IF bw # <<>> THEN FireOne(s1, bw[Len(bw)], "W") ELSE s1
         IN FireAll(s2, IF br # <<>> THEN SubSeq(br, 1, Len(br) - 1) ELSE br, IF bw # <<>> THEN SubSeq(bw, 1, Len(bw) - 1) ELSE bw)
Pending == batch["R"] # <<>> \/ batch["W"] # <<>>
RECURSIVE Perms(_)
Perms(X) == IF X = {} THEN {<<>>} ELSE UNION {{<<x>> \o p : p \in Perms(X \ {x})} : x \in X}
Fetchable(rg, d) == {f \in FDS : rg[f][d].st = "armed" /\ d \in ready[f]}
Take(X) == {Y \in SUBSET X : Cardinality(Y) = (IF Cardinality(X) < B THEN Cardinality(X) ELSE B)}
(* reaping: up to B ready, armed registrations per poller are fetched (any of them, any order) and disarmed; nothing is fired *)
Entries(rg, p, d) == [i \in 1..Len(p) |-> [t |-> rg[p[i]][d].t, g |-> rg[p[i]][d].g, f |-> p[i]]]
Reaped(rg) == UNION {UNION {{<<[f \in FDS |-> [d \in D |-> IF (d = "R" /\ f \in XR) \/ (d = "W" /\ f \in XW)
                                                           THEN [rg[f][d] EXCEPT !.st = "off"] ELSE rg[f][d]]],
                              [d \in D |-> IF d = "R" THEN Entries(rg, pr, "R") ELSE Entries(rg, pw, "W")]>>
                             : pr \in Perms(XR), pw \in Perms(XW)}
                            : XW \in Take(Fetchable(rg, "W"))}
                     : XR \in Take(Fetchable(rg, "R"))}
(* wait_for_events on <<reg, th, dangling>>: fire everything pending, or else reap.  Outcomes: <<reg, th, dangling, batch>> *)
WaitForEvents(rg, thr, dg) ==
    IF Pending THEN LET r == FireAll(<<rg, thr, dg>>, batch["R"], batch["W"]) IN {<<r[1], r[2], r[3], [d \in D |-> <<>>]>>}
    ELSE {<<o[1], thr, dg, o[2]>> : o \in Reaped(rg)}
(* the scheduler / idle loop calls wait_and_fire_events *)
WaitAndFire ==
    /\ (Pending \/ Fetchable(reg, "R") # {} \/ Fetchable(reg, "W") # {})
    /\ \E o \in WaitForEvents(reg, th, dangling) : reg' = o[1] /\ th' = o[2] /\ dangling' = o[3] /\ batch' = o[4]
    /\ UNCHANGED <<ready, addfail>>
Expire(t, why) == /\ th[t].pc = "sleeping" /\ th' = [th EXCEPT ![t].pc = "ready", ![t].reason = why]
                  /\ UNCHANGED <<ready, reg, batch, dangling, addfail>>
Resume(t) ==
    /\ th[t].pc = "ready"
    /\ IF th[t].reason = "event"
       THEN /\ th' = [th EXCEPT ![t] = Idle(th[t].g)] /\ UNCHANGED <<reg, batch, dangling>>         \* return 0
       ELSE LET f == th[t].fd  d == th[t].dir
                rg1 == [reg EXCEPT ![f][d] = NoReg]                                                 \* rm_interest(event): DEL, errors ignored
                th1 == [th EXCEPT ![t].pc = "running"] IN
            IF Bug = "nodrain"
            THEN /\ reg' = rg1 /\ th' = [th EXCEPT ![t] = Idle(th[t].g)] /\ UNCHANGED <<batch, dangling>>
            ELSE \E o \in WaitForEvents(rg1, th1, dangling) :                                       \* wait_and_fire_events(0) before the frame dies
                    /\ reg' = o[1] /\ dangling' = o[3] /\ batch' = o[4]
                    /\ th' = [o[2] EXCEPT ![t] = Idle(th[t].g)]
    /\ UNCHANGED <<ready, addfail>>
Flip(f, d) == /\ ready' = [ready EXCEPT ![f] = IF d \in @ THEN @ \ {d} ELSE @ \cup {d}]
              /\ UNCHANGED <<reg, batch, th, dangling, addfail>>
Next == \/ \E t \in Threads, f \in FDS, d \in D : StartWait(t, f, d)
        \/ WaitAndFire
        \/ \E t \in Threads : Expire(t, "timeout") \/ Expire(t, "intr") \/ Resume(t)
        \/ \E f \in FDS, d \in D : Flip(f, d)
Spec == Init /\ [][Next]_vars
(* ---------------- properties ---------------- *)
InWait(t) == th[t].pc \in {"sleeping", "ready"}
NoDanglingEvent == /\ ~dangling
                   /\ \A d \in D : \A i \in 1..Len(batch[d]) :
                         LET e == batch[d][i] IN InWait(e.t) /\ th[e.t].g = e.g /\ th[e.t].dir = d /\ th[e.t].fd = e.f
EventGoesToItsWaiter == \A t \in Threads : (th[t].pc = "ready" /\ th[t].reason = "event") => th[t].by = <<th[t].fd, th[t].dir>>
NoLostReadiness == \A t \in Threads : (th[t].pc = "sleeping" /\ th[t].dir \in ready[th[t].fd]) =>
    LET f == th[t].fd  d == th[t].dir IN
    \/ reg[f][d].st = "armed" /\ reg[f][d].t = t
    \/ \E i \in 1..Len(batch[d]) : batch[d][i].t = t /\ batch[d][i].g = th[t].g
NoAddFailure == ~addfail
RegistrationHasWaiter == \A f \in FDS, d \in D : reg[f][d].st # "none" =>
    (InWait(reg[f][d].t) /\ th[reg[f][d].t].fd = f /\ th[reg[f][d].t].dir = d /\ th[reg[f][d].t].g = reg[f][d].g)
(* a waiter's expiry / interrupt and its clean-up leave every other waiter either untouched or woken by its own event *)
TimeoutIsolated == [][\A t \in Threads :
    ((th[t].pc = "sleeping" /\ th'[t].pc = "ready" /\ th'[t].reason \in {"timeout", "intr"})
       \/ (th[t].pc = "ready" /\ th[t].reason \in {"timeout", "intr"} /\ th'[t].pc = "idle"))
    => \A u \in Threads \ {t} :
          \/ th[u].pc # "sleeping" /\ (th'[u] = th[u] \/ (th[u].pc = "ready" /\ th'[u] = [th[u] EXCEPT !.reason = "event", !.by = <<th[u].fd, th[u].dir>>]))
          \/ th[u].pc = "sleeping" /\ th'[u] = th[u]
                /\ (reg'[th[u].fd][th[u].dir] = reg[th[u].fd][th[u].dir] \/ reg'[th[u].fd][th[u].dir] = [reg[th[u].fd][th[u].dir] EXCEPT !.st = "off"])
          \/ th[u].pc = "sleeping" /\ th'[u].pc = "ready" /\ th'[u].reason = "event" /\ th'[u].by = <<th[u].fd, th[u].dir>>]_vars
====
