---- MODULE Trace_RangeLockA ----
(* Tier-A trace validation for RangeLock (C18): recorded executions (harness/h_rangelock.cpp --prim conc | dir) must be      *)
(* behaviours of the ABSTRACT object the property talks about: the collection of ranges currently held.                     *)
(* Word 0..M with saturating addition (M comes with the Reset event: the top of the 64-bit space is logged as distance       *)
(* from 2^64-1 and mapped to M - d).  A range (off, len) covers the bytes off .. End-1.                                      *)
(*   Overlap(a, b)  share a byte.   Touch(a, b) == a.off < End(b) /\ b.off < End(a), the interval test: the same as Overlap  *)
(*   when both cover a byte; a range that covers no byte touches a range that strictly contains its offset.  The property    *)
(*   is silent about whether such a request has to wait, so the specification allows both.                                  *)
(* Every call takes effect at one instant between its Inv and Resp (silent Lin... steps):                                    *)
(*   lock / try_lock_wait2 / try_lock_wait granted  => at that instant the range shares no byte with any held range;          *)
(*   try-call refused (it slept, then was woken by an unlock or an interrupt) => at some instant it touched a held range;     *)
(*   lock() never fails;  unlock(handle) releases that range;  unlock(off,len) releases every held range inside (off,len)    *)
(*   (a range covering no byte is inside when (off,len) strictly contains its offset) and every range locked as exactly      *)
(*   (off,len) through try_lock_wait;  adjust_range granted => the new range shares no byte with any OTHER held range,       *)
(*   refused => nothing changes (a refusal is always allowed).                                                              *)
(* Harness observations:                                                                                                    *)
(*   Acquire / Claim / Release  the occupancy map: what each thread believes it may touch right now - never two claims        *)
(*                              sharing a byte ("at every instant the held byte ranges are pairwise disjoint");              *)
(*   Settle{blocked}            the harness found these threads asleep inside a lock call and everybody else outside any     *)
(*                              call: each of them must touch a range that is held NOW (a waiter proceeds once the conflict   *)
(*                              is gone: woken when the range is unlocked, and not left asleep when it was adjusted away);   *)
(*   Quiesce                    every call has returned (the harness then also locked the whole word at once).              *)
(* Hang and Fatal events have no action.                                                                                    *)
(* Known-finding switches (environment, off by default; used only to classify a rejected execution):                         *)
(*   KF_F11   once a request that covers no byte has been granted while another held range covers no byte at the same         *)
(*            offset (std::set precondition violated: undefined behaviour), every later answer / observation is accepted;    *)
(*   KF_C18a  unlock(off,len) does not release a range that covers no byte and was locked as exactly (off,len);              *)
(*   KF_C18b  a sleeper may stay asleep as long as the entry it touched when it fell asleep is still held, even if that       *)
(*            entry was adjusted away from it (adjust_range does not wake waiters).                                         *)
EXTENDS Naturals, Integers, Sequences, FiniteSets, TLC, Json, IOUtils
Tr == ndJsonDeserialize(IOEnv.TRACE)
KF(k) == k \in DOMAIN IOEnv /\ IOEnv[k] = "1"
KF_F11 == KF("KF_F11")
KF_C18a == KF("KF_C18a")
KF_C18b == KF("KF_C18b")
T == (1..8) \cup {91}
NoOp == [op |-> "none", c |-> 0, off |-> 0, len |-> 0, id |-> 0, lin |-> FALSE, res |-> 0]
VARIABLES l, M, held, ghost, pend, occ, dup
vars == <<l, M, held, ghost, pend, occ, dup>>
\* held: set of [c, off, len, api];  ghost: former extents [c, off, len] of adjusted entries that are still held;
\* occ: occupancy claims [c, off, len];  dup: two held ranges covering no byte shared an offset at some instant
Min2(a, b) == IF a < b THEN a ELSE b
Max2(a, b) == IF a > b THEN a ELSE b
End(r) == Min2(M, r.off + r.len)
IsEmpty(r) == End(r) = r.off
Overlap(a, b) == Max2(a.off, b.off) < Min2(End(a), End(b))
Touch(a, b) == a.off < End(b) /\ b.off < End(a)
Contains(a, b) == a.off <= b.off /\ End(a) >= End(b)
Quiet == KF_F11 /\ dup

Init == l = 1 /\ M = 7 /\ held = {} /\ ghost = {} /\ pend = [t \in T |-> NoOp] /\ occ = {} /\ dup = FALSE /\ TLCSet(1, 0)
Ev(e) == l <= Len(Tr) /\ Tr[l].e = e /\ l' = l + 1
R == Tr[l]
F(name, dflt) == IF name \in DOMAIN R THEN R[name] ELSE dflt

Reset == /\ Ev("Reset") /\ M' = R.M /\ held' = {} /\ ghost' = {} /\ pend' = [t \in T |-> NoOp] /\ occ' = {} /\ dup' = FALSE
Inv == /\ Ev("Inv") /\ pend[R.t].op = "none"
       /\ pend' = [pend EXCEPT ![R.t] = [op |-> R.op, c |-> R.c, off |-> F("off", 0), len |-> F("len", 0), id |-> F("id", 0),
                                          lin |-> FALSE, res |-> 0]]
       /\ UNCHANGED <<M, held, ghost, occ, dup>>
Acq == {"lock", "try2", "try1"}
Done(t, res) == pend' = [pend EXCEPT ![t].lin = TRUE, ![t].res = res]
LinGrant(t) == LET p == pend[t] IN
  /\ p.op \in Acq /\ ~p.lin
  /\ Quiet \/ \A h \in held : ~Overlap(h, p)
  /\ held' = held \cup {[c |-> p.c, off |-> p.off, len |-> p.len, api |-> IF p.op = "try1" THEN "range" ELSE "handle"]}
  /\ dup' = (dup \/ (IsEmpty(p) /\ \E h \in held : h.off = p.off /\ IsEmpty(h)))
  /\ Done(t, 1) /\ UNCHANGED <<l, M, ghost, occ>>
LinDeny(t) == LET p == pend[t] IN
  /\ p.op \in {"try2", "try1"} /\ ~p.lin
  /\ Quiet \/ \E h \in held : Touch(h, p)
  /\ Done(t, 0) /\ UNCHANGED <<l, M, held, ghost, occ, dup>>
LinUnlockH(t) == LET p == pend[t] IN
  /\ p.op = "unlockh" /\ ~p.lin
  /\ held' = {h \in held : h.c # p.id} /\ ghost' = {g \in ghost : g.c # p.id}
  /\ Done(t, 1) /\ UNCHANGED <<l, M, occ, dup>>
Gone(r, h) == /\ Contains(r, h)
              /\ \/ Touch(r, h)
                 \/ (~KF_C18a /\ h.api = "range" /\ h.off = r.off /\ h.len = r.len)
LinUnlockR(t) == LET p == pend[t] IN
  /\ p.op = "unlockr" /\ ~p.lin
  /\ held' = {h \in held : ~Gone(p, h)} /\ ghost' = {g \in ghost : \E h \in held' : h.c = g.c}
  /\ Done(t, 1) /\ UNCHANGED <<l, M, occ, dup>>
LinRescue(t) == LET p == pend[t] IN             \* the harness unlocks the whole 64-bit space to get stuck threads out
  /\ p.op = "rescue" /\ ~p.lin
  /\ held' = {h \in held : ~(End(h) > 0 /\ h.off < M)} /\ ghost' = {g \in ghost : \E h \in held' : h.c = g.c}
  /\ Done(t, 1) /\ UNCHANGED <<l, M, occ, dup>>
LinAdjustOk(t) == LET p == pend[t] IN
  /\ p.op = "adjust" /\ ~p.lin
  /\ \E h \in held : /\ h.c = p.id
                     /\ Quiet \/ \A o \in held \ {h} : ~Overlap(o, p)
                     /\ held' = (held \ {h}) \cup {[h EXCEPT !.off = p.off, !.len = p.len]}
                     /\ ghost' = ghost \cup {[c |-> h.c, off |-> h.off, len |-> h.len]}
  /\ Done(t, 1) /\ UNCHANGED <<l, M, occ, dup>>
LinAdjustNo(t) == /\ pend[t].op = "adjust" /\ ~pend[t].lin /\ Done(t, 0) /\ UNCHANGED <<l, M, held, ghost, occ, dup>>
Resp == /\ Ev("Resp")
        /\ LET p == pend[R.t] IN p.op = R.op /\ p.lin /\ p.res = R.r
        /\ pend' = [pend EXCEPT ![R.t] = NoOp]
        /\ UNCHANGED <<M, held, ghost, occ, dup>>
Claimed(c, o, n) == [c |-> c, off |-> o, len |-> n]
OccOK(s) == Quiet \/ \A a, b \in s : a.c # b.c => ~Overlap(a, b)
Acquire == /\ Ev("Acquire") /\ occ' = occ \cup {Claimed(R.c, R.off, R.len)} /\ OccOK(occ')
           /\ UNCHANGED <<M, held, ghost, pend, dup>>
Claim == /\ Ev("Claim") /\ occ' = {o \in occ : o.c # R.c} \cup {Claimed(R.c, R.off, R.len)} /\ OccOK(occ')
         /\ UNCHANGED <<M, held, ghost, pend, dup>>
Release == /\ Ev("Release") /\ occ' = {o \in occ : o.c # R.c} /\ UNCHANGED <<M, held, ghost, pend, dup>>
Interrupt == /\ Ev("Interrupt") /\ UNCHANGED <<M, held, ghost, pend, occ, dup>>
Blocked == {R.blocked[i] : i \in 1..Len(R.blocked)}
Settle == /\ Ev("Settle")
          /\ \A t \in T : IF t \in Blocked
                          THEN /\ pend[t].op \in Acq /\ ~(pend[t].lin /\ pend[t].res = 1)
                               /\ \/ Quiet
                                  \/ \E h \in held : Touch(h, pend[t])
                                  \/ (KF_C18b /\ \E g \in ghost : Touch(g, pend[t]))
                          ELSE pend[t].op = "none"
          /\ UNCHANGED <<M, held, ghost, pend, occ, dup>>
Quiesce == /\ Ev("Quiesce") /\ \A t \in T : pend[t].op = "none" /\ UNCHANGED <<M, held, ghost, pend, occ, dup>>
\* the harness cut the execution short because the container's precondition was violated: the abstract history must agree
Abort == /\ Ev("Abort") /\ dup /\ UNCHANGED <<M, held, ghost, pend, occ, dup>>
\* with the container in undefined territory a crash or a hang of the process is one of the possible outcomes
Crash == /\ (Ev("Fatal") \/ Ev("Hang")) /\ Quiet /\ UNCHANGED <<M, held, ghost, pend, occ, dup>>
Next == \/ Reset \/ Inv \/ Resp \/ Acquire \/ Claim \/ Release \/ Interrupt \/ Settle \/ Quiesce \/ Abort \/ Crash
        \/ \E t \in T : LinGrant(t) \/ LinDeny(t) \/ LinUnlockH(t) \/ LinUnlockR(t) \/ LinRescue(t) \/ LinAdjustOk(t) \/ LinAdjustNo(t)
Spec == Init /\ [][Next]_vars
NotAccepted == l <= Len(Tr)
Progress == TLCSet(1, IF TLCGet(1) < l THEN l ELSE TLCGet(1))
Post == PrintT(<<"MAXL", TLCGet(1), Len(Tr)>>)
====
