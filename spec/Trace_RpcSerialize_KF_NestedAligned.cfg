SPECIFICATION Spec
CONSTANTS
  Classify = TRUE
  KF_NestedAligned = TRUE
  KF_MapSlices = FALSE
  KF_FixedLen = FALSE
  KF_ArrayWalk = FALSE
  KF_Checksum = FALSE
INVARIANT NotAccepted
CHECK_DEADLOCK FALSE
