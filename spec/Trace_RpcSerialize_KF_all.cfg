\* every deviation whose finding is still OPEN in known-findings.json (repaired ones stay FALSE: they suppress nothing)
SPECIFICATION Spec
CONSTANTS
  Classify = TRUE
  KF_NestedAligned = FALSE
  KF_MapSlices = FALSE
  KF_FixedLen = FALSE
  KF_ArrayWalk = FALSE
  KF_Checksum = TRUE
INVARIANT NotAccepted
CHECK_DEADLOCK FALSE
