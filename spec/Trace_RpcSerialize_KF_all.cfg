SPECIFICATION Spec
CONSTANTS
  Classify = TRUE
  KF_NestedAligned = TRUE
  KF_MapSlices = TRUE
  KF_FixedLen = TRUE
  KF_ArrayWalk = TRUE
  KF_Checksum = TRUE
INVARIANT NotAccepted
CHECK_DEADLOCK FALSE
