\* buffered cap 1 AS WRITTEN, the invariants no finding touches; 2 senders x 2 receivers x 1 call, no timeouts, no close()
SPECIFICATION Spec
CONSTANTS
  Cap = 1
  S = {"s1", "s2"}
  R = {"r1", "r2"}
  NV = 1
  NR = 1
  SKinds = {"inf"}
  RKinds = {"inf"}
  WithClose = FALSE
  KF = {"F3", "LW", "CL", "DR"}
INVARIANTS TypeOK DeliveredExactlyOnce PerSenderOrder FalseOnlyOnCloseOrTimeout DrainAfterClose
CHECK_DEADLOCK FALSE
