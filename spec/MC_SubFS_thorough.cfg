SPECIFICATION Spec
CONSTANTS
  Alphabet = {"/", ".", "a", "b"}
  MaxLen = 8
INVARIANTS NoEscape NoFalseRefusal FuncAgree LevelIsDepth
CHECK_DEADLOCK FALSE
