---- MODULE SockStreamOps ----
(* C10: the library's view of the user's buffers while a read/write call is in progress, transcribed from              *)
(* net/basic_socket.h (doio_loop, BufStep, BufStepV) and common/iovector.cpp (iovector_view::extract_front).           *)
(* Shared by the model SockStream.tla (TLC decides the properties for every segmentation in a small scope) and by the  *)
(* trace specification Trace_SockStreamA.tla (the same operators judge what the real code handed to the kernel).        *)
(* A view is a sequence of extents <<element, offset in element, length>> of the user's iovec array (0-based element).  *)
EXTENDS Naturals, Integers, Sequences
Triples(iov) == [j \in 1..Len(iov) |-> <<j - 1, 0, iov[j]>>]
RECURSIVE SumLen(_)
SumLen(s) == IF s = <<>> THEN 0 ELSE s[1][3] + SumLen(Tail(s))
RECURSIVE SumSeq(_)
SumSeq(s) == IF s = <<>> THEN 0 ELSE s[1] + SumSeq(Tail(s))
(* BufStepV::skip_empty(keep): pop empty elements from the front while more than `keep` elements remain *)
RECURSIVE DropLead(_, _)
DropLead(s, keep) == IF Len(s) > keep /\ s[1][3] = 0 THEN DropLead(Tail(s), keep) ELSE s
(* iovector_view::extract_front(b): consume b bytes from the front; elements that become (or are) empty on the way are popped *)
RECURSIVE Extract(_, _)
Extract(s, b) == IF b = 0 \/ s = <<>> THEN s
                 ELSE IF b < s[1][3] THEN <<<<s[1][1], s[1][2] + b, s[1][3] - b>>>> \o Tail(s)
                 ELSE IF b = s[1][3] THEN Tail(s)
                 ELSE Extract(Tail(s), b - s[1][3])
(* the view after `moved` bytes of a vector loop operation, as a function of the total moved so far *)
ViewV(iov, moved) == IF moved = 0 THEN DropLead(Triples(iov), 1)
                     ELSE DropLead(Extract(DropLead(Triples(iov), 1), moved), 0)
(* p: [loop, vec \in {0,1}, iov, n, moved]; what the next syscall of the call must name *)
Expected(p) == IF p.loop = 1 THEN (IF p.vec = 1 THEN ViewV(p.iov, p.moved) ELSE <<<<0, p.moved, p.n - p.moved>>>>)
                             ELSE (IF p.vec = 1 THEN Triples(p.iov) ELSE <<<<0, 0, p.n>>>>)
====
