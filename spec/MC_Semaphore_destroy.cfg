SPECIFICATION Spec
CONSTANTS
  W = {w1}
  S = {s1}
  w1 = w1
  w2 = w2
  w3 = w3
  s1 = s1
  s2 = s2
  Demand <- Dem
  Amount <- Amt2
  Init0 = 0
  OOO = FALSE
  Timed = {}
  FixOOO = FALSE
INVARIANTS Conservation NoLostWakeup NoTouchAfterDestroy QueueSane
