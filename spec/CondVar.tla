---- MODULE CondVar ----
(* C03, critical-section level model of photon::condition_variable (thread/thread.cpp cvar_do_wait, waitq::resume_one / *)
(* resume_all, prepare_usleep).  Clients follow the usual discipline: a counter `pred` protected by the user lock;       *)
(* consumers wait while it is 0 and then take one item; producers add one item and notify, holding the lock or not.     *)
(* The point of the property: the waiter is linked into the wait queue (Enqueue) BEFORE the user lock is released       *)
(* (RunDefer, on the next thread's stack).  Broken = TRUE swaps the two steps and must lose a notification.             *)
EXTENDS Naturals, Integers, Sequences, FiniteSets, TLC
CONSTANTS C, P, Timed, NotifyLocked, UseAll, Broken
\* C consumers (waiters), P producers (notifiers), Timed \subseteq C may time out, NotifyLocked: notify while holding the
\* lock, UseAll: producers use notify_all instead of notify_one
None == "none"
A == C \cup P
VARIABLES ulock, pred, q, qlock, tlock, pc, reason, cur, got, nres, waits
vars == <<ulock, pred, q, qlock, tlock, pc, reason, cur, got, nres, waits>>
Init == /\ ulock = None /\ pred = 0 /\ q = <<>> /\ qlock = None /\ tlock = [c \in C |-> None]
        /\ pc = [a \in A |-> "start"] /\ reason = [c \in C |-> None] /\ cur = [a \in A |-> None]
        /\ got = [c \in C |-> FALSE] /\ nres = [p \in P |-> None] /\ waits = [c \in C |-> 0]
Goto(a, s) == pc' = [pc EXCEPT ![a] = s]
Remove(seq, x) == SelectSeq(seq, LAMBDA y : y # x)
InQ(x) == \E i \in 1..Len(q) : q[i] = x
(* ---------------- consumer ---------------- *)
CLock(c) == /\ pc[c] \in {"start", "relock"} /\ ulock = None /\ ulock' = c /\ Goto(c, "check")
            /\ UNCHANGED <<pred, q, qlock, tlock, reason, cur, got, nres, waits>>
CCheck(c) == /\ pc[c] = "check"
             /\ IF pred > 0 THEN pred' = pred - 1 /\ got' = [got EXCEPT ![c] = TRUE] /\ Goto(c, "unlock")
                ELSE IF reason[c] = "timeout" \/ waits[c] >= 2 THEN Goto(c, "unlock") /\ UNCHANGED <<pred, got>>     \* gives up
                ELSE Goto(c, IF Broken THEN "gap" ELSE "enqueue") /\ UNCHANGED <<pred, got>>
             /\ UNCHANGED <<ulock, q, qlock, tlock, reason, cur, nres, waits>>
\* prepare_usleep: under the wait-queue lock and the thread's own lock, link into the queue
CEnqueue(c) == /\ pc[c] = "enqueue" /\ qlock = None /\ tlock[c] = None
               /\ q' = Append(q, c) /\ reason' = [reason EXCEPT ![c] = None] /\ waits' = [waits EXCEPT ![c] = @ + 1]
               /\ Goto(c, IF Broken THEN "sleeping" ELSE "defer")
               /\ UNCHANGED <<ulock, pred, qlock, tlock, cur, got, nres>>
\* the deferred callback (unlock of the user lock) runs after the context switch
CDefer(c) == /\ pc[c] = "defer" /\ ulock = c /\ ulock' = None
             /\ Goto(c, IF reason[c] = None THEN "sleeping" ELSE "relock")      \* may already have been woken
             /\ UNCHANGED <<pred, q, qlock, tlock, reason, cur, got, nres, waits>>
CGap(c) == /\ pc[c] = "gap" /\ ulock = c /\ ulock' = None /\ Goto(c, "enqueue")    \* broken variant: unlock first
           /\ UNCHANGED <<pred, q, qlock, tlock, reason, cur, got, nres, waits>>
CUnlock(c) == /\ pc[c] = "unlock" /\ ulock = c /\ ulock' = None /\ Goto(c, "done")
              /\ UNCHANGED <<pred, q, qlock, tlock, reason, cur, got, nres, waits>>
\* scheduler: deadline expiry of a sleeping waiter, under its thread lock then the queue lock
ExpireLock(c) == /\ c \in Timed /\ InQ(c) /\ tlock[c] = None /\ tlock' = [tlock EXCEPT ![c] = "env"]
                 /\ UNCHANGED <<ulock, pred, q, qlock, pc, reason, cur, got, nres, waits>>
ExpireDo(c) == /\ tlock[c] = "env" /\ qlock = None
               /\ IF InQ(c) THEN /\ q' = Remove(q, c) /\ reason' = [reason EXCEPT ![c] = "timeout"]
                                 /\ pc' = [pc EXCEPT ![c] = IF pc[c] = "sleeping" THEN "relock" ELSE pc[c]]
                            ELSE UNCHANGED <<q, reason, pc>>
               /\ tlock' = [tlock EXCEPT ![c] = None]
               /\ UNCHANGED <<ulock, pred, qlock, cur, got, nres, waits>>
(* ---------------- producer ---------------- *)
PStart(p) == /\ pc[p] = "start" /\ ulock = None /\ ulock' = p /\ Goto(p, "produce")
             /\ UNCHANGED <<pred, q, qlock, tlock, reason, cur, got, nres, waits>>
PProduce(p) == /\ pc[p] = "produce" /\ pred' = pred + 1
               /\ IF NotifyLocked THEN Goto(p, "n_head") /\ UNCHANGED ulock ELSE ulock' = None /\ Goto(p, "n_head")
               /\ UNCHANGED <<q, qlock, tlock, reason, cur, got, nres, waits>>
\* resume_one: lock the head indirectly, then prelocked_thread_interrupt (dequeue under the queue lock)
NHead(p) == /\ pc[p] = "n_head"
            /\ IF q = <<>> THEN /\ nres' = [nres EXCEPT ![p] = IF nres[p] = None THEN "nobody" ELSE nres[p]]
                                /\ Goto(p, "n_end") /\ UNCHANGED <<tlock, cur>>
               ELSE /\ tlock[Head(q)] = None /\ tlock' = [tlock EXCEPT ![Head(q)] = p]
                    /\ cur' = [cur EXCEPT ![p] = Head(q)] /\ Goto(p, "n_deliver") /\ UNCHANGED nres
            /\ UNCHANGED <<ulock, pred, q, qlock, reason, got, waits>>
NDeliver(p) == /\ pc[p] = "n_deliver"
               /\ LET h == cur[p] IN
                  IF ~InQ(h) \/ Head(q) # h
                  THEN tlock' = [tlock EXCEPT ![h] = None] /\ Goto(p, "n_head") /\ UNCHANGED <<q, reason, nres>>
                  ELSE /\ qlock = None
                       /\ q' = Remove(q, h) /\ reason' = [reason EXCEPT ![h] = "notified"]
                       /\ pc' = [pc EXCEPT ![h] = IF pc[h] = "sleeping" THEN "relock" ELSE pc[h],
                                           ![p] = IF UseAll THEN "n_head" ELSE "n_end"]
                       /\ tlock' = [tlock EXCEPT ![h] = None] /\ nres' = [nres EXCEPT ![p] = "woke"]
               /\ UNCHANGED <<ulock, pred, qlock, cur, got, waits>>
NEnd(p) == /\ pc[p] = "n_end"
           /\ IF ulock = p THEN ulock' = None ELSE UNCHANGED ulock
           /\ Goto(p, "done")
           /\ UNCHANGED <<pred, q, qlock, tlock, reason, cur, got, nres, waits>>
Finished == (\A a \in A : pc[a] \in {"done", "sleeping"}) /\ UNCHANGED vars
Next == \/ \E c \in C : CLock(c) \/ CCheck(c) \/ CEnqueue(c) \/ CDefer(c) \/ CGap(c) \/ CUnlock(c) \/ ExpireLock(c) \/ ExpireDo(c)
        \/ \E p \in P : PStart(p) \/ PProduce(p) \/ NHead(p) \/ NDeliver(p) \/ NEnd(p)
        \/ Finished
Spec == Init /\ [][Next]_vars
(* ---------------- properties ---------------- *)
AtRest == /\ \A a \in A : pc[a] \in {"done", "sleeping"} /\ ulock = None /\ qlock = None /\ \A c \in C : tlock[c] = None
\* an item is available, every producer has notified, yet a consumer sleeps: a notification was lost
NoLostNotification == AtRest => ~(pred > 0 /\ \E c \in C : pc[c] = "sleeping")
\* sleeping <=> linked in the queue (once the deferred unlock has run)
QueueSane == \A c \in C : pc[c] = "sleeping" => InQ(c)
ReturnsWithLock == \A c \in C : pc[c] \in {"check", "unlock"} => ulock = c
LockExclusive == \A a \in A : pc[a] \in {"check", "unlock", "produce", "defer", "gap"} => ulock = a
NotifyOneExact == \A p \in P : (pc[p] = "done" /\ nres[p] = "nobody") => TRUE
====
