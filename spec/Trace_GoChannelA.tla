---- MODULE Trace_GoChannelA ----
(* C09, Tier-A trace validation of photon::channel<T> (thread/go.h), harness/h_gochan.cpp.                                *)
(* The recorded history must be a behaviour of the ABSTRACT channel: a bag `chan` of values that are in the channel,      *)
(* every call taking effect at instants between its Inv and its Resp.                                                     *)
(*   send / try_send(v) = true  <=> v entered the channel at one instant (Put); a call invoked after close() took effect  *)
(*        cannot enter (a call that was already pending when close() took effect may still enter);                        *)
(*   recv / try_recv = (true,v) <=> v left the channel at one instant (Take); v was in the channel (so it was given to a   *)
(*        send, is delivered once) and no earlier value of the same sender was still in it (per-sender order);             *)
(*   send() = false only if the channel is closed by then or the call had a finite timeout that elapsed (dt >= us);        *)
(*        its value, if it had entered, may be withdrawn (Unput) or stay;                                                  *)
(*   recv() = false only at an instant where the channel was closed AND empty (items are drained before "closed" is       *)
(*        reported), or with a finite timeout that elapsed; try_* may fail freely;                                         *)
(*   Settle (threads the harness found asleep while nothing else ran): every listed thread's call is still pending and    *)
(*        has not taken effect as a success; on an open channel there is no sleeping receiver while an item is in the      *)
(*        channel, no sleeping sender while fewer than cap items are in it (cap >= 1), no sleeping sender together with a  *)
(*        sleeping receiver and no sleeping sender whose value was already taken (cap = 0); after close() has returned     *)
(*        nobody sleeps; size() equals the number of items (cap >= 1);                                                     *)
(*   Quiesce (after the harness drained the channel with try_recv): the channel is empty - every value reported sent was   *)
(*        received exactly once (by a worker or by the drain).                                                             *)
(*   Kick(t): the harness woke a thread that slept on a closed channel; that call may then fail without a deadline.       *)
(*   A Hang event has no action.                                                                                           *)
(* Known-finding switches (environment variables, default off; they only ADD behaviours and are used to classify an       *)
(* execution that the default specification rejects):                                                                     *)
(*   KF_F3=1  unbuffered only, and only from the moment a send / try_send is invoked while another one is pending, or a    *)
(*            value enters while another value is still in the channel ("crowded"): a value in the channel may vanish     *)
(*            (Drop) and the Settle conditions for cap = 0 are waived.                                                     *)
(*   KF_LW=1  buffered, > 1 vCPU: a sleeping receiver (sender) is tolerated although an item (a free slot) exists if a     *)
(*            Put (Take) took effect while its call was pending (it registered as waiter too late to be signalled).        *)
(*   KF_CL=1  buffered, > 1 vCPU: a thread asleep after close() is tolerated if close() took effect while its call was      *)
(*            pending.                                                                                                     *)
(*   KF_DR=1  buffered, > 1 vCPU: recv() may report "closed" while items are in the channel if a Put took effect while it   *)
(*            was pending.                                                                                                 *)
EXTENDS Naturals, Integers, Sequences, FiniteSets, TLC, Json, IOUtils
Tr == ndJsonDeserialize(IOEnv.TRACE)
KF_F3 == "KF_F3" \in DOMAIN IOEnv /\ IOEnv.KF_F3 = "1"
KF_LW == "KF_LW" \in DOMAIN IOEnv /\ IOEnv.KF_LW = "1"
KF_CL == "KF_CL" \in DOMAIN IOEnv /\ IOEnv.KF_CL = "1"
KF_DR == "KF_DR" \in DOMAIN IOEnv /\ IOEnv.KF_DR = "1"
T == (1..8) \cup {91}
TO_INF == 2
\* ph: "inv" invoked, "put" value entered, "unput" value withdrawn, "lin" took effect (recv: took `got` / saw closed+empty; close)
NoOp == [op |-> "none", ph |-> "none", v |-> 0, to |-> 0, us |-> 0, got |-> 0, raced |-> FALSE, craced |-> FALSE]
VARIABLES l, cap, vcpus, chan, closed, pend, kicked, crowded,
          exno, honest      \* bookkeeping of SpecAll: number of the execution being read, and whether it was read (not skipped)
vars == <<l, cap, vcpus, chan, closed, pend, kicked, crowded, exno, honest>>
Init == l = 1 /\ cap = 0 /\ vcpus = 1 /\ chan = {} /\ closed = FALSE /\ pend = [t \in T |-> NoOp] /\ kicked = {} /\ crowded = FALSE
        /\ exno = 0 /\ honest = TRUE /\ TLCSet(1, 0) /\ TLCSet(2, {})
Ev(e) == honest /\ l <= Len(Tr) /\ Tr[l].e = e /\ l' = l + 1 /\ UNCHANGED <<exno, honest>>
R == Tr[l]
Sender(v) == v \div 100
Sends == {"send", "try_send"}
Recvs == {"recv", "try_recv"}
Multi == vcpus > 1
\* an execution that was read to its end is recorded in TLC register 2 (used by SpecAll; harmless otherwise)
Mark == IF honest /\ exno > 0 THEN TLCSet(2, TLCGet(2) \cup {exno}) ELSE TRUE
Reset == /\ l <= Len(Tr) /\ Tr[l].e = "Reset" /\ l' = l + 1 /\ Mark /\ exno' = exno + 1 /\ honest' = TRUE
         /\ cap' = R.cap /\ vcpus' = R.vcpus /\ chan' = {} /\ closed' = FALSE /\ pend' = [t \in T |-> NoOp]
         /\ kicked' = {} /\ crowded' = FALSE
Inv == /\ Ev("Inv") /\ pend[R.t].op = "none"
       /\ pend' = [pend EXCEPT ![R.t] = [NoOp EXCEPT !.op = R.op, !.ph = "inv", !.v = R.v, !.to = R.to, !.us = R.us]]
       /\ crowded' = (crowded \/ (cap = 0 /\ R.op \in Sends /\ \E u \in T : pend[u].op \in Sends))
       /\ UNCHANGED <<cap, vcpus, chan, closed, kicked>>
(* ---- silent steps: the instants at which calls take effect.  A silent step commutes with a following Inv event (an  *)
(* invocation only adds a pending call), so silent steps are taken only when the next event is not an invocation.       *)
Now == honest /\ l <= Len(Tr) /\ Tr[l].e # "Inv"
Put(t) == /\ Now /\ pend[t].op \in Sends /\ pend[t].ph = "inv" /\ (~closed \/ pend[t].craced)
          /\ chan' = chan \cup {pend[t].v}
          /\ crowded' = (crowded \/ (cap = 0 /\ chan # {}))
          /\ pend' = [u \in T |-> IF u = t THEN [pend[t] EXCEPT !.ph = "put"]
                                  ELSE IF pend[u].op \in Recvs /\ pend[u].ph = "inv" THEN [pend[u] EXCEPT !.raced = TRUE] ELSE pend[u]]
          /\ UNCHANGED <<l, cap, vcpus, closed, kicked, exno, honest>>
Unput(t) == /\ Now /\ pend[t].op = "send" /\ pend[t].ph = "put" /\ pend[t].v \in chan
            /\ chan' = chan \ {pend[t].v} /\ pend' = [pend EXCEPT ![t].ph = "unput"]
            /\ UNCHANGED <<l, cap, vcpus, closed, kicked, crowded, exno, honest>>
Take(t) == /\ Now /\ pend[t].op \in Recvs /\ pend[t].ph = "inv"
           /\ \E v \in chan : /\ \A u \in chan : Sender(u) = Sender(v) => u >= v
                              /\ chan' = chan \ {v}
                              /\ pend' = [u \in T |-> IF u = t THEN [pend[t] EXCEPT !.ph = "lin", !.got = v]
                                                      ELSE IF pend[u].op = "send" /\ pend[u].ph = "inv" THEN [pend[u] EXCEPT !.raced = TRUE] ELSE pend[u]]
           /\ UNCHANGED <<l, cap, vcpus, closed, kicked, crowded, exno, honest>>
SeeClosed(t) == /\ Now /\ pend[t].op = "recv" /\ pend[t].ph = "inv" /\ closed
                /\ (chan = {} \/ (KF_DR /\ cap > 0 /\ Multi /\ pend[t].raced))
                /\ pend' = [pend EXCEPT ![t].ph = "lin", ![t].got = 0]
                /\ UNCHANGED <<l, cap, vcpus, chan, closed, kicked, crowded, exno, honest>>
DoClose(t) == /\ Now /\ pend[t].op = "close" /\ pend[t].ph = "inv"
              /\ closed' = TRUE
              /\ pend' = [u \in T |-> IF u = t THEN [pend[t] EXCEPT !.ph = "lin"]
                                      ELSE IF pend[u].op # "none" THEN [pend[u] EXCEPT !.craced = TRUE] ELSE pend[u]]
              /\ UNCHANGED <<l, cap, vcpus, chan, kicked, crowded, exno, honest>>
\* known finding F3: a value in the hand-off slot is overwritten / deleted by another sender
Drop == /\ Now /\ KF_F3 /\ cap = 0 /\ crowded
        /\ \E v \in chan : chan' = chan \ {v}
        /\ UNCHANGED <<l, cap, vcpus, closed, pend, kicked, crowded, exno, honest>>
(* ---- responses *)
Elapsed(p) == p.to # TO_INF /\ R.dt >= p.us
Resp == /\ Ev("Resp")
        /\ LET t == R.t  p == pend[t] IN
           /\ p.op = R.op
           /\ CASE R.op = "send"     -> IF R.ok THEN p.ph = "put" ELSE closed \/ Elapsed(p) \/ t \in kicked
                [] R.op = "try_send" -> IF R.ok THEN p.ph = "put" ELSE p.ph = "inv"
                [] R.op = "recv"     -> IF R.ok THEN p.ph = "lin" /\ p.got = R.v /\ R.v # 0
                                        ELSE \/ p.ph = "lin" /\ p.got = 0
                                             \/ p.ph = "inv" /\ (Elapsed(p) \/ t \in kicked)
                [] R.op = "try_recv" -> IF R.ok THEN p.ph = "lin" /\ p.got = R.v /\ R.v # 0 ELSE p.ph = "inv"
                [] R.op = "close"    -> p.ph = "lin"
           /\ pend' = [pend EXCEPT ![t] = NoOp]
        /\ UNCHANGED <<cap, vcpus, chan, closed, kicked, crowded>>
Kick == /\ Ev("Kick") /\ closed /\ kicked' = kicked \cup {R.t} /\ UNCHANGED <<cap, vcpus, chan, closed, pend, crowded>>
Gate == /\ Ev("Gate") /\ UNCHANGED <<cap, vcpus, chan, closed, pend, kicked, crowded>>
(* ---- observations of the harness *)
BlockedSet == {R.blocked[i][1] : i \in 1..Len(R.blocked)}
Settle ==
  /\ Ev("Settle")
  /\ \A i \in 1..Len(R.blocked) : LET t == R.blocked[i][1]  p == pend[t] IN
        IF R.blocked[i][2] = 1 THEN p.op = "send" /\ p.ph \in {"inv", "put"} /\ (cap > 0 => p.ph = "inv")
                               ELSE p.op = "recv" /\ p.ph = "inv"
  /\ \A t \in T \ BlockedSet : pend[t].op = "none"                       \* nothing else is in flight
  /\ LET BS == {t \in BlockedSet : pend[t].op = "send"}  BR == {t \in BlockedSet : pend[t].op = "recv"} IN
     IF closed
     THEN \A t \in BlockedSet : KF_CL /\ cap > 0 /\ Multi /\ pend[t].craced
     ELSE IF cap = 0
          THEN \/ KF_F3 /\ crowded
               \/ /\ BS = {} \/ BR = {}
                  /\ BR # {} => chan = {}
                  /\ \A t \in BS : pend[t].ph = "put" => pend[t].v \in chan
          ELSE /\ \A t \in BR : chan = {} \/ (KF_LW /\ Multi /\ pend[t].raced)
               /\ \A t \in BS : Cardinality(chan) >= cap \/ (KF_LW /\ Multi /\ pend[t].raced)
  /\ cap > 0 => R.size = Cardinality(chan)
  /\ UNCHANGED <<cap, vcpus, chan, closed, pend, kicked, crowded>>
Quiesce == /\ Ev("Quiesce") /\ \A t \in T : pend[t].op = "none"
           /\ chan = {} /\ R.size = 0
           /\ UNCHANGED <<cap, vcpus, chan, closed, pend, kicked, crowded>>
Next == \/ Reset \/ Inv \/ Resp \/ Kick \/ Gate \/ Settle \/ Quiesce \/ Drop
        \/ (Now /\ \E t \in {u \in T : pend[u].op # "none"} : Put(t) \/ Unput(t) \/ Take(t) \/ SeeClosed(t) \/ DoClose(t))
Spec == Init /\ [][Next]_vars
NotAccepted == l <= Len(Tr)
(* SpecAll (Trace_GoChannelA_all.cfg): judges EVERY execution of a file in one run.  At a Reset event the specification may  *)
(* also skip the execution that begins there (Skip, then Walk over its events); executions are independent (Reset re-initialises the channel), so an          *)
(* execution is a behaviour of the channel iff some behaviour reads it to its end un-skipped.  TLC explores the whole        *)
(* (finite) graph; PostAll prints the set of executions that were read to their end.                                        *)
Skip == /\ l <= Len(Tr) /\ Tr[l].e = "Reset" /\ Mark
        /\ l' = l + 1 /\ exno' = exno + 1 /\ honest' = FALSE
        /\ cap' = 0 /\ vcpus' = 1 /\ chan' = {} /\ closed' = FALSE /\ pend' = [t \in T |-> NoOp] /\ kicked' = {} /\ crowded' = FALSE
Walk == /\ ~honest /\ l <= Len(Tr) /\ Tr[l].e # "Reset" /\ l' = l + 1
        /\ UNCHANGED <<cap, vcpus, chan, closed, pend, kicked, crowded, exno, honest>>
Finish == /\ l = Len(Tr) + 1 /\ Mark /\ l' = l + 1 /\ UNCHANGED <<cap, vcpus, chan, closed, pend, kicked, crowded, exno, honest>>
SpecAll == Init /\ [][Next \/ Skip \/ Walk \/ Finish]_vars
PostAll == PrintT(<<"OKSET", TLCGet(2)>>)
Progress == TLCSet(1, IF TLCGet(1) < l THEN l ELSE TLCGet(1))
Post == PrintT(<<"MAXL", TLCGet(1), Len(Tr)>>)
====
