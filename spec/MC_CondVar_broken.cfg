SPECIFICATION Spec
CONSTANTS
  C = {c1, c2}
  P = {p1, p2}
  c1 = c1
  c2 = c2
  p1 = p1
  p2 = p2
  Timed = {}
  NotifyLocked = TRUE
  UseAll = FALSE
  Broken = TRUE
INVARIANTS NoLostNotification QueueSane ReturnsWithLock LockExclusive
