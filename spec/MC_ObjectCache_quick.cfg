SPECIFICATION Spec
CONSTANTS
  t1 = t1
  t2 = t2
  t3 = t3
  Threads = {t1, t2, t3}
  Keys = {1, 2}
  MaxAcq = 1
  MaxItems = 4
  Lifespan = 0
  MaxNow = 2
  CoolDowns = {0, 1}
  NumLimit = 99
  ByKey = TRUE
  Bug = "none"
  Ghost = FALSE
SYMMETRY Perm3
INVARIANTS OneLiveObjectPerKey CtorNotConcurrent NeverDestroyedWhileBorrowed NoDangling ExpiryOnlyUnreferencedAndDue RecyclerWaitsForAll NoBad RefcntCounts
