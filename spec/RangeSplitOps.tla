---------------------------- MODULE RangeSplitOps ----------------------------
(* Transcription of fs/range-split.h (basic_range_split::init, all_parts,    *)
(* aligned_parts; range_split, range_split_power2) and fs/range-split-vi.h   *)
(* (range_split_vi), together with the declarative reference "Tiles" that    *)
(* property C15 states.  The iterators are step machines so that TLC visits  *)
(* every iterator step of every input in scope; the same operators are used  *)
(* functionally by Trace_RangeSplit to judge the real code's output.         *)
EXTENDS Naturals, Sequences, FiniteSets, TLC

INF == 1000000          \* stands for UINT64_MAX as last key point

Sub(i, o, n) == [i |-> i, offset |-> o, length |-> n]
Cleared == Sub(0, 0, 0) \* sub_range() then clear(): (0,0,0)

(* ---- geometry: [kind |-> "fixed"|"pow2", I |-> n] or [kind |-> "vi", kp |-> <<0,..,INF>>] ---- *)
Shift(I) == CHOOSE s \in 0..20 : 2^s = I       \* __builtin_ffsl(interval)-1 for a power of two
Div(G, x) ==
  IF G.kind = "vi" THEN
     LET i == CHOOSE j \in 1..(Len(G.kp)-1) : G.kp[j] <= x /\ x < G.kp[j+1]   \* upper_bound - 1
         r == x - G.kp[i]
     IN [down |-> i-1, rem |-> r, up |-> IF r > 0 THEN i ELSE i-1]
  ELSE IF G.kind = "pow2" THEN
     LET s == Shift(G.I)  mask == G.I - 1
     IN [down |-> x \div (2^s), rem |-> x % (mask + 1), up |-> (x + mask) \div (2^s)]
  ELSE [down |-> x \div G.I, rem |-> x % G.I, up |-> (x + G.I - 1) \div G.I]
Mul(G, i) == IF G.kind = "vi" THEN (IF i+1 <= Len(G.kp) THEN G.kp[i+1] ELSE INF)
             ELSE IF G.kind = "pow2" THEN i * (2^Shift(G.I)) ELSE i * G.I
GetLen(G, i) == IF G.kind = "vi" THEN (IF i+2 <= Len(G.kp) THEN G.kp[i+2] - G.kp[i+1] ELSE 0) ELSE G.I

(* ---- basic_range_split::init ---- *)
SplitInit(G, offset, length) ==
  LET e  == offset + length
      db == Div(G, offset)
      de == Div(G, e)
      abegin == db.down  brem == db.rem  apbegin == db.up
      apend  == de.down  erem == de.rem  aend    == de.up
      base == [G |-> G, offset |-> offset, length |-> length, begin |-> offset, end |-> e,
               abegin |-> abegin, aend |-> aend, apbegin |-> apbegin, apend |-> apend,
               brem |-> brem, erem |-> erem]
      mk(first, small, pre, post) ==
          base @@ [first |-> first, small |-> small, preface |-> pre, postface |-> post]
  IN IF abegin + 1 = aend
     THEN LET first == Sub(abegin, brem, length) IN
          IF abegin # apbegin
          THEN IF aend # apend THEN mk(first, first, Cleared, Cleared)
                               ELSE mk(first, Cleared, first, Cleared)
          ELSE IF aend # apend THEN mk(first, Cleared, Cleared, first)
                               ELSE mk(first, Cleared, Cleared, Cleared)
     ELSE LET pre   == IF abegin = apbegin THEN Cleared
                       ELSE Sub(abegin, brem, GetLen(G, abegin) - brem)
              first == IF pre.length > 0 THEN pre ELSE Sub(apbegin, 0, GetLen(G, apbegin))
              post  == IF aend = apend THEN Cleared ELSE Sub(apend, 0, erem)
          IN mk(first, Cleared, pre, post)

(* ---- iterators, one step each ---- *)
AllBegin(S)   == S.first
AllAtEnd(S, it) == it.i = S.aend
AllAdvance(S, it) ==
  LET i2 == it.i + 1 IN
  IF i2 # S.aend
  THEN Sub(i2, 0, IF S.postface.length > 0 /\ S.postface.i = i2 THEN S.postface.length ELSE GetLen(S.G, i2))
  ELSE Sub(i2, 0, it.length)

AlBegin(S) == Sub(S.apbegin, 0, GetLen(S.G, S.apbegin))
\* end() as repaired by the "fix:" commit for finding F5 (known-findings.json): an empty aligned run
\* (apbegin > apend: small note, or an empty range at an unaligned offset) ends where it begins.
\* The pinned snapshot tested only small.length > 0; TLC then reports NoRunaway violated for
\* (pow2 I=2, offset 1, length 0).
AlEndIdx(S) == IF S.small.length > 0 \/ S.apbegin > S.apend THEN S.apbegin ELSE S.apend
AlAdvance(S, it) == Sub(it.i + 1, 0, GetLen(S.G, it.i + 1))

(* functional versions with fuel (a walk that needs more than Fuel steps is "runaway") *)
Fuel(S) == S.length + 4
RECURSIVE AllWalk(_, _, _, _)
AllWalk(S, it, acc, fuel) ==
  IF AllAtEnd(S, it) THEN [parts |-> acc, runaway |-> FALSE]
  ELSE IF fuel = 0 THEN [parts |-> acc, runaway |-> TRUE]
  ELSE AllWalk(S, AllAdvance(S, it), Append(acc, it), fuel - 1)
AllParts(S) == AllWalk(S, AllBegin(S), <<>>, Fuel(S))
RECURSIVE AlWalk(_, _, _, _, _)
AlWalk(S, endI, it, acc, fuel) ==
  IF it.i = endI THEN [parts |-> acc, runaway |-> FALSE]
  ELSE IF fuel = 0 THEN [parts |-> acc, runaway |-> TRUE]
  ELSE AlWalk(S, endI, AlAdvance(S, it), Append(acc, it), fuel - 1)
AlignedParts(S) == AlWalk(S, AlEndIdx(S), AlBegin(S), <<>>, Fuel(S))

(* ---- reference: what C15 states ---- *)
Min(a, b) == IF a < b THEN a ELSE b
Max(a, b) == IF a > b THEN a ELSE b
BlockOf(G, x) == Div(G, x).down
Tiles(G, offset, length) ==
  IF length = 0 THEN <<>>
  ELSE LET b0 == BlockOf(G, offset)  b1 == BlockOf(G, offset + length - 1) IN
       [k \in 1..(b1 - b0 + 1) |->
          LET i == b0 + k - 1
              lo == Max(offset, Mul(G, i))
              hi == Min(offset + length, Mul(G, i + 1))
          IN Sub(i, lo - Mul(G, i), hi - lo)]
NonEmpty(seq) == SelectSeq(seq, LAMBDA p : p.length > 0)

TilesOK(G, offset, length, parts) == NonEmpty(parts) = Tiles(G, offset, length)
ClassList(S, al) ==
  IF S.small.length > 0 THEN <<S.small>>
  ELSE (IF S.preface.length > 0 THEN <<S.preface>> ELSE <<>>) \o al
       \o (IF S.postface.length > 0 THEN <<S.postface>> ELSE <<>>)
ClassOK(G, offset, length, small, pre, post, al) ==
  /\ small.length > 0 => (pre.length = 0 /\ post.length = 0 /\ al = <<>>)
  /\ NonEmpty(IF small.length > 0 THEN <<small>>
              ELSE (IF pre.length > 0 THEN <<pre>> ELSE <<>>) \o al
                   \o (IF post.length > 0 THEN <<post>> ELSE <<>>)) = Tiles(G, offset, length)
BoundsOK(G, offset, length, abegin, aend) ==
  /\ Mul(G, abegin) <= offset /\ offset < Mul(G, abegin) + GetLen(G, abegin)
  /\ Mul(G, aend) >= offset + length
  /\ (aend > 0 => Mul(G, aend) - (offset + length) < GetLen(G, aend - 1))
  /\ (aend = 0 => offset + length = 0)

=============================================================================
