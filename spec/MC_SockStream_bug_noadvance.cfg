SPECIFICATION Spec
CONSTANTS
  K = 2
  WProgs <- W22
  RProgs <- NoProg
  RawW = FALSE
  RawR = TRUE
  RawTotal = 0
  Tmos <- TI
  MaxT = 0
  Spurious = FALSE
  Interrupts = FALSE
  Bug = "noadvance"
INVARIANTS StreamExact
CHECK_DEADLOCK FALSE
