SPECIFICATION Spec
CONSTANTS
  K = 2
  WProgs <- W22
  RProgs <- NoProg
  RawW = FALSE
  RawR = TRUE
  RawTotal = 0
  Tmos <- T1
  MaxT = 2
  Spurious = TRUE
  Interrupts = TRUE
  Bug = "noadvance"
INVARIANTS ViewIsFunctionOfMoved StreamExact ReadWriteComplete RecvSendBounds NoHangPastTimeout WaitsOnlyForData
CHECK_DEADLOCK FALSE
