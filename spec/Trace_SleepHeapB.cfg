SPECIFICATION Spec
INVARIANT NotAccepted
CHECK_DEADLOCK FALSE
