SPECIFICATION Spec
CONSTANTS
  Kind = "mpmc"
  Cap = 2
  M = 8
  MarkMod = 8
  Prod = {1, 2}
  Cons = {3, 4}
  Prog <- Prog_mix
  StartSet = {7}
  Bug = "none"
INVARIANTS ExactlyOnce FifoLinearizable PerProducerOrder CapacityBound NoTornSlot

CHECK_DEADLOCK FALSE
