\* C11 quick: the proposed repair of F4 (Variant = "patched"): every invariant incl. the strict NoAccessAfterReturn.
\* 3 callers, responses in all orders (header and body separate arrivals), 1 deadline(s) may pass anywhere, 1 stream error(s), 0 unknown-or-duplicate response(s)
SPECIFICATION Spec
CONSTANTS
  C = {c1, c2, c3}
  Timed = {c1, c2, c3}
  MaxExpire = 1
  MaxErr = 1
  MaxBogus = 0
  Variant = "patched"
  EarlyResponse = FALSE
INVARIANTS TypeOK OwnResponse TagsUnique FailureIsolated MapLive OneReader LeaderHandover QueueSane NoAccessAfterReturn
SYMMETRY Sym
CHECK_DEADLOCK FALSE
