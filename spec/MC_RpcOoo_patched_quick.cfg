\* C11 quick: the proposed repair of F4 (Variant = "patched"), same scope as MC_RpcOoo_asis_quick.cfg, every invariant incl. the strict NoAccessAfterReturn.
SPECIFICATION Spec
CONSTANTS
  C = {c1, c2, c3}
  Timed = {c1, c2, c3}
  MaxExpire = 1
  MaxErr = 1
  MaxBogus = 1
  Variant = "patched"
  EarlyResponse = FALSE
INVARIANTS TypeOK OwnResponse TagsUnique FailureIsolated MapLive OneReader LeaderHandover QueueSane NoAccessAfterReturn
SYMMETRY Sym
CHECK_DEADLOCK FALSE
