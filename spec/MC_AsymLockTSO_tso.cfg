SPECIFICATION Spec
CONSTANTS
  TSO = TRUE
  Rounds = 2
INVARIANT MutualExclusion
