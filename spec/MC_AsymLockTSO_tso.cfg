SPECIFICATION Spec
CONSTANTS
  Fence = FALSE
  TSO = TRUE
  Rounds = 2
INVARIANT MutualExclusion
