---- MODULE Trace_FileAdaptors ----
(* Judges recorded request sequences of the real adaptors (harness/h_fileadaptor.cpp, one ndjson    *)
(* line per sequence) by replaying every sequence on the C16 reference - ONE PLAIN FILE, run level  *)
(* (RRefApply, tied to the byte-level reference by FileAdaptors.tla) - and comparing, per request:  *)
(*   the return value, the data read, the content and size afterwards (underlay of the aligned      *)
(*   adaptor; every sub-file of a composite, through the declarative layout ExpSub), and, for the   *)
(*   aligned adaptor, offset / length / memory alignment of every underlay request.                 *)
(* A sequence is judged up to its first disagreeing request.  A request that starts at or after     *)
(* end-of-file is outside the statement: the sequence is not judged from there on.                 *)
(* A line whose underlay requests differ from the transcription (APlan) although the property holds *)
(* is reported as "DRIFT" (information only: the exhaustive TLC result then speaks about code that  *)
(* has changed).                                                                                   *)
EXTENDS FileAdaptorsOps, Json, IOUtils
Tr == ndJsonDeserialize(IOEnv.TRACE)
VARIABLE l

Obs(a) == [k \in 1..Len(a) |-> <<<<a[k][1], a[k][2]>>, a[k][3]>>]      \* JSON [[sym,delta,len],..] -> runs
CfgOf(r) == IF r.ad = "aligned" THEN [k |-> "aligned", A |-> r.A, am |-> r.am]
            ELSE IF r.ad = "fixed" THEN [k |-> "fixed", unit |-> r.unit, n |-> r.n]
            ELSE IF r.ad = "var" THEN [k |-> "var", sizes |-> r.sizes]
            ELSE [k |-> "stripe", st |-> r.st, n |-> r.n, rows |-> r.rows]
Init0(r, C) == IF C.k = "aligned" THEN <<<<<<1, 0>>, r.size0>>>> ELSE InitRuns(C)
FirstMis(ba) == IF \E i \in 1..Len(ba) : ba[i] # 0 THEN CHOOSE i \in 1..Len(ba) : ba[i] # 0 ELSE 0
ReqOf(o) == [k |-> o.k, vec |-> o.vec, off |-> o.off, lens |-> o.lens, sym |-> o.sym, mis |-> FirstMis(o.ba)]

BadUnderlay(C, ul) == {u \in {ul[i] : i \in 1..Len(ul)} :
                         u[1] # "ftruncate" /\ (u[2] % C.A # 0 \/ u[3] % C.A # 0 \/ (C.am /\ u[4] # 0))}

\* problems of one request o on reference state rs; R = reference outcome
OpProblems(C, rs, o, R) ==
     (IF o.ret # R.ret THEN {"returned " \o ToString(o.ret) \o " where the plain file returns " \o ToString(R.ret)} ELSE {})
\cup (IF o.k = "r" /\ o.ret = R.ret /\ Obs(o.data) # R.data THEN {"data read differs from the plain file"} ELSE {})
\cup (IF C.k = "aligned"
      THEN (IF RLen(Obs(o.after)) # RLen(R.f)
            THEN {"size afterwards " \o ToString(RLen(Obs(o.after))) \o ", plain file " \o ToString(RLen(R.f))}
            ELSE IF Obs(o.after) # R.f THEN {"content afterwards differs from the plain file"} ELSE {})
        \cup (IF BadUnderlay(C, o.ul) # {} THEN {"underlay request not aligned: " \o ToString(BadUnderlay(C, o.ul))} ELSE {})
      ELSE IF Len(o.sub) # XN(C) THEN {"number of sub-files"}
      ELSE IF \E i \in 1..XN(C) : RLen(Obs(o.sub[i])) # XSubSize(C, i - 1) THEN {"size of a sub-file changed"}
      ELSE IF \E i \in 1..XN(C) : Obs(o.sub[i]) # ExpSub(C, R.f, i - 1) THEN {"content afterwards differs from the plain file"}
      ELSE {})

RECURSIVE Walk(_, _, _, _)
Walk(C, rs, ops, k) ==
  IF k > Len(ops) THEN {}
  ELSE LET o == ops[k] IN
       IF o.off >= RLen(rs) THEN {}                       \* outside the statement from here on
       ELSE LET R == RRefApply(rs, C.k # "aligned", ReqOf(o))
                p == OpProblems(C, rs, o, R)
            IN IF p # {} THEN {"request " \o ToString(k) \o ": " \o x : x \in p} ELSE Walk(C, R.f, ops, k + 1)

Problems(r) == IF r.e = "Fatal" THEN {"fatal"} ELSE LET C == CfgOf(r) IN Walk(C, Init0(r, C), r.ops, 1)

\* information: first request whose underlay requests are not the ones of the transcription
RECURSIVE DriftAt(_, _, _, _)
DriftAt(C, rs, ops, k) ==
  IF k > Len(ops) THEN 0
  ELSE LET o == ops[k] IN
       IF o.off >= RLen(rs) THEN 0
       ELSE LET plan == APlan(C.A, C.am, RLen(rs), ReqOf(o)).log
                want == [i \in 1..Len(plan) |-> <<plan[i].op, plan[i].off, plan[i].len>>]
                got  == [i \in 1..Len(o.ul) |-> <<o.ul[i][1], o.ul[i][2], o.ul[i][3]>>]
            IN IF want # got THEN k ELSE DriftAt(C, RRefApply(rs, FALSE, ReqOf(o)).f, ops, k + 1)
Drift(r) == IF r.e = "Fatal" \/ r.ad # "aligned" THEN 0 ELSE LET C == CfgOf(r) IN DriftAt(C, Init0(r, C), r.ops, 1)

Init == l = 1
Next == /\ l <= Len(Tr)
        /\ LET p == Problems(Tr[l]) IN
           IF p # {} THEN PrintT("MISMATCH " \o ToString(l) \o " " \o ToString(p))
           ELSE LET d == Drift(Tr[l]) IN IF d = 0 THEN TRUE ELSE PrintT("DRIFT " \o ToString(l) \o " request " \o ToString(d))
        /\ l' = l + 1
Spec == Init /\ [][Next]_l
NotAccepted == l <= Len(Tr)
====
