SPECIFICATION Spec
CONSTANTS
  T = {t1, t2, t3, t4}
  t1 = t1
  t2 = t2
  t3 = t3
  t4 = t4
  Mode <- M2
  Timed = {t1, t4}
  Kind = "qrw"
  PeekUnlock = FALSE
INVARIANTS WriterExclusive StateMatchesHolders AdmittedAfterLastUnlock FailedIsNoOp
