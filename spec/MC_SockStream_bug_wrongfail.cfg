SPECIFICATION Spec
CONSTANTS
  K = 2
  WProgs <- NoProg
  RProgs <- R22
  RawW = TRUE
  RawR = FALSE
  RawTotal = 2
  Tmos <- T1
  MaxT = 2
  Spurious = FALSE
  Interrupts = FALSE
  Bug = "wrongfail"
INVARIANTS ReadWriteComplete RecvSendBounds
CHECK_DEADLOCK FALSE
