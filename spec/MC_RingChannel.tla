---- MODULE MC_RingChannel ----
(* Populations for RingChannel.tla with producers / consumers as model values (symmetry sets). *)
EXTENDS RingChannel
CONSTANTS p1, p2, c1, c2
Sym == Permutations({p1, p2}) \cup Permutations({c1, c2})
SymP == Permutations({p1, p2})
====
