---- MODULE MC_RingChannel ----
(* Populations for RingChannel.tla with producers / consumers as model values (symmetry sets). *)
EXTENDS RingChannel
CONSTANTS p1, p2, c1, c2
Sym == Permutations({p1, p2}) \cup Permutations({c1, c2})
SymP == Permutations({p1, p2})
\* calls per process
S11 == (p1 :> 1) @@ (p2 :> 1)
S22 == (p1 :> 2) @@ (p2 :> 2)
S21 == (p1 :> 2) @@ (p2 :> 1)
S33 == (p1 :> 3) @@ (p2 :> 3)
S32 == (p1 :> 3) @@ (p2 :> 2)
R11 == (c1 :> 1) @@ (c2 :> 1)
R22 == (c1 :> 2) @@ (c2 :> 2)
R21 == (c1 :> 2) @@ (c2 :> 1)
R2 == (c1 :> 2)
R3 == (c1 :> 3)
S3 == (p1 :> 3)
S2 == (p1 :> 2)
====
