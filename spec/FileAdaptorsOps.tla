--------------------------- MODULE FileAdaptorsOps ---------------------------
(* C16.  Transcription of fs/aligned-file.cpp (AlignedFileAdaptor::pread, pwrite,            *)
(* preadv2_mutable, pwritev2_mutable) and fs/xfile.cpp (FixedSizeLinearFile,                 *)
(* VariableSizeLinearFile, StripeFile ::pio, on top of VirtualFile::piov_copy), together    *)
(* with the declarative reference the property states: ONE PLAIN FILE (a byte sequence).     *)
(* The range arithmetic is the transcription of fs/range-split*.h in RangeSplitOps (C15).    *)
(*                                                                                           *)
(* Two levels of the reference are defined and tied together by FileAdaptors.tla:            *)
(*   byte level  - a file is a sequence of bytes, a byte is B(sym, pos) = "written by writer  *)
(*                 sym, intended for file position pos"; used by TLC on the small scope;     *)
(*   run level   - a file is a sequence of runs <<<<sym, delta>>, len>>; used by              *)
(*                 Trace_FileAdaptors to judge recorded executions of the real code (any     *)
(*                 file size).                                                               *)
(* Not modelled: failures of the underlay or of the allocator (the statement is about a      *)
(* working underlay), requests that start at or after end-of-file.                           *)
EXTENDS RangeSplitOps, Integers

(* ------------------------------------------------------------------ bytes *)
B(sym, pos) == sym * 1000 + pos          \* sym 1 = initial content, 2.. = writers
ZeroB == 0                               \* hole / zero fill
JunkB == 9999                            \* uninitialised memory of a temporary buffer
Rep(x, n) == [i \in 1..n |-> x]
SumSeq(s) == LET RECURSIVE F(_)
                 F(k) == IF k = 0 THEN 0 ELSE F(k - 1) + s[k]
             IN F(Len(s))
Patch(buf, at, d) == [k \in 1..Len(buf) |-> IF k > at /\ k <= at + Len(d) THEN d[k - at] ELSE buf[k]]
WData(sym, off, n) == [i \in 1..n |-> B(sym, off + i - 1)]     \* what a writer sends: every byte knows its place

(* ------------------------------------------- reference: one plain file *)
RefRead(f, off, n) == IF off >= Len(f) \/ n = 0 THEN <<>> ELSE SubSeq(f, off + 1, Min(off + n, Len(f)))
RefWrite(f, off, d) ==
  IF Len(d) = 0 THEN f
  ELSE [k \in 1..Max(Len(f), off + Len(d)) |->
          IF k > off /\ k <= off + Len(d) THEN d[k - off] ELSE IF k <= Len(f) THEN f[k] ELSE ZeroB]
RefTrunc(f, n) == [k \in 1..n |-> IF k <= Len(f) THEN f[k] ELSE ZeroB]

\* a request: [k |-> "r" | "w", vec |-> BOOLEAN, off, lens |-> <<element lengths>>, mis |-> index of the
\* element whose buffer address is NOT aligned (0 = all aligned), sym |-> writer symbol]
Count(rq) == SumSeq(rq.lens)
\* fixed = TRUE: the file has a fixed size (composites): a request is clipped at the end
RefApply(f, fixed, rq) ==
  LET c0 == Count(rq)
      c  == IF fixed THEN Min(c0, Len(f) - rq.off) ELSE c0
  IN IF rq.k = "r" THEN LET d == RefRead(f, rq.off, c) IN [ret |-> Len(d), data |-> d, f |-> f]
     ELSE [ret |-> c, data |-> <<>>, f |-> RefWrite(f, rq.off, WData(rq.sym, rq.off, c))]

(* ================================================================================== *)
(* AlignedFileAdaptor(A, alignMemory) over the underlay file `und` (a plain file).     *)
(* ================================================================================== *)
G2(A) == [kind |-> "pow2", I |-> A]
Rq(op, off, len, mem) == [op |-> op, off |-> off, len |-> len, mem |-> mem]  \* one underlay request (ghost log)
ARes(ret, data, und, log) == [ret |-> ret, data |-> data, und |-> und, log |-> log]

\* iov_align_check(): every element has an aligned base and an aligned length
IovAligned(A, rq) == rq.mis = 0 /\ \A i \in 1..Len(rq.lens) : rq.lens[i] % A = 0
\* "rs.is_aligned() && (!m_align_memory || rs.is_aligned_ptr(buf))"   resp. "... || iov_align_check(buf))"
FastPath(A, am, S, rq) ==
  /\ S.brem = 0 /\ S.erem = 0
  /\ (~am \/ IF rq.vec THEN IovAligned(A, rq) ELSE rq.mis = 0)
RdOp(rq) == IF rq.vec THEN "preadv" ELSE "pread"
WrOp(rq) == IF rq.vec THEN "pwritev" ELSE "pwrite"

\* The control decisions of one request depend only on sizes: which underlay requests are issued.
\* am = TRUE binds AlignedAlloc(alignment), so adaptor-owned buffers are aligned; otherwise malloc (unknown).
APlan(A, am, fsz, rq) ==
  LET count == Count(rq)
      S     == SplitInit(G2(A), rq.off, count)
      abo   == Mul(G2(A), S.abegin)                       \* aligned_begin_offset()
      alen  == Mul(G2(A), S.aend - S.abegin)              \* aligned_length()
      fast  == FastPath(A, am, S, rq)
      off2  == Mul(G2(A), S.aend) - A                     \* start of the last block
      rd1   == S.brem > 0                                 \* read-patch the first block
      rd2   == S.small.length = 0 /\ S.erem > 0 /\ fsz - off2 > S.erem    \* ... and the last block
      log   == IF count = 0 THEN <<>>
               ELSE IF rq.k = "r"
               THEN (IF fast THEN <<Rq(RdOp(rq), rq.off, count, rq.mis = 0)>>
                     ELSE <<Rq(RdOp(rq), abo, alen, am)>>)
               ELSE (IF fast THEN <<Rq(WrOp(rq), rq.off, count, rq.mis = 0)>>
                     ELSE (IF rd1 THEN <<Rq(RdOp(rq), abo, A, am)>> ELSE <<>>)
                       \o (IF rd2 THEN <<Rq(RdOp(rq), off2, A, am)>> ELSE <<>>)
                       \o <<Rq(WrOp(rq), abo, alen, am)>>
                       \o (IF Max(rq.off + count, fsz) < abo + alen
                           THEN <<Rq("ftruncate", 0, Max(rq.off + count, fsz), TRUE)>> ELSE <<>>))
  IN [count |-> count, S |-> S, abo |-> abo, alen |-> alen, fast |-> fast, off2 |-> off2,
      rd1 |-> rd1, rd2 |-> rd2, log |-> log]

\* pread (aligned-file.cpp:65-85) and preadv2_mutable (:156-180)
ARead(und, A, am, rq) ==
  LET P == APlan(A, am, Len(und), rq)  S == P.S  count == P.count IN
  IF count = 0 THEN ARes(0, <<>>, und, <<>>)
  ELSE IF P.fast THEN LET d == RefRead(und, rq.off, count) IN ARes(Len(d), d, und, P.log)
  ELSE LET r      == RefRead(und, P.abo, P.alen)         \* m_file->pread(ptr, aligned_length, aligned_begin)
           ret    == Len(r)
       IN IF ret < S.brem THEN ARes(-1, <<>>, und, P.log)
          ELSE LET actual == Min(ret - S.brem, count)
                   rbuf   == r \o Rep(JunkB, P.alen - ret)
                   \* single buffer: memcpy(buf, ptr + begin_remainder, actual_read)
                   \* vectored: extract_back(A - end_remainder) if end_remainder; extract_front(begin_remainder);
                   \*           memcpy_to(&buf, actual_read)
                   body   == IF rq.vec
                             THEN LET cut == IF S.erem # 0 THEN SubSeq(rbuf, 1, P.alen - (A - S.erem)) ELSE rbuf
                                  IN SubSeq(cut, S.brem + 1, Len(cut))
                             ELSE SubSeq(rbuf, S.brem + 1, P.alen)
               IN ARes(actual, SubSeq(body, 1, actual), und, P.log)

\* pwrite (:86-136) and pwritev2_mutable (:192-265)
AWrite(und, A, am, rq) ==
  LET P == APlan(A, am, Len(und), rq)  S == P.S  count == P.count
      data == WData(rq.sym, rq.off, count) IN
  IF count = 0 THEN ARes(0, <<>>, und, <<>>)
  ELSE IF P.fast THEN ARes(count, <<>>, RefWrite(und, rq.off, data), P.log)
  ELSE LET filesize == Len(und)
           suppose  == IF rq.off + count > filesize THEN rq.off + count ELSE filesize
           b0 == Rep(JunkB, P.alen)                       \* mem_alloc(aligned_length)
           r1 == RefRead(und, P.abo, A)
           fail1 == P.rd1 /\ P.abo + Len(r1) < filesize /\ Len(r1) < A
           b1 == IF P.rd1 THEN Patch(b0, 0, r1 \o Rep(ZeroB, A - Len(r1))) ELSE b0     \* read + zero fill
           r2 == RefRead(und, P.off2, A)
           fail2 == P.rd2 /\ P.off2 + Len(r2) < filesize /\ Len(r2) < A
           b2 == IF P.rd2 THEN Patch(b1, P.off2 - P.abo, r2) ELSE b1
           b3 == Patch(b2, S.brem, data)                  \* memcpy(ptr + begin_remainder, buf, count)
           und1 == RefWrite(und, P.abo, b3)               \* m_file->pwrite(ptr, aligned_length, aligned_begin)
           tail == P.abo + P.alen                         \* current_tail (the underlay writes everything)
           cw   == IF tail - rq.off >= count THEN count ELSE tail - rq.off
           und2 == IF suppose < tail THEN RefTrunc(und1, suppose) ELSE und1
       IN IF fail1 \/ fail2 THEN ARes(-1, <<>>, und, P.log)
          ELSE IF tail < rq.off THEN ARes(-1, <<>>, und1, P.log)
          ELSE ARes(cw, <<>>, und2, P.log)

AApply(und, A, am, rq) == IF rq.k = "r" THEN ARead(und, A, am, rq) ELSE AWrite(und, A, am, rq)

\* every request to the underlay has offset and length multiples of A (the request as a whole, not each
\* iovec element), and aligned memory when alignMemory was asked for; ftruncate(size) is not an I/O request
LogAligned(A, am, log) ==
  \A i \in 1..Len(log) : log[i].op # "ftruncate" =>
      log[i].off % A = 0 /\ log[i].len % A = 0 /\ (am => log[i].mem)

(* ================================================================================== *)
(* Composites: C = [k |-> "fixed", unit, n] | [k |-> "var", sizes] | [k |-> "stripe", st, n, rows] *)
(* over sub-files `files` (a sequence of plain files).                                  *)
(* ================================================================================== *)
IsPow2(x) == \E s \in 0..20 : 2^s = x
Cum(sizes) == [i \in 1..(Len(sizes) + 1) |-> SumSeq(SubSeq(sizes, 1, i - 1))]       \* 0, s1, s1+s2, ...
XN(C) == IF C.k = "var" THEN Len(C.sizes) ELSE C.n
XSubSize(C, i) == IF C.k = "fixed" THEN C.unit ELSE IF C.k = "var" THEN C.sizes[i + 1] ELSE C.rows * C.st
XSize(C) == IF C.k = "fixed" THEN C.n * C.unit ELSE IF C.k = "var" THEN SumSeq(C.sizes) ELSE C.n * C.rows * C.st
\* new_fixed_size_linear_file picks range_split_power2 for a power of two, range_split otherwise;
\* VariableSizeLinearFile: key points 0, cumulated sizes, UINT64_MAX; StripeFile: range_split_power2
XGeom(C) == IF C.k = "fixed" THEN [kind |-> IF IsPow2(C.unit) THEN "pow2" ELSE "fixed", I |-> C.unit]
            ELSE IF C.k = "var" THEN [kind |-> "vi", kp |-> Cum(C.sizes) \o <<INF>>]
            ELSE [kind |-> "pow2", I |-> C.st]
XRes(ret, data, files, fwd) == [ret |-> ret, data |-> data, files |-> files, fwd |-> fwd]

\* XFile::pio: clip at m_size, split, forward part by part, the caller's buffer advancing
RECURSIVE XWalk(_, _, _, _, _, _, _, _, _)
XWalk(C, G, parts, k, isread, data, bufpos, files, acc) ==
  \* acc = [data |-> bytes read so far, fwd |-> <<[f, off, len]>> ghost log of forwarded parts]
  IF k > Len(parts) THEN [ok |-> TRUE, files |-> files, data |-> acc.data, fwd |-> acc.fwd]
  ELSE LET x   == parts[k]
           fi  == IF C.k = "stripe" THEN x.i % C.n ELSE x.i
           pos == IF C.k = "stripe" THEN Mul(G, x.i \div C.n) + x.offset ELSE x.offset
           fw  == Append(acc.fwd, [f |-> fi, off |-> pos, len |-> x.length])
       IN IF fi + 1 > Len(files) THEN [ok |-> FALSE, files |-> files, data |-> acc.data, fwd |-> fw]   \* m_files[] out of range
          ELSE IF isread
          THEN LET r == RefRead(files[fi + 1], pos, x.length) IN
               IF Len(r) < x.length THEN [ok |-> FALSE, files |-> files, data |-> acc.data, fwd |-> fw]
               ELSE XWalk(C, G, parts, k + 1, isread, data, bufpos + x.length, files,
                          [data |-> acc.data \o r, fwd |-> fw])
          ELSE XWalk(C, G, parts, k + 1, isread, data, bufpos + x.length,
                     [files EXCEPT ![fi + 1] = RefWrite(@, pos, SubSeq(data, bufpos + 1, bufpos + x.length))],
                     [data |-> acc.data, fwd |-> fw])

XPio(C, files, isread, off, count0, data) ==
  IF off >= XSize(C) THEN XRes(-1, <<>>, files, <<>>)            \* EIO "offset overflow"
  ELSE LET count == IF off + count0 > XSize(C) THEN XSize(C) - off ELSE count0
           G == XGeom(C)
           S == SplitInit(G, off, count)
           w == AllParts(S)
           r == XWalk(C, G, w.parts, 1, isread, data, 0, files, [data |-> <<>>, fwd |-> <<>>])
       IN IF w.runaway \/ ~r.ok THEN XRes(-1, r.data, r.files, r.fwd)
          ELSE XRes(count, r.data, r.files, r.fwd)

\* VirtualFile::piov_copy: no element -> 0; one element -> the single-buffer call; otherwise gather / scatter
\* through one temporary buffer of the total size
XApply(C, files, rq) ==
  LET count == Count(rq) IN
  IF rq.vec /\ Len(rq.lens) = 0 THEN XRes(0, <<>>, files, <<>>)
  ELSE IF rq.k = "r"
  THEN LET r == XPio(C, files, TRUE, rq.off, count, <<>>) IN
       IF r.ret <= 0 THEN XRes(r.ret, <<>>, files, r.fwd) ELSE XRes(r.ret, SubSeq(r.data, 1, r.ret), files, r.fwd)
  ELSE XPio(C, files, FALSE, rq.off, count, WData(rq.sym, rq.off, count))

\* ---- declarative layout of a composite (what "linear" and "striped" mean), independent of RangeSplit ----
\* linear: the logical file is the concatenation of the sub-files; striped: logical stripe s (st bytes) is
\* stripe number s \div n of sub-file s % n
RECURSIVE Concat(_)
Concat(fs) == IF fs = <<>> THEN <<>> ELSE Head(fs) \o Concat(Tail(fs))
SubSizes(C) == [i \in 1..XN(C) |-> XSubSize(C, i - 1)]
SubSizesOK(C, files) == Len(files) = XN(C) /\ \A i \in 1..Len(files) : Len(files[i]) = XSubSize(C, i - 1)
Logical(C, files) ==
  IF C.k = "stripe"
  THEN [q \in 1..XSize(C) |-> LET p == q - 1  s == p \div C.st
                             IN files[(s % C.n) + 1][((s \div C.n) * C.st) + (p % C.st) + 1]]
  ELSE Concat(files)

(* ================================================================================== *)
(* Run-level reference (files of any size): a file is a sequence of runs <<key, len>>,   *)
(* key = <<sym, delta>>: the bytes of the run were written by sym and are meant for       *)
(* (position where they are) + delta, modulo 31.  A writer produces delta 0; the initial  *)
(* content of a composite is tagged with positions inside the sub-files, so it has the    *)
(* delta of its sub-file / stripe.  Zero bytes have key <<0, 0>>.                         *)
(* ================================================================================== *)
ZKey == <<0, 0>>
RLen(rs) == SumSeq([k \in 1..Len(rs) |-> rs[k][2]])
RECURSIVE RDrop(_, _)
RDrop(rs, n) == IF n = 0 \/ rs = <<>> THEN rs
                ELSE IF rs[1][2] <= n THEN RDrop(Tail(rs), n - rs[1][2])
                ELSE <<<<rs[1][1], rs[1][2] - n>>>> \o Tail(rs)
RECURSIVE RTake(_, _)
RTake(rs, n) == IF n = 0 \/ rs = <<>> THEN <<>>
                ELSE IF rs[1][2] <= n THEN <<rs[1]>> \o RTake(Tail(rs), n - rs[1][2])
                ELSE <<<<rs[1][1], n>>>>
RECURSIVE RNorm(_)
RNorm(rs) == IF rs = <<>> THEN <<>>
             ELSE IF rs[1][2] = 0 THEN RNorm(Tail(rs))
             ELSE LET t == RNorm(Tail(rs)) IN
                  IF t # <<>> /\ t[1][1] = rs[1][1] THEN <<<<rs[1][1], rs[1][2] + t[1][2]>>>> \o Tail(t)
                  ELSE <<rs[1]>> \o t
RSlice(rs, off, n) == RTake(RDrop(rs, off), n)
RRead(rs, off, n) == IF off >= RLen(rs) THEN <<>> ELSE RNorm(RSlice(rs, off, n))
RWrite(rs, off, n, sym) ==
  IF n = 0 THEN rs
  ELSE LET L == RLen(rs)
           padded == IF off > L THEN rs \o <<<<ZKey, off - L>>>> ELSE rs
       IN RNorm(RTake(padded, off) \o <<<<<<sym, 0>>, n>>>> \o RDrop(padded, off + n))
RRefApply(rs, fixed, rq) ==
  LET c0 == Count(rq)
      c  == IF fixed THEN Min(c0, RLen(rs) - rq.off) ELSE c0
  IN IF rq.k = "r" THEN LET d == RRead(rs, rq.off, c) IN [ret |-> RLen(d), data |-> d, f |-> rs]
     ELSE [ret |-> c, data |-> <<>>, f |-> RWrite(rs, rq.off, c, rq.sym)]

\* the same bytes seen from a coordinate system shifted by d (position there = position here - d)
Reseat(rs, d) == [k \in 1..Len(rs) |->
                   <<IF rs[k][1][1] = 0 THEN ZKey ELSE <<rs[k][1][1], (rs[k][1][2] + d) % 31>>, rs[k][2]>>]
\* what a byte-level sequence found at positions at, at+1, .. decodes to (this is the harness' translation)
KeyOf(b, pos) == IF b = ZeroB THEN ZKey ELSE IF b = JunkB THEN <<7, 31>>
                 ELSE <<b \div 1000, ((b % 1000) - pos) % 31>>
ToRuns(bytes, at) == RNorm([k \in 1..Len(bytes) |-> <<KeyOf(bytes[k], at + k - 1), 1>>])

\* expected observation of sub-file i (0-based) of composite C whose logical content is rs
RECURSIVE StripeRows(_, _, _, _)
StripeRows(C, rs, i, r) ==
  IF r = C.rows THEN <<>>
  ELSE Reseat(RSlice(rs, (r * C.n + i) * C.st, C.st), (r * C.n + i) * C.st - r * C.st) \o StripeRows(C, rs, i, r + 1)
ExpSub(C, rs, i) ==
  RNorm(IF C.k = "stripe" THEN StripeRows(C, rs, i, 0)
        ELSE LET cum == Cum(SubSizes(C)) IN Reseat(RSlice(rs, cum[i + 1], cum[i + 2] - cum[i + 1]), cum[i + 1]))
\* initial logical content of a composite whose sub-files are each tagged with their own positions
RECURSIVE InitStripes(_, _)
InitStripes(C, s) ==
  IF s = C.n * C.rows THEN <<>>
  ELSE <<<<<<1, (0 - (s * C.st - (s \div C.n) * C.st)) % 31>>, C.st>>>> \o InitStripes(C, s + 1)
InitRuns(C) ==
  RNorm(IF C.k = "stripe" THEN InitStripes(C, 0)
        ELSE LET cum == Cum(SubSizes(C)) IN [i \in 1..XN(C) |-> <<<<1, (0 - cum[i]) % 31>>, cum[i + 1] - cum[i]>>])

=============================================================================
