---- MODULE MC_SockStream ----
EXTENDS SockStream
(* program generators: every segmentation of at most maxb bytes into calls of at most maxe iovec elements *)
RECURSIVE SeqsUpTo(_, _)
SeqsUpTo(n, vals) == IF n = 0 THEN {<<>>} ELSE LET sm == SeqsUpTo(n - 1, vals) IN sm \cup {Append(q, v) : q \in {x \in sm : Len(x) = n - 1}, v \in vals}
Iovs(maxb, maxe) == {q \in SeqsUpTo(maxe, 0..maxb) : Len(q) >= 1 /\ SumSeq(q) <= maxb}
Calls(maxb, maxe, minb) ==
    {[loop |-> lp, vec |-> 1, iov |-> q] : lp \in {0, 1}, q \in {x \in Iovs(maxb, maxe) : SumSeq(x) >= minb}}
    \cup {[loop |-> lp, vec |-> 0, iov |-> <<n>>] : lp \in {0, 1}, n \in minb..maxb}
RECURSIVE Total(_)
Total(pr) == IF pr = <<>> THEN 0 ELSE SumSeq(pr[1].iov) + Total(Tail(pr))
Progs(maxb, maxe, maxcalls, minb) ==
    LET C == Calls(maxb, maxe, minb) IN {pr \in SeqsUpTo(maxcalls, C) : Len(pr) >= 1 /\ Total(pr) <= maxb}
NoProg == {<<>>}
W32 == Progs(3, 3, 2, 0)   R32 == Progs(3, 3, 2, 1)
W21 == Progs(2, 2, 1, 0)   R21 == Progs(2, 2, 1, 1)
W31 == Progs(3, 2, 1, 0)   R31 == Progs(3, 2, 1, 1)
W52 == Progs(5, 3, 2, 0)   R52 == Progs(5, 3, 2, 1)
W42 == Progs(4, 3, 2, 0)   R42 == Progs(4, 3, 2, 1)
W22 == Progs(2, 3, 2, 0)   R22 == Progs(2, 3, 2, 1)
WQ == Progs(3, 3, 1, 0) \cup Progs(2, 2, 2, 0)   RQ == Progs(3, 3, 1, 1) \cup Progs(2, 2, 2, 1)
WT == Progs(5, 3, 1, 0) \cup Progs(3, 3, 2, 0)   RT == Progs(5, 3, 1, 1) \cup Progs(3, 3, 2, 1)
W11 == Progs(2, 2, 1, 0)   R11 == Progs(2, 2, 1, 1)
TI == {Inf}
T1 == {Inf, 1}
T012 == {Inf, 0, 1, 2}
====
