---- MODULE MC_SockStream ----
EXTENDS SockStream
(* program generators: every segmentation of at most maxb bytes into at most maxcalls calls of at most maxe iovec elements *)
(* (elements may be empty; a call is a loop operation read/write[v] or a single-shot recv/send, buffer or vector form)      *)
RECURSIVE IovsB(_, _)          \* all element-length sequences of length <= maxe with sum <= b
IovsB(b, maxe) == IF maxe = 0 THEN {<<>>}
                  ELSE {<<>>} \cup UNION {{<<x>> \o q : q \in IovsB(b - x, maxe - 1)} : x \in 0..b}
Calls(maxb, maxe, minb) ==
    {[loop |-> lp, vec |-> 1, iov |-> q] : lp \in {0, 1}, q \in {x \in IovsB(maxb, maxe) : Len(x) >= 1 /\ SumSeq(x) >= minb}}
    \cup {[loop |-> lp, vec |-> 0, iov |-> <<n>>] : lp \in {0, 1}, n \in minb..maxb}
RECURSIVE ProgsB(_, _, _, _)
ProgsB(b, maxe, maxcalls, minb) ==
    IF maxcalls = 0 THEN {<<>>}
    ELSE {<<>>} \cup UNION {{<<c>> \o p : p \in ProgsB(b - SumSeq(c.iov), maxe, maxcalls - 1, minb)} : c \in Calls(b, maxe, minb)}
Progs(maxb, maxe, maxcalls, minb) == ProgsB(maxb, maxe, maxcalls, minb) \ {<<>>}
NoProg == {<<>>}
(* quick: one call of <= 3 bytes in <= 3 elements, or two calls of <= 2 bytes in <= 2 elements *)
WQ == Progs(3, 3, 1, 0) \cup Progs(2, 2, 2, 0)   RQ == Progs(3, 3, 1, 1) \cup Progs(2, 2, 2, 1)
W11 == Progs(2, 2, 1, 0)   R11 == Progs(2, 2, 1, 1)
W21 == Progs(3, 2, 1, 0)   R21 == Progs(3, 2, 1, 1)
W22 == Progs(2, 3, 2, 0)   R22 == Progs(2, 3, 2, 1)
TI == {Inf}
T1 == {Inf, 1}
T012 == {Inf, 0, 1, 2}
T01 == {Inf, 0, 1}
====
