---- MODULE Trace_ObjectCacheA ----
(* Tier-A trace validation for ObjectCache<K, V*> (C19).  The recorded history (h_objcache --prim oc|oclimit) must be a  *)
(* behaviour of the ABSTRACT cache the user relies on:                                                                  *)
(*   per key k: obj[k] = the ONE object currently cached (0 = none), refs[k] = threads holding a counted reference        *)
(*   (borrowers and acquirers in progress), rec[k] = the recycler whose release is pending, ctor[k] = the thread whose     *)
(*   constructor callback is running.                                                                                   *)
(* Every call takes effect at instants between its Inv and its Resp (silent steps):                                      *)
(*   acquire : LinRef takes the reference;  then either the call returns obj[k] (Resp id = obj[k], a live object), having  *)
(*             possibly run the constructor itself (CtorBegin only when the cache has NO object for the key and no other   *)
(*             constructor of the key is running), or LinDrop gives the reference back and the call returns null - allowed *)
(*             only if its own constructor failed, or if it did not construct because a failure of that key is still      *)
(*             inside the caller's cool-down (FailureNotSticky: judged with the logged clock values);                     *)
(*   release : LinRel drops the reference; a recycling release becomes THE recycler unless one is already pending (then it *)
(*             is an ordinary release - what the code does, expirecontainer.cpp:129); RecycleDone (object leaves the cache, *)
(*             destroyed or moved out to the caller) is possible only when NO reference is left, and the recycler's Resp    *)
(*             needs RecycleDone: a recycling release returns only after every other holder has released;                *)
(*   expiry  : Evict(k) is possible only when refs[k] is empty and no recycle is pending; the Dtor event of an evicted      *)
(*             object must carry a clock value past (time of the release that dropped the last reference + lifespan),      *)
(*             unless the execution runs with a size limit (then unreferenced suffices).                                  *)
(* Dtor{id} is accepted only for an object that left the cache this way (evicted / recycled / moved out and deleted by its  *)
(* new owner / cache destroyed with no reference left): never while somebody holds it.  Use{ok} is a holder looking at its   *)
(* borrowed object.  Clock values are photon::now as read by the harness (the cache reads the same variable); SLACK covers   *)
(* the clock being written by several vCPUs.  A Hang event is accepted by no action.                                        *)
EXTENDS Naturals, Integers, Sequences, FiniteSets, TLC, Json, IOUtils
Tr == ndJsonDeserialize(IOEnv.TRACE)
T == 1..6
K == 1..4
SLACK == 1000
NoDue == -1000000000
NoOp == [op |-> "none", k |-> 0, ph |-> "none", cd |-> 0, now0 |-> 0, ran |-> FALSE, failed |-> FALSE,
         rc |-> FALSE, ds |-> TRUE, role |-> "none", res |-> 0]
NoFail == [has |-> FALSE, by |-> 0, ub |-> -1]
VARIABLES l, lifespan, limited, obj, refs, rec, ctor, dl, live, fresh, doomed, owned, fail, pend, closing
vars == <<l, lifespan, limited, obj, refs, rec, ctor, dl, live, fresh, doomed, owned, fail, pend, closing>>
cvars == <<lifespan, limited>>
Clean == /\ obj = [k \in K |-> 0] /\ refs = [k \in K |-> {}] /\ rec = [k \in K |-> 0] /\ ctor = [k \in K |-> 0]
         /\ dl = [k \in K |-> 0] /\ live = {} /\ fresh = {} /\ doomed = {} /\ owned = {} /\ fail = [k \in K |-> NoFail]
         /\ pend = [t \in T |-> NoOp] /\ closing = FALSE
Init == l = 1 /\ lifespan = 0 /\ limited = FALSE /\ Clean /\ TLCSet(1, 0)
Ev(e) == l <= Len(Tr) /\ Tr[l].e = e /\ l' = l + 1
R == Tr[l]
Reset == /\ Ev("Reset") /\ lifespan' = R.lifespan /\ limited' = (R.limit # 0)
         /\ obj' = [k \in K |-> 0] /\ refs' = [k \in K |-> {}] /\ rec' = [k \in K |-> 0] /\ ctor' = [k \in K |-> 0]
         /\ dl' = [k \in K |-> 0] /\ live' = {} /\ fresh' = {} /\ doomed' = {} /\ owned' = {} /\ fail' = [k \in K |-> NoFail]
         /\ pend' = [t \in T |-> NoOp] /\ closing' = FALSE

(* ---------------------------------------------------------------- acquire *)
InvAcq == /\ Ev("Inv") /\ R.op = "acq" /\ pend[R.t].op = "none" /\ ~closing /\ R.t \notin refs[R.key]
          /\ pend' = [pend EXCEPT ![R.t] = [NoOp EXCEPT !.op = "acq", !.k = R.key, !.ph = "inv", !.cd = R.cd, !.now0 = R.now]]
          /\ UNCHANGED <<cvars, obj, refs, rec, ctor, dl, live, fresh, doomed, owned, fail, closing>>
LinRef(t) == /\ pend[t].op = "acq" /\ pend[t].ph = "inv"
             /\ refs' = [refs EXCEPT ![pend[t].k] = @ \cup {t}] /\ pend' = [pend EXCEPT ![t].ph = "ref"]
             /\ UNCHANGED <<l, cvars, obj, rec, ctor, dl, live, fresh, doomed, owned, fail, closing>>
\* the constructor callback starts: only for a key that has no cached object, and never two at once for one key
CtorBegin == /\ Ev("CtorBegin")
             /\ LET t == R.t  p == pend[t] IN
                /\ p.op = "acq" /\ p.k = R.key /\ p.ph = "ref" /\ ~p.ran
                /\ obj[R.key] = 0 /\ ctor[R.key] = 0
                /\ ctor' = [ctor EXCEPT ![R.key] = t] /\ pend' = [pend EXCEPT ![t].ran = TRUE]
             /\ UNCHANGED <<cvars, obj, refs, rec, dl, live, fresh, doomed, owned, fail, closing>>
CtorObj == /\ Ev("Ctor") /\ ctor[R.key] # 0 /\ R.id \notin live /\ R.id > 0
           /\ live' = live \cup {R.id} /\ fresh' = fresh \cup {R.id}
           /\ UNCHANGED <<cvars, obj, refs, rec, ctor, dl, doomed, owned, fail, pend, closing>>
CtorEnd == /\ Ev("CtorEnd") /\ ctor[R.key] = R.t
           /\ ctor' = [ctor EXCEPT ![R.key] = 0]
           /\ IF R.id # 0
              THEN /\ R.id \in fresh /\ obj[R.key] = 0 /\ fresh' = fresh \ {R.id}
                   /\ obj' = [obj EXCEPT ![R.key] = R.id] /\ UNCHANGED <<pend, fail>>
              ELSE /\ pend' = [pend EXCEPT ![R.t].failed = TRUE]
                   /\ fail' = [fail EXCEPT ![R.key] = [has |-> TRUE, by |-> R.t, ub |-> -1]] /\ UNCHANGED <<obj, fresh>>
           /\ UNCHANGED <<cvars, refs, rec, dl, live, doomed, owned, closing>>
\* not constructing is legitimate only inside the cool-down of a real failure of this key (ub: a clock value read after the
\* failure was recorded, known once the failing call has returned)
SkipLegit(p) == LET f == fail[p.k] IN f.has /\ (f.ub = -1 \/ f.ub + p.cd + SLACK > p.now0)
LinDrop(t) == /\ pend[t].op = "acq" /\ pend[t].ph = "ref" /\ ctor[pend[t].k] # t
              /\ (pend[t].failed \/ (~pend[t].ran /\ SkipLegit(pend[t])))
              /\ LET k == pend[t].k IN
                 /\ refs' = [refs EXCEPT ![k] = @ \ {t}]
                 /\ dl' = [dl EXCEPT ![k] = IF refs[k] = {t} /\ rec[k] = 0 THEN pend[t].now0 + lifespan ELSE @]
              /\ pend' = [pend EXCEPT ![t].ph = "dropped"]
              /\ UNCHANGED <<l, cvars, obj, rec, ctor, live, fresh, doomed, owned, fail, closing>>
RespAcq == /\ Ev("Resp") /\ R.op = "acq"
           /\ LET t == R.t  p == pend[t]  k == p.k IN
              /\ p.op = "acq" /\ k = R.key /\ ctor[k] # t
              /\ IF R.id # 0 THEN p.ph = "ref" /\ obj[k] = R.id /\ R.id \in live
                             ELSE p.ph = "dropped"
              /\ fail' = [fail EXCEPT ![k] = IF @.has /\ @.by = t /\ @.ub = -1 THEN [@ EXCEPT !.ub = R.now] ELSE @]
              /\ pend' = [pend EXCEPT ![t] = NoOp]
           /\ UNCHANGED <<cvars, obj, refs, rec, ctor, dl, live, fresh, doomed, owned, closing>>

(* ---------------------------------------------------------------- release *)
InvRel == /\ Ev("Inv") /\ R.op = "rel" /\ pend[R.t].op = "none"
          /\ R.t \in refs[R.key] /\ obj[R.key] = R.id /\ R.id # 0
          /\ pend' = [pend EXCEPT ![R.t] = [NoOp EXCEPT !.op = "rel", !.k = R.key, !.ph = "inv", !.now0 = R.now,
                                                        !.rc = (R.rc # 0), !.ds = (R.ds # 0)]]
          /\ UNCHANGED <<cvars, obj, refs, rec, ctor, dl, live, fresh, doomed, owned, fail, closing>>
LinRel(t) == /\ pend[t].op = "rel" /\ pend[t].ph = "inv"
             /\ LET k == pend[t].k
                    becomes == pend[t].rc /\ rec[k] = 0
                IN /\ refs' = [refs EXCEPT ![k] = @ \ {t}]
                   /\ rec' = [rec EXCEPT ![k] = IF becomes THEN t ELSE @]
                   /\ dl' = [dl EXCEPT ![k] = IF refs[k] = {t} /\ ~becomes /\ rec[k] = 0 THEN pend[t].now0 + lifespan ELSE @]
                   /\ pend' = [pend EXCEPT ![t].ph = "lin", ![t].role = IF becomes THEN "recycler" ELSE "plain"]
             /\ UNCHANGED <<l, cvars, obj, ctor, live, fresh, doomed, owned, fail, closing>>
\* the recycled object leaves the cache (destroyed, or moved out to the recycler): only when nobody holds a reference
RecycleDone(t) == /\ pend[t].op = "rel" /\ pend[t].ph = "lin" /\ pend[t].role = "recycler"
                  /\ LET k == pend[t].k  x == obj[k] IN
                     /\ refs[k] = {} /\ rec[k] = t /\ x # 0
                     /\ obj' = [obj EXCEPT ![k] = 0] /\ rec' = [rec EXCEPT ![k] = 0]
                     /\ IF pend[t].ds THEN /\ doomed' = doomed \cup {[id |-> x, due |-> NoDue]} /\ UNCHANGED owned
                                           /\ pend' = [pend EXCEPT ![t].ph = "recycled", ![t].res = 0]
                                      ELSE /\ owned' = owned \cup {x} /\ UNCHANGED doomed
                                           /\ pend' = [pend EXCEPT ![t].ph = "recycled", ![t].res = x]
                  /\ UNCHANGED <<l, cvars, refs, ctor, dl, live, fresh, fail, closing>>
RespRel == /\ Ev("Resp") /\ R.op = "rel"
           /\ LET p == pend[R.t] IN
              /\ p.op = "rel" /\ p.k = R.key
              /\ \/ p.ph = "lin" /\ p.role = "plain" /\ R.ret = 0
                 \/ p.ph = "recycled" /\ R.ret = p.res
           /\ pend' = [pend EXCEPT ![R.t] = NoOp]
           /\ UNCHANGED <<cvars, obj, refs, rec, ctor, dl, live, fresh, doomed, owned, fail, closing>>

(* ---------------------------------------------------------------- expiry, destructors, observations *)
Evict(k) == /\ obj[k] # 0 /\ refs[k] = {} /\ rec[k] = 0 /\ ~closing
            /\ doomed' = doomed \cup {[id |-> obj[k], due |-> IF limited THEN NoDue ELSE dl[k]]}
            /\ obj' = [obj EXCEPT ![k] = 0]
            /\ UNCHANGED <<l, cvars, refs, rec, ctor, dl, live, fresh, owned, fail, pend, closing>>
Dtor == /\ Ev("Dtor") /\ R.id \in live /\ live' = live \ {R.id}
        /\ \/ \E d \in doomed : /\ d.id = R.id /\ (d.due = NoDue \/ R.now + SLACK > d.due)
                                /\ doomed' = doomed \ {d} /\ UNCHANGED <<owned, obj>>
           \/ R.id \in owned /\ owned' = owned \ {R.id} /\ UNCHANGED <<doomed, obj>>
           \/ closing /\ \E k \in K : obj[k] = R.id /\ refs[k] = {} /\ obj' = [obj EXCEPT ![k] = 0] /\ UNCHANGED <<doomed, owned>>
        /\ UNCHANGED <<cvars, refs, rec, ctor, dl, fresh, fail, pend, closing>>
Use == /\ Ev("Use") /\ R.ok /\ R.id \in live /\ \E k \in K : obj[k] = R.id /\ R.t \in refs[k]
       /\ UNCHANGED <<cvars, obj, refs, rec, ctor, dl, live, fresh, doomed, owned, fail, pend, closing>>
CacheDestroy == /\ Ev("CacheDestroy") /\ \A t \in T : pend[t].op = "none" /\ \A k \in K : refs[k] = {} /\ ctor[k] = 0
                /\ closing' = TRUE
                /\ UNCHANGED <<cvars, obj, refs, rec, ctor, dl, live, fresh, doomed, owned, fail, pend>>
Quiesce == /\ Ev("Quiesce") /\ closing
           /\ UNCHANGED <<cvars, obj, refs, rec, ctor, dl, live, fresh, doomed, owned, fail, pend, closing>>
Next == \/ Reset \/ InvAcq \/ CtorBegin \/ CtorObj \/ CtorEnd \/ RespAcq \/ InvRel \/ RespRel \/ Dtor \/ Use \/ CacheDestroy \/ Quiesce
        \/ \E t \in T : LinRef(t) \/ LinDrop(t) \/ LinRel(t) \/ RecycleDone(t)
        \/ \E k \in K : Evict(k)
Spec == Init /\ [][Next]_vars
NotAccepted == l <= Len(Tr)
Progress == TLCSet(1, IF TLCGet(1) < l THEN l ELSE TLCGet(1))
Post == PrintT(<<"MAXL", TLCGet(1), Len(Tr)>>)
====
