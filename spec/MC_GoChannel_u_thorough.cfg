\* unbuffered, repaired protocol (KF = {}), 2 senders x 2 receivers x 2 calls, all call kinds, close()
SPECIFICATION Spec
CONSTANTS
  Cap = 0
  S = {"s1", "s2"}
  R = {"r1", "r2"}
  NV = 2
  NR = 2
  SKinds = {"inf", "timed", "try"}
  RKinds = {"inf", "timed", "try"}
  WithClose = TRUE
  KF = {}
INVARIANTS TypeOK DeliveredExactlyOnce PerSenderOrder FalseOnlyOnCloseOrTimeout DrainAfterClose ReleasedWhenPartnerExists ReleasedOnClose
CHECK_DEADLOCK FALSE
