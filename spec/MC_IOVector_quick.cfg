SPECIFICATION Spec
CONSTANTS
  MaxEl = 3
  MaxLen = 2
  OtherEl = 2
  OtherLen = 2
  Depth = 1
  KF = {}
INVARIANT Correct
CHECK_DEADLOCK FALSE
