\* unbuffered, sender-turn mutex WITHOUT the guard change: must still fail (the patch is minimal)
SPECIFICATION Spec
CONSTANTS
  Cap = 0
  S = {"s1", "s2"}
  R = {"r1", "r2"}
  NV = 2
  NR = 2
  SKinds = {"inf", "timed", "try"}
  RKinds = {"inf", "timed", "try"}
  WithClose = TRUE
  KF = {"F3g"}
INVARIANTS TypeOK DeliveredExactlyOnce PerSenderOrder FalseOnlyOnCloseOrTimeout DrainAfterClose ReleasedWhenPartnerExists ReleasedOnClose
CHECK_DEADLOCK FALSE
