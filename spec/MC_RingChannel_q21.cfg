SPECIFICATION Spec
CONSTANTS
  p1 = p1
  p2 = p2
  c1 = c1
  c2 = c2
  Prod = {p1, p2}
  Cons = {c1}
  Cap = 2
  NSend <- S21
  NRecv <- R3
  TwoStep = TRUE
  PhotonSend = TRUE
  Timed = TRUE
  Bug = "none"

INVARIANTS NotStuckNonEmpty NotStuckNonFull PendingMirrorsCount CountersSane Ledger
