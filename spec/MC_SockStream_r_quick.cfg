SPECIFICATION Spec
CONSTANTS
  K = 2
  WProgs <- NoProg
  RProgs <- RQ
  RawW = TRUE
  RawR = FALSE
  RawTotal = 3
  Tmos <- T1
  MaxT = 1
  Spurious = TRUE
  Interrupts = FALSE
  Bug = "none"
INVARIANTS ViewIsFunctionOfMoved StreamExact ReadWriteComplete RecvSendBounds NoHangPastTimeout WaitsOnlyForData
CHECK_DEADLOCK FALSE
