SPECIFICATION Spec
CONSTANTS
  Kind = "mpmc"
  Cap = 4
  M = 16
  MarkMod = 16
  Prod = {1, 2}
  Cons = {3, 4}
  Prog <- Prog_pp21
  StartSet = {0, 6}
  Bug = "none"
INVARIANTS ExactlyOnce FifoLinearizable PerProducerOrder CapacityBound NoTornSlot

