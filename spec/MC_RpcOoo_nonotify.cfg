\* C11 anti-vacuity: a returning caller does not notify m_wait: LeaderHandover MUST be violated.  3 callers, responses in all orders (header and body separate arrivals), 1 deadline(s) may pass anywhere, 1 stream error(s), 0 unknown-or-duplicate response(s)
SPECIFICATION Spec
CONSTANTS
  C = {c1, c2, c3}
  Timed = {c1, c2, c3}
  MaxExpire = 1
  MaxErr = 1
  MaxBogus = 0
  Variant = "nonotify"
  EarlyResponse = FALSE
INVARIANTS LeaderHandover
SYMMETRY Sym
CHECK_DEADLOCK FALSE
