---- MODULE SyncScripts ----
(* Specification -> code direction for the lock family (C01, C06): TLC enumerates EVERY behaviour of the abstract         *)
(* readers-writer lock (the object of Trace_RwA.tla / Trace_LockA.tla, with explicit blocking, time advance and             *)
(* interrupts) up to a length bound, and prints each behaviour as a script.  The conductor of harness/h_sync.cpp replays    *)
(* every script on the real rwlock / qrwlock / mutex on one vCPU (the script's order IS the arrival order there), and the    *)
(* recorded execution is validated by the Tier-A trace specification.  Threads are named in order of first appearance       *)
(* (symmetry), a blocked thread takes no step, and steps that the real lock's admission policy makes inapplicable are         *)
(* skipped by the conductor.                                                                                                  *)
EXTENDS Naturals, Sequences, FiniteSets, TLC
CONSTANTS NT, MaxLen, Kind        \* Kind \in {"rw", "qrw", "mutex"}
T == 1..NT
VARIABLES script, st, used
\* st[t] \in {"idle", "r", "w", "br1", "br2", "bw1", "bw2"}  (holding read / write, blocked in a timed (1) / untimed (2) lock)
vars == <<script, st, used>>
Init == script = <<>> /\ st = [t \in T |-> "idle"] /\ used = 0
Readers == {t \in T : st[t] = "r"}
Writer == {t \in T : st[t] = "w"}
Blocked == {t \in T : st[t] \in {"br1", "br2", "bw1", "bw2"}}
CanRead == Writer = {}
CanWrite == Writer = {} /\ Readers = {}
Modes == IF Kind = "mutex" THEN {"M"} ELSE {"R", "W"}
Step(s) == script' = Append(script, s) /\ Len(script) < MaxLen
Name(t) == CHOOSE c \in {"1", "2", "3", "4"} : c = (CASE t = 1 -> "1" [] t = 2 -> "2" [] t = 3 -> "3" [] OTHER -> "4")
Fresh(t) == t <= used + 1                       \* symmetry: thread k+1 may act only after thread k has
Use(t) == used' = IF t > used THEN t ELSE used
\* admission as the abstract object allows it; a waiting writer does not block readers here (policy differences are left to
\* the real lock: the conductor skips a step whose thread is still asleep)
Wake == [t \in T |-> st[t]]
Lock(t, m, to) ==
  /\ st[t] = "idle" /\ Fresh(t) /\ Use(t)
  /\ Step(Name(t) \o ":L" \o m \o to)
  /\ st' = [st EXCEPT ![t] = IF m = "R" THEN (IF CanRead THEN "r" ELSE "br" \o to)
                                  ELSE (IF CanWrite THEN "w" ELSE "bw" \o to)]
Try(t, m) == /\ Kind # "rw" /\ st[t] = "idle" /\ Fresh(t) /\ Use(t) /\ Step(Name(t) \o ":T" \o m)
             /\ st' = [st EXCEPT ![t] = IF m = "R" THEN (IF CanRead THEN "r" ELSE "idle") ELSE (IF CanWrite THEN "w" ELSE "idle")]
\* after a release, blocked threads that have become admissible are admitted (writers first, then all readers)
Admit(s2) == LET bw == {t \in T : s2[t] \in {"bw1", "bw2"}}
                 br == {t \in T : s2[t] \in {"br1", "br2"}}
                 free == \A t \in T : s2[t] \notin {"r", "w"}
                 nowr == \A t \in T : s2[t] # "w"
             IN IF free /\ bw # {} THEN [s2 EXCEPT ![CHOOSE t \in bw : TRUE] = "w"]
                ELSE IF nowr THEN [t \in T |-> IF t \in br THEN "r" ELSE s2[t]] ELSE s2
Unlock(t) == /\ st[t] \in {"r", "w"} /\ Step(Name(t) \o ":U") /\ UNCHANGED used
             /\ st' = Admit([st EXCEPT ![t] = "idle"])
Relock(t, m) == /\ st[t] \in {"r", "w"} /\ Step(Name(t) \o ":X" \o m) /\ UNCHANGED used
                /\ LET s2 == [st EXCEPT ![t] = "idle"]
                       others == \A u \in T \ {t} : s2[u] \notin {"r", "w"}
                       nowr == \A u \in T \ {t} : s2[u] # "w"
                   IN st' = IF m = "R" THEN (IF nowr THEN Admit([s2 EXCEPT ![t] = "r"]) ELSE Admit([s2 EXCEPT ![t] = "br2"]))
                            ELSE (IF others THEN [s2 EXCEPT ![t] = "w"] ELSE Admit([s2 EXCEPT ![t] = "bw2"]))
Advance == /\ \E t \in T : st[t] \in {"br1", "bw1"}
           /\ Step("A") /\ UNCHANGED used
           /\ st' = [t \in T |-> IF st[t] \in {"br1", "bw1"} THEN "idle" ELSE st[t]]
Interrupt(t) == /\ st[t] \in {"br2", "bw2"} /\ Step("I" \o Name(t)) /\ UNCHANGED used
                /\ st' = [st EXCEPT ![t] = "idle"]
Next == \/ \E t \in T, m \in Modes : Lock(t, m, "1") \/ Lock(t, m, "2") \/ Try(t, m) \/ Relock(t, m)
        \/ \E t \in T : Unlock(t) \/ Interrupt(t)
        \/ Advance
Spec == Init /\ [][Next]_vars
\* every complete behaviour (length MaxLen, or no step left) is printed once: TLC's output is the script file
RECURSIVE Join(_, _)
Join(s, k) == IF k > Len(s) THEN "" ELSE s[k] \o " " \o Join(s, k + 1)
\* only behaviours in which some thread was blocked at some point are worth replaying
EverBlocked == \E k \in 1..Len(script) : script[k] = "A" \/ SubSeq(script[k], 1, 1) = "I"
Emit == (Len(script) = MaxLen /\ (Blocked # {} \/ EverBlocked)) => PrintT("SCRIPT " \o Join(script, 1))
\* scripts worth running: somebody must have blocked at some point (otherwise nothing interesting can go wrong)
Interesting == TRUE
====
