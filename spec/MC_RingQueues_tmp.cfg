SPECIFICATION Spec
CONSTANTS
  Kind = "mpmc"
  Cap = 2
  M = 8
  MarkMod = 8
  Prod = {1}
  Cons = {3}
  Prog <- Prog_w_pp
  StartSet = {0, 5, 6, 7}
  Bug = "none"
INVARIANTS ExactlyOnce FifoLinearizable PerProducerOrder CapacityBound NoTornSlot
