SPECIFICATION Spec
CONSTANTS
  Kind = "batch"
  Cap = 4
  M = 16
  MarkMod = 16
  Prod = {1, 2}
  Cons = {3, 4}
  Prog <- Prog_b
  StartSet = {0, 14}
  Bug = "none"
INVARIANTS ExactlyOnce FifoLinearizable PerProducerOrder CapacityBound NoTornSlot

