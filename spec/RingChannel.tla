---- MODULE RingChannel ----
(* C07: sleep / wake-up protocol of photon::common::RingChannel and FlexRingChannel (common/lockfree_queue.h:628-947,      *)
(* the two classes share the algorithm) at ATOMIC-OPERATION granularity, sequential consistency (the seq_cst fences of     *)
(* send() / notify_senders() are therefore no-ops here, DESIGN.md section 4).                                               *)
(*   send<PhotonPause>(x): push_backoff { if (!push) { send_waiters++; while (!push) { yield | send_sem.wait(1, 100ms) ->    *)
(*        r == 0 ? send_pending-- }; send_waiters-- } }; fence; cur = idler.load(); if (!cur) return; p = pending.load();    *)
(*        loop { if (p >= cur) { fresh = idler.load(); if (fresh <= cur) return; cur = fresh; continue }                     *)
(*               if (pending.CAS(p, p+1)) { queue_sem.signal(1); return } }                                                   *)
(*   recv(): if (pop) { notify_senders; return }; yield; idler++; while (!pop) { yield | queue_sem.wait(1, 100ms) ->           *)
(*        r == 0 ? pending-- }; notify_senders; idler--                                                                        *)
(*   notify_senders: fence; cw = send_waiters.load(); if (!cw) return; sp = send_pending.load(); the same capped loop on       *)
(*        send_pending / send_waiters; send_sem.signal(1)                                                                      *)
(* The queue underneath is the MPMC ring as RingQueues.tla establishes it (linearizable bounded FIFO whose calls are not     *)
(* atomic): push = claim (tail CAS; fails iff tail - head = Cap at one instant; waits while the slot is still being read)     *)
(* then publish (mark store); pop = claim (head CAS; fails iff head = tail at one instant; waits while the slot at head is    *)
(* claimed but unpublished) then release.  TwoStep = FALSE makes both one step (SPSC-like publication).                        *)
(* The semaphores are the abstract counting semaphore of C02 with FIFO in-order resume: wait(1) takes a token or sleeps;      *)
(* signal(1) adds a token and makes the first sleeper retry (a fresh waiter may take the token first; the woken one then       *)
(* sleeps again); Timeout ends a sleep with r = -1 (only if Timed).  Yield budgets are stuttering and not modelled: a caller   *)
(* whose pop / push fails may retry at any later time or go to the semaphore.                                                  *)
(* PhotonSend = FALSE: producers are OS threads (ThreadPause): a full queue is polled, send_sem / send_waiters unused.         *)
(* Bug: "late_idler" (recv registers in idler only after its re-check pop failed) and "late_waiters" (same on the send side)   *)
(* are the deliberately broken variants.                                                                                       *)
EXTENDS Naturals, Integers, Sequences, FiniteSets, TLC
CONSTANTS Prod, Cons, Cap, NSend, NRecv, TwoStep, PhotonSend, Timed, Bug
Proc == Prod \cup Cons
VARIABLES qt, qh, sl,                       \* queue: claimed pushes, claimed pops, slot state / value
          idler, pending, wtrs, spending,   \* idler, pending, send_waiters, send_pending
          cnt, sq,                          \* semaphores "q" (queue_sem) and "s" (send_sem): count, FIFO of sleepers
          pc, done, cur, pnd, slow, val, si, \* per process: control, calls completed, locals cur_* / p, slow path flag, value held, slot index
          sent, rcvd                        \* ghost: values whose send returned / values returned by recv
vars == <<qt, qh, sl, idler, pending, wtrs, spending, cnt, sq, pc, done, cur, pnd, slow, val, si, sent, rcvd>>
NoVal == <<0, 0>>
Free == [st |-> "free", v |-> NoVal]
Init == /\ qt = 0 /\ qh = 0 /\ sl = [i \in 0..Cap-1 |-> Free]
        /\ idler = 0 /\ pending = 0 /\ wtrs = 0 /\ spending = 0
        /\ cnt = [s \in {"q", "s"} |-> 0] /\ sq = [s \in {"q", "s"} |-> <<>>]
        /\ pc = [x \in Proc |-> "idle"] /\ done = [x \in Proc |-> 0] /\ cur = [x \in Proc |-> 0] /\ pnd = [x \in Proc |-> 0]
        /\ slow = [x \in Proc |-> FALSE] /\ val = [x \in Proc |-> NoVal] /\ si = [x \in Proc |-> 0]
        /\ sent = {} /\ rcvd = {}
Goto(x, s) == pc' = [pc EXCEPT ![x] = s]
ValOf(p) == <<p, done[p] + 1>>
\* ---- queue primitives (shared by the channel actions)
CanClaimPush == sl[qt % Cap].st = "free"
IsFull == qt - qh = Cap
CanClaimPop == qh # qt /\ sl[qh % Cap].st = "full"
IsEmpty == qh = qt
\* ---- semaphore primitives
SemTake(s) == cnt' = [cnt EXCEPT ![s] = @ - 1]
SemSleep(s, x) == sq' = [sq EXCEPT ![s] = Append(@, x)]
\* signal(1): one more token; the first sleeper (if any) is resumed and will retry
Signal(s, self, next, retry) ==
    /\ cnt' = [cnt EXCEPT ![s] = @ + 1]
    /\ IF sq[s] = <<>> THEN sq' = sq /\ Goto(self, next)
       ELSE /\ sq' = [sq EXCEPT ![s] = Tail(@)]
            /\ pc' = [pc EXCEPT ![self] = next, ![Head(sq[s])] = retry]
Remove(seq, x) == SelectSeq(seq, LAMBDA y : y # x)
\* ---- the capped notification loop, after p / sp has been (re)loaded: compare locally, then either re-read the counter or CAS
Decide(x, p, c, fresh, cas) == Goto(x, IF p >= c THEN fresh ELSE cas)

(* ============================================================ send ============================================================ *)
\* first push attempt (claim)
S_Push1(p) == /\ pc[p] = "idle" /\ p \in Prod /\ done[p] < NSend[p]
              /\ IF CanClaimPush /\ ~IsFull
                 THEN /\ qt' = qt + 1
                      /\ val' = [val EXCEPT ![p] = ValOf(p)] /\ si' = [si EXCEPT ![p] = qt % Cap]
                      /\ sl' = [sl EXCEPT ![qt % Cap] = IF TwoStep THEN [st |-> "writing", v |-> NoVal] ELSE [st |-> "full", v |-> ValOf(p)]]
                      /\ Goto(p, IF TwoStep THEN "s_pub" ELSE "s_ldidler") /\ UNCHANGED <<wtrs, slow>>
                 ELSE /\ IsFull /\ PhotonSend                    \* push() returned false (ThreadPause: poll again later)
                      /\ IF Bug = "late_waiters" THEN UNCHANGED <<wtrs, slow>>
                         ELSE wtrs' = wtrs + 1 /\ slow' = [slow EXCEPT ![p] = TRUE]       \* send_waiters.fetch_add(1)
                      /\ Goto(p, "b_push") /\ UNCHANGED <<qt, sl, val, si>>
              /\ UNCHANGED <<qh, idler, pending, spending, cnt, sq, done, cur, pnd, sent, rcvd>>
S_Pub(p) == /\ pc[p] = "s_pub"
            /\ sl' = [sl EXCEPT ![si[p]] = [st |-> "full", v |-> val[p]]]
            /\ Goto(p, IF slow[p] THEN "b_dec" ELSE "s_ldidler")
            /\ UNCHANGED <<qt, qh, idler, pending, wtrs, spending, cnt, sq, done, cur, pnd, slow, val, si, sent, rcvd>>
\* backoff loop: while (!push_fn(x)) { ... send_sem.wait ... }
B_Push(p) == /\ pc[p] = "b_push"
             /\ IF CanClaimPush /\ ~IsFull
                THEN /\ qt' = qt + 1
                     /\ sl' = [sl EXCEPT ![qt % Cap] = IF TwoStep THEN [st |-> "writing", v |-> NoVal] ELSE [st |-> "full", v |-> ValOf(p)]]
                     /\ val' = [val EXCEPT ![p] = ValOf(p)] /\ si' = [si EXCEPT ![p] = qt % Cap]
                     /\ Goto(p, IF TwoStep THEN "s_pub" ELSE IF slow[p] THEN "b_dec" ELSE "s_ldidler") /\ UNCHANGED <<wtrs, cnt, sq>>
                ELSE /\ IsFull /\ Goto(p, IF Bug = "late_waiters" /\ ~slow[p] THEN "b_inclate" ELSE "b_wait")
                     /\ UNCHANGED <<qt, sl, val, si, wtrs, cnt, sq>>
             /\ UNCHANGED <<qh, idler, pending, spending, done, cur, pnd, slow, sent, rcvd>>
\* int r = send_sem.wait(1, 100ms): take a token (r == 0) or sleep
B_Wait(p) == /\ pc[p] = "b_wait"
             /\ IF cnt["s"] > 0 THEN SemTake("s") /\ Goto(p, "b_decp") /\ UNCHANGED sq
                ELSE SemSleep("s", p) /\ Goto(p, "b_sleep") /\ UNCHANGED cnt
             /\ UNCHANGED <<qt, qh, sl, idler, pending, wtrs, spending, done, cur, pnd, slow, val, si, sent, rcvd>>
\* broken variant only: register as waiter after the re-check push failed
B_IncLate(p) == /\ pc[p] = "b_inclate"
                /\ wtrs' = wtrs + 1 /\ slow' = [slow EXCEPT ![p] = TRUE]
                /\ IF cnt["s"] > 0 THEN SemTake("s") /\ Goto(p, "b_decp") /\ UNCHANGED sq
                   ELSE SemSleep("s", p) /\ Goto(p, "b_sleep") /\ UNCHANGED cnt
                /\ UNCHANGED <<qt, qh, sl, idler, pending, spending, done, cur, pnd, val, sent, rcvd, si>>
B_DecP(p) == /\ pc[p] = "b_decp" /\ spending' = spending - 1 /\ Goto(p, "b_push")
             /\ UNCHANGED <<qt, qh, sl, idler, pending, wtrs, cnt, sq, done, cur, pnd, slow, val, sent, rcvd, si>>
B_Timeout(p) == /\ Timed /\ pc[p] = "b_sleep" /\ sq' = [sq EXCEPT !["s"] = Remove(@, p)] /\ Goto(p, "b_push")
                /\ UNCHANGED <<qt, qh, sl, idler, pending, wtrs, spending, cnt, done, cur, pnd, slow, val, sent, rcvd, si>>
B_Dec(p) == /\ pc[p] = "b_dec" /\ wtrs' = wtrs - 1 /\ slow' = [slow EXCEPT ![p] = FALSE] /\ Goto(p, "s_ldidler")
            /\ UNCHANGED <<qt, qh, sl, idler, pending, spending, cnt, sq, done, cur, pnd, val, sent, rcvd, si>>
\* fence; cur_idler = idler.load(); if (cur_idler == 0) return;
SendRet(p) == /\ done' = [done EXCEPT ![p] = @ + 1] /\ sent' = sent \cup {val[p]} /\ val' = [val EXCEPT ![p] = NoVal]
S_LdIdler(p) == /\ pc[p] = "s_ldidler"
                /\ IF idler = 0 THEN SendRet(p) /\ Goto(p, "idle") /\ UNCHANGED cur
                   ELSE cur' = [cur EXCEPT ![p] = idler] /\ Goto(p, "s_ldp") /\ UNCHANGED <<done, sent, val>>
                /\ UNCHANGED <<qt, qh, sl, idler, pending, wtrs, spending, cnt, sq, pnd, slow, rcvd, si>>
S_LdP(p) == /\ pc[p] = "s_ldp" /\ pnd' = [pnd EXCEPT ![p] = pending] /\ Decide(p, pending, cur[p], "s_fresh", "s_cas")
            /\ UNCHANGED <<qt, qh, sl, idler, pending, wtrs, spending, cnt, sq, done, cur, slow, val, sent, rcvd, si>>
S_Fresh(p) == /\ pc[p] = "s_fresh"
              /\ IF idler <= cur[p] THEN SendRet(p) /\ Goto(p, "idle") /\ UNCHANGED cur
                 ELSE cur' = [cur EXCEPT ![p] = idler] /\ Decide(p, pnd[p], idler, "s_fresh", "s_cas") /\ UNCHANGED <<done, sent, val>>
              /\ UNCHANGED <<qt, qh, sl, idler, pending, wtrs, spending, cnt, sq, pnd, slow, rcvd, si>>
S_Cas(p) == /\ pc[p] = "s_cas"
            /\ IF pending = pnd[p] THEN pending' = pending + 1 /\ Goto(p, "s_sig") /\ UNCHANGED pnd
               ELSE pnd' = [pnd EXCEPT ![p] = pending] /\ Decide(p, pending, cur[p], "s_fresh", "s_cas") /\ UNCHANGED pending
            /\ UNCHANGED <<qt, qh, sl, idler, wtrs, spending, cnt, sq, done, cur, slow, val, sent, rcvd, si>>
S_Sig(p) == /\ pc[p] = "s_sig" /\ Signal("q", p, "idle", "r_wait") /\ SendRet(p)
            /\ UNCHANGED <<qt, qh, sl, idler, pending, wtrs, spending, cur, pnd, slow, rcvd, si>>

(* ============================================================ recv ============================================================ *)
PopClaim(c) == /\ qh' = qh + 1
               /\ sl' = [sl EXCEPT ![qh % Cap] = IF TwoStep THEN [st |-> "reading", v |-> NoVal] ELSE Free]
               /\ val' = [val EXCEPT ![c] = sl[qh % Cap].v] /\ si' = [si EXCEPT ![c] = qh % Cap]
R_Pop1(c) == /\ pc[c] = "idle" /\ c \in Cons /\ done[c] < NRecv[c]
             /\ IF CanClaimPop THEN PopClaim(c) /\ Goto(c, IF TwoStep THEN "r_rel" ELSE "n_ldw")
                ELSE IsEmpty /\ Goto(c, IF Bug = "late_idler" THEN "r_pop2" ELSE "r_inc") /\ UNCHANGED <<qh, sl, val, si>>
             /\ slow' = [slow EXCEPT ![c] = FALSE]
             /\ UNCHANGED <<qt, idler, pending, wtrs, spending, cnt, sq, done, cur, pnd, sent, rcvd>>
R_Rel(c) == /\ pc[c] = "r_rel" /\ sl' = [sl EXCEPT ![si[c]] = Free]
            /\ Goto(c, "n_ldw")
            /\ UNCHANGED <<qt, qh, idler, pending, wtrs, spending, cnt, sq, done, cur, pnd, slow, val, si, sent, rcvd>>
\* thread_yield(); idler.fetch_add(1)
R_Inc(c) == /\ pc[c] = "r_inc" /\ idler' = idler + 1 /\ slow' = [slow EXCEPT ![c] = TRUE]
            /\ Goto(c, IF Bug = "late_idler" THEN "r_wait" ELSE "r_pop2")
            /\ UNCHANGED <<qt, qh, sl, pending, wtrs, spending, cnt, sq, done, cur, pnd, val, sent, rcvd, si>>
\* while (!pop(x)) { yield | queue_sem.wait }
R_Pop2(c) == /\ pc[c] = "r_pop2"
             /\ IF CanClaimPop THEN PopClaim(c) /\ Goto(c, IF TwoStep THEN "r_rel" ELSE "n_ldw")
                ELSE IsEmpty /\ Goto(c, IF Bug = "late_idler" /\ ~slow[c] THEN "r_inc" ELSE "r_wait") /\ UNCHANGED <<qh, sl, val, si>>
             /\ UNCHANGED <<qt, idler, pending, wtrs, spending, cnt, sq, done, cur, pnd, slow, sent, rcvd>>
R_Wait(c) == /\ pc[c] = "r_wait"
             /\ IF cnt["q"] > 0 THEN SemTake("q") /\ Goto(c, "r_decp") /\ UNCHANGED sq
                ELSE SemSleep("q", c) /\ Goto(c, "r_sleep") /\ UNCHANGED cnt
             /\ UNCHANGED <<qt, qh, sl, idler, pending, wtrs, spending, done, cur, pnd, slow, val, sent, rcvd, si>>
R_DecP(c) == /\ pc[c] = "r_decp" /\ pending' = pending - 1 /\ Goto(c, "r_pop2")
             /\ UNCHANGED <<qt, qh, sl, idler, wtrs, spending, cnt, sq, done, cur, pnd, slow, val, sent, rcvd, si>>
R_Timeout(c) == /\ Timed /\ pc[c] = "r_sleep" /\ sq' = [sq EXCEPT !["q"] = Remove(@, c)] /\ Goto(c, "r_pop2")
                /\ UNCHANGED <<qt, qh, sl, idler, pending, wtrs, spending, cnt, done, cur, pnd, slow, val, sent, rcvd, si>>
\* notify_senders
RecvRet(c) == /\ done' = [done EXCEPT ![c] = @ + 1] /\ rcvd' = rcvd \cup {val[c]} /\ val' = [val EXCEPT ![c] = NoVal]
AfterNotify(c) == IF slow[c] THEN Goto(c, "r_dec") /\ UNCHANGED <<done, rcvd, val>> ELSE RecvRet(c) /\ Goto(c, "idle")
N_LdW(c) == /\ pc[c] = "n_ldw"
            /\ IF wtrs = 0 THEN AfterNotify(c) /\ UNCHANGED cur
               ELSE cur' = [cur EXCEPT ![c] = wtrs] /\ Goto(c, "n_ldsp") /\ UNCHANGED <<done, rcvd, val>>
            /\ UNCHANGED <<qt, qh, sl, idler, pending, wtrs, spending, cnt, sq, pnd, slow, sent, si>>
N_LdSp(c) == /\ pc[c] = "n_ldsp" /\ pnd' = [pnd EXCEPT ![c] = spending] /\ Decide(c, spending, cur[c], "n_fresh", "n_cas")
             /\ UNCHANGED <<qt, qh, sl, idler, pending, wtrs, spending, cnt, sq, done, cur, slow, val, sent, rcvd, si>>
N_Fresh(c) == /\ pc[c] = "n_fresh"
              /\ IF wtrs <= cur[c] THEN AfterNotify(c) /\ UNCHANGED cur
                 ELSE cur' = [cur EXCEPT ![c] = wtrs] /\ Decide(c, pnd[c], wtrs, "n_fresh", "n_cas") /\ UNCHANGED <<done, rcvd, val>>
              /\ UNCHANGED <<qt, qh, sl, idler, pending, wtrs, spending, cnt, sq, pnd, slow, sent, si>>
N_Cas(c) == /\ pc[c] = "n_cas"
            /\ IF spending = pnd[c] THEN spending' = spending + 1 /\ Goto(c, "n_sig") /\ UNCHANGED pnd
               ELSE pnd' = [pnd EXCEPT ![c] = spending] /\ Decide(c, spending, cur[c], "n_fresh", "n_cas") /\ UNCHANGED spending
            /\ UNCHANGED <<qt, qh, sl, idler, pending, wtrs, cnt, sq, done, cur, slow, val, sent, rcvd, si>>
N_Sig(c) == /\ pc[c] = "n_sig"
            /\ IF slow[c] THEN Signal("s", c, "r_dec", "b_wait") /\ UNCHANGED <<done, rcvd, val>>
                          ELSE Signal("s", c, "idle", "b_wait") /\ RecvRet(c)
            /\ UNCHANGED <<qt, qh, sl, idler, pending, wtrs, spending, cur, pnd, slow, sent, si>>
\* DEFER(idler.fetch_sub(1)); return x
R_Dec(c) == /\ pc[c] = "r_dec" /\ idler' = idler - 1 /\ slow' = [slow EXCEPT ![c] = FALSE] /\ RecvRet(c) /\ Goto(c, "idle")
            /\ UNCHANGED <<qt, qh, sl, pending, wtrs, spending, cnt, sq, cur, pnd, sent, si>>

AllDone == \A x \in Proc : pc[x] = "idle" /\ done[x] = (IF x \in Prod THEN NSend[x] ELSE NRecv[x])
Finished == AllDone /\ UNCHANGED vars
StepP(p) == S_Push1(p) \/ S_Pub(p) \/ B_Push(p) \/ B_Wait(p) \/ B_IncLate(p) \/ B_DecP(p) \/ B_Timeout(p) \/ B_Dec(p)
            \/ S_LdIdler(p) \/ S_LdP(p) \/ S_Fresh(p) \/ S_Cas(p) \/ S_Sig(p)
StepC(c) == R_Pop1(c) \/ R_Rel(c) \/ R_Inc(c) \/ R_Pop2(c) \/ R_Wait(c) \/ R_DecP(c) \/ R_Timeout(c)
            \/ N_LdW(c) \/ N_LdSp(c) \/ N_Fresh(c) \/ N_Cas(c) \/ N_Sig(c) \/ R_Dec(c)
Next == (\E p \in Prod : StepP(p)) \/ (\E c \in Cons : StepC(c)) \/ Finished
Spec == Init /\ [][Next]_vars

(* ========================================================== properties ========================================================= *)
\* a woken sleeper retries at once in this model (its pc leaves the sleep state when the signal is given), so "asleep" means
\* asleep and not signalled
AsleepC == {c \in Cons : pc[c] = "r_sleep"}
AsleepP == {p \in Prod : pc[p] = "b_sleep"}
\* producers that are not between a successful push and the end of send()
ProdQuiet == \A p \in Prod : pc[p] \in {"idle", "b_push", "b_wait", "b_sleep", "b_decp", "b_inclate"}
\* consumers that are not between a successful pop and the end of recv()
ConsQuiet == \A c \in Cons : pc[c] \in {"idle", "r_inc", "r_pop2", "r_wait", "r_sleep", "r_decp"}
HasItem == qh # qt /\ sl[qh % Cap].st = "full"
HasRoom == ~IsFull /\ CanClaimPush
\* no state with: an element ready, a consumer asleep in queue_sem.wait and every other consumer outside recv(), no token,
\* and no producer still on its way to signal
NotStuckNonEmpty == ~(HasItem /\ AsleepC # {} /\ (\A c \in Cons : pc[c] \in {"idle", "r_sleep"}) /\ cnt["q"] = 0 /\ ProdQuiet)
NotStuckNonFull == ~(HasRoom /\ AsleepP # {} /\ (\A p \in Prod : pc[p] \in {"idle", "b_sleep"}) /\ cnt["s"] = 0 /\ ConsQuiet)
\* pending mirrors queue_sem's count: tokens not yet taken + takers that have not decremented yet + signallers about to signal
PendingMirrorsCount == /\ pending = cnt["q"] + Cardinality({c \in Cons : pc[c] = "r_decp"}) + Cardinality({p \in Prod : pc[p] = "s_sig"})
                       /\ spending = cnt["s"] + Cardinality({p \in Prod : pc[p] = "b_decp"}) + Cardinality({c \in Cons : pc[c] = "n_sig"})
                       /\ pending <= Cardinality(Cons) /\ spending <= Cardinality(Prod)
CountersSane == /\ idler = Cardinality({c \in Cons : slow[c]}) /\ wtrs = Cardinality({p \in Prod : slow[p]})
                /\ qt - qh \in 0..Cap
\* every value whose send returned is received once or still in the ring; only sent-or-in-flight values are received
Ledger == /\ \A v \in rcvd : v # NoVal
          /\ AllDone => sent = rcvd \cup {sl[i].v : i \in {j \in 0..Cap-1 : sl[j].st = "full"}}
Inv == NotStuckNonEmpty /\ NotStuckNonFull /\ PendingMirrorsCount /\ CountersSane /\ Ledger
====
