SPECIFICATION Spec
CONSTANTS
  K = 2
  WProgs <- NoProg
  RProgs <- R22
  RawW = TRUE
  RawR = FALSE
  RawTotal = 2
  Tmos <- TI
  MaxT = 0
  Spurious = FALSE
  Interrupts = FALSE
  Bug = "noskip"
INVARIANTS WaitsOnlyForData
CHECK_DEADLOCK FALSE
