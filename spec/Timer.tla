---- MODULE Timer ----
(* Beyond the listed properties (DESIGN.md section 6): photon::Timer (thread/timer.h, Timer::stub in thread/thread.cpp).      *)
(* A timer is a photon thread that sleeps for its timeout, fires the callback, and repeats; reset()/cancel() interrupt the     *)
(* sleep with EAGAIN and hand the CPU to the timer thread, the destructor interrupts it with ECANCELED and joins it.           *)
(* The model runs the timer thread and one controlling thread on one vCPU at the granularity of blocking points, with the      *)
(* scheduler's wake-up reason mechanism explicit: an interrupt on a SLEEPING thread makes it READY with that reason; an          *)
(* interrupt on a READY thread whose reason is 0 STORES the reason (thread_interrupt's READY branch) and the thread's sleep      *)
(* returns it when it runs.  StaleReasons = FALSE models a scheduler that drops an interrupt to a READY thread (the obvious      *)
(* repair of finding F2 of C04): TLC then shows what Timer relies on -- a destructor / cancel that arrives after the timer's     *)
(* sleep has expired but before the timer thread ran must still prevent the callback.                                            *)
EXTENDS Naturals, Sequences, TLC
CONSTANTS StaleReasons, MaxFires, Repeating
VARIABLES tst, reason, waiting, repeating, fires, cpc, destroyed, firedAfterDtor, nextForever, firedAfterCancel, cancelOk, sleepForever
\* tst: state of the timer thread: "init" | "sleeping" | "ready" (woken, not yet run) | "firing" | "done"
vars == <<tst, reason, waiting, repeating, fires, cpc, destroyed, firedAfterDtor, nextForever, firedAfterCancel, cancelOk, sleepForever>>
ECANCELED == "ECANCELED"
EAGAIN == "EAGAIN"
\* the constructor hands the CPU to the timer thread (thread_yield_to), which runs up to its first sleep
Init == /\ tst = "sleeping" /\ reason = "none" /\ waiting = TRUE /\ repeating = Repeating /\ fires = 0 /\ cpc = "run"
        /\ destroyed = FALSE /\ firedAfterDtor = FALSE /\ nextForever = FALSE /\ firedAfterCancel = FALSE /\ cancelOk = FALSE /\ sleepForever = FALSE
(* ---- timer thread (runs when scheduled; between two blocking points it runs without interruption on its vCPU) ---- *)
\* the deadline passes: the expiry pass makes the thread READY with reason "none"
Expire == /\ tst = "sleeping" /\ ~sleepForever /\ fires < MaxFires /\ tst' = "ready"
          /\ UNCHANGED <<reason, waiting, repeating, fires, cpc, destroyed, firedAfterDtor, nextForever, firedAfterCancel, cancelOk, sleepForever>>
GoSleep(forever) == /\ tst' = "sleeping" /\ waiting' = TRUE /\ reason' = "none" /\ sleepForever' = forever /\ cancelOk' = FALSE
\* the timer thread gets the CPU: usleep returns; _waiting = false; act on the reason
TRun == /\ tst = "ready"
        /\ IF reason = ECANCELED THEN /\ tst' = "done" /\ waiting' = FALSE /\ reason' = "none"
                                      /\ UNCHANGED <<fires, firedAfterDtor, firedAfterCancel, nextForever, sleepForever, cancelOk>>
           ELSE IF reason = EAGAIN THEN /\ GoSleep(nextForever) /\ nextForever' = FALSE          \* goto again: no scheduling point in between
                                        /\ UNCHANGED <<fires, firedAfterDtor, firedAfterCancel>>
           ELSE /\ fires' = fires + 1 /\ waiting' = FALSE /\ reason' = "none"                   \* timeout: the callback starts (it may yield)
                /\ firedAfterDtor' = (firedAfterDtor \/ destroyed)
                /\ firedAfterCancel' = (firedAfterCancel \/ cancelOk)
                /\ tst' = "firing" /\ UNCHANGED <<nextForever, sleepForever, cancelOk>>
        /\ UNCHANGED <<repeating, cpc, destroyed>>
\* the callback has returned:  } while (_repeating);
TLoop == /\ tst = "firing"
         /\ IF repeating THEN GoSleep(FALSE) ELSE tst' = "done" /\ UNCHANGED <<waiting, reason, sleepForever, cancelOk>>
         /\ UNCHANGED <<repeating, fires, cpc, destroyed, firedAfterDtor, nextForever, firedAfterCancel>>
(* ---- thread_interrupt(timer thread, e) as the scheduler implements it ---- *)
Interrupt(e) == IF tst = "sleeping" THEN tst' = "ready" /\ reason' = e
                ELSE IF tst = "ready" /\ reason = "none" /\ StaleReasons THEN reason' = e /\ UNCHANGED tst
                ELSE UNCHANGED <<tst, reason>>
(* ---- controlling thread ---- *)
\* cancel() == reset(-1): if (!_waiting) return -1; _reset_timeout = -1; thread_interrupt(_th, EAGAIN); thread_yield_to(_th):
\* the timer thread runs at once, up to its next blocking point.  Returns 0 = "the pending firing is cancelled".
Cancel == /\ cpc = "run" /\ ~destroyed /\ waiting
          /\ LET r2 == IF tst = "sleeping" THEN EAGAIN ELSE IF tst = "ready" /\ reason = "none" /\ StaleReasons THEN EAGAIN ELSE reason IN
             \* what the timer thread does when it is given the CPU with wake-up reason r2
             IF r2 = EAGAIN THEN /\ GoSleep(TRUE) /\ UNCHANGED <<fires, firedAfterDtor, firedAfterCancel>>
             ELSE IF r2 = ECANCELED THEN /\ tst' = "done" /\ waiting' = FALSE /\ reason' = "none"
                                         /\ UNCHANGED <<fires, firedAfterDtor, firedAfterCancel, sleepForever, cancelOk>>
             ELSE /\ fires' = fires + 1 /\ waiting' = FALSE /\ reason' = "none" /\ tst' = "firing"      \* the interrupt was dropped: the callback fires
                  /\ firedAfterCancel' = TRUE /\ firedAfterDtor' = firedAfterDtor /\ UNCHANGED <<sleepForever, cancelOk>>
          /\ UNCHANGED <<repeating, cpc, destroyed, nextForever>>
\* ~Timer(): _repeating = false; if (_waiting) interrupt(ECANCELED); join
Dtor == /\ cpc = "run" /\ ~destroyed /\ destroyed' = TRUE /\ repeating' = FALSE /\ cpc' = "joining"
        /\ IF waiting THEN Interrupt(ECANCELED) ELSE UNCHANGED <<tst, reason>>
        /\ UNCHANGED <<waiting, fires, firedAfterDtor, nextForever, firedAfterCancel, cancelOk, sleepForever>>
Joined == /\ cpc = "joining" /\ tst = "done" /\ cpc' = "end"
          /\ UNCHANGED <<tst, reason, waiting, repeating, fires, destroyed, firedAfterDtor, nextForever, firedAfterCancel, cancelOk, sleepForever>>
Finished == cpc = "end" /\ UNCHANGED vars
Next == Expire \/ TRun \/ TLoop \/ Cancel \/ Dtor \/ Joined \/ Finished
Spec == Init /\ [][Next]_vars
FairSpec == Spec /\ WF_vars(TRun) /\ WF_vars(TLoop) /\ WF_vars(Expire) /\ WF_vars(Joined) /\ WF_vars(Dtor)
(* ---- properties ---- *)
\* a destructor that found the timer waiting prevents every later callback
DtorCancelsPending == (destroyed /\ firedAfterDtor) => FALSE
\* cancel() == 0 means the pending firing does not happen
CancelMeansNoFire == ~firedAfterCancel
DtorTerminates == <>(cpc = "end")
====
