---- MODULE Trace_CvA ----
(* Tier-A trace validation for the photon condition variable (C03), with a mutex or a spinlock as the user lock.       *)
(* Abstract object: the user lock (owner) and the set W of threads waiting on the condition variable.                  *)
(*   wait(lock): at ONE instant (silent Enter) the caller leaves the lock and joins W  -- release-and-wait is atomic,  *)
(*     so a notifier that acquires the lock after the waiter's call began finds the waiter in W;                       *)
(*   notify_one(): takes effect at one instant: returns no thread only if W is empty there, else removes exactly the   *)
(*     thread it returns from W;                                                                                       *)
(*   notify_all(): wakes threads one at a time; returns how many; every thread that was in W when the call began has   *)
(*     left W (notified or timed out) when it returns;                                                                 *)
(*   wait() returns only after the caller re-acquired the lock; 0 iff notified; -1/ETIMEDOUT only for a finite timeout *)
(*     and not before it elapsed (dt >= us, both measured on the runtime clock around the call).                       *)
(* Acq / Rel are logged by the harness while it holds the user lock.  Settle lists threads the harness found asleep:   *)
(* each must still be in W (a thread the specification considers notified must not stay asleep).                       *)
EXTENDS Naturals, Integers, Sequences, FiniteSets, TLC, Json, IOUtils
Tr == ndJsonDeserialize(IOEnv.TRACE)
T == (1..12) \cup {91}
ETIMEDOUT == 110
NoOp == [op |-> "none", ph |-> "none", res |-> 0, to |-> 0, us |-> 0, snap |-> {}, cnt |-> 0]
VARIABLES l, owner, W, pend, inst, intr
vars == <<l, owner, W, pend, inst, intr>>
Init == l = 1 /\ owner = 0 /\ W = {} /\ pend = [t \in T |-> NoOp] /\ inst = [t \in T |-> 0] /\ intr = {} /\ TLCSet(1, 0)
Ev(e) == l <= Len(Tr) /\ Tr[l].e = e /\ l' = l + 1
R == Tr[l]
Reset == Ev("Reset") /\ owner' = 0 /\ W' = {} /\ pend' = [t \in T |-> NoOp] /\ inst' = [t \in T |-> 0] /\ intr' = {}
Acq == Ev("Acq") /\ owner = 0 /\ pend[R.t].op = "none" /\ owner' = R.t /\ UNCHANGED <<W, pend, inst, intr>>
Rel == Ev("Rel") /\ owner = R.t /\ pend[R.t].op = "none" /\ owner' = 0 /\ UNCHANGED <<W, pend, inst, intr>>
Inv == /\ Ev("Inv") /\ pend[R.t].op = "none"
       /\ IF R.op = "cvwait"
          THEN /\ owner = R.t
               /\ pend' = [pend EXCEPT ![R.t] = [NoOp EXCEPT !.op = "cvwait", !.ph = "inv", !.to = R.to, !.us = R.us]]
               /\ inst' = [inst EXCEPT ![R.t] = @ + 1]
          ELSE /\ pend' = [pend EXCEPT ![R.t] = [NoOp EXCEPT !.op = R.op, !.ph = "inv",
                                                 !.snap = {<<w, inst[w]>> : w \in W}]]
               /\ UNCHANGED inst
       /\ UNCHANGED <<owner, W, intr>>
(* waiter *)
Enter(t) == /\ pend[t].op = "cvwait" /\ pend[t].ph = "inv" /\ owner = t
            /\ owner' = 0 /\ W' = W \cup {t} /\ pend' = [pend EXCEPT ![t].ph = "waiting"] /\ UNCHANGED <<l, inst, intr>>
TimeOut(t) == /\ pend[t].op = "cvwait" /\ pend[t].ph = "waiting" /\ t \in W /\ pend[t].to # 2
              /\ W' = W \ {t} /\ pend' = [pend EXCEPT ![t].ph = "woken", ![t].res = -1] /\ UNCHANGED <<l, owner, inst, intr>>
\* an interrupted waiter leaves the waiting set with the interrupter's errno (res -2 marks it)
IntrOut(t) == /\ pend[t].op = "cvwait" /\ pend[t].ph = "waiting" /\ t \in W /\ t \in intr
              /\ W' = W \ {t} /\ pend' = [pend EXCEPT ![t].ph = "woken", ![t].res = -2] /\ UNCHANGED <<l, owner, inst, intr>>
Reacq(t) == /\ pend[t].op = "cvwait" /\ pend[t].ph = "woken" /\ owner = 0
            /\ owner' = t /\ pend' = [pend EXCEPT ![t].ph = "relocked"] /\ UNCHANGED <<l, W, inst, intr>>
(* notifiers *)
Wake(w) == [pend EXCEPT ![w].ph = "woken", ![w].res = 0]
LinNotifyOne(t) ==
  /\ pend[t].op = "notify_one" /\ pend[t].ph = "inv"
  /\ IF W = {} THEN pend' = [pend EXCEPT ![t].ph = "lin", ![t].res = 0] /\ UNCHANGED W
     ELSE \E w \in W : W' = W \ {w} /\ pend' = [Wake(w) EXCEPT ![t].ph = "lin", ![t].res = w]
  /\ UNCHANGED <<l, owner, inst, intr>>
WakeForAll(t) ==
  /\ pend[t].op = "notify_all" /\ pend[t].ph = "inv"
  /\ \E w \in W : W' = W \ {w} /\ pend' = [Wake(w) EXCEPT ![t].cnt = @ + 1]
  /\ UNCHANGED <<l, owner, inst, intr>>
Resp == /\ Ev("Resp")
        /\ LET t == R.t  p == pend[t] IN
           /\ p.op = R.op
           /\ CASE R.op = "cvwait" -> /\ p.ph = "relocked" /\ owner = t
                                      /\ (IF p.res = 0 THEN R.r = 0
                                          ELSE IF p.res = -1 THEN R.r = -1 /\ R.en = ETIMEDOUT /\ R.dt >= p.us
                                          ELSE R.r = -1 /\ R.en # ETIMEDOUT)
                [] R.op = "notify_one" -> p.ph = "lin" /\ p.res = R.r
                [] R.op = "notify_all" -> /\ p.cnt = R.r
                                          /\ \A s \in p.snap : ~(s[1] \in W /\ inst[s[1]] = s[2])
           /\ pend' = [pend EXCEPT ![t] = NoOp]
        /\ UNCHANGED <<owner, W, inst, intr>>
Interrupt == Ev("Interrupt") /\ intr' = intr \cup {R.t} /\ UNCHANGED <<owner, W, pend, inst>>
Settle == /\ Ev("Settle")
          /\ \A i \in 1..Len(R.blocked) : R.blocked[i] \in W
          /\ UNCHANGED <<owner, W, pend, inst, intr>>
Quiesce == /\ Ev("Quiesce") /\ \A t \in T : pend[t].op = "none"
           /\ W = {} /\ owner = 0 /\ R.locked = 0
           /\ UNCHANGED <<owner, W, pend, inst, intr>>
Next == \/ Reset \/ Acq \/ Rel \/ Inv \/ Resp \/ Interrupt \/ Settle \/ Quiesce
        \/ \E t \in T : Enter(t) \/ TimeOut(t) \/ IntrOut(t) \/ Reacq(t) \/ LinNotifyOne(t) \/ WakeForAll(t)
Spec == Init /\ [][Next]_vars
NotAccepted == l <= Len(Tr)
Progress == TLCSet(1, IF TLCGet(1) < l THEN l ELSE TLCGet(1))
Post == PrintT(<<"MAXL", TLCGet(1), Len(Tr)>>)
====
