----------------------------- MODULE FileAdaptors -----------------------------
(* C16.  TLC applies every request sequence of the scope to the transcribed adaptor (over  *)
(* its underlay / sub-files) and to the plain reference file, and checks after every        *)
(* request:                                                                                *)
(*   Transparent     - same return value, same data, same logical content and size;        *)
(*   UnderlayAligned - every underlay request of the aligned adaptor has offset and length  *)
(*                     multiples of A (memory too when alignMemory);                       *)
(*   Clipped         - a composite clips a request at its fixed total size and never        *)
(*                     changes the size of a sub-file;                                     *)
(*   RunsAgree       - the run-level reference used for trace validation agrees with the    *)
(*                     byte-level reference (results and content).                         *)
(* Requests start before end-of-file (the statement excludes the others).                  *)
(* The verdicts are computed in the step and only the set of violated properties is kept,   *)
(* with the offending request, so that states = reachable file states and transitions =     *)
(* (state, request) cases.                                                                 *)
EXTENDS FileAdaptorsOps

CONSTANTS Adaptors   \* set of adaptor configurations with their scope, see Scope* below
VARIABLES ad,        \* the configuration
          ref,       \* reference plain file (bytes)
          rref,      \* the same file in the run-level reference
          st,        \* adaptor side: underlay file (aligned) or sequence of sub-files (composite)
          n,         \* requests done
          bad        \* {} or {[what |-> .., rq |-> .., ...]}
vars == <<ad, ref, rref, st, n, bad>>

IsAligned(a) == a.k = "aligned"

\* all sequences of at most k element lengths with a total of at most m
RECURSIVE LenSeqs(_, _)
LenSeqs(k, m) == IF k = 0 THEN {<<>>}
                 ELSE {<<>>} \cup UNION {{<<l>> \o s : s \in LenSeqs(k - 1, m - l)} : l \in 0..m}

\* the requests of step number n on a file of current size sz
Requests(a, sz, step) ==
  LET kmax == IF step = 0 THEN a.vec1 ELSE a.vecN        \* max iovec elements (0: single-buffer only)
      single == {[k |-> kk, vec |-> FALSE, off |-> o, lens |-> <<c>>, mis |-> m, sym |-> step + 2] :
                   kk \in {"r", "w"}, o \in 0..(sz - 1), c \in 0..a.maxlen,
                   m \in IF IsAligned(a) /\ a.am THEN {0, 1} ELSE {0}}
      vect   == {[k |-> kk, vec |-> TRUE, off |-> o, lens |-> ls, mis |-> m, sym |-> step + 2] :
                   kk \in {"r", "w"}, o \in 0..(sz - 1), ls \in LenSeqs(kmax, a.maxlen) \ {<<>>},
                   m \in IF IsAligned(a) /\ a.am THEN 0..kmax ELSE {0}}
  IN single \cup {q \in vect : q.mis <= Len(q.lens)}

Init == /\ ad \in Adaptors
        /\ \E s \in ad.isizes :
              \* every file (underlay / sub-file) starts with bytes tagged with their own positions in that file
              /\ st = IF IsAligned(ad) THEN [i \in 1..s |-> B(1, i - 1)]
                      ELSE [i \in 1..XN(ad) |-> [j \in 1..XSubSize(ad, i - 1) |-> B(1, j - 1)]]
              /\ ref = IF IsAligned(ad) THEN st ELSE Logical(ad, st)
              /\ rref = IF IsAligned(ad) THEN <<<<<<1, 0>>, s>>>> ELSE InitRuns(ad)
        /\ n = 0 /\ bad = {}

Verdicts(rq, R, content, r, log, sizesok) ==
  \* R: reference result; r: adaptor result (ret, data); content: logical content of the adaptor afterwards
  LET rr == RRefApply(rref, ~IsAligned(ad), rq) IN
     (IF r.ret # R.ret \/ r.data # R.data \/ content # R.f
      THEN {[what |-> "Transparent", rq |-> rq, got |-> <<r.ret, r.data, content>>, want |-> <<R.ret, R.data, R.f>>]} ELSE {})
\cup (IF IsAligned(ad) /\ ~LogAligned(ad.A, ad.am, log)
      THEN {[what |-> "UnderlayAligned", rq |-> rq, log |-> log]} ELSE {})
\cup (IF ~IsAligned(ad) /\ (~sizesok \/ r.ret # Min(Count(rq), XSize(ad) - rq.off))
      THEN {[what |-> "Clipped", rq |-> rq, ret |-> r.ret]} ELSE {})
\cup (IF rr.ret # R.ret \/ rr.data # ToRuns(R.data, rq.off) \/ rr.f # ToRuns(R.f, 0)
      THEN {[what |-> "RunsAgree", rq |-> rq, runs |-> rr]} ELSE {})

Step ==
  /\ bad = {} /\ n < ad.maxops
  /\ \E rq \in Requests(ad, Len(ref), n) :
       LET R == RefApply(ref, ~IsAligned(ad), rq) IN
       /\ ref' = R.f
       /\ rref' = RRefApply(rref, ~IsAligned(ad), rq).f
       /\ IF IsAligned(ad)
          THEN LET r == AApply(st, ad.A, ad.am, rq) IN
               /\ st' = r.und
               /\ bad' = Verdicts(rq, R, r.und, r, r.log, TRUE)
          ELSE LET r == XApply(ad, st, rq)
                   ok == SubSizesOK(ad, r.files) IN
               /\ st' = r.files
               /\ bad' = Verdicts(rq, R, IF ok THEN Logical(ad, r.files) ELSE <<>>, r, <<>>, ok)
  /\ n' = n + 1
  /\ UNCHANGED ad
Spec == Init /\ [][Step]_vars

Has(w) == \E b \in bad : b.what = w
Transparent     == ~Has("Transparent")
UnderlayAligned == ~Has("UnderlayAligned")
Clipped         == ~Has("Clipped")
RunsAgree       == ~Has("RunsAgree")
\* layout sanity: the adaptor side always holds the reference content (also initially)
SameContent == bad = {} => /\ (IF IsAligned(ad) THEN st = ref ELSE SubSizesOK(ad, st) /\ Logical(ad, st) = ref)
                           /\ rref = ToRuns(ref, 0)
\* the expected observation of every sub-file computed at run level (Trace_FileAdaptors) is what the sub-file holds
SubRunsAgree == (bad = {} /\ ~IsAligned(ad)) => \A i \in 1..Len(st) : ExpSub(ad, rref, i - 1) = ToRuns(st[i], 0)

(* ------------------------------------------------------------------ scopes *)
\* isizes: initial file sizes; maxlen: request lengths 0..maxlen; vec1 / vecN: iovec elements in the first /
\* in later requests (0 = single-buffer only); maxops: requests per sequence
Aligned(A, am, sizes, maxlen, vec1, vecN, maxops) ==
  [k |-> "aligned", A |-> A, am |-> am, isizes |-> sizes, maxlen |-> maxlen, vec1 |-> vec1, vecN |-> vecN, maxops |-> maxops]
Composite(c, maxlen, vec1, vecN, maxops) ==
  c @@ [isizes |-> {XSize(c)}, maxlen |-> maxlen, vec1 |-> vec1, vecN |-> vecN, maxops |-> maxops]
Fixed(unit, nn) == [k |-> "fixed", unit |-> unit, n |-> nn]
Var(sizes) == [k |-> "var", sizes |-> sizes]
Stripe(stt, nn, rows) == [k |-> "stripe", st |-> stt, n |-> nn, rows |-> rows]
SizeSeqs(maxn, maxs) == UNION {[1..k -> 1..maxs] : k \in 1..maxn}

ScopeQuick ==
       {Aligned(2, am, 1..8, 8, 3, 1, 2) : am \in BOOLEAN}
  \cup {Aligned(4, am, 1..14, 14, 2, 0, 1) : am \in BOOLEAN}
  \cup {Aligned(4, am, {5, 8, 9}, 9, 0, 0, 2) : am \in BOOLEAN}
  \cup {Composite(Fixed(u, nn), u * nn + 2, 2, 0, 2) : u \in 1..4, nn \in 1..3}
  \cup {Composite(Var(s), SumSeq(s) + 2, 2, 0, 2) : s \in SizeSeqs(3, 3)}
  \cup {Composite(Stripe(2, nn, rows), 2 * nn * rows + 2, 2, 0, 2) : nn \in 1..3, rows \in 1..2}
ScopeThorough ==
       {Aligned(2, am, 1..8, 8, 3, 0, 3) : am \in BOOLEAN}
  \cup {Aligned(4, am, 1..14, 14, 3, 0, 2) : am \in BOOLEAN}
  \cup {Aligned(8, am, 1..26, 26, 1, 0, 1) : am \in BOOLEAN}
  \cup {Composite(Fixed(u, nn), u * nn + 2, 3, 1, 2) : u \in 1..5, nn \in 1..3}
  \cup {Composite(Var(s), SumSeq(s) + 2, 3, 1, 2) : s \in SizeSeqs(3, 4)}
  \cup {Composite(Stripe(stt, nn, rows), stt * nn * rows + 2, 3, 1, 2) : stt \in {1, 2, 4}, nn \in 1..3, rows \in 1..2}
  \* three requests, single-buffer, on the smaller composites
  \cup {Composite(Fixed(u, nn), u * nn + 2, 0, 0, 3) : u \in 1..3, nn \in 2..3}
  \cup {Composite(Var(s), SumSeq(s) + 2, 0, 0, 3) : s \in SizeSeqs(3, 2)}
  \cup {Composite(Stripe(2, nn, rows), 2 * nn * rows + 2, 0, 0, 3) : nn \in 2..3, rows \in 1..2}
=============================================================================
