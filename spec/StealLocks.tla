---- MODULE StealLocks ----
(* C05: the locks around work stealing (thread/thread.cpp idler / try_work_stealing / ws_scan_runq / ws_scan_standbyq    *)
(* and the asymmetric run-queue lock under sequential consistency).  Each vCPU's idler repeatedly: tests its own run       *)
(* queue under its run-queue lock (foreground side), then -- if allowed to steal -- takes the global vCPU-list lock and     *)
(* for each passive victim takes the victim's standby-queue lock, then tries the victim's run-queue lock from the           *)
(* background side (waits while the foreground side is locked, exchange, re-check).  HoldFgAcrossSteal = TRUE models the     *)
(* loop condition as it was written before the repair (the temporary AtomicRunQ lived across try_work_stealing()).          *)
(* Owners also take their own run-queue lock for ordinary scheduling steps (OwnerOp).                                       *)
EXTENDS Naturals, FiniteSets, TLC
CONSTANTS VCPU, Active, Passive, HoldFgAcrossSteal, Rounds
VARIABLES pc, fg, bg, listlock, sblock, victim, todo, rounds, incs
vars == <<pc, fg, bg, listlock, sblock, victim, todo, rounds, incs>>
None == 0
Init == /\ pc = [v \in VCPU |-> "idle"] /\ fg = [v \in VCPU |-> FALSE] /\ bg = [v \in VCPU |-> None]
        /\ listlock = None /\ sblock = [v \in VCPU |-> None] /\ victim = [v \in VCPU |-> None]
        /\ todo = [v \in VCPU |-> {}] /\ rounds = [v \in VCPU |-> Rounds] /\ incs = [v \in VCPU |-> {}]
Goto(v, s) == pc' = [pc EXCEPT ![v] = s]
\* foreground_lock(): store, then wait while the background side is locked
FgStore(v) == /\ pc[v] = "idle" /\ rounds[v] > 0 /\ fg' = [fg EXCEPT ![v] = TRUE] /\ Goto(v, "fg_wait")
              /\ UNCHANGED <<bg, listlock, sblock, victim, todo, rounds, incs>>
FgWait(v) == /\ pc[v] = "fg_wait" /\ bg[v] = None /\ Goto(v, "single_test") /\ incs' = [incs EXCEPT ![v] = @ \cup {v}]
             /\ UNCHANGED <<fg, bg, listlock, sblock, victim, todo, rounds>>
\* AtomicRunQ(rq).single(): under the foreground lock; afterwards (repaired) unlock, or (as written) keep it
SingleTest(v) == /\ pc[v] = "single_test"
                 /\ incs' = [incs EXCEPT ![v] = @ \ {v}]
                 /\ IF v \in Active
                    THEN /\ (IF HoldFgAcrossSteal THEN UNCHANGED fg ELSE fg' = [fg EXCEPT ![v] = FALSE])
                         /\ Goto(v, "list_lock")
                    ELSE fg' = [fg EXCEPT ![v] = FALSE] /\ Goto(v, "round_end")
                 /\ UNCHANGED <<bg, listlock, sblock, victim, todo, rounds>>
ListLock(v) == /\ pc[v] = "list_lock" /\ listlock = None /\ listlock' = v
               /\ todo' = [todo EXCEPT ![v] = (Passive \ {v})] /\ Goto(v, "next_victim")
               /\ UNCHANGED <<fg, bg, sblock, victim, rounds, incs>>
NextVictim(v) == /\ pc[v] = "next_victim"
                 /\ IF todo[v] = {} THEN /\ listlock' = None /\ Goto(v, "steal_end") /\ UNCHANGED <<victim, todo>>
                    ELSE \E u \in todo[v] : /\ victim' = [victim EXCEPT ![v] = u] /\ todo' = [todo EXCEPT ![v] = @ \ {u}]
                                            /\ Goto(v, "sb_lock") /\ UNCHANGED listlock
                 /\ UNCHANGED <<fg, bg, sblock, rounds, incs>>
\* ws_scan_standbyq: the victim's standby-queue spinlock
SbLock(v) == /\ pc[v] = "sb_lock" /\ sblock[victim[v]] = None /\ sblock' = [sblock EXCEPT ![victim[v]] = v] /\ Goto(v, "sb_unlock")
             /\ UNCHANGED <<fg, bg, listlock, victim, todo, rounds, incs>>
SbUnlock(v) == /\ pc[v] = "sb_unlock" /\ sblock' = [sblock EXCEPT ![victim[v]] = None] /\ Goto(v, "bg_wait")
               /\ UNCHANGED <<fg, bg, listlock, victim, todo, rounds, incs>>
\* background_try_lock(): wait while foreground locked; exchange; re-check; back off
BgWait(v) == /\ pc[v] = "bg_wait" /\ ~fg[victim[v]] /\ Goto(v, "bg_xchg")
             /\ UNCHANGED <<fg, bg, listlock, sblock, victim, todo, rounds, incs>>
BgXchg(v) == /\ pc[v] = "bg_xchg"
             /\ IF bg[victim[v]] # None THEN Goto(v, "next_victim") /\ UNCHANGED bg       \* try failed
                ELSE bg' = [bg EXCEPT ![victim[v]] = v] /\ Goto(v, "bg_check")
             /\ UNCHANGED <<fg, listlock, sblock, victim, todo, rounds, incs>>
BgCheck(v) == /\ pc[v] = "bg_check"
              /\ IF fg[victim[v]] THEN bg' = [bg EXCEPT ![victim[v]] = None] /\ Goto(v, "bg_wait") /\ UNCHANGED incs
                 ELSE Goto(v, "scan") /\ incs' = [incs EXCEPT ![victim[v]] = @ \cup {v}] /\ UNCHANGED bg
              /\ UNCHANGED <<fg, listlock, sblock, victim, todo, rounds>>
Scan(v) == /\ pc[v] = "scan" /\ incs' = [incs EXCEPT ![victim[v]] = @ \ {v}]
           /\ bg' = [bg EXCEPT ![victim[v]] = None] /\ Goto(v, "next_victim")
           /\ UNCHANGED <<fg, listlock, sblock, victim, todo, rounds>>
StealEnd(v) == /\ pc[v] = "steal_end" /\ fg' = [fg EXCEPT ![v] = FALSE] /\ Goto(v, "round_end")
               /\ UNCHANGED <<bg, listlock, sblock, victim, todo, rounds, incs>>
RoundEnd(v) == /\ pc[v] = "round_end" /\ rounds' = [rounds EXCEPT ![v] = @ - 1] /\ Goto(v, "idle")
               /\ UNCHANGED <<fg, bg, listlock, sblock, victim, todo, incs>>
Finished == (\A v \in VCPU : pc[v] = "idle" /\ rounds[v] = 0) /\ UNCHANGED vars
Step(v) == FgStore(v) \/ FgWait(v) \/ SingleTest(v) \/ ListLock(v) \/ NextVictim(v) \/ SbLock(v) \/ SbUnlock(v)
           \/ BgWait(v) \/ BgXchg(v) \/ BgCheck(v) \/ Scan(v) \/ StealEnd(v) \/ RoundEnd(v)
Next == (\E v \in VCPU : Step(v)) \/ Finished
Spec == Init /\ [][Next]_vars
FairSpec == Spec /\ \A v \in VCPU : WF_vars(Step(v))
\* the run queue of u is never manipulated by its owner and a stealer at once (sequential consistency assumed)
RunqExclusive == \A u \in VCPU : Cardinality(incs[u]) <= 1
Terminates == <>(\A v \in VCPU : pc[v] = "idle" /\ rounds[v] = 0)
====
