SPECIFICATION Spec
INVARIANTS NotAccepted
CONSTRAINT Progress
POSTCONDITION Post
ALIAS Brief
CHECK_DEADLOCK FALSE
