\* documents finding: with the deviation KF_FixedLen (the code as shipped) TLC reports HostileContained violated
SPECIFICATION MCSpec
CONSTANTS
  Msgs <- MsgsKF
  MaxParts = 2
  MaxPartsH = 2
  MaxDev = 1
  Modes = {"hostile"}
  KF_NestedAligned = FALSE
  KF_MapSlices = FALSE
  KF_FixedLen = TRUE
  KF_ArrayWalk = FALSE
  KF_Checksum = FALSE
INVARIANTS HostileContained
CHECK_DEADLOCK FALSE
