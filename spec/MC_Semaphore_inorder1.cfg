SPECIFICATION Spec
CONSTANTS
  W = {w1, w2, w3}
  S = {s1, s2}
  w1 = w1
  w2 = w2
  w3 = w3
  s1 = s1
  s2 = s2
  Demand <- Dem
  Amount <- Amt
  Init0 = 1
  OOO = FALSE
  Timed = {w1, w2}
  FixOOO = FALSE
INVARIANTS Conservation NoLostWakeup NoSelfDeadlock QueueSane
