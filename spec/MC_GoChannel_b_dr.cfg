\* buffered, only the single pop before reporting closed as written: must violate DrainAfterClose
SPECIFICATION Spec
CONSTANTS
  Cap = 1
  S = {"s1", "s2"}
  R = {"r1", "r2"}
  NV = 1
  NR = 1
  SKinds = {"inf"}
  RKinds = {"inf"}
  WithClose = TRUE
  KF = {"DR"}
INVARIANTS TypeOK DeliveredExactlyOnce PerSenderOrder FalseOnlyOnCloseOrTimeout DrainAfterClose ReleasedWhenPartnerExists ReleasedOnClose
CHECK_DEADLOCK FALSE
