SPECIFICATION Spec
CONSTANTS
  MaxTransfer = 4096
  ReservedIndex = 1024
  LineBuf = 4096
  KF <- KFEnv
INVARIANT NotAccepted
CHECK_DEADLOCK FALSE
