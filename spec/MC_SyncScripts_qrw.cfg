SPECIFICATION Spec
CONSTANTS
  NT = 3
  MaxLen = 5
  Kind = "qrw"
INVARIANT Emit
CHECK_DEADLOCK FALSE
