SPECIFICATION Spec
CONSTANTS
  NT = 3
  MaxLen = 4
  Kind = "qrw"
INVARIANT Emit
CHECK_DEADLOCK FALSE
