---- MODULE Trace_RpcA ----
(* Tier-A trace validation for C11 (h_rpc: a real rpc::Stub over a scripted stream).  The abstract exchange the user relies *)
(* on: every call is answered with ITS response or with an error, and a call that has returned is left alone.              *)
(*   StreamWrite  : one request per call, written by the caller itself from its own request buffer, with a tag no other   *)
(*                  call of the execution carries.                                                                       *)
(*   StreamRead   : only a call that has not returned reads the stream; header bytes go to the stub's own header (owner 0); *)
(*                  body bytes go to the buffers of the call the response belongs to (owner = rc) - never to another       *)
(*                  call's buffers - and only while that call has not returned.                                            *)
(*   CallResp     : ret >= 0  =>  the caller holds exactly the payload produced for its own request (pay = c, ret = the    *)
(*                  size the peer produced, every byte copied while the call was pending);                                  *)
(*                  ret <  0  =>  there is a cause in the execution: the call had a deadline, or the stream reported a      *)
(*                  fault / end of file / shutdown, or a header for an unknown, duplicate or already returned call was on   *)
(*                  the wire.  (A failure without any cause means somebody else's failure consumed this call's response.)   *)
(*   after CallResp(c): no StreamRead into c's buffers, no damage to c's poisoned buffers (BufTouched), no change of the     *)
(*                  stack area that held c's context (CtxTouched), no interrupt sent to c's thread (LateInterrupt).        *)
(*   Quiesce      : every call has returned and get_queue_count() = 0.      Hang / Fatal: no action accepts them.          *)
(* KF_F4 (environment KF_F4=1) additionally accepts the recorded finding F4, and only it: call c had a deadline, returned   *)
(* an error while ANOTHER caller had already read the complete header of c's response and had not yet copied the complete   *)
(* body; afterwards that reader's copy into c's buffers, damage to c's poison / context area and an interrupt to c's thread  *)
(* are tolerated for this c.   KF_C11B=1: the same for a call whose request the peer saw before the write returned (early)   *)
(* and which then failed with "context not found in map" - no deadline needed.                                            *)
EXTENDS Naturals, Integers, Sequences, FiniteSets, TLC, Json, IOUtils
Tr == ndJsonDeserialize(IOEnv.TRACE)
KF_F4 == "KF_F4" \in DOMAIN IOEnv /\ IOEnv.KF_F4 = "1"
KF_C11B == "KF_C11B" \in DOMAIN IOEnv /\ IOEnv.KF_C11B = "1"
Calls == 1..6
HDR == 40
NoCall == [st |-> "none", to |-> -1, bsz |-> 0, early |-> 0, tag |-> 0, ret |-> 0, claimedBy |-> 0, gotb |-> 0, kf |-> FALSE]
VARIABLES l, cs, faults
vars == <<l, cs, faults>>
Init == l = 1 /\ cs = [c \in Calls |-> NoCall] /\ faults = FALSE /\ TLCSet(1, 0)
Ev(e) == l <= Len(Tr) /\ Tr[l].e = e /\ l' = l + 1
R == Tr[l]
Reset == Ev("Reset") /\ cs' = [c \in Calls |-> NoCall] /\ faults' = FALSE
CallInv == /\ Ev("CallInv") /\ R.c \in Calls /\ cs[R.c].st = "none"
           /\ cs' = [cs EXCEPT ![R.c] = [NoCall EXCEPT !.st = "pending", !.to = R.to, !.bsz = R.bsz, !.early = R.early]]
           /\ UNCHANGED faults
StreamWrite == /\ Ev("StreamWrite") /\ R.c \in Calls
               /\ cs[R.c].st = "pending" /\ cs[R.c].tag = 0 /\ R.by = R.c /\ R.src = R.c /\ R.tag # 0
               /\ \A d \in Calls : cs[d].tag # R.tag
               /\ cs' = [cs EXCEPT ![R.c].tag = R.tag] /\ UNCHANGED faults
\* rc = the call this response was produced for (0: a tag no call carries)
HdrRead == /\ Ev("StreamRead") /\ R.kind = "hdr"
           /\ R.by \in Calls /\ cs[R.by].st = "pending"
           /\ R.owner = 0
           /\ IF R.off + R.n < HDR THEN UNCHANGED <<cs, faults>>
              ELSE IF R.rc \in Calls /\ cs[R.rc].st = "pending" /\ cs[R.rc].claimedBy = 0 /\ cs[R.rc].tag = R.tag
                   THEN cs' = [cs EXCEPT ![R.rc].claimedBy = R.by] /\ UNCHANGED faults
                   ELSE faults' = TRUE /\ UNCHANGED cs          \* unknown tag, duplicate, or response for a call that has returned
BodyRead == /\ Ev("StreamRead") /\ R.kind = "body"
            /\ R.by \in Calls /\ cs[R.by].st = "pending"
            /\ IF R.owner = 0 THEN faults' = TRUE /\ UNCHANGED cs       \* unread body bytes parsed as a header by the stub
               ELSE /\ R.owner = R.rc /\ R.owner \in Calls
                    /\ \/ cs[R.owner].st = "pending" /\ cs[R.owner].claimedBy = R.by
                       \/ cs[R.owner].st = "done" /\ cs[R.owner].kf
                    /\ cs' = [cs EXCEPT ![R.owner].gotb = @ + R.n] /\ UNCHANGED faults
StreamFault == Ev("StreamFault") /\ faults' = TRUE /\ UNCHANGED cs
CallResp == /\ Ev("CallResp") /\ R.c \in Calls
            /\ LET c == R.c  p == cs[c]
                   inflight == p.claimedBy \notin {0, c} /\ p.gotb < p.bsz
                   kf == R.ret < 0 /\ inflight /\ ((KF_F4 /\ p.to >= 0 /\ p.early = 0) \/ (KF_C11B /\ p.early = 1)) IN
              /\ p.st = "pending"
              /\ IF R.ret >= 0 THEN R.pay = c /\ R.ret = p.bsz /\ p.gotb = R.ret /\ R.got = R.ret /\ p.tag # 0
                 ELSE p.to >= 0 \/ faults \/ (KF_C11B /\ p.early = 1 /\ p.claimedBy # 0)
              /\ cs' = [cs EXCEPT ![c].st = "done", ![c].ret = R.ret, ![c].kf = kf]
            /\ UNCHANGED faults
After(e) == /\ Ev(e) /\ R.c \in Calls /\ cs[R.c].st = "done" /\ cs[R.c].kf /\ UNCHANGED <<cs, faults>>
Quiesce == /\ Ev("Quiesce") /\ \A c \in Calls : cs[c].st # "pending"
           /\ R.qc = 0 /\ UNCHANGED <<cs, faults>>
Next == \/ Reset \/ CallInv \/ StreamWrite \/ HdrRead \/ BodyRead \/ StreamFault \/ CallResp \/ Quiesce
        \/ After("LateInterrupt") \/ After("CtxTouched") \/ After("BufTouched")
Spec == Init /\ [][Next]_vars
NotAccepted == l <= Len(Tr)
Progress == TLCSet(1, IF TLCGet(1) < l THEN l ELSE TLCGet(1))
Post == PrintT(<<"MAXL", TLCGet(1), Len(Tr)>>)
====
