---- MODULE Trace_SemB ----
(* Tier-B trace validation for the photon semaphore (C02): hook events emitted inside the library under the semaphore's   *)
(* internal spinlock (recorded by h_sync --prim sem|semooo --hooks together with the API events) against the protocol at  *)
(* critical-section granularity:                                                                                            *)
(*   hSemAdd{n,cnt,lk}   signal(): count += n under the spinlock (lk = 1), cnt = the new count;                            *)
(*   hSemSub{n,ok,cnt}   wait: ok = 1: n tokens taken (count >= n before, cnt after); ok = 0: count < n, the caller sleeps;  *)
(*   hSleep{t,q}         the waiter is linked at the tail of the semaphore's queue with its demand (from its Inv);           *)
(*   hIntr{t,-1}         try_resume wakes t: in-order mode only the head of the queue, any mode only if its demand is        *)
(*                       covered by the count;                                                                               *)
(*   hIntr{t,e>0} / hExpire{t}  the waiter leaves the queue by interruption / timeout.                                       *)
(* No lost wake-up, as a state predicate on the real execution: whenever a resume pass has ended -- signal() returned, or a  *)
(* wait returned with a failure -- the waiter at the head of the queue (any waiter, out-of-order mode) must not be covered   *)
(* by the unpromised tokens.                                                                                                 *)
EXTENDS Naturals, Integers, Sequences, FiniteSets, TLC, Json, IOUtils
Tr == ndJsonDeserialize(IOEnv.TRACE)
T == (1..12) \cup {90, 91, 99, 100}
S == 200
VARIABLES l, count, q, dem, want, woken, ooo
\* dem[t]: demand of t while queued or woken-not-yet-subtracted; want[t]: n of t's pending wait call; woken: set of threads woken by
\* a resume and not yet back at try_subtract
vars == <<l, count, q, dem, want, woken, ooo>>
Init == l = 1 /\ count = 0 /\ q = <<>> /\ dem = [t \in T |-> 0] /\ want = [t \in T |-> 0] /\ woken = {} /\ ooo = FALSE /\ TLCSet(1, 0)
Ev(e) == l <= Len(Tr) /\ Tr[l].e = e /\ l' = l + 1
R == Tr[l]
Known(t) == t \in T
Remove(seq, x) == SelectSeq(seq, LAMBDA y : y # x)
InQ(x) == \E i \in 1..Len(q) : q[i] = x
RECURSIVE SumDem(_)
SumDem(s) == IF s = {} THEN 0 ELSE LET x == CHOOSE y \in s : TRUE IN dem[x] + SumDem(s \ {x})
Unpromised == count - SumDem(woken)
\* A queued waiter whose deadline is up is being taken out by its own vCPU's expiry pass (which holds the thread lock, so
\* signal()'s scan has to pass over it): it returns ETIMEDOUT and takes nothing, which the property allows -- it does not stay
\* blocked.  Recognised by looking ahead in the trace: the next claim of that thread is an expiry, not a resume / interrupt.
NextClaims(t) == {k \in (l + 1)..Len(Tr) : Tr[k].e \in {"hExpire", "hIntr"} /\ Tr[k].t = t}
AboutToExpire(t) == NextClaims(t) # {} /\ Tr[CHOOSE k \in NextClaims(t) : \A j \in NextClaims(t) : k <= j].e = "hExpire"
NoCoveredWaiter == IF ooo THEN \A i \in 1..Len(q) : dem[q[i]] > Unpromised \/ AboutToExpire(q[i])
                          ELSE (IF q = <<>> THEN TRUE ELSE dem[Head(q)] > Unpromised \/ AboutToExpire(Head(q)))
Reset == Ev("Reset") /\ count' = R.init /\ q' = <<>> /\ dem' = [t \in T |-> 0] /\ want' = [t \in T |-> 0] /\ woken' = {} /\ ooo' = R.ooo
Inv == /\ Ev("Inv")
       /\ want' = IF R.op \in {"wait", "waiti"} THEN [want EXCEPT ![R.t] = R.n] ELSE want
       /\ UNCHANGED <<count, q, dem, woken, ooo>>
SemAdd == /\ Ev("hSemAdd") /\ R.s = S /\ R.lk = 1 /\ R.cnt = count + R.n /\ count' = R.cnt
          /\ UNCHANGED <<q, dem, want, woken, ooo>>
\* the event does not name the thread: it is the (unique) thread whose pending demand matches; identify by demand
SemSub == /\ Ev("hSemSub") /\ R.s = S
          /\ IF R.ok = 1 THEN count >= R.n /\ R.cnt = count - R.n /\ count' = R.cnt
                         ELSE R.cnt = count /\ count < R.n /\ UNCHANGED count
          /\ UNCHANGED <<q, dem, want, ooo>>
          /\ woken' = woken          \* a re-subtracting waiter is removed from `woken` at its hSleep / Resp (below)
Sleep == /\ Ev("hSleep")
         /\ IF Known(R.t) /\ R.q = S
            THEN /\ q' = Append(q, R.t) /\ dem' = [dem EXCEPT ![R.t] = want[R.t]] /\ woken' = woken \ {R.t}
            ELSE UNCHANGED <<q, dem, woken>>
         /\ UNCHANGED <<count, want, ooo>>
Intr == /\ Ev("hIntr")
        /\ IF Known(R.t) /\ InQ(R.t)
           THEN /\ q' = Remove(q, R.t)
                /\ IF R.r = -1
                   THEN /\ (IF ooo THEN TRUE ELSE Head(q) = R.t)                       \* in-order: only the head is resumed
                        /\ dem[R.t] <= count                           \* and only if its demand is covered by the count
                        \* (the pass budget is the count, not reduced by waiters woken earlier: over-waking is benign)
                        /\ woken' = woken \cup {R.t} /\ UNCHANGED dem
                   ELSE /\ dem' = [dem EXCEPT ![R.t] = 0] /\ UNCHANGED woken
           ELSE UNCHANGED <<q, dem, woken>>
        /\ UNCHANGED <<count, want, ooo>>
Expire == /\ Ev("hExpire")
          /\ IF Known(R.t) /\ InQ(R.t) THEN q' = Remove(q, R.t) /\ dem' = [dem EXCEPT ![R.t] = 0] ELSE UNCHANGED <<q, dem>>
          /\ UNCHANGED <<count, want, woken, ooo>>
Resp == /\ Ev("Resp")
        /\ IF R.op \in {"wait", "waiti"}
           THEN /\ ~InQ(R.t)
                /\ woken' = woken \ {R.t} /\ dem' = [dem EXCEPT ![R.t] = 0] /\ want' = [want EXCEPT ![R.t] = 0]
                \* a failed wait has re-run the resume pass for its successors (in-order mode): nobody covered may be left
                /\ (R.r # 0 => LET w2 == woken \ {R.t} IN
                                 IF ooo \/ q = <<>> THEN TRUE ELSE dem[Head(q)] > count - SumDem(w2))
           ELSE /\ (R.op = "signal" => NoCoveredWaiter)               \* the resume pass of signal() has ended
                /\ UNCHANGED <<woken, dem, want>>
        /\ UNCHANGED <<count, q, ooo>>
Quiesce == Ev("Quiesce") /\ q = <<>> /\ count = R.count /\ UNCHANGED <<count, q, dem, want, woken, ooo>>
Other == /\ l <= Len(Tr) /\ Tr[l].e \in {"Interrupt", "Settle", "hWake", "hIntrReady", "hSemResume", "hDrain", "hPreSwitch", "hMtxTry", "hMtxUnlock", "hSteal", "hHeap"}
         /\ l' = l + 1 /\ UNCHANGED <<count, q, dem, want, woken, ooo>>
Next == Reset \/ Inv \/ SemAdd \/ SemSub \/ Sleep \/ Intr \/ Expire \/ Resp \/ Quiesce \/ Other
Spec == Init /\ [][Next]_vars
NotAccepted == l <= Len(Tr)
Progress == TLCSet(1, IF TLCGet(1) < l THEN l ELSE TLCGet(1))
Post == PrintT(<<"MAXL", TLCGet(1), Len(Tr)>>)
====
