---- MODULE SpinLocks ----
(* C01, last sentence: spinlock, ticket_spinlock and qspinlock give mutual exclusion between OS threads.    *)
(* One process per OS thread, one step per atomic operation, sequential consistency (weak-memory effects   *)
(* are outside this specification, see DESIGN.md section 4).  Transcribed from thread/thread.h:230-284 and  *)
(* thread/thread.cpp (ticket_spinlock, qspinlock).                                                           *)
EXTENDS Naturals, Sequences, FiniteSets, TLC
CONSTANTS P, Kind, Rounds, UseTry
VARIABLES pc, rounds, word, nextt, serv, my, tail, nxt, got, loc
vars == <<pc, rounds, word, nextt, serv, my, tail, nxt, got, loc>>
None == 0
Init == /\ pc = [p \in P |-> "idle"] /\ rounds = [p \in P |-> Rounds]
        /\ word = FALSE /\ nextt = 0 /\ serv = 0 /\ my = [p \in P |-> 0]
        /\ tail = None /\ nxt = [p \in P |-> None] /\ got = [p \in P |-> FALSE] /\ loc = [p \in P |-> None]
Goto(p, s) == pc' = [pc EXCEPT ![p] = s]

Start(p) == /\ pc[p] = "idle" /\ rounds[p] > 0
            /\ \/ Goto(p, Kind \o "_lock")
               \/ UseTry /\ Kind # "ticket" /\ Goto(p, Kind \o "_try")
            /\ UNCHANGED <<rounds, word, nextt, serv, my, tail, nxt, got, loc>>

(* ---- spinlock: while (xchg()) { do spin while (load()) } ---- *)
SpinXchg(p) == /\ pc[p] = "spin_lock"
               /\ word' = TRUE
               /\ Goto(p, IF word THEN "spin_load" ELSE "cs")
               /\ UNCHANGED <<rounds, nextt, serv, my, tail, nxt, got, loc>>
SpinLoad(p) == /\ pc[p] = "spin_load" /\ ~word /\ Goto(p, "spin_lock")
               /\ UNCHANGED <<rounds, word, nextt, serv, my, tail, nxt, got, loc>>
SpinTry(p) == /\ pc[p] = "spin_try"           \* !load() && !xchg()
              /\ IF word THEN Goto(p, "failed") ELSE Goto(p, "spin_try2")
              /\ UNCHANGED <<rounds, word, nextt, serv, my, tail, nxt, got, loc>>
SpinTry2(p) == /\ pc[p] = "spin_try2"
               /\ word' = TRUE /\ Goto(p, IF word THEN "failed" ELSE "cs")
               /\ UNCHANGED <<rounds, nextt, serv, my, tail, nxt, got, loc>>
SpinUnlock(p) == /\ pc[p] = "spin_unlock" /\ word' = FALSE /\ Goto(p, "released")
                 /\ UNCHANGED <<rounds, nextt, serv, my, tail, nxt, got, loc>>

(* ---- ticket_spinlock ---- *)
TicketTake(p) == /\ pc[p] = "ticket_lock" /\ my' = [my EXCEPT ![p] = nextt] /\ nextt' = nextt + 1
                 /\ Goto(p, "ticket_wait") /\ UNCHANGED <<rounds, word, serv, tail, nxt, got, loc>>
TicketWait(p) == /\ pc[p] = "ticket_wait" /\ serv = my[p] /\ Goto(p, "cs")
                 /\ UNCHANGED <<rounds, word, nextt, serv, my, tail, nxt, got, loc>>
TicketUnlock1(p) == /\ pc[p] = "ticket_unlock" /\ loc' = [loc EXCEPT ![p] = serv + 1] /\ Goto(p, "ticket_unlock2")
                    /\ UNCHANGED <<rounds, word, nextt, serv, my, tail, nxt, got>>
TicketUnlock2(p) == /\ pc[p] = "ticket_unlock2" /\ serv' = loc[p] /\ Goto(p, "released")
                    /\ UNCHANGED <<rounds, word, nextt, my, tail, nxt, got, loc>>

(* ---- qspinlock ---- *)
QExchange(p) == /\ pc[p] = "qspin_lock"
                /\ loc' = [loc EXCEPT ![p] = tail] /\ tail' = p
                /\ Goto(p, IF tail = None THEN "cs" ELSE "q_clear")
                /\ UNCHANGED <<rounds, word, nextt, serv, my, nxt, got>>
QClear(p) == /\ pc[p] = "q_clear" /\ got' = [got EXCEPT ![p] = FALSE] /\ Goto(p, "q_link")
             /\ UNCHANGED <<rounds, word, nextt, serv, my, tail, nxt, loc>>
QLink(p) == /\ pc[p] = "q_link" /\ nxt' = [nxt EXCEPT ![loc[p]] = p] /\ Goto(p, "q_wait")
            /\ UNCHANGED <<rounds, word, nextt, serv, my, tail, got, loc>>
QWait(p) == /\ pc[p] = "q_wait" /\ got[p] /\ Goto(p, "cs")
            /\ UNCHANGED <<rounds, word, nextt, serv, my, tail, nxt, got, loc>>
QTry(p) == /\ pc[p] = "qspin_try"
           /\ IF tail = None THEN tail' = p /\ Goto(p, "cs") ELSE UNCHANGED tail /\ Goto(p, "failed")
           /\ UNCHANGED <<rounds, word, nextt, serv, my, nxt, got, loc>>
QUnlockLoad(p) == /\ pc[p] = "qspin_unlock" /\ loc' = [loc EXCEPT ![p] = nxt[p]]
                  /\ Goto(p, IF nxt[p] # None THEN "q_unlink" ELSE "q_cas")
                  /\ UNCHANGED <<rounds, word, nextt, serv, my, tail, nxt, got>>
QUnlink(p) == /\ pc[p] = "q_unlink" /\ nxt' = [nxt EXCEPT ![p] = None] /\ Goto(p, "q_grant")
              /\ UNCHANGED <<rounds, word, nextt, serv, my, tail, got, loc>>
QGrant(p) == /\ pc[p] = "q_grant" /\ got' = [got EXCEPT ![loc[p]] = TRUE] /\ Goto(p, "released")
             /\ UNCHANGED <<rounds, word, nextt, serv, my, tail, nxt, loc>>
QCas(p) == /\ pc[p] = "q_cas"
           /\ IF tail = p THEN tail' = None /\ Goto(p, "released") ELSE UNCHANGED tail /\ Goto(p, "qspin_unlock")
           /\ UNCHANGED <<rounds, word, nextt, serv, my, nxt, got, loc>>

(* ---- client ---- *)
LeaveCs(p) == /\ pc[p] = "cs" /\ Goto(p, Kind \o "_unlock")
              /\ UNCHANGED <<rounds, word, nextt, serv, my, tail, nxt, got, loc>>
Round(p) == /\ pc[p] \in {"released", "failed"} /\ rounds' = [rounds EXCEPT ![p] = @ - 1] /\ Goto(p, "idle")
            /\ UNCHANGED <<word, nextt, serv, my, tail, nxt, got, loc>>
Finished == /\ \A p \in P : pc[p] = "idle" /\ rounds[p] = 0
            /\ UNCHANGED vars
Step(p) == \/ Start(p) \/ SpinXchg(p) \/ SpinLoad(p) \/ SpinTry(p) \/ SpinTry2(p) \/ SpinUnlock(p)
           \/ TicketTake(p) \/ TicketWait(p) \/ TicketUnlock1(p) \/ TicketUnlock2(p)
           \/ QExchange(p) \/ QClear(p) \/ QLink(p) \/ QWait(p) \/ QTry(p) \/ QUnlockLoad(p) \/ QUnlink(p) \/ QGrant(p) \/ QCas(p)
           \/ LeaveCs(p) \/ Round(p)
Next == (\E p \in P : Step(p)) \/ Finished
Spec == Init /\ [][Next]_vars
FairSpec == Spec /\ \A p \in P : WF_vars(Step(p))

MutualExclusion == Cardinality({p \in P : pc[p] = "cs"}) <= 1
\* a try_lock may only fail while somebody else holds or is acquiring the lock (sanity of the transcription)
Terminates == <>(\A p \in P : pc[p] = "idle" /\ rounds[p] = 0)
====
