------------------------------ MODULE IOVector ------------------------------
(* C14: TLC applies every operation of iovector_view / iovector (transcription Impl of            *)
(* IOVectorOps) to every vector in a small scope and checks the outcome with Judge (the reference *)
(* on the flat byte sequence).  One TLC transition = one operation call; sequences up to Depth.   *)
EXTENDS IOVectorOps
CONSTANTS MaxEl, MaxLen,        \* vectors: 0..MaxEl elements of 0..MaxLen bytes (zero-length elements anywhere)
          OtherEl, OtherLen,    \* shapes of the other vector of memcpy/pipe (first operation of a sequence)
          Depth,                \* operations per sequence
          KF                    \* findings tolerated with their exact signature (see Known); {} in the committed configurations
VARIABLES S, depth, last
vars == <<S, depth, last>>

Shapes(k, L) == UNION {[1..m -> 0..L] : m \in 0..k}
MkVec(lens, id0) == [i \in 1..Len(lens) |-> El(id0 + i - 1, 0, lens[i])]
MemFor(lens, id0) == [id \in id0..(id0 + Len(lens) - 1) |-> Fresh(id, lens[id - id0 + 1])]
Nulls(N) == [k \in 1..N |-> El(0, 0, 0)]

OwnCfgs == {[ff |-> 1, bf |-> 2, amax |-> 1000], [ff |-> 0, bf |-> 1, amax |-> 2]}
              \cup (IF MaxLen >= 3 THEN {[ff |-> 1, bf |-> 3, amax |-> 2]} ELSE {})     \* the thorough configuration adds a third
InitStates ==
  {[v |-> MkVec(l, 1), mem |-> MemFor(l, 1), own |-> FALSE, ff |-> 0, bf |-> 0, nb |-> 0, nx |-> Len(l) + 1, cap |-> 0, amax |-> 0]
      : l \in Shapes(MaxEl, MaxLen)}
  \cup
  {[v |-> MkVec(l, 1), mem |-> MemFor(l, 1), own |-> TRUE, ff |-> c.ff, bf |-> c.bf, nb |-> 0, nx |-> Len(l) + 1,
    cap |-> c.ff + Len(l) + c.bf, amax |-> c.amax] : l \in Shapes(MaxEl, MaxLen), c \in OwnCfgs}

O(op, n, off, N, lens, wk) == [op |-> op, n |-> n, off |-> off, N |-> N, lens |-> lens, wk |-> wk]
\* the calls tried in state s (d = number of operations already done)
Choices(s, d) ==
  LET T == Sum(s.v)
      cnt == 0..(T + 2)
      few == {<<>>, <<2>>, <<1, 0, 2>>}
      others == IF d = 0 THEN Shapes(OtherEl, OtherLen) ELSE few
      slots == IF d = 0 THEN 0..(Len(s.v) + 1) ELSE {0, 1, 2}
  IN {O(op, n, 0, 0, <<>>, "v") : op \in {"sum"}, n \in {0}}
     \cup {O(op, n, 0, 0, <<>>, "v") : op \in {"shrink", "xf", "xb", "xfb", "xbb", "xfc", "xbc", "mtob", "mfromb", "ptob"}, n \in cnt}
     \cup (IF s.own THEN {} ELSE {O("shrinklt", n, 0, 0, <<>>, "v") : n \in cnt})
     \cup {O(op, n, 0, N, <<>>, "v") : op \in {"xfv", "xbv"}, n \in cnt, N \in slots}
     \cup (IF s.own THEN {O(op, n, 0, 0, <<>>, "o") : op \in {"xfv", "xbv"}, n \in cnt} ELSE {})
     \cup {O("slice", n, off, N, <<>>, "v") : n \in cnt, off \in 0..(T + 1), N \in slots}
     \cup {O(op, n, 0, 0, l, "v") : op \in {"mtov", "mfromv", "ptov", "pfromv"}, l \in others, n \in (0..(T + 1)) \cup {INFSZ}}
     \cup (IF s.own THEN {O(op, n, 0, 0, l, "o") : op \in {"mtov", "mfromv", "ptov", "pfromv"}, l \in few, n \in (0..(T + 1)) \cup {INFSZ}}
           ELSE {})
     \cup (IF s.own THEN {O(op, n, 0, 0, <<>>, "v") : op \in {"pb", "pf", "pba", "pfa", "trunc"}, n \in 0..(T + 3)}
                         \cup {O(op, 0, 0, 0, <<>>, "v") : op \in {"popf", "popb"}}
           ELSE {})

\* operands the caller provides: a flat buffer D of exactly n bytes, the other vector (fresh buffers), N empty slots
Prep(s, c) ==
  LET base == [op |-> c.op, n |-> c.n, off |-> c.off, N |-> c.N, D |-> 0, w |-> <<>>, wk |-> c.wk, el |-> El(0, 0, 0)] IN
  IF c.op \in {"xfb", "xbb", "mtob", "mfromb", "ptob"}
  THEN [S |-> [s EXCEPT !.mem = @ @@ (s.nx :> Fresh(s.nx, c.n)), !.nx = @ + 1], o |-> [base EXCEPT !.D = s.nx]]
  ELSE IF c.op \in {"mtov", "mfromv", "ptov", "pfromv"}
  THEN [S |-> [s EXCEPT !.mem = @ @@ MemFor(c.lens, s.nx), !.nx = @ + Len(c.lens)], o |-> [base EXCEPT !.w = MkVec(c.lens, s.nx)]]
  ELSE IF c.op \in {"xfv", "xbv", "slice"} THEN [S |-> s, o |-> [base EXCEPT !.w = Nulls(c.N)]]
  ELSE IF c.op \in {"pb", "pf"}
  THEN [S |-> [s EXCEPT !.mem = @ @@ (s.nx :> Fresh(s.nx, c.n)), !.nx = @ + 1], o |-> [base EXCEPT !.el = El(s.nx, 0, c.n)]]
  ELSE [S |-> s, o |-> base]

\* the state after the call; buffers no element refers to any more are forgotten
Carry(s, P) ==
  LET live == {P.v[k].b : k \in 1..Len(P.v)} IN
  [s EXCEPT !.v = P.v, !.mem = [id \in (DOMAIN P.mem) \cap live |-> P.mem[id]], !.ff = P.ff, !.bf = P.bf, !.nb = P.nb, !.nx = P.nx]

NoLast == [o |-> "none", T |-> 0, ret |-> 0, probs |-> {}]
Init == S \in InitStates /\ depth = 0 /\ last = NoLast
Next ==
  /\ depth < Depth
  /\ \E c \in Choices(S, depth) :
        LET pr == Prep(S, c)
            P == Impl(pr.S, pr.o)
            probs == Judge(pr.S, pr.o, P) \cup (IF SlotsOK(pr.S, P) THEN {} ELSE {"iovec slots not conserved"})
        IN /\ S' = Carry(pr.S, P)
           /\ last' = [o |-> pr.o, T |-> Sum(S.v), ret |-> P.ret, probs |-> probs]
           /\ depth' = depth + 1
Spec == Init /\ [][Next]_vars

(* ---- known findings: tolerated only with their exact signature, and only when listed in KF ---- *)
F7_sig == /\ last.o.op = "xbb" /\ last.o.n > last.T /\ last.T > 0
         /\ last.probs = {"buf[0..ret) is not the extracted bytes / bytes outside it changed"}
C14a_sig == /\ last.o.op \in {"mtob", "mfromb", "mtov", "mfromv", "ptov", "pfromv"}
          /\ last.probs = {"reads iov[0] of an empty iovector_view"}
C14b_sig == /\ last.o.op = "slice" /\ last.T = 0 /\ last.o.N = 0 /\ last.o.n > 0 /\ last.ret = -1
          /\ last.probs = {"-1 although the request can be truncated to the content"}
\* a tolerated outcome is printed, so that the driver knows which of the tolerated findings were actually met
Known == \/ ("F7" \in KF /\ F7_sig /\ PrintT("KFHIT F7"))
         \/ ("C14a" \in KF /\ C14a_sig /\ PrintT("KFHIT C14a"))
         \/ ("C14b" \in KF /\ C14b_sig /\ PrintT("KFHIT C14b"))

\* the property: every outcome of the transcription is what the flat-sequence reference demands
Correct == last.probs = {} \/ Known
=============================================================================
