SPECIFICATION Spec
CONSTANTS
  Kind = "mpmc"
  Cap = 2
  M = 8
  MarkMod = 8
  Prod = {1, 2}
  Cons = {3, 4}
  Prog <- Prog_pp
  StartSet = {0}
  Bug = "mpmc_pub_first"
INVARIANTS ExactlyOnce FifoLinearizable PerProducerOrder CapacityBound NoTornSlot

