SPECIFICATION MCSpec
CONSTANTS
  Geoms <- GeomsThorough
  MaxOffMul = 4
  MaxLenMul = 4
INVARIANTS NoRunaway AllTile EmptyNoPart Classified Bounds FuncAgree
CHECK_DEADLOCK FALSE
