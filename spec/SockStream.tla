---- MODULE SockStream ----
(* C10, part 1: one direction of a connected socket pair as a bounded kernel pipe, the library's read/write calls on top   *)
(* of it transcribed from net/basic_socket.h (doio_once: EINTR -> retry, EAGAIN -> wait_for_fd, failed wait -> return    *)
(* the -1; doio_loop with BufStep / BufStepV) and net/kernel_socket.cpp (one Timeout per call, taken from the stream        *)
(* timeout).  Syscalls are resolved by the ENVIRONMENT: send(n) accepts k in 1..min(n, free) or says EAGAIN (pipe full, or  *)
(* spuriously) or EINTR; recv(n) returns k in 1..min(n, avail), 0 at end of stream, EAGAIN when empty, or EINTR; the        *)
(* writer's side may be shut down between any two calls.  Either side may instead be a raw peer (arbitrary chunks).         *)
(* Init ranges over every program (sequence of calls, every segmentation into iovec elements incl. empty ones) in scope.    *)
(* Bytes have identities: byte o of the writer's call c is 10*c + o; a raw writer's bytes are 901, 902, ...                  *)
EXTENDS SockStreamOps, FiniteSets, TLC
CONSTANTS K,            \* pipe capacity
          WProgs, RProgs, \* programs of the library writer / reader: sequences of [loop |-> 0/1, vec |-> 0/1, iov |-> <<..>>];
                          \* the empty program set {<<>>} with RawW / RawR = TRUE makes that side a raw peer
          RawW, RawR,   \* raw peer on the writer / reader side; RawTotal bytes at most
          RawTotal,
          Tmos,         \* stream timeouts to choose from: subset of 0..2 \cup {Inf}
          MaxT,         \* abstract clock runs 0..MaxT
          Spurious,     \* the kernel may say EAGAIN although the pipe is ready, waits may end without readiness
          Interrupts,   \* another thread may interrupt a waiting call
          Bug           \* "none" | "noadvance" | "noskip" | "perwait" | "eintr" | "wrongfail"  (witnesses, must be caught)
Inf == 99
S == {"w", "r"}
None == 0
VARIABLES buf, closed, now, prog, tmo, ci, pc, view, moved, dl, wdl, res, err, eof,
          accepted, hist, ubuf, rbase, delivered, rawleft
vars == <<buf, closed, now, prog, tmo, ci, pc, view, moved, dl, wdl, res, err, eof, accepted, hist, ubuf, rbase, delivered, rawleft>>

Call(s) == prog[s][ci[s]]
N(s) == SumSeq(Call(s).iov)
P(s) == [loop |-> Call(s).loop, vec |-> Call(s).vec, iov |-> Call(s).iov, n |-> N(s), moved |-> moved[s]]
(* flat position (1-based) in the user's buffer of every byte named by a view, in order *)
Base(iov, j) == SumSeq(SubSeq(iov, 1, j))                       \* bytes before element j (0-based j)
RECURSIVE FlatPos(_, _)
FlatPos(v, iov) == IF v = <<>> THEN <<>>
                   ELSE [i \in 1..v[1][3] |-> Base(iov, v[1][1]) + v[1][2] + i] \o FlatPos(Tail(v), iov)
Id(c, pos) == 10 * c + (pos - 1)

Init == /\ buf = <<>> /\ closed = FALSE /\ now = 0
        /\ prog \in {[w |-> a, r |-> b] : a \in WProgs, b \in RProgs}
        /\ tmo \in [S -> Tmos]
        /\ (prog["w"] = <<>> => tmo["w"] = Inf) /\ (prog["r"] = <<>> => tmo["r"] = Inf)
        /\ ci = [s \in S |-> 0] /\ pc = [s \in S |-> "idle"] /\ view = [s \in S |-> <<>>] /\ moved = [s \in S |-> 0]
        /\ dl = [s \in S |-> Inf] /\ wdl = [s \in S |-> Inf] /\ res = [s \in S |-> 0] /\ err = [s \in S |-> "none"] /\ eof = FALSE
        /\ accepted = <<>> /\ hist = <<>> /\ ubuf = <<>> /\ rbase = 0 /\ delivered = <<>> /\ rawleft = RawTotal

(* ---------------- the library ---------------- *)
FirstView(c) == IF c.loop = 1 /\ c.vec = 1
                THEN (IF Bug = "noskip" THEN Triples(c.iov) ELSE DropLead(Triples(c.iov), 1))      \* BufStepV ctor: skip_empty(1)
                ELSE IF c.vec = 1 THEN Triples(c.iov) ELSE <<<<0, 0, SumSeq(c.iov)>>>>
Start(s) == /\ pc[s] = "idle" /\ ci[s] < Len(prog[s]) /\ (s = "w" => ~closed)
            /\ ci' = [ci EXCEPT ![s] = @ + 1]
            /\ view' = [view EXCEPT ![s] = FirstView(prog[s][ci[s] + 1])]
            /\ moved' = [moved EXCEPT ![s] = 0] /\ pc' = [pc EXCEPT ![s] = "io"]
            /\ dl' = [dl EXCEPT ![s] = IF tmo[s] = Inf THEN Inf ELSE now + tmo[s]]       \* Timeout timeout(m_timeout), once per call
            /\ eof' = (IF s = "r" THEN FALSE ELSE eof)
            /\ ubuf' = (IF s = "r" THEN [p \in 1..SumSeq(prog[s][ci[s] + 1].iov) |-> None] ELSE ubuf)
            /\ UNCHANGED <<buf, closed, now, prog, tmo, wdl, res, err, accepted, hist, rbase, delivered, rawleft>>
(* doio_loop's step after a transfer of k > 0 bytes *)
Stepped(s, k) == LET c == Call(s) IN
                 IF c.vec = 1 THEN (IF Bug = "noskip" THEN Extract(view[s], k) ELSE DropLead(Extract(view[s], k), 0))   \* BufStepV
                 ELSE IF Bug = "noadvance" THEN <<<<0, view[s][1][2], view[s][1][3] - k>>>>
                 ELSE <<<<0, view[s][1][2] + k, view[s][1][3] - k>>>>                                                  \* BufStep
Continue(s, v) == IF Call(s).vec = 1 THEN v # <<>> ELSE v[1][3] > 0
Ret(s, r, e) == /\ pc' = [pc EXCEPT ![s] = "ret"] /\ res' = [res EXCEPT ![s] = r] /\ err' = [err EXCEPT ![s] = e]
After(s, k) ==   \* the library's reaction to a transfer of k > 0 bytes
    /\ moved' = [moved EXCEPT ![s] = @ + k]
    /\ IF Call(s).loop = 1
       THEN LET v == Stepped(s, k) IN
            /\ view' = [view EXCEPT ![s] = v]
            /\ IF Continue(s, v) THEN UNCHANGED <<pc, res, err>> ELSE Ret(s, moved[s] + k, "none")
       ELSE UNCHANGED view /\ Ret(s, k, "none")
Eagain(s) == /\ pc' = [pc EXCEPT ![s] = "wait"]
             /\ wdl' = [wdl EXCEPT ![s] = IF Bug = "perwait" THEN (IF tmo[s] = Inf THEN Inf ELSE now + tmo[s]) ELSE dl[s]]
             /\ UNCHANGED <<buf, closed, now, prog, tmo, ci, view, moved, dl, res, err, eof, accepted, hist, ubuf, rbase, delivered, rawleft>>
Eintr(s) == IF Bug = "eintr" THEN Ret(s, -1, "EINTR") /\ UNCHANGED <<buf, closed, now, prog, tmo, ci, view, moved, dl, wdl, eof, accepted, hist, ubuf, rbase, delivered, rawleft>>
            ELSE UNCHANGED vars                                   \* doio_once: continue
Free == K - Len(buf)
(* one send-type syscall of the writer and the library's reaction *)
IoW == /\ pc["w"] = "io"
       /\ LET v == view["w"]  n == SumLen(v)  pos == FlatPos(v, Call("w").iov) IN
          \/ /\ n = 0 /\ Ret("w", IF Call("w").loop = 1 THEN moved["w"] ELSE 0, "none")       \* send of nothing returns 0: the loop ends
             /\ UNCHANGED <<buf, closed, now, prog, tmo, ci, view, moved, dl, wdl, eof, accepted, hist, ubuf, rbase, delivered, rawleft>>
          \/ \E k \in 1..(IF n < Free THEN n ELSE Free) :
                /\ buf' = buf \o [i \in 1..k |-> Id(ci["w"], pos[i])]
                /\ accepted' = accepted \o [i \in 1..k |-> Id(ci["w"], pos[i])]
                /\ After("w", k)
                /\ UNCHANGED <<closed, now, prog, tmo, ci, dl, wdl, eof, hist, ubuf, rbase, delivered, rawleft>>
          \/ n > 0 /\ (Free = 0 \/ Spurious) /\ Eagain("w")
          \/ Eintr("w")
(* one receive-type syscall of the reader and the library's reaction *)
IoR == /\ pc["r"] = "io"
       /\ LET v == view["r"]  n == SumLen(v)  pos == FlatPos(v, Call("r").iov)  avail == Len(buf) IN
          \/ /\ n = 0 /\ Ret("r", IF Call("r").loop = 1 THEN moved["r"] ELSE 0, "none")       \* a receive of nothing returns 0 ...
             /\ UNCHANGED <<buf, closed, now, prog, tmo, ci, view, moved, dl, wdl, eof, accepted, hist, ubuf, rbase, delivered, rawleft>>
          \/ n = 0 /\ avail = 0 /\ ~closed /\ Eagain("r")                                      \* ... or (Unix sockets) EAGAIN when nothing is queued
          \/ \E k \in 1..(IF n < avail THEN n ELSE avail) :
                /\ buf' = SubSeq(buf, k + 1, Len(buf))
                /\ ubuf' = [p \in DOMAIN ubuf |-> IF \E i \in 1..k : pos[i] = p THEN buf[CHOOSE i \in 1..k : pos[i] = p] ELSE ubuf[p]]
                /\ After("r", k)
                /\ UNCHANGED <<closed, now, prog, tmo, ci, dl, wdl, eof, accepted, hist, rbase, delivered, rawleft>>
          \/ /\ n > 0 /\ avail = 0 /\ closed /\ eof' = TRUE                                   \* 0: end of stream
             /\ Ret("r", IF Call("r").loop = 1 THEN moved["r"] ELSE 0, "none")
             /\ UNCHANGED <<buf, closed, now, prog, tmo, ci, view, moved, dl, wdl, accepted, hist, ubuf, rbase, delivered, rawleft>>
          \/ n > 0 /\ ((avail = 0 /\ ~closed) \/ Spurious) /\ Eagain("r")
          \/ Eintr("r")
Ready(s) == IF s = "w" THEN Free > 0 ELSE (Len(buf) > 0 \/ closed)
WaitOk(s) == /\ pc[s] = "wait" /\ (Ready(s) \/ Spurious) /\ pc' = [pc EXCEPT ![s] = "io"]
             /\ UNCHANGED <<buf, closed, now, prog, tmo, ci, view, moved, dl, wdl, res, err, eof, accepted, hist, ubuf, rbase, delivered, rawleft>>
WaitFail(s) == /\ pc[s] = "wait"
               /\ \/ wdl[s] # Inf /\ now >= wdl[s] /\ Ret(s, IF Bug = "wrongfail" THEN moved[s] ELSE -1, "ETIMEDOUT")
                  \/ Interrupts /\ Ret(s, -1, "EINTR")
               /\ UNCHANGED <<buf, closed, now, prog, tmo, ci, view, moved, dl, wdl, eof, accepted, hist, ubuf, rbase, delivered, rawleft>>
Return(s) == /\ pc[s] = "ret" /\ pc' = [pc EXCEPT ![s] = "idle"]
             /\ hist' = (IF s = "w" THEN Append(hist, <<ci["w"], moved["w"]>>) ELSE hist)
             /\ rbase' = (IF s = "r" THEN rbase + moved["r"] ELSE rbase)
             /\ delivered' = (IF s = "r" THEN delivered \o [p \in 1..moved["r"] |-> ubuf[p]] ELSE delivered)
             /\ UNCHANGED <<buf, closed, now, prog, tmo, ci, view, moved, dl, wdl, res, err, eof, accepted, ubuf, rawleft>>
(* ---------------- the environment ---------------- *)
Shutdown == /\ ~closed /\ pc["w"] = "idle" /\ closed' = TRUE
            /\ UNCHANGED <<buf, now, prog, tmo, ci, pc, view, moved, dl, wdl, res, err, eof, accepted, hist, ubuf, rbase, delivered, rawleft>>
Tick == /\ now < MaxT /\ \A s \in S : pc[s] \in {"idle", "wait"}
        /\ \A s \in S : (pc[s] = "wait" /\ wdl[s] # Inf) => now < wdl[s]             \* an expired wait ends before time goes on
        /\ now' = now + 1
        /\ UNCHANGED <<buf, closed, prog, tmo, ci, pc, view, moved, dl, wdl, res, err, eof, accepted, hist, ubuf, rbase, delivered, rawleft>>
PeerSend == /\ RawW /\ ~closed /\ rawleft > 0 /\ Free > 0
            /\ \E k \in 1..(IF rawleft < Free THEN rawleft ELSE Free) :
                  LET ids == [i \in 1..k |-> 900 + (RawTotal - rawleft) + i] IN
                  /\ buf' = buf \o ids /\ accepted' = accepted \o ids /\ rawleft' = rawleft - k
            /\ UNCHANGED <<closed, now, prog, tmo, ci, pc, view, moved, dl, wdl, res, err, eof, hist, ubuf, rbase, delivered>>
PeerRecv == /\ RawR /\ Len(buf) > 0
            /\ \E k \in 1..Len(buf) : buf' = SubSeq(buf, k + 1, Len(buf)) /\ delivered' = delivered \o SubSeq(buf, 1, k)
            /\ UNCHANGED <<closed, now, prog, tmo, ci, pc, view, moved, dl, wdl, res, err, eof, accepted, hist, ubuf, rbase, rawleft>>
Next == \/ \E s \in S : Start(s) \/ WaitOk(s) \/ WaitFail(s) \/ Return(s)
        \/ IoW \/ IoR \/ Shutdown \/ Tick \/ PeerSend \/ PeerRecv
Spec == Init /\ [][Next]_vars

(* ---------------- properties ---------------- *)
InCall(s) == pc[s] \in {"io", "wait", "ret"}
(* the view kept by BufStep / BufStepV is the function of the bytes moved that the trace specification uses *)
ViewIsFunctionOfMoved == \A s \in S : (pc[s] \in {"io", "wait"}) => view[s] = Expected(P(s))
(* StreamExact, writer half: what the kernel accepted is, call after call, a prefix of each call's buffer, in order *)
RECURSIVE Prefixes(_)
Prefixes(h) == IF h = <<>> THEN <<>> ELSE Prefixes(SubSeq(h, 1, Len(h) - 1)) \o [p \in 1..h[Len(h)][2] |-> Id(h[Len(h)][1], p)]
WrittenSoFar == Prefixes(IF pc["w"] \in {"io", "wait", "ret"} THEN Append(hist, <<ci["w"], moved["w"]>>) ELSE hist)
AcceptedExact == RawW \/ accepted = WrittenSoFar
(* StreamExact, reader half: the user's buffers hold, in order and exactly once, a prefix of what was accepted *)
DeliveredExact ==
    /\ Len(delivered) <= Len(accepted) /\ delivered = SubSeq(accepted, 1, Len(delivered))
    /\ (~RawR) => /\ Len(delivered) = rbase
                  /\ InCall("r") => \A p \in DOMAIN ubuf : ubuf[p] = IF p <= moved["r"] THEN accepted[rbase + p] ELSE None
    /\ Len(delivered) + (IF InCall("r") THEN moved["r"] ELSE 0) + Len(buf) = Len(accepted)       \* nothing lost, nothing duplicated
StreamExact == AcceptedExact /\ DeliveredExact
(* read/readv/write/writev: the full count, or the count moved at end of stream, or -1 with the stated error *)
Stated(s) == \/ err[s] = "ETIMEDOUT" /\ tmo[s] # Inf /\ now >= dl[s]
             \/ err[s] = "EINTR" /\ Interrupts
ReadWriteComplete == \A s \in S : (pc[s] = "ret" /\ Call(s).loop = 1) =>
                        \/ res[s] = N(s) /\ moved[s] = N(s)
                        \/ s = "r" /\ eof /\ res[s] = moved[s] /\ moved[s] < N(s)
                        \/ res[s] = -1 /\ Stated(s)
(* recv/send: at most the requested count, at least one byte unless end of stream (or nothing was requested) *)
RecvSendBounds == \A s \in S : (pc[s] = "ret" /\ Call(s).loop = 0) =>
                        \/ res[s] >= 1 /\ res[s] <= N(s) /\ res[s] = moved[s]
                        \/ res[s] = 0 /\ (N(s) = 0 \/ (s = "r" /\ eof))
                        \/ res[s] = -1 /\ Stated(s)
(* no call is still in progress after its deadline (time only advances when every call is blocked) *)
NoHangPastTimeout == \A s \in S : (pc[s] \in {"io", "wait"} /\ tmo[s] # Inf) => now <= dl[s]
(* a call blocks only while it still wants bytes *)
WaitsOnlyForData == \A s \in S : pc[s] = "wait" => SumLen(view[s]) > 0 \/ (s = "r" /\ N(s) = 0)
====
