SPECIFICATION Spec
CONSTANTS
  K = 3
  WProgs <- WT
  RProgs <- NoProg
  RawW = FALSE
  RawR = TRUE
  RawTotal = 0
  Tmos <- T012
  MaxT = 3
  Spurious = TRUE
  Interrupts = TRUE
  Bug = "none"
INVARIANTS ViewIsFunctionOfMoved StreamExact ReadWriteComplete RecvSendBounds NoHangPastTimeout WaitsOnlyForData
CHECK_DEADLOCK FALSE
