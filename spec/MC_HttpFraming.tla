---- MODULE MC_HttpFraming ----
(* Scopes of the C13 model-checking configurations.  The byte tuples of the whole messages are  *)
(* generated (the text is in the comment behind each).                                        *)
EXTENDS HttpFraming, IOUtils
CONSTANT Scope     \* which scope the configuration explores (TLC evaluates every zero-arity definition at start-up,
                   \* so the scopes below take a dummy parameter and only ScopeMsgs is a constant)
M(k, b) == [kind |-> k, bytes |-> b]
HeadsQuick(x) == {
  M("resph", <<72,84,84,80,47,49,46,49,32,50,48,48,32,13,10,84,114,97,110,115,102,101,114,45,69,110,99,111,100,105,110,103,58,32,99,104,117,110,107,101,100,13,10,13,10>>)   (* HTTP/1.1 200 \r\nTransfer-Encoding: chunked\r\n\r\n *),
  M("resp", <<72,84,84,80,47,49,46,49,32,50,48,48,32,13,10,67,111,110,116,101,110,116,45,76,101,110,103,116,104,58,32,51,13,10,13,10,97,98,99>>)   (* HTTP/1.1 200 \r\nContent-Length: 3\r\n\r\nabc *),
  M("resp", <<72,84,84,80,47,49,46,49,32,50,48,48,32,79,75,13,10,67,111,110,116,101,110,116,45,76,101,110,103,116,104,58,32,48,13,10,13,10>>)   (* HTTP/1.1 200 OK\r\nContent-Length: 0\r\n\r\n *),
  M("resp", <<72,84,84,80,47,49,46,49,32,50,48,48,32,13,10,84,114,97,110,115,102,101,114,45,69,110,99,111,100,105,110,103,58,32,99,104,117,110,107,101,100,13,10,13,10,50,13,10,97,98,13,10,48,13,10,13,10>>)   (* HTTP/1.1 200 \r\nTransfer-Encoding: chunked\r\n\r\n2\r\nab\r\n0\r\n\r\n *),
  M("resp", <<72,84,84,80,47,49,46,49,32,50,48,48,32,13,10,67,111,110,110,101,99,116,105,111,110,58,32,99,108,111,115,101,13,10,13,10,120,121,122>>)   (* HTTP/1.1 200 \r\nConnection: close\r\n\r\nxyz *),
  M("resp", <<72,84,84,80,47,49,46,48,32,50,48,48,32,13,10,13,10,97,98>>)   (* HTTP/1.0 200 \r\n\r\nab *),
  M("resp", <<72,84,84,80,47,49,46,49,32,50,48,52,32,78,13,10,13,10>>)   (* HTTP/1.1 204 N\r\n\r\n *),
  M("resp", <<72,84,84,80,47,49,46,49,32,50,48,48,32,13,10,97,58,98,13,10,99,111,110,116,101,110,116,45,108,101,110,103,116,104,58,32,32,50,13,10,65,58,32,13,10,13,10,104,105>>)   (* HTTP/1.1 200 \r\na:b\r\ncontent-length:  2\r\nA: \r\n\r\nhi *),
  M("resph", <<72,84,84,80,47,49,46,49,32,50,48,48,32,13,10,67,111,110,116,101,110,116,45,76,101,110,103,116,104,58,32,51,13,10,13,10>>)   (* HTTP/1.1 200 \r\nContent-Length: 3\r\n\r\n *),
  M("req", <<71,69,84,32,47,32,72,84,84,80,47,49,46,49,13,10,72,58,32,120,13,10,13,10>>)   (* GET / HTTP/1.1\r\nH: x\r\n\r\n *),
  M("req", <<80,79,83,84,32,47,112,32,72,84,84,80,47,49,46,49,13,10,67,79,78,84,69,78,84,45,76,69,78,71,84,72,58,32,50,13,10,13,10,97,98>>)   (* POST /p HTTP/1.1\r\nCONTENT-LENGTH: 2\r\n\r\nab *),
  M("req", <<80,85,84,32,47,117,32,72,84,84,80,47,49,46,49,13,10,84,114,97,110,115,102,101,114,45,69,110,99,111,100,105,110,103,58,32,99,104,117,110,107,101,100,13,10,13,10,49,13,10,33,13,10,48,13,10,13,10>>)   (* PUT /u HTTP/1.1\r\nTransfer-Encoding: chunked\r\n\r\n1\r\n!\r\n0\r\n\r\n *)
}
HeadsMore(x) == {
  M("req", <<80,79,83,84,32,47,112,32,72,84,84,80,47,49,46,49,13,10,67,111,110,116,101,110,116,45,76,101,110,103,116,104,58,32,50,13,10,72,111,115,116,58,32,104,13,10,85,115,101,114,45,65,103,101,110,116,58,32,117,13,10,90,79,78,69,45,73,78,70,79,58,32,49,13,10,13,10,104,105>>)   (* POST /p HTTP/1.1\r\nContent-Length: 2\r\nHost: h\r\nUser-Agent: u\r\nZONE-INFO: 1\r\n\r\nhi *),
  M("resp", <<72,84,84,80,47,49,46,49,32,50,48,48,32,79,75,13,10,84,82,65,78,83,70,69,82,45,69,78,67,79,68,73,78,71,58,32,99,104,117,110,107,101,100,13,10,88,45,121,58,32,32,122,13,10,13,10,97,13,10,48,49,50,51,52,53,54,55,56,57,13,10,49,49,13,10,65,66,67,68,69,70,71,72,73,74,75,76,77,78,79,80,81,13,10,48,13,10,13,10>>)   (* HTTP/1.1 200 OK\r\nTRANSFER-ENCODING: chunked\r\nX-y:  z\r\n\r\na\r\n0123456789\r\n11\r\nABCDEFGHIJKLMNOPQ\r\n0\r\n\r\n *),
  M("resp", <<72,84,84,80,47,49,46,48,32,50,48,48,32,79,75,13,10,67,111,110,110,101,99,116,105,111,110,58,32,107,101,101,112,45,97,108,105,118,101,13,10,67,111,110,116,101,110,116,45,76,101,110,103,116,104,58,32,49,13,10,13,10,33>>)   (* HTTP/1.0 200 OK\r\nConnection: keep-alive\r\nContent-Length: 1\r\n\r\n! *),
  M("resp", <<72,84,84,80,47,49,46,49,32,50,48,48,32,79,75,13,10,67,111,110,110,101,99,116,105,111,110,58,32,107,101,101,112,45,97,108,105,118,101,13,10,13,10>>)   (* HTTP/1.1 200 OK\r\nConnection: keep-alive\r\n\r\n *),
  M("resp", <<72,84,84,80,47,49,46,49,32,50,48,48,32,13,10,84,114,97,110,115,102,101,114,45,69,110,99,111,100,105,110,103,58,32,99,104,117,110,107,101,100,13,10,13,10,49,59,120,61,121,13,10,97,13,10,48,48,13,10,13,10>>)   (* HTTP/1.1 200 \r\nTransfer-Encoding: chunked\r\n\r\n1;x=y\r\na\r\n00\r\n\r\n *),
  M("req", <<72,69,65,68,32,47,104,32,72,84,84,80,47,49,46,49,13,10,67,111,110,116,101,110,116,45,76,101,110,103,116,104,58,32,53,13,10,13,10>>)   (* HEAD /h HTTP/1.1\r\nContent-Length: 5\r\n\r\n *),
  M("req", <<68,69,76,69,84,69,32,47,100,63,113,32,72,84,84,80,47,49,46,48,13,10,98,58,32,49,13,10,97,58,32,50,13,10,99,58,32,51,13,10,13,10>>)   (* DELETE /d?q HTTP/1.0\r\nb: 1\r\na: 2\r\nc: 3\r\n\r\n *)
}
HeadsThorough(x) == HeadsQuick(x) \cup HeadsMore(x)

\* chunked bodies as a sender produces them: chunk sizes from cs, at most two chunks, then the last chunk
Data(n, base) == [i \in 1..n |-> base + ((i - 1) % 23)]
Chunk(n, base) == HexStr(n) \o CRLF \o Data(n, base) \o CRLF
ChunkedBodies(cs1, cs2) == {[kind |-> "cbody", bytes |-> ChunkedClose]}
   \cup {[kind |-> "cbody", bytes |-> Chunk(a, 97) \o ChunkedClose] : a \in cs1}
   \cup {[kind |-> "cbody", bytes |-> Chunk(a, 97) \o Chunk(c, 65) \o ChunkedClose] : a \in cs2, c \in cs2}
PlainBodies(ns) == {[kind |-> "lbody", bytes |-> Data(n, 97), dn |-> n] : n \in ns} \cup {[kind |-> "xbody", bytes |-> Data(n, 97)] : n \in ns}
\* writers: data written in one or two pieces (sizes from ws; a piece of size 0 is a caller's empty write), then closed
ChunkWriters(ws) == {[kind |-> "wchunk", data |-> Data(a, 97), sizes |-> <<a>>] : a \in ws}
   \cup {[kind |-> "wchunk", data |-> Data(a + c, 97), sizes |-> <<a, c>>] : a \in ws, c \in ws}
LenWriters(ws, dns) == {[kind |-> "wlen", data |-> Data(a + c, 97), sizes |-> <<a, c>>, dn |-> d] : a \in ws, c \in ws, d \in dns}

\* a message followed by the next one on the same connection (not for close-delimited bodies)
T_RESP == <<72,84,84,80,47,49,46,49,32,52,48,52,32,13,10,13,10>>      (* HTTP/1.1 404 \r\n\r\n *)
T_CHUNKS == <<50,13,10,122,122,13,10,48,13,10,13,10>>    (* 2\r\nzz\r\n0\r\n\r\n *)
Followed(x) == {m @@ [tail |-> T_RESP] : m \in {m \in HeadsQuick(x) : Reference(m.kind, m.bytes).fr.f # "close"}}
               \cup {m @@ [tail |-> T_CHUNKS] : m \in ChunkedBodies({2, 16}, {3}) \cup {[kind |-> "lbody", bytes |-> Data(n, 97), dn |-> n] : n \in {0, 3}}}
ValidQuick(x) == Followed(x) \cup HeadsQuick(x) \cup ChunkedBodies({1, 2, 3, 10, 16, 17}, {1, 3, 16}) \cup PlainBodies({0, 1, 5})
              \cup ChunkWriters({1, 2, 16, 17}) \cup LenWriters({0, 2, 3}, {0, 4, 5})
ValidThorough(x) == Followed(x) \cup HeadsThorough(x) \cup ChunkedBodies({1, 2, 3, 10, 16, 17}, {1, 2, 3, 10, 16, 17}) \cup PlainBodies({0, 1, 2, 5, 20})
              \cup ChunkWriters({1, 2, 3, 10, 16, 17}) \cup LenWriters({0, 1, 2, 3}, {0, 3, 4, 5})
\* three cuts: short messages only
ThreeCuts(x) == {m \in HeadsQuick(x) : Len(m.bytes) <= 40} \cup ChunkedBodies({1, 2, 3, 16, 17}, {1, 3}) \cup PlainBodies({0, 2, 5})
\* known finding "zeroWrite": the same writers with empty writes in scope
ZeroWriters(x) == ChunkWriters({0, 2})

\* malformed input: every string over a small alphabet
Strings(A, n) == UNION {[1..k -> A] : k \in 0..n}
P_RESP == <<72,84,84,80,47,49,46,49,32,50,48,48,32,13,10>>     \* "HTTP/1.1 200 \r\n"
P_REQ == <<71,69,84,32,47,32,72,84,84,80,47,49,46,49,13,10>>   \* "GET / HTTP/1.1\r\n"
HeadAlphabet == {13, 10, 58, 32, 97}                            \* CR LF ':' SP 'a'
MalHeads(n) == {M("resp", P_RESP \o x \o CRLFCRLF) : x \in Strings(HeadAlphabet, n)}
          \cup {M("req", P_REQ \o x \o CRLFCRLF) : x \in Strings(HeadAlphabet, n)}
StartAlphabet == {72, 47, 49, 46, 32, 13, 10}                   \* 'H' '/' '1' '.' SP CR LF
MalStarts(n) == {M("resp", x \o CRLFCRLF) : x \in Strings(StartAlphabet, n)} \cup {M("req", x \o CRLFCRLF) : x \in Strings(StartAlphabet, n)}
ChunkAlphabet == {13, 10, 48, 50, 97, 103}                      \* CR LF '0' '2' 'a' 'g'
MalChunks(n) == {[kind |-> "cbody", bytes |-> x] : x \in Strings(ChunkAlphabet, n)}
Truncations(ms) == UNION {{[m EXCEPT !.bytes = SubSeq(m.bytes, 1, k)] : k \in 0..(Len(m.bytes) - 1)} : m \in ms}
MalQuick(x) == MalHeads(3) \cup MalStarts(3) \cup MalChunks(4) \cup Truncations(HeadsQuick(x))
MalThorough(x) == MalHeads(5) \cup MalStarts(4) \cup MalChunks(5) \cup {[kind |-> "cbody", bytes |-> y] : y \in [1..6 -> {13, 10, 48, 50, 97}]} \cup Truncations(HeadsThorough(x))
\* scope of the known-finding configuration: one witness per KF switch
KfScope(x) == {M("req", <<71,69,84,32,47,32,72,84,84,80,47,49,46,49,13,10,13,10>>),                       (* GET / HTTP/1.1\r\n\r\n *)
               M("resp", P_RESP \o <<65,117,116,104,111,114,105,122,97,116,105,111,110,58,32,120>> \o CRLFCRLF),  (* Authorization: x *)
               M("resp", P_RESP \o <<97,98,99>> \o CRLFCRLF)}                                              (* header line without colon *)
              \cup {M("req", <<80,79,83,84,32,47,112,32,72,84,84,80,47,49,46,49,13,10,67,111,110,116,101,110,116,45,76,101,110,103,116,104,58,32,50,13,10,72,111,115,116,58,32,104,13,10,85,115,101,114,45,65,103,101,110,116,58,32,117,13,10,90,79,78,69,45,73,78,70,79,58,32,49,13,10,13,10,104,105>>)}     (* Content-Length, Host, User-Agent, ZONE-INFO: the index order breaks *)
              \cup ZeroWriters(x) \cup {M("resph", <<72,84,84,80,47,49,46,49,32,50,48,48,32,13,10,84,114,97,110,115,102,101,114,45,69,110,99,111,100,105,110,103,58,32,99,104,117,110,107,101,100,13,10,13,10>>)}
ScopeMsgs == CASE Scope = "kf" -> KfScope(0) [] Scope = "valid-quick" -> ValidQuick(0) [] Scope = "valid-thorough" -> ValidThorough(0)
              [] Scope = "mal-quick" -> MalQuick(0) [] Scope = "mal-thorough" -> MalThorough(0)
              [] Scope = "three-cuts" -> ThreeCuts(0) [] Scope = "zero-writers" -> ZeroWriters(0) [] Scope = "heads-quick" -> HeadsQuick(0) [] Scope = "heads-thorough" -> HeadsThorough(0)
KFEnv == IF "KF" \in DOMAIN IOEnv THEN {IOEnv.KF} ELSE {}     \* MC_HttpFraming_kf.cfg: the switch named by the environment variable KF
====
