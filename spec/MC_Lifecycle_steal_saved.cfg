SPECIFICATION Spec
CONSTANTS
  VCPU = {v1, v2}
  W = {w1, w2, w3}
  Creator = m
  v1 = v1
  v2 = v2
  v3 = v3
  m = m
  w1 = w1
  w2 = w2
  w3 = w3
  Joinable = {w1, w3}
  Stealable = {w1, w2, w3}
  Active = {v2}
  Passive = {v1}
  MigrateSelf = {w2}
  StealChecksSaved = TRUE
INVARIANTS OneRunner RunsAtMostOnce RunsExactlyOnceAtEnd StackSafe JoinExact OnePlace Population
