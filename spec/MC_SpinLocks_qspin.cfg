SPECIFICATION FairSpec
CONSTANTS
  P = {1, 2, 3}
  Kind = "qspin"
  Rounds = 2
  UseTry = TRUE
INVARIANT MutualExclusion
PROPERTY Terminates
