---- MODULE MC_ObjectCacheV2 ----
EXTENDS ObjectCacheV2
CONSTANTS t1, t2, t3
Perm2 == Permutations({t1, t2})
Perm3 == Permutations({t1, t2, t3})
====
