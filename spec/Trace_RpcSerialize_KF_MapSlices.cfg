SPECIFICATION Spec
CONSTANTS
  Classify = TRUE
  KF_NestedAligned = FALSE
  KF_MapSlices = TRUE
  KF_FixedLen = FALSE
  KF_ArrayWalk = FALSE
  KF_Checksum = FALSE
INVARIANT NotAccepted
CHECK_DEADLOCK FALSE
