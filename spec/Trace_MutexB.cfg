SPECIFICATION Spec
INVARIANTS QueueOnlyAsleep NotAccepted
CONSTRAINT Progress
POSTCONDITION Post
CHECK_DEADLOCK FALSE
