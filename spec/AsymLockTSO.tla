---- MODULE AsymLockTSO ----
(* C05 / F10: the asymmetric run-queue lock (thread/thread.cpp asymmetric_spinLock) under an x86-TSO memory model.       *)
(* Each CPU has a FIFO store buffer: a plain store (here: the store-release of foreground_locked and the unlock stores)    *)
(* is appended to the buffer and reaches memory at a later Flush step; a load returns the newest buffered store of the    *)
(* same CPU to that location, else memory; a locked instruction (the exchange on background_locked) drains the buffer     *)
(* first.  TSO = TRUE uses the buffers; TSO = FALSE flushes every store at once (sequential consistency).                 *)
(*   foreground_lock():       fg := TRUE (store);  [full fence, if Fence];  wait while bg (load)                              *)
(*   background_try_lock():   wait while fg (load); if exchange(bg, TRUE) then fail; if ~fg (load) then locked            *)
(*                            else bg := FALSE (store) and retry                                                          *)
EXTENDS Naturals, Sequences, FiniteSets, TLC
CONSTANTS TSO, Rounds, Fence      \* Fence = TRUE: foreground_lock() has a full fence between its store and its load (fix 992afa2)
F == "F"   \* the foreground CPU (owner vCPU)
B == "B"   \* a background CPU (stealing vCPU)
VARIABLES mem, sb, pc, rounds, incs
vars == <<mem, sb, pc, rounds, incs>>
Init == /\ mem = [fg |-> FALSE, bg |-> FALSE] /\ sb = [c \in {F, B} |-> <<>>]
        /\ pc = [c \in {F, B} |-> "idle"] /\ rounds = [c \in {F, B} |-> Rounds] /\ incs = {}
Goto(c, s) == pc' = [pc EXCEPT ![c] = s]
\* newest buffered value of location x on cpu c, else memory
RECURSIVE Newest(_, _, _)
Newest(buf, x, k) == IF k = 0 THEN "none" ELSE IF buf[k][1] = x THEN buf[k][2] ELSE Newest(buf, x, k - 1)
Load(c, x) == LET n == Newest(sb[c], x, Len(sb[c])) IN IF n = "none" THEN mem[x] ELSE n
Store(c, x, v) == IF TSO THEN sb' = [sb EXCEPT ![c] = Append(@, <<x, v>>)] /\ UNCHANGED mem
                         ELSE mem' = [mem EXCEPT ![x] = v] /\ UNCHANGED sb
Flush(c) == /\ sb[c] # <<>> /\ mem' = [mem EXCEPT ![Head(sb[c])[1]] = Head(sb[c])[2]] /\ sb' = [sb EXCEPT ![c] = Tail(@)]
            /\ UNCHANGED <<pc, rounds, incs>>
(* foreground *)
FStart == /\ pc[F] = "idle" /\ rounds[F] > 0 /\ Store(F, "fg", TRUE) /\ Goto(F, "f_wait") /\ UNCHANGED <<rounds, incs>>
FWait == /\ pc[F] = "f_wait" /\ (Fence => sb[F] = <<>>)             \* the fence: the store buffer has drained before the load
         /\ ~Load(F, "bg") /\ Goto(F, "cs") /\ incs' = incs \cup {F} /\ UNCHANGED <<mem, sb, rounds>>
FUnlock == /\ pc[F] = "cs" /\ incs' = incs \ {F} /\ Store(F, "fg", FALSE)
           /\ rounds' = [rounds EXCEPT ![F] = @ - 1] /\ Goto(F, "idle")
(* background *)
BStart == /\ pc[B] = "idle" /\ rounds[B] > 0 /\ ~Load(B, "fg") /\ Goto(B, "b_xchg") /\ UNCHANGED <<mem, sb, rounds, incs>>
BXchg == /\ pc[B] = "b_xchg" /\ sb[B] = <<>>                      \* locked instruction: own buffer drained
         /\ IF mem.bg THEN Goto(B, "b_fail") /\ UNCHANGED mem ELSE mem' = [mem EXCEPT !.bg = TRUE] /\ Goto(B, "b_check")
         /\ UNCHANGED <<sb, rounds, incs>>
BCheck == /\ pc[B] = "b_check"
          /\ IF ~Load(B, "fg") THEN Goto(B, "cs") /\ incs' = incs \cup {B} /\ UNCHANGED <<mem, sb>>
             ELSE Store(B, "bg", FALSE) /\ Goto(B, "idle") /\ UNCHANGED incs
          /\ UNCHANGED rounds
BUnlock == /\ pc[B] = "cs" /\ incs' = incs \ {B} /\ Store(B, "bg", FALSE)
           /\ rounds' = [rounds EXCEPT ![B] = @ - 1] /\ Goto(B, "idle")
BFail == /\ pc[B] = "b_fail" /\ rounds' = [rounds EXCEPT ![B] = @ - 1] /\ Goto(B, "idle") /\ UNCHANGED <<mem, sb, incs>>
Finished == (\A c \in {F, B} : pc[c] = "idle" /\ rounds[c] = 0) /\ UNCHANGED vars
Next == FStart \/ FWait \/ FUnlock \/ BStart \/ BXchg \/ BCheck \/ BUnlock \/ BFail \/ Flush(F) \/ Flush(B) \/ Finished
Spec == Init /\ [][Next]_vars
MutualExclusion == Cardinality(incs) <= 1
====
