SPECIFICATION Spec
CONSTANTS
  MaxEl = 2
  MaxLen = 2
  OtherEl = 1
  OtherLen = 2
  Depth = 2
  KF = {}
INVARIANT Correct
CHECK_DEADLOCK FALSE
