SPECIFICATION Spec
CONSTANTS
  Kind = "mpmc"
  Cap = 2
  M = 16
  MarkMod = 16
  Prod = {1}
  Cons = {3, 4, 5}
  Prog <- Prog_pr
  StartSet = {0}
  Bug = "none"
INVARIANTS ExactlyOnce TicketFifo PerProducerOrder CapacityBound NoTornSlot FailJustified
CHECK_DEADLOCK FALSE
