\* thorough: in-memory map, asynchronous writer, refill unit 2 blocks, 9 ranges, 1 eviction, 1 fault
SPECIFICATION Spec
CONSTANTS
  NF = 1
  SZ = 7
  BLK = 2
  RU = 4
  Readers = {r1, r2}
  r1 = r1
  r2 = r2
  ReadSet <- RS_t
  NReads = 1
  MaxEv = 1
  Async = TRUE
  MaxRefilling = 2
  Faults = 1
  Fiemap = FALSE
  CapFull = FALSE
  ReopenMax = 0
  PunchMax = 0
  PunchGuard = FALSE
  Bug = "none"
SYMMETRY Sym
INVARIANTS ReadsEqualSource FailedSourceNeverWrongBytes NeverBeyondSize MediaOnlyCorrectOrHole RefillDedup RangeLockDisjoint RefillingCount LocksAtRest TypeOK
