---- MODULE MC_RangeLock ----
EXTENDS RangeLock
CONSTANTS t1, t2, t3
Sym == Permutations(Threads)
====
