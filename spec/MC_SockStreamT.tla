---- MODULE MC_SockStreamT ----
EXTENDS MC_SockStream
(* thorough: one call of <= 5 bytes in <= 3 elements, or two calls of <= 3 bytes in <= 3 elements *)
WT == Progs(5, 3, 1, 0) \cup Progs(3, 3, 2, 0)   RT == Progs(5, 3, 1, 1) \cup Progs(3, 3, 2, 1)
====
