---- MODULE ObjectCache ----
(* C19, critical-section level model of ObjectCacheBase / ObjectCache<K,V*> (common/expirecontainer.{h,cpp}).          *)
(*                                                                                                                    *)
(* Granularity: ONE ACTION PER CRITICAL SECTION of the container spinlock `_lock` (a photon::spinlock section never    *)
(* blocks, so the section is one atomic step; the spinlock itself is C01's subject), every blocking acquisition is its *)
(* own step (item mutex `_mtx`, the recycler's semaphore, the `blocker` condition), everything done outside a lock      *)
(* (reading item->_obj after the mutex was dropped, `delete item`, blocker.notify_all()) is its own step too.            *)
(*                                                                                                                    *)
(*   ref_acquire  (expirecontainer.cpp:83-121)                                                                          *)
(*     AcquireCall / ALock :90-106  find-or-insert, _list.pop, `if (_recycle) blocker.wait(_lock) else _refcnt++`         *)
(*                       (the call itself is a local step, so it is merged with the first section; ALock is the same       *)
(*                       section re-executed after a wake-up; blocker.wait(_lock) enqueues and releases _lock atomically:  *)
(*                       established by C03)                                                                            *)
(*     AMtx     :109-112 lock item->_mtx (blocking), `!_obj && _failure <= sat_sub(now, cooldown)` ? construct : unlock  *)
(*     ACtorEnd :112-114 the constructor returns (ok | fail); `_failure = now` on failure; unlock _mtx                   *)
(*                       (a slow / yielding / sleeping constructor = any number of other actions between AMtx and here)  *)
(*     APost    :116-120 read item->_obj OUTSIDE the mutex: return the item, or ref_release(item,false,true) + nullptr   *)
(*   release(key) (:160-170)  ReleaseByKey: look the item up by key under _lock, then ref_release without the lock (RCs)  *)
(*   ref_release  (:123-157)                                                                                            *)
(*     ReleaseByItem / RCs :128-141 demote a second recycler, set _recycle, _refcnt--, last one signals the recycler or  *)
(*                       `_failure = 0; enqueue(item)` (fresh deadline now + lifespan, tail of the list)                 *)
(*     RSem     :144     sem.wait(1)   (blocking)                                                                       *)
(*     RErase   :146-148 _set.erase(item) under _lock                                                                   *)
(*     RDel     :150-153 moved out (destroy=false: swap _obj out) or destroyed with the item; `delete item`              *)
(*     RNotify  :154     blocker.notify_all()                                                                           *)
(*   expire()     (:53-66)                                                                                               *)
(*     Expire   :55-63   under _lock split the list: longest prefix with `deadline < now || _set.size() > _num_limit`,   *)
(*                       each erased from the set as the scan goes                                                       *)
(*     Delete   :64      delete_all() outside the lock, one item at a time                                               *)
(*   expire() runs in the timer thread AND at the end of every ref_acquire / ref_release (DEFER(expire())).  Both are   *)
(*   covered by the environment actions Expire / Delete, which may fire in any state and keep any number of split-off   *)
(*   batches outstanding (`doomed`), so every placement of the calls the code makes is included.                         *)
(*   Tick advances photon::now.                                                                                          *)
(*                                                                                                                    *)
(* Items are heap objects: `alloc[i]` is the liveness of item i's storage, thread-local `item[t]` is the raw Item* a    *)
(* thread carries between critical sections; an id is only reused when nothing refers to it, so a dangling pointer is   *)
(* visible (NoDangling).  The cached object lives and dies with its item (PtrItem::~PtrItem deletes _obj) unless it was  *)
(* moved out by a recycler.  Ghosts: held[t] = items whose object thread t has borrowed (from acquire's return to the    *)
(* call of release), gfail[k] = time of the last failed construction of key k, gzero[i] = time refcnt last dropped to 0. *)
(*                                                                                                                    *)
(* Client programs (the quantifier of C19): every thread performs up to MaxAcq acquires of any key with any cool-down,   *)
(* every constructor outcome, and releases (plain / recycle+destroy / recycle+moveout, by key or by item) in any order.  *)
(* Two usage rules keep client-made deadlocks out (they are the caller's hold-and-wait cycles, not the cache's):         *)
(* a thread acquires keys in increasing order and never a key it already holds; a recycling release is issued only for  *)
(* the single reference a thread holds (a recycler sleeps until all other holders have released).                       *)
EXTENDS Naturals, Integers, Sequences, FiniteSets, TLC
CONSTANTS Threads, Keys, MaxAcq, MaxItems, Lifespan, MaxNow, CoolDowns, NumLimit, ByKey, Bug, Ghost
\* Bug = "none": the code as it is.  Broken variants that MUST be caught (anti-vacuity):
\*   "nopop"  ref_acquire does not take the item off the expiry list        -> expiry destroys a borrowed object
\*   "nopark" ref_acquire ignores a pending recycle                          -> recycler erases an item just re-acquired
\*   "nomtx"  no per-item mutex                                               -> two constructors of one key at once
\*   "early"  every release signals a pending recycler, not only the last     -> handed over / destroyed while borrowed
\*   "sticky" the last release does not clear _failure and the test is `<`    -> construction skipped with no failure in reach
None == 0           \* no item / no key
NoT == "none"       \* no thread (Threads are model values)
Items == 1..MaxItems
VARIABLES now, alloc, ikey, refcnt, recyc, obj, failure, deadline, mtx, semc, list, set, parked, doomed,
          pc, item, key, cd, rflag, dflag, failing, nacq, held, expct, gfail, gzero, bad, seen
ivars == <<alloc, ikey, refcnt, recyc, obj, failure, deadline, mtx, semc>>
tvars == <<pc, item, key, cd, rflag, dflag, failing, nacq, held, expct>>
vars == <<now, ivars, list, set, parked, doomed, tvars, gfail, gzero, bad, seen>>

Init == /\ now = 1
        /\ alloc = [i \in Items |-> FALSE] /\ ikey = [i \in Items |-> 0] /\ refcnt = [i \in Items |-> 0]
        /\ recyc = [i \in Items |-> NoT] /\ obj = [i \in Items |-> "none"] /\ failure = [i \in Items |-> 0]
        /\ deadline = [i \in Items |-> 0] /\ mtx = [i \in Items |-> NoT] /\ semc = [i \in Items |-> 0]
        /\ list = <<>> /\ set = {} /\ parked = {} /\ doomed = {}
        /\ pc = [t \in Threads |-> "idle"] /\ item = [t \in Threads |-> None] /\ key = [t \in Threads |-> 0]
        /\ cd = [t \in Threads |-> 0] /\ rflag = [t \in Threads |-> FALSE] /\ dflag = [t \in Threads |-> TRUE]
        /\ failing = [t \in Threads |-> FALSE] /\ nacq = [t \in Threads |-> 0] /\ held = [t \in Threads |-> {}]
        /\ expct = [t \in Threads |-> None]
        /\ gfail = [k \in Keys |-> 0] /\ gzero = [i \in Items |-> 0] /\ bad = {} /\ seen = {}

Remove(s, x) == SelectSeq(s, LAMBDA y : y # x)
InList(x) == \E n \in 1..Len(list) : list[n] = x
SatSub(a, b) == IF a > b THEN a - b ELSE 0
Holders(i) == {t \in Threads : i \in held[t]}
Referenced(i) == i \in doomed \/ i \in set \/ InList(i) \/ \E t \in Threads : item[t] = i \/ i \in held[t] \/ expct[t] = i
FreeIds == {i \in Items : ~alloc[i] /\ ~Referenced(i)}
NewId == CHOOSE i \in FreeIds : \A j \in FreeIds : i <= j
Find(k) == {i \in set : ikey[i] = k}
\* reachability ghost, only maintained when Ghost = TRUE (witness configurations)
See(c, what) == seen' = IF Ghost /\ c THEN seen \cup {what} ELSE seen
\* free(): the storage is gone; the fields go back to their defaults so that states stay canonical
FreeItem(i) == /\ alloc' = [alloc EXCEPT ![i] = FALSE] /\ ikey' = [ikey EXCEPT ![i] = 0] /\ refcnt' = [refcnt EXCEPT ![i] = 0]
               /\ recyc' = [recyc EXCEPT ![i] = NoT] /\ obj' = [obj EXCEPT ![i] = "none"] /\ failure' = [failure EXCEPT ![i] = 0]
               /\ deadline' = [deadline EXCEPT ![i] = 0] /\ mtx' = [mtx EXCEPT ![i] = NoT] /\ semc' = [semc EXCEPT ![i] = 0]
               /\ gzero' = [gzero EXCEPT ![i] = 0]
\* the call has returned: thread locals back to their defaults (canonical states)
Idle(t) == /\ pc' = [pc EXCEPT ![t] = "idle"] /\ item' = [item EXCEPT ![t] = None] /\ key' = [key EXCEPT ![t] = 0]
           /\ cd' = [cd EXCEPT ![t] = 0] /\ rflag' = [rflag EXCEPT ![t] = FALSE] /\ dflag' = [dflag EXCEPT ![t] = TRUE]
           /\ failing' = [failing EXCEPT ![t] = FALSE] /\ expct' = [expct EXCEPT ![t] = None]

(* ------------------------------------------------------------------ ref_acquire *)
\* first critical section of ref_acquire(k, cooldown c); also re-executed after a wake-up from `blocker`
ALockBody(t, k, c) ==
  LET hit == Find(k)
      fresh == hit = {}
      it == IF fresh THEN NewId ELSE CHOOSE i \in hit : TRUE
      park == ~fresh /\ recyc[it] # NoT /\ Bug # "nopark"
  IN /\ FreeIds # {}
     /\ IF fresh THEN /\ alloc' = [alloc EXCEPT ![it] = TRUE] /\ ikey' = [ikey EXCEPT ![it] = k]
                      /\ set' = set \cup {it}
                 ELSE UNCHANGED <<alloc, ikey, set>>
     /\ list' = IF Bug = "nopop" THEN list ELSE Remove(list, it)
     /\ key' = [key EXCEPT ![t] = k] /\ cd' = [cd EXCEPT ![t] = c]
     /\ IF park THEN /\ parked' = parked \cup {t} /\ pc' = [pc EXCEPT ![t] = "a_parked"]
                     /\ item' = [item EXCEPT ![t] = None] /\ UNCHANGED refcnt
                ELSE /\ refcnt' = [refcnt EXCEPT ![it] = @ + 1] /\ item' = [item EXCEPT ![t] = it]
                     /\ pc' = [pc EXCEPT ![t] = "a_mtx"] /\ UNCHANGED parked
     /\ See(park, "parked")
     /\ UNCHANGED <<now, recyc, obj, failure, deadline, mtx, semc, doomed, rflag, dflag, failing, held, expct, gfail, gzero, bad>>
\* client: call acquire / ref_acquire / borrow (keys in increasing order, never a key already held)
AcquireCall(t, k, c) == /\ pc[t] = "idle" /\ nacq[t] < MaxAcq /\ \A i \in held[t] : ikey[i] < k
                        /\ nacq' = [nacq EXCEPT ![t] = @ + 1] /\ ALockBody(t, k, c)
ALock(t) == pc[t] = "a_lock" /\ ALockBody(t, key[t], cd[t]) /\ UNCHANGED nacq
\* lock item->_mtx, test, and either start the constructor (keeping the mutex) or drop the mutex again
AMtx(t) ==
  /\ pc[t] = "a_mtx"
  /\ LET it == item[t] IN
     /\ (mtx[it] = NoT \/ Bug = "nomtx")
     /\ LET cool == IF Bug = "sticky" THEN failure[it] < SatSub(now, cd[t]) ELSE failure[it] <= SatSub(now, cd[t]) IN
        IF obj[it] = "none" /\ cool
        THEN /\ mtx' = [mtx EXCEPT ![it] = t] /\ pc' = [pc EXCEPT ![t] = "a_ctor"] /\ UNCHANGED bad
        ELSE /\ pc' = [pc EXCEPT ![t] = "a_post"] /\ UNCHANGED mtx
             \* FailureNotSticky: construction may be skipped only inside the cool-down of a real failure of this key
             /\ bad' = IF obj[it] = "none" /\ ~(gfail[key[t]] > 0 /\ gfail[key[t]] + cd[t] > now)
                       THEN bad \cup {"sticky"} ELSE bad
  /\ seen' = IF ~Ghost THEN seen
             ELSE seen \cup (IF pc'[t] = "a_ctor" /\ gfail[key[t]] > 0 /\ cd[t] > 0 THEN {"retry after cool-down"} ELSE {})
                       \cup (IF pc'[t] = "a_post" /\ obj[item[t]] = "none" THEN {"skip inside cool-down"} ELSE {})
  /\ UNCHANGED <<now, alloc, ikey, refcnt, recyc, obj, failure, deadline, semc, list, set, parked, doomed, item, key, cd,
                 rflag, dflag, failing, nacq, held, expct, gfail, gzero>>
ACtorEnd(t, ok) ==
  /\ pc[t] = "a_ctor"
  /\ LET it == item[t] IN
     /\ IF ok THEN obj' = [obj EXCEPT ![it] = "ready"] /\ UNCHANGED <<failure, gfail>>
              ELSE failure' = [failure EXCEPT ![it] = now] /\ gfail' = [gfail EXCEPT ![key[t]] = now] /\ UNCHANGED obj
     /\ mtx' = [mtx EXCEPT ![it] = IF @ = t THEN NoT ELSE @]
  /\ pc' = [pc EXCEPT ![t] = "a_post"] /\ failing' = [failing EXCEPT ![t] = ~ok]
  /\ UNCHANGED <<now, alloc, ikey, refcnt, recyc, deadline, semc, list, set, parked, doomed, item, key, cd, rflag, dflag,
                 nacq, held, expct, gzero, bad, seen>>
\* line 116: item->_obj is read after the mutex was dropped
APost(t) ==
  /\ pc[t] = "a_post"
  /\ LET it == item[t] IN
     IF obj[it] = "ready"
     THEN /\ held' = [held EXCEPT ![t] = @ \cup {it}] /\ Idle(t)
     ELSE /\ pc' = [pc EXCEPT ![t] = "r_cs"] /\ UNCHANGED <<held, item, key, cd, rflag, dflag, failing, expct>>
  /\ UNCHANGED <<now, ivars, list, set, parked, doomed, nacq, gfail, gzero, bad>>
  \* the constructor of this very call failed, yet the call returns the object a later constructor made: harmless -
  \* the caller holds a counted reference to the one live object
  /\ See(failing[t] /\ obj[item[t]] = "ready", "own constructor failed, object returned")

(* ------------------------------------------------------------------ release / ref_release *)
\* first critical section of ref_release(it, rcf, ds) executed by t
RCsBody(t, it, rcf, ds) ==
  LET rc == rcf /\ recyc[it] = NoT
      rcy == IF rc THEN t ELSE recyc[it]
      last == refcnt[it] = 1
      wake == IF Bug = "early" THEN rcy # NoT ELSE last /\ rcy # NoT
  IN /\ recyc' = [recyc EXCEPT ![it] = rcy]
     /\ refcnt' = [refcnt EXCEPT ![it] = IF @ > 0 THEN @ - 1 ELSE 0]
     /\ bad' = IF refcnt[it] = 0 THEN bad \cup {"refcnt underflow"} ELSE bad
     /\ semc' = [semc EXCEPT ![it] = IF wake THEN @ + 1 ELSE @]
     /\ IF last /\ rcy = NoT
        THEN /\ failure' = [failure EXCEPT ![it] = IF Bug = "sticky" THEN @ ELSE 0]
             /\ list' = Append(Remove(list, it), it) /\ deadline' = [deadline EXCEPT ![it] = now + Lifespan]
             /\ gzero' = [gzero EXCEPT ![it] = now]
        ELSE UNCHANGED <<failure, list, deadline, gzero>>
     /\ IF rc THEN /\ pc' = [pc EXCEPT ![t] = "r_sem"] /\ item' = [item EXCEPT ![t] = it]
                   /\ rflag' = [rflag EXCEPT ![t] = TRUE] /\ dflag' = [dflag EXCEPT ![t] = ds]
                   /\ key' = [key EXCEPT ![t] = 0] /\ cd' = [cd EXCEPT ![t] = 0] /\ failing' = [failing EXCEPT ![t] = FALSE]
                   /\ expct' = [expct EXCEPT ![t] = None]
              ELSE Idle(t)
     /\ See(rcf /\ ~rc, "second recycler demoted")
     /\ UNCHANGED <<now, alloc, ikey, obj, mtx, set, parked, doomed, nacq, gfail>>
\* client: ref_release(item, rc, ds) - the borrow ends with the call
ReleaseByItem(t, i, rc, ds) == /\ pc[t] = "idle" /\ i \in held[t] /\ (rc => held[t] = {i}) /\ (~rc => ds)
                               /\ held' = [held EXCEPT ![t] = @ \ {i}] /\ RCsBody(t, i, rc, ds)
\* client: release(key, rc, ds): look the item up under _lock (:163-168), ref_release follows without the lock
ReleaseByKey(t, i, rc, ds) ==
  /\ ByKey /\ pc[t] = "idle" /\ i \in held[t] /\ (rc => held[t] = {i}) /\ (~rc => ds)
  /\ held' = [held EXCEPT ![t] = @ \ {i}]
  /\ LET hit == Find(ikey[i]) IN
     IF hit = {} THEN /\ bad' = bad \cup {"release: key not found"}
                      /\ UNCHANGED <<pc, item, key, cd, rflag, dflag, failing, expct>>
     ELSE LET it == CHOOSE j \in hit : TRUE IN
          /\ item' = [item EXCEPT ![t] = it] /\ pc' = [pc EXCEPT ![t] = "r_cs"] /\ expct' = [expct EXCEPT ![t] = i]
          /\ rflag' = [rflag EXCEPT ![t] = rc] /\ dflag' = [dflag EXCEPT ![t] = ds]
          /\ bad' = IF it # i THEN bad \cup {"release: other item than the one borrowed"} ELSE bad
          /\ UNCHANGED <<key, cd, failing>>
  /\ UNCHANGED <<now, ivars, list, set, parked, doomed, nacq, gfail, gzero, seen>>
\* ref_release's critical section when it is not the first step of the call (after release(key)'s lookup, or the
\* ref_release(item, false, true) of an acquire whose construction failed)
RCs(t) == pc[t] = "r_cs" /\ RCsBody(t, item[t], rflag[t], dflag[t]) /\ UNCHANGED held
RSem(t) ==
  /\ pc[t] = "r_sem" /\ semc[item[t]] > 0
  /\ semc' = [semc EXCEPT ![item[t]] = @ - 1] /\ pc' = [pc EXCEPT ![t] = "r_erase"]
  /\ UNCHANGED <<now, alloc, ikey, refcnt, recyc, obj, failure, deadline, mtx, list, set, parked, doomed, item, key, cd,
                 rflag, dflag, failing, nacq, held, expct, gfail, gzero, bad, seen>>
RErase(t) ==
  /\ pc[t] = "r_erase"
  /\ set' = set \ {item[t]} /\ pc' = [pc EXCEPT ![t] = "r_del"]
  /\ UNCHANGED <<now, ivars, list, parked, doomed, item, key, cd, rflag, dflag, failing, nacq, held, expct, gfail,
                 gzero, bad, seen>>
\* `if (!destroy) swap(ret, item->_obj); delete item;`  (the object dies with the item unless it was moved out)
RDel(t) ==
  /\ pc[t] = "r_del"
  /\ LET it == item[t] IN
     /\ bad' = IF Holders(it) # {} THEN bad \cup {"recycler: destroyed / handed over while borrowed"} ELSE bad
     /\ See(~dflag[t] /\ obj[it] = "ready", "moved out")
     /\ FreeItem(it)
  /\ pc' = [pc EXCEPT ![t] = "r_notify"] /\ item' = [item EXCEPT ![t] = None]
  /\ UNCHANGED <<now, list, set, parked, doomed, key, cd, rflag, dflag, failing, nacq, held, expct, gfail>>
RNotify(t) ==
  /\ pc[t] = "r_notify"
  /\ pc' = [u \in Threads |-> IF u = t THEN "idle" ELSE IF u \in parked THEN "a_lock" ELSE pc[u]]
  /\ rflag' = [rflag EXCEPT ![t] = FALSE] /\ dflag' = [dflag EXCEPT ![t] = TRUE]
  /\ parked' = {}
  /\ UNCHANGED <<now, ivars, list, set, doomed, item, key, cd, failing, nacq, held, expct, gfail, gzero, bad, seen>>

(* ------------------------------------------------------------------ environment: clock, expire() *)
Tick == /\ now < MaxNow /\ now' = now + 1
        /\ UNCHANGED <<ivars, list, set, parked, doomed, tvars, gfail, gzero, bad, seen>>
RECURSIVE Prefix(_, _)
Prefix(l, sz) == IF l = <<>> THEN <<>>
                 ELSE IF deadline[Head(l)] < now \/ sz > NumLimit THEN <<Head(l)>> \o Prefix(Tail(l), sz - 1) ELSE <<>>
Range(s) == {s[n] : n \in 1..Len(s)}
Expire ==
  LET p == Prefix(list, Cardinality(set))
      P == Range(p)
  IN /\ p # <<>>
     /\ list' = SubSeq(list, Len(p) + 1, Len(list)) /\ set' = set \ P /\ doomed' = doomed \cup P
     \* ExpiryOnlyUnreferencedAndDue, judged with the ghosts (not with the fields the scan itself reads)
     /\ bad' = bad \cup (IF \E i \in P : refcnt[i] # 0 \/ Holders(i) # {} \/ \E t \in Threads : item[t] = i
                         THEN {"expiry took a referenced item"} ELSE {})
                   \cup (IF Cardinality(set) <= NumLimit /\ \E i \in P : ~(gzero[i] + Lifespan < now)
                         THEN {"expiry took an item before its lifespan passed"} ELSE {})
     /\ UNCHANGED <<now, ivars, parked, tvars, gfail, gzero>>
     /\ See(\E i \in P : obj[i] = "ready", "object expired")
Delete(i) ==
  /\ i \in doomed /\ doomed' = doomed \ {i}
  /\ bad' = IF Holders(i) # {} THEN bad \cup {"expiry: destroyed while borrowed"} ELSE bad
  /\ FreeItem(i)
  /\ UNCHANGED <<now, list, set, parked, tvars, gfail, seen>>

Finished == (\A t \in Threads : pc[t] = "idle" /\ held[t] = {}) /\ UNCHANGED vars
Next == \/ \E t \in Threads :
             \/ \E k \in Keys, c \in CoolDowns : AcquireCall(t, k, c)
             \/ \E i \in Items, rc \in BOOLEAN, ds \in BOOLEAN : ReleaseByItem(t, i, rc, ds) \/ ReleaseByKey(t, i, rc, ds)
             \/ ALock(t) \/ AMtx(t) \/ ACtorEnd(t, TRUE) \/ ACtorEnd(t, FALSE) \/ APost(t)
             \/ RCs(t) \/ RSem(t) \/ RErase(t) \/ RDel(t) \/ RNotify(t)
        \/ Tick \/ Expire \/ \E i \in Items : Delete(i)
        \/ Finished
Spec == Init /\ [][Next]_vars

(* ------------------------------------------------------------------ properties *)
\* pcs at which the thread is going to dereference its raw item pointer
Deref == {"a_mtx", "a_ctor", "a_post", "r_cs", "r_sem", "r_erase", "r_del"}
\* concurrent borrowers of one key share one object
OneLiveObjectPerKey == /\ \A t1, t2 \in Threads : \A i1 \in held[t1], i2 \in held[t2] : ikey[i1] = ikey[i2] => i1 = i2
                       /\ \A i1, i2 \in set : ikey[i1] = ikey[i2] => i1 = i2
CtorNotConcurrent == \A t1, t2 \in Threads : (t1 # t2 /\ pc[t1] = "a_ctor" /\ pc[t2] = "a_ctor") => key[t1] # key[t2]
\* destructor / hand-over only at refcnt = 0 with no holder ghost
NeverDestroyedWhileBorrowed == \A t \in Threads : \A i \in held[t] : alloc[i] /\ obj[i] = "ready" /\ refcnt[i] > 0 /\ i \in set
NoDangling == /\ \A t \in Threads : pc[t] \in Deref => alloc[item[t]]
              /\ \A i \in set \cup doomed : alloc[i]
              /\ \A n \in 1..Len(list) : alloc[list[n]]
\* the expiry list holds only unreferenced, un-recycled members of the set (what makes expiry safe)
ExpiryOnlyUnreferencedAndDue == /\ \A n \in 1..Len(list) : LET i == list[n] IN refcnt[i] = 0 /\ recyc[i] = NoT /\ i \in set /\ Holders(i) = {}
                                /\ \A i \in doomed : Holders(i) = {} /\ refcnt[i] = 0
\* the recycler proceeds (erase, move out / destroy) only when every reference is gone
RecyclerWaitsForAll == \A t \in Threads : pc[t] \in {"r_erase", "r_del"} => refcnt[item[t]] = 0 /\ Holders(item[t]) = {}
\* violations recorded inside actions: FailureNotSticky ("sticky"), expiry ghosts, recycler ghosts, release(key) sanity
NoBad == bad = {}
RefcntCounts == \A i \in Items : alloc[i] /\ i \in set =>
                   refcnt[i] = Cardinality({t \in Threads : (i \in held[t]) \/ (item[t] = i /\ pc[t] \in {"a_mtx", "a_ctor", "a_post", "r_cs"})})
\* witnesses (Ghost = TRUE, TLC -continue; each is expected to be VIOLATED, which shows the situation is reachable):
W_Parked == "parked" \notin seen
W_Retry == "retry after cool-down" \notin seen
W_Skip == "skip inside cool-down" \notin seen
W_Race116 == "own constructor failed, object returned" \notin seen
W_Demoted == "second recycler demoted" \notin seen
W_MovedOut == "moved out" \notin seen
W_Expired == "object expired" \notin seen
====
