\* C11: as written with EarlyResponse against NoAccessAfterReturnKF (F4 tolerated only): EXPECTED TO BE VIOLATED (finding C11b).
\* 3 callers, responses in all orders (header and body separate arrivals), 1 deadline(s) may pass anywhere, 0 stream error(s), 0 unknown-or-duplicate response(s)
SPECIFICATION Spec
CONSTANTS
  C = {c1, c2, c3}
  Timed = {c1, c2, c3}
  MaxExpire = 1
  MaxErr = 0
  MaxBogus = 0
  Variant = "asis"
  EarlyResponse = TRUE
INVARIANTS NoAccessAfterReturnKF
SYMMETRY Sym
CHECK_DEADLOCK FALSE
