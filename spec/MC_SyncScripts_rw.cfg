SPECIFICATION Spec
CONSTANTS
  NT = 3
  MaxLen = 4
  Kind = "rw"
INVARIANT Emit
CHECK_DEADLOCK FALSE
