SPECIFICATION Spec
CONSTANTS
  NT = 3
  MaxLen = 6
  Kind = "rw"
INVARIANT Emit
CHECK_DEADLOCK FALSE
