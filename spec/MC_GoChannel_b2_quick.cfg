\* buffered cap 2, repaired protocol (KF = {}), 2 senders x 2 receivers x 1 call, no timeouts, close()
SPECIFICATION Spec
CONSTANTS
  Cap = 2
  S = {"s1", "s2"}
  R = {"r1", "r2"}
  NV = 1
  NR = 1
  SKinds = {"inf"}
  RKinds = {"inf"}
  WithClose = TRUE
  KF = {}
INVARIANTS TypeOK DeliveredExactlyOnce PerSenderOrder FalseOnlyOnCloseOrTimeout DrainAfterClose ReleasedWhenPartnerExists ReleasedOnClose
CHECK_DEADLOCK FALSE
