SPECIFICATION Spec
CONSTANTS
  Prod = {1, 2}
  Cons = {3, 4}
  Cap = 2
  NSend = 2
  NRecv = 2
  TwoStep = FALSE
  PhotonSend = TRUE
  Timed = TRUE
  Bug = "none"
INVARIANTS NotStuckNonEmpty NotStuckNonFull PendingMirrorsCount CountersSane Ledger
