SPECIFICATION Spec
CONSTANTS
  Adaptors <- ScopeThorough
INVARIANTS Transparent UnderlayAligned Clipped RunsAgree SameContent SubRunsAgree
CHECK_DEADLOCK FALSE
