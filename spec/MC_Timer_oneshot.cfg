SPECIFICATION FairSpec
CONSTANTS
  StaleReasons = TRUE
  MaxFires = 2
  Repeating = FALSE
INVARIANTS DtorCancelsPending CancelMeansNoFire
PROPERTY DtorTerminates
