\* documents finding: with the deviation KF_ArrayWalk (the code as shipped) TLC reports NoCrash violated
SPECIFICATION MCSpec
CONSTANTS
  Msgs <- MsgsKF
  MaxParts = 2
  MaxPartsH = 2
  MaxDev = 1
  Modes = {"hostile"}
  KF_NestedAligned = FALSE
  KF_MapSlices = FALSE
  KF_FixedLen = FALSE
  KF_ArrayWalk = TRUE
  KF_Checksum = FALSE
INVARIANTS NoCrash
CHECK_DEADLOCK FALSE
