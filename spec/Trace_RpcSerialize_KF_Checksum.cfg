SPECIFICATION Spec
CONSTANTS
  Classify = TRUE
  KF_NestedAligned = FALSE
  KF_MapSlices = FALSE
  KF_FixedLen = FALSE
  KF_ArrayWalk = FALSE
  KF_Checksum = TRUE
INVARIANT NotAccepted
CHECK_DEADLOCK FALSE
