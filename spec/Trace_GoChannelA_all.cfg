SPECIFICATION SpecAll
POSTCONDITION PostAll
CHECK_DEADLOCK FALSE
