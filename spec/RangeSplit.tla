---------------------------- MODULE RangeSplit ----------------------------
(* Step machine over RangeSplitOps explored exhaustively by TLC (C15). *)
EXTENDS RangeSplitOps

(* ---- step machine explored by TLC ---- *)
CONSTANTS Geoms, MaxOffMul, MaxLenMul   \* scope: offset 0..MaxOffMul*I+1, length 0..MaxLenMul*I+2
VARIABLES S, mode, it, allp, alp, fuel
vars == <<S, mode, it, allp, alp, fuel>>

Span(G) == IF G.kind = "vi" THEN G.kp[Len(G.kp) - 1] ELSE G.I
MCInit ==
  /\ \E G \in Geoms : \E o \in 0..(MaxOffMul * Span(G) + 1) : \E n \in 0..(MaxLenMul * Span(G) + 2) :
        S = SplitInit(G, o, n)
  /\ mode = "all" /\ it = AllBegin(S) /\ allp = <<>> /\ alp = <<>> /\ fuel = Fuel(S)
StepAll ==
  /\ mode = "all"
  /\ IF AllAtEnd(S, it)
     THEN mode' = "aligned" /\ it' = AlBegin(S) /\ fuel' = Fuel(S) /\ UNCHANGED <<allp>>
     ELSE IF fuel = 0 THEN mode' = "runaway" /\ UNCHANGED <<it, allp, fuel>>
     ELSE allp' = Append(allp, it) /\ it' = AllAdvance(S, it) /\ fuel' = fuel - 1 /\ UNCHANGED mode
  /\ UNCHANGED <<S, alp>>
StepAligned ==
  /\ mode = "aligned"
  /\ IF it.i = AlEndIdx(S)
     THEN mode' = "done" /\ UNCHANGED <<it, alp, fuel>>
     ELSE IF fuel = 0 THEN mode' = "runaway" /\ UNCHANGED <<it, alp, fuel>>
     ELSE alp' = Append(alp, it) /\ it' = AlAdvance(S, it) /\ fuel' = fuel - 1 /\ UNCHANGED mode
  /\ UNCHANGED <<S, allp>>
MCNext == StepAll \/ StepAligned
MCSpec == MCInit /\ [][MCNext]_vars

NoRunaway == mode # "runaway"
AllTile   == mode \in {"aligned", "done"} => TilesOK(S.G, S.offset, S.length, allp)
EmptyNoPart == (mode = "done" /\ S.length = 0) => (NonEmpty(allp) = <<>> /\ NonEmpty(alp) = <<>>)
Classified == mode = "done" => ClassOK(S.G, S.offset, S.length, S.small, S.preface, S.postface, alp)
Bounds    == BoundsOK(S.G, S.offset, S.length, S.abegin, S.aend)
\* step machine and functional versions agree (the functional ones judge real traces)
FuncAgree == mode = "done" => (AllParts(S).parts = allp /\ AlignedParts(S).parts = alp)
=============================================================================
