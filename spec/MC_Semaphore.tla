---- MODULE MC_Semaphore ----
EXTENDS Semaphore
CONSTANTS w1, w2, w3, s1, s2
Dem == (w1 :> 2) @@ (w2 :> 1) @@ (w3 :> 1)
Amt == (s1 :> 1) @@ (s2 :> 2)
Amt2 == (s1 :> 2) @@ (s2 :> 2)
====
