---- MODULE MC_RingQueues ----
(* Populations for RingQueues.tla.  Processes 1,2 = producers, 3,4 = consumers (1 / 3 only in the 1x1 configurations). *)
EXTENDS RingQueues
O(o, k) == [op |-> o, n |-> k]
Rep(x, k) == [i \in 1..k |-> x]
\* MPMC 2x2x2: push/pop only; send/recv only; send + mixed pop/recv
Prog_pp   == (1 :> Rep(O("push", 1), 2)) @@ (2 :> Rep(O("push", 1), 2)) @@ (3 :> Rep(O("pop", 1), 2)) @@ (4 :> Rep(O("pop", 1), 2))
Prog_pp1  == (1 :> Rep(O("push", 1), 1)) @@ (2 :> Rep(O("push", 1), 1)) @@ (3 :> Rep(O("pop", 1), 1)) @@ (4 :> Rep(O("pop", 1), 1))
Prog_pp21 == (1 :> Rep(O("push", 1), 2)) @@ (2 :> Rep(O("push", 1), 1)) @@ (3 :> Rep(O("pop", 1), 2)) @@ (4 :> Rep(O("pop", 1), 1))
Prog_sr21 == (1 :> Rep(O("send", 1), 2)) @@ (2 :> Rep(O("send", 1), 1)) @@ (3 :> Rep(O("recv", 1), 2)) @@ (4 :> Rep(O("recv", 1), 1))
Prog_b21  == (1 :> <<O("push", 2)>>) @@ (2 :> <<O("push", 1)>>) @@ (3 :> <<O("pop", 2)>>) @@ (4 :> <<O("pop", 1)>>)
Prog_pp3  == (1 :> Rep(O("push", 1), 2)) @@ (2 :> Rep(O("push", 1), 2)) @@ (3 :> Rep(O("pop", 1), 3)) @@ (4 :> Rep(O("pop", 1), 2))
Prog_sr   == (1 :> Rep(O("send", 1), 2)) @@ (2 :> Rep(O("send", 1), 2)) @@ (3 :> Rep(O("recv", 1), 2)) @@ (4 :> Rep(O("recv", 1), 2))
Prog_mix  == (1 :> <<O("send", 1), O("push", 1)>>) @@ (2 :> Rep(O("send", 1), 2))
             @@ (3 :> <<O("recv", 1), O("pop", 1)>>) @@ (4 :> <<O("pop", 1), O("recv", 1)>>)
\* push() next to fetch_add recv(): one producer, three consumers (processes 3,4,5)
Prog_pr   == (1 :> Rep(O("push", 1), 3)) @@ (3 :> Rep(O("recv", 1), 1)) @@ (4 :> Rep(O("recv", 1), 2)) @@ (5 :> Rep(O("recv", 1), 1))
\* 1x1 with 4 items (index wrap)
Prog_w_pp == (1 :> Rep(O("push", 1), 4)) @@ (3 :> Rep(O("pop", 1), 5))
Prog_w_sr == (1 :> Rep(O("send", 1), 4)) @@ (3 :> Rep(O("recv", 1), 4))
\* 2x1 / 1x2 around the wrap (3 values)
Prog_w21  == (1 :> Rep(O("push", 1), 2)) @@ (2 :> Rep(O("push", 1), 1)) @@ (3 :> Rep(O("pop", 1), 3))
Prog_w12  == (1 :> Rep(O("push", 1), 3)) @@ (3 :> Rep(O("pop", 1), 2)) @@ (4 :> Rep(O("pop", 1), 2))
\* batch MPMC: 2x2, two values per producer in calls of 2 / 1+1, consumers ask for 2,1 / 1,2
Prog_b    == (1 :> <<O("push", 2)>>) @@ (2 :> Rep(O("push", 1), 2)) @@ (3 :> <<O("pop", 2), O("pop", 1)>>) @@ (4 :> <<O("pop", 1), O("pop", 2)>>)
Prog_b2   == (1 :> <<O("push", 2), O("push", 1)>>) @@ (2 :> <<O("push", 1), O("push", 2)>>) @@ (3 :> <<O("pop", 2), O("pop", 2)>>) @@ (4 :> <<O("pop", 1), O("pop", 2)>>)
Prog_w_b  == (1 :> <<O("push", 2), O("push", 1), O("push", 2)>>) @@ (3 :> <<O("pop", 1), O("pop", 2), O("pop", 2), O("pop", 1)>>)
Prog_w_b4 == (1 :> <<O("push", 3), O("push", 2), O("push", 3)>>) @@ (3 :> <<O("pop", 2), O("pop", 3), O("pop", 3), O("pop", 1)>>)
Prog_b4   == (1 :> <<O("push", 3), O("push", 2)>>) @@ (2 :> <<O("push", 2), O("push", 1)>>) @@ (3 :> <<O("pop", 3), O("pop", 1)>>) @@ (4 :> <<O("pop", 2), O("pop", 2)>>)
\* SPSC 1x1: single and batch calls, 4-5 values
Prog_s    == (1 :> <<O("push", 1), O("pushn", 2), O("push", 1), O("pushn", 1)>>) @@ (3 :> <<O("pop", 1), O("popn", 2), O("pop", 1), O("popn", 2), O("pop", 1)>>)
Prog_s4   == (1 :> <<O("pushn", 3), O("push", 1), O("pushn", 3)>>) @@ (3 :> <<O("popn", 2), O("pop", 1), O("popn", 4), O("pop", 1)>>)
====
