\* buffered, only close() vs. late registration as written: must violate ReleasedOnClose
SPECIFICATION Spec
CONSTANTS
  Cap = 1
  S = {"s1", "s2"}
  R = {"r1", "r2"}
  NV = 1
  NR = 1
  SKinds = {"inf"}
  RKinds = {"inf"}
  WithClose = TRUE
  KF = {"CL"}
INVARIANTS TypeOK DeliveredExactlyOnce PerSenderOrder FalseOnlyOnCloseOrTimeout DrainAfterClose ReleasedWhenPartnerExists ReleasedOnClose
CHECK_DEADLOCK FALSE
