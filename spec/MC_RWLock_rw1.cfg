SPECIFICATION Spec
CONSTANTS
  T = {t1, t2, t3, t4}
  t1 = t1
  t2 = t2
  t3 = t3
  t4 = t4
  Mode <- M1
  Timed = {t2, t3}
  Kind = "rw"
  PeekUnlock = FALSE
INVARIANTS WriterExclusive StateMatchesHolders AdmittedAfterLastUnlock FailedIsNoOp
