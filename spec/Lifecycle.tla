---- MODULE Lifecycle ----
(* C05: thread lifecycle over several vCPUs (thread/thread.cpp thread_create, thread_yield, thread::die, thread_join,   *)
(* thread_migrate / do_thread_migrate, resume_threads' standby drain, try_work_stealing / ws_scan_q / ws_scan_standbyq). *)
(* One action per critical section; the context switch is split the way the code splits it: the run-queue step          *)
(* (goto_next / remove_current, under the run-queue lock) makes the outgoing thread READY / DONE and picks the next one, *)
(* and only afterwards is the outgoing context saved (CtxSave) or the dead thread's stack released / its lock dropped     *)
(* (RunDefer, on the next thread's stack).  A stealing vCPU scans a victim's run queue under the victim's run-queue lock  *)
(* with try_lock on each thread.  StealChecksSaved = FALSE models the scan as written (it skips RUNNING threads only).    *)
EXTENDS Naturals, Integers, Sequences, FiniteSets, TLC
CONSTANTS VCPU, W, Creator, Joinable, Stealable, Active, Passive, MigrateSelf, StealChecksSaved
\* W workers created by the main thread Creator (a thread id not in W); Joinable \subseteq W; Stealable \subseteq W;
\* Active / Passive \subseteq VCPU work-stealing flags; MigrateSelf \subseteq W migrate themselves once
None == "none"
NoDefer == <<"no">>
IDLE == "idle"
TH == W \cup {Creator}
VARIABLES st, cpu, saved, pc, cur, ready, standby, limbo, deferred, nth, runs, stack, joined, created, onvcpu, bad
vars == <<st, cpu, saved, pc, cur, ready, standby, limbo, deferred, nth, runs, stack, joined, created, onvcpu, bad>>
V0 == CHOOSE v \in VCPU : TRUE
Init == /\ st = [t \in TH |-> IF t = Creator THEN "RUNNING" ELSE "NONE"]
        /\ cpu = [t \in TH |-> V0] /\ saved = [t \in TH |-> TRUE]
        /\ pc = [t \in TH |-> "start"]
        /\ cur = [v \in VCPU |-> IF v = V0 THEN Creator ELSE IDLE]
        /\ ready = [v \in VCPU |-> <<>>] /\ standby = [v \in VCPU |-> <<>>]
        /\ limbo = [v \in VCPU |-> None] /\ deferred = [v \in VCPU |-> NoDefer]
        /\ nth = [v \in VCPU |-> IF v = V0 THEN 1 ELSE 0]
        /\ runs = [t \in W |-> 0] /\ stack = [t \in W |-> "none"] /\ joined = {} /\ created = {}
        /\ onvcpu = [t \in TH |-> IF t = Creator THEN {V0} ELSE {}] /\ bad = {}
Busy(v) == limbo[v] # None \/ deferred[v] # NoDefer
Running(t, v) == cur[v] = t /\ ~Busy(v)
Remove(seq, x) == SelectSeq(seq, LAMBDA y : y # x)
InSeq(seq, x) == \E i \in 1..Len(seq) : seq[i] = x
\* switch vCPU v to the head of its run queue (or the idler); `out` is the outgoing thread
SwitchTo(v, nxt) ==
  /\ cur' = [cur EXCEPT ![v] = nxt]
  /\ IF nxt = IDLE THEN UNCHANGED <<bad, onvcpu>>
     ELSE /\ bad' = IF saved[nxt] /\ onvcpu[nxt] = {} THEN bad ELSE bad \cup {<<"resumed while its context is live", nxt>>}
          /\ onvcpu' = [onvcpu EXCEPT ![nxt] = @ \cup {v}]

(* ---------------- context save / deferred work after a switch ---------------- *)
CtxSave(v) == /\ limbo[v] # None
              /\ saved' = [saved EXCEPT ![limbo[v]] = TRUE]
              /\ onvcpu' = [onvcpu EXCEPT ![limbo[v]] = @ \ {v}]
              /\ limbo' = [limbo EXCEPT ![v] = None]
              /\ UNCHANGED <<st, cpu, pc, cur, ready, standby, deferred, nth, runs, stack, joined, created, bad>>
\* deferred: ("dispose", t) release the stack of a dead detached thread; ("unlock", t) drop the dead joinable thread's lock;
\* ("migrate", t, v2) do_thread_migrate of the thread that just left
RunDefer(v) ==
  /\ limbo[v] = None /\ deferred[v] # NoDefer
  /\ LET d == deferred[v] IN
     CASE d[1] = "dispose" -> /\ stack' = [stack EXCEPT ![d[2]] = IF @ = "live" THEN "released" ELSE "double-free"]
                              /\ UNCHANGED <<st, cpu, standby, nth, ready>>
       [] d[1] = "unlock" -> UNCHANGED <<stack, st, cpu, standby, nth, ready>>
       [] d[1] = "migrate" -> LET t == d[2]  v2 == d[3] IN      \* do_thread_migrate: READY on this vCPU -> standby of v2
                              IF st[t] = "READY" /\ cpu[t] = v /\ InSeq(ready[v], t)
                              THEN /\ ready' = [ready EXCEPT ![v] = Remove(@, t)]
                                   /\ st' = [st EXCEPT ![t] = "STANDBY"] /\ cpu' = [cpu EXCEPT ![t] = v2]
                                   /\ standby' = [standby EXCEPT ![v2] = Append(@, t)]
                                   /\ nth' = [nth EXCEPT ![v] = @ - 1, ![v2] = @ + 1] /\ UNCHANGED stack
                              ELSE UNCHANGED <<stack, st, cpu, standby, nth, ready>>     \* "state changed during migrate"
  /\ deferred' = [deferred EXCEPT ![v] = NoDefer]
  /\ UNCHANGED <<saved, pc, cur, limbo, runs, joined, created, onvcpu, bad>>

(* ---------------- scheduler steps of the running thread ---------------- *)
\* thread_yield: goto_next under the run-queue lock: current becomes READY at the tail, head of the queue runs
Yield(t, v, after) ==
  /\ Running(t, v)
  /\ IF ready[v] = <<>> THEN /\ UNCHANGED <<st, cur, ready, limbo, saved, bad, onvcpu>>
     ELSE LET nxt == Head(ready[v]) IN
          /\ st' = [st EXCEPT ![t] = "READY", ![nxt] = "RUNNING"]
          /\ ready' = [ready EXCEPT ![v] = Append(Tail(@), t)]
          /\ limbo' = [limbo EXCEPT ![v] = t] /\ saved' = [saved EXCEPT ![t] = FALSE]
          /\ SwitchTo(v, nxt)
  /\ pc' = [pc EXCEPT ![t] = after]
IdleYield(v) ==      \* the idler gives way to the head of the run queue
  /\ cur[v] = IDLE /\ ~Busy(v) /\ ready[v] # <<>>
  /\ LET nxt == Head(ready[v]) IN
     /\ st' = [st EXCEPT ![nxt] = "RUNNING"] /\ ready' = [ready EXCEPT ![v] = Tail(@)] /\ SwitchTo(v, nxt)
  /\ UNCHANGED <<cpu, saved, pc, standby, limbo, deferred, nth, runs, stack, joined, created>>
\* leave the vCPU for good (die) or to sleep (join wait): pick next or the idler
Leave(t, v, newst) ==
  /\ IF ready[v] = <<>> THEN cur' = [cur EXCEPT ![v] = IDLE] /\ st' = [st EXCEPT ![t] = newst] /\ UNCHANGED <<ready, bad, onvcpu>>
     ELSE LET nxt == Head(ready[v]) IN
          /\ st' = [st EXCEPT ![t] = newst, ![nxt] = "RUNNING"] /\ ready' = [ready EXCEPT ![v] = Tail(@)] /\ SwitchTo(v, nxt)
  /\ limbo' = [limbo EXCEPT ![v] = t] /\ saved' = [saved EXCEPT ![t] = FALSE]

(* ---------------- creator (main thread) ---------------- *)
Create(w) == /\ Running(Creator, cpu[Creator]) /\ pc[Creator] = "start" /\ w \notin created
             /\ LET v == cpu[Creator] IN
                /\ st' = [st EXCEPT ![w] = "READY"] /\ cpu' = [cpu EXCEPT ![w] = v]
                /\ ready' = [ready EXCEPT ![v] = Append(@, w)] /\ nth' = [nth EXCEPT ![v] = @ + 1]
             /\ stack' = [stack EXCEPT ![w] = "live"] /\ created' = created \cup {w}
             /\ UNCHANGED <<saved, pc, cur, standby, limbo, deferred, runs, joined, onvcpu, bad>>
\* thread_migrate(other READY thread on my vCPU, v2)
MigrateOther(w, v2) ==
  /\ Running(Creator, cpu[Creator]) /\ pc[Creator] = "start" /\ w \in created
  /\ LET v == cpu[Creator] IN
     /\ v2 # v /\ st[w] = "READY" /\ cpu[w] = v /\ InSeq(ready[v], w) /\ runs[w] = 0
     /\ ready' = [ready EXCEPT ![v] = Remove(@, w)] /\ st' = [st EXCEPT ![w] = "STANDBY"]
     /\ cpu' = [cpu EXCEPT ![w] = v2] /\ standby' = [standby EXCEPT ![v2] = Append(@, w)]
     /\ nth' = [nth EXCEPT ![v] = @ - 1, ![v2] = @ + 1]
  /\ UNCHANGED <<saved, pc, cur, limbo, deferred, runs, stack, joined, created, onvcpu, bad>>
CreatorYield == /\ pc[Creator] = "start" /\ Yield(Creator, cpu[Creator], "start")
                /\ UNCHANGED <<cpu, standby, deferred, nth, runs, stack, joined, created>>
CreatorDoneCreating == /\ Running(Creator, cpu[Creator]) /\ pc[Creator] = "start" /\ created = W
                       /\ pc' = [pc EXCEPT ![Creator] = "join"]
                       /\ UNCHANGED <<st, cpu, saved, cur, ready, standby, limbo, deferred, nth, runs, stack, joined, created, onvcpu, bad>>
\* thread_join(w): reap if DONE (dispose the stack), else give way (the wait on the thread's condition variable is abstracted to a yield)
Join(w) == /\ Running(Creator, cpu[Creator]) /\ pc[Creator] = "join" /\ w \in Joinable /\ w \notin joined
           /\ st[w] = "DONE" /\ \A v \in VCPU : ~(deferred[v] # NoDefer /\ deferred[v][2] = w)   \* thread lock released
           /\ joined' = joined \cup {w}
           /\ stack' = [stack EXCEPT ![w] = IF @ = "live" THEN "released" ELSE "double-free"]
           /\ UNCHANGED <<st, cpu, saved, pc, cur, ready, standby, limbo, deferred, nth, runs, created, onvcpu, bad>>
JoinWait == /\ pc[Creator] = "join" /\ Yield(Creator, cpu[Creator], "join")
            /\ UNCHANGED <<cpu, standby, deferred, nth, runs, stack, joined, created>>
(* ---------------- workers ---------------- *)
Enter(w, v) == /\ Running(w, v) /\ pc[w] = "start"
               /\ runs' = [runs EXCEPT ![w] = @ + 1] /\ pc' = [pc EXCEPT ![w] = "body"]
               /\ UNCHANGED <<st, cpu, saved, cur, ready, standby, limbo, deferred, nth, stack, joined, created, onvcpu, bad>>
WYield(w, v) == /\ pc[w] = "body" /\ Yield(w, v, "body2")
                /\ UNCHANGED <<cpu, standby, deferred, nth, runs, stack, joined, created>>
\* thread_migrate(CURRENT, v2): goto_next, then do_thread_migrate runs deferred on the next thread's stack
WMigrateSelf(w, v, v2) ==
  /\ Running(w, v) /\ pc[w] = "body" /\ w \in MigrateSelf /\ v2 # v /\ ready[v] # <<>>
  /\ LET nxt == Head(ready[v]) IN
     /\ st' = [st EXCEPT ![w] = "READY", ![nxt] = "RUNNING"] /\ ready' = [ready EXCEPT ![v] = Append(Tail(@), w)]
     /\ SwitchTo(v, nxt)
  /\ limbo' = [limbo EXCEPT ![v] = w] /\ saved' = [saved EXCEPT ![w] = FALSE]
  /\ deferred' = [deferred EXCEPT ![v] = <<"migrate", w, v2>>]
  /\ pc' = [pc EXCEPT ![w] = "body2"]
  /\ UNCHANGED <<cpu, standby, nth, runs, stack, joined, created>>
WSkip(w, v) == /\ Running(w, v) /\ pc[w] = "body" /\ pc' = [pc EXCEPT ![w] = "body2"]
               /\ UNCHANGED <<st, cpu, saved, cur, ready, standby, limbo, deferred, nth, runs, stack, joined, created, onvcpu, bad>>
\* die(): DONE + notify under the thread lock, leave the run queue; stack disposal / unlock deferred to the next stack
Die(w, v) == /\ Running(w, v) /\ pc[w] = "body2"
             /\ Leave(w, v, "DONE")
             /\ nth' = [nth EXCEPT ![v] = @ - 1]
             /\ deferred' = [deferred EXCEPT ![v] = IF w \in Joinable THEN <<"unlock", w>> ELSE <<"dispose", w>>]
             /\ pc' = [pc EXCEPT ![w] = "dead"]
             /\ UNCHANGED <<cpu, standby, runs, stack, joined, created>>
(* ---------------- idler: standby drain and work stealing ---------------- *)
Drain(v) == /\ cur[v] = IDLE /\ ~Busy(v) /\ standby[v] # <<>>
            /\ ready' = [ready EXCEPT ![v] = @ \o standby[v]]
            /\ st' = [t \in TH |-> IF InSeq(standby[v], t) THEN "READY" ELSE st[t]]
            /\ standby' = [standby EXCEPT ![v] = <<>>]
            /\ UNCHANGED <<cpu, saved, pc, cur, limbo, deferred, nth, runs, stack, joined, created, onvcpu, bad>>
\* try_work_stealing: only when nothing else to run; scan a passive victim's standby queue, then its run queue
StealRunq(v, u, t) ==
  /\ cur[v] = IDLE /\ ~Busy(v) /\ ready[v] = <<>> /\ standby[v] = <<>> /\ v \in Active /\ u \in Passive /\ u # v
  /\ InSeq(ready[u], t) /\ t \in Stealable /\ st[t] = "READY"
  /\ (StealChecksSaved => saved[t])
  /\ ready' = [ready EXCEPT ![u] = Remove(@, t), ![v] = Append(@, t)]
  /\ cpu' = [cpu EXCEPT ![t] = v] /\ nth' = [nth EXCEPT ![u] = @ - 1, ![v] = @ + 1]
  /\ UNCHANGED <<st, saved, pc, cur, standby, limbo, deferred, runs, stack, joined, created, onvcpu, bad>>
StealStandby(v, u) ==
  /\ cur[v] = IDLE /\ ~Busy(v) /\ ready[v] = <<>> /\ standby[v] = <<>> /\ v \in Active /\ u \in Passive /\ u # v
  /\ standby[u] # <<>> /\ Head(standby[u]) \in Stealable
  /\ LET t == Head(standby[u]) IN
     /\ standby' = [standby EXCEPT ![u] = Tail(@)] /\ ready' = [ready EXCEPT ![v] = Append(@, t)]
     /\ st' = [st EXCEPT ![t] = "READY"] /\ cpu' = [cpu EXCEPT ![t] = v] /\ nth' = [nth EXCEPT ![u] = @ - 1, ![v] = @ + 1]
  /\ UNCHANGED <<saved, pc, cur, limbo, deferred, runs, stack, joined, created, onvcpu, bad>>
Finished == /\ \A w \in W : pc[w] = "dead" /\ (w \in Joinable => w \in joined)
            /\ \A v \in VCPU : ~Busy(v)
            /\ UNCHANGED vars
Next == \/ \E v \in VCPU : CtxSave(v) \/ RunDefer(v) \/ IdleYield(v) \/ Drain(v)
        \/ \E w \in W : Create(w) \/ Join(w) \/ \E v2 \in VCPU : MigrateOther(w, v2)
        \/ CreatorYield \/ CreatorDoneCreating \/ JoinWait
        \/ \E w \in W, v \in VCPU : Enter(w, v) \/ WYield(w, v) \/ WSkip(w, v) \/ Die(w, v) \/ \E v2 \in VCPU : WMigrateSelf(w, v, v2)
        \/ \E v, u \in VCPU : StealStandby(v, u) \/ \E t \in W : StealRunq(v, u, t)
        \/ Finished
Spec == Init /\ [][Next]_vars
(* ---------------- properties ---------------- *)
OneRunner == bad = {} /\ \A t \in TH : Cardinality({v \in VCPU : cur[v] = t}) <= 1
RunsAtMostOnce == \A w \in W : runs[w] <= 1
RunsExactlyOnceAtEnd == (\A w \in W : pc[w] = "dead") => \A w \in W : runs[w] = 1
StackSafe == \A w \in W : /\ stack[w] # "double-free"
                         /\ (stack[w] = "released" => (st[w] = "DONE" /\ \A v \in VCPU : limbo[v] # w))
JoinExact == \A w \in joined : st[w] = "DONE" /\ runs[w] = 1
OnePlace == \A t \in TH : st[t] \in {"READY", "RUNNING", "STANDBY"} =>
              Cardinality({v \in VCPU : cur[v] = t}) + Cardinality({v \in VCPU : InSeq(ready[v], t)})
              + Cardinality({v \in VCPU : InSeq(standby[v], t)}) = 1
Population == \A v \in VCPU : nth[v] = Cardinality({t \in TH : st[t] \in {"READY", "RUNNING", "STANDBY"} /\ cpu[t] = v})
AllDoneAtRest == (\A v \in VCPU : cur[v] = IDLE /\ ready[v] = <<>> /\ standby[v] = <<>> /\ ~Busy(v)) => FALSE
====
