SPECIFICATION Spec
CONSTANTS
  Adaptors <- ScopeQuick
INVARIANTS Transparent UnderlayAligned Clipped RunsAgree SameContent SubRunsAgree
CHECK_DEADLOCK FALSE
