\* C11 thorough: "patched2" (repair of F4 + sketch of a repair of C11b) in the environment where the peer can answer before the write
\* call has returned: every invariant incl. the strict NoAccessAfterReturn.  3 callers, 1 deadline, 1 stream error, 1 unknown-or-duplicate response.
SPECIFICATION Spec
CONSTANTS
  C = {c1, c2, c3}
  Timed = {c1, c2, c3}
  MaxExpire = 1
  MaxErr = 1
  MaxBogus = 1
  Variant = "patched2"
  EarlyResponse = TRUE
INVARIANTS TypeOK OwnResponse TagsUnique FailureIsolated MapLive OneReader LeaderHandover QueueSane NoAccessAfterReturn
SYMMETRY Sym
CHECK_DEADLOCK FALSE
