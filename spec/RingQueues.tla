---- MODULE RingQueues ----
(* C07: the three lock-free ring queues of common/lockfree_queue.h at ATOMIC-OPERATION granularity.                       *)
(* One process per producer / consumer OS thread, one action per atomic load / CAS / fetch_add / store and per slot       *)
(* access; sequential consistency (DESIGN.md section 4: memory orders are outside this specification).                     *)
(*   Kind = "mpmc"  : LockfreeMPMCRingQueue  (lockfree_queue.h:227-300)  push / pop / send / recv                          *)
(*   Kind = "batch" : LockfreeBatchMPMCRingQueue (:332-390)              push_batch / pop_batch (push = push_batch(1))     *)
(*   Kind = "spsc"  : LockfreeSPSCRingQueue (:472-556)                   push / pop / push_batch / pop_batch               *)
(* Indices are words of M values (M a power of two, multiple of Cap) that wrap, exactly as size_t does; marks are words    *)
(* of MarkMod values (MarkType).  Init starts all indices at any value of StartSet, so runs that cross the wrap of the     *)
(* index word are inside the explored space.  M must exceed Cap + the number of elements moved in a run (no ABA on a CAS:  *)
(* with 64-bit words that needs 2^64 operations during one stalled call).                                                  *)
(* A program Prog[p] is a sequence of calls [op, n]; producer p pushes the values <<p,1>>, <<p,2>>, ... (values of a       *)
(* failed or partial call are dropped, so a value whose push failed must never be received).                               *)
(* Ghost state (never read by the algorithm): tval = values in the order the queue accepted them ("tickets", taken at the  *)
(* index CAS / fetch_add / publishing store), nrecv = tickets handed to consumers, okset / got = values reported pushed /   *)
(* returned, unread / published = per-slot data state, and the snapshots that justify a failed call.                        *)
(* Bug # "none" selects a deliberately broken variant (anti-vacuity witness).                                              *)
EXTENDS Naturals, Integers, Sequences, FiniteSets, TLC
CONSTANTS Kind, Cap, M, MarkMod, Prod, Cons, Prog, StartSet, Bug
Proc == Prod \cup Cons
NoVal == <<0, 0>>
VARIABLES tail, head, whead, rtail, mark, slot,          \* the queue
          pc, ip, seq, loc,                                \* processes: control, program position, values used, locals
          tval, nrecv, npub, ndone, okset, got,            \* ghost ledger
          unread, published, torn, unjust                  \* ghost slot state and verdict flags
vars == <<tail, head, whead, rtail, mark, slot, pc, ip, seq, loc, tval, nrecv, npub, ndone, okset, got,
          unread, published, torn, unjust>>
qvars == <<tail, head, whead, rtail, mark, slot>>
gvars == <<tval, nrecv, npub, ndone, okset, got, unread, published, torn, unjust>>

Idx(x) == x % Cap
Turn(x) == x \div Cap
Inc(x, k) == (x + k) % M
Diff(a, b) == (a - b + M) % M                 \* a - b in the index word
LTR(x) == (2 * Turn(x)) % MarkMod             \* last_turn_read
TTW(x) == (2 * Turn(x) + 1) % MarkMod         \* this_turn_write
TTR(x) == (2 * Turn(x) + 2) % MarkMod         \* this_turn_read
Full(h, t) == h # t /\ Idx(h) = Idx(t)        \* check_full: h != t && (h << lshift) == (t << lshift)
Min(a, b) == IF a < b THEN a ELSE b
Range(s) == {s[i] : i \in 1..Len(s)}
L0 == [t |-> 0, h |-> 0, n |-> 0, k |-> 0, buf |-> <<>>, tk |-> 0, snap |-> 0]

\* mark of slot i when all indices stand at s: 0 in a fresh queue (s = 0); otherwise what the reader of the previous turn of that
\* slot stored, this_turn_read(x - Cap) for the next index x >= s that uses the slot (StartSet: 0 or values >= Cap)
InitMark(s, i) == LET x == CHOOSE y \in {Inc(s, d) : d \in 0..Cap-1} : Idx(y) = i IN IF s = 0 THEN 0 ELSE TTR(Diff(x, Cap))
Init == /\ \E s \in StartSet : /\ tail = s /\ head = s /\ whead = s /\ rtail = s
                               /\ mark = [i \in 0..Cap-1 |-> InitMark(s, i)]
        /\ slot = [i \in 0..Cap-1 |-> NoVal]
        /\ pc = [p \in Proc |-> "idle"] /\ ip = [p \in Proc |-> 1] /\ seq = [p \in Prod |-> 0]
        /\ loc = [p \in Proc |-> L0]
        /\ tval = <<>> /\ nrecv = 0 /\ npub = 0 /\ ndone = 0 /\ okset = {} /\ got = {}
        /\ unread = [i \in 0..Cap-1 |-> FALSE] /\ published = [i \in 0..Cap-1 |-> FALSE]
        /\ torn = FALSE /\ unjust = FALSE

Op(p) == Prog[p][ip[p]]
At(p, o) == pc[p] = "idle" /\ ip[p] <= Len(Prog[p]) /\ Op(p).op = o
NewVals(p) == [i \in 1..Op(p).n |-> <<p, seq[p] + i>>]
Goto(p, s) == pc' = [pc EXCEPT ![p] = s]
\* ---- returning from a call (ghost bookkeeping only)
\* producer: k values accepted out of the call's vals; `why`: the snapshot that must justify accepting fewer than asked
RetPush(p, k, justified) ==
    /\ okset' = okset \cup {NewVals(p)[i] : i \in 1..k}
    /\ unjust' = (unjust \/ (k < Len(NewVals(p)) /\ ~justified))
    /\ seq' = [seq EXCEPT ![p] = @ + Len(NewVals(p))]
    /\ ip' = [ip EXCEPT ![p] = @ + 1] /\ Goto(p, "idle") /\ loc' = [loc EXCEPT ![p] = L0]
    /\ UNCHANGED <<got>>
RetPop(c, buf, asked, justified) ==
    /\ got' = got \cup {<<loc[c].tk + i - 1, buf[i]>> : i \in 1..Len(buf)}
    /\ unjust' = (unjust \/ (Len(buf) < asked /\ ~justified))
    /\ ip' = [ip EXCEPT ![c] = @ + 1] /\ Goto(c, "idle") /\ loc' = [loc EXCEPT ![c] = L0]
    /\ UNCHANGED <<okset, seq>>
\* ---- ghost slot data state
WriteSlot(i) == /\ torn' = (torn \/ unread[i])                         \* overwritten before it was read
                /\ unread' = [unread EXCEPT ![i] = TRUE] /\ published' = [published EXCEPT ![i] = FALSE]
ReadSlot(i) == /\ torn' = (torn \/ ~published[i] \/ ~unread[i])        \* read between claim and publication / read twice
               /\ unread' = [unread EXCEPT ![i] = FALSE] /\ UNCHANGED published
Publish(S) == published' = [i \in 0..Cap-1 |-> IF i \in S THEN TRUE ELSE published[i]]

(* ======================================================= MPMC ======================================================= *)
\* push: auto t = tail.load()
P_LdTail(p) == /\ Kind = "mpmc" /\ At(p, "push")
               /\ loc' = [loc EXCEPT ![p] = [L0 EXCEPT !.t = tail]] /\ Goto(p, "p_ldmark")
               /\ UNCHANGED <<qvars, gvars, ip, seq>>
\* if (mark.load() == last_turn_read(t))
P_LdMark(p) == /\ pc[p] = "p_ldmark"
               /\ Goto(p, IF mark[Idx(loc[p].t)] = LTR(loc[p].t) \/ Bug = "mpmc_push_nomark" THEN "p_cas" ELSE "p_ldhead")
               /\ UNCHANGED <<qvars, gvars, ip, seq, loc>>
\* if (tail.compare_exchange_strong(t, t + 1))
P_Cas(p) == /\ pc[p] = "p_cas"
            /\ IF tail = loc[p].t
               THEN /\ tail' = Inc(tail, 1) /\ tval' = Append(tval, NewVals(p)[1]) /\ npub' = npub + 1
                    /\ Goto(p, "p_write") /\ UNCHANGED loc
               ELSE /\ loc' = [loc EXCEPT ![p].t = tail] /\ Goto(p, "p_ldmark") /\ UNCHANGED <<tail, tval, npub>>
            /\ UNCHANGED <<head, whead, rtail, mark, slot, ip, seq, nrecv, ndone, okset, got, unread, published, torn, unjust>>
\* slot = x;   (Bug "mpmc_pub_first": the mark is stored before the slot is written)
P_Write(p) == /\ pc[p] = "p_write"
              /\ IF Bug = "mpmc_pub_first"
                 THEN /\ mark' = [mark EXCEPT ![Idx(loc[p].t)] = TTW(loc[p].t)] /\ Publish({Idx(loc[p].t)})
                      /\ UNCHANGED <<slot, torn, unread>>
                 ELSE /\ slot' = [slot EXCEPT ![Idx(loc[p].t)] = NewVals(p)[1]] /\ WriteSlot(Idx(loc[p].t)) /\ UNCHANGED mark
              /\ Goto(p, "p_stmark")
              /\ UNCHANGED <<tail, head, whead, rtail, ip, seq, loc, tval, nrecv, npub, ndone, okset, got, unjust>>
\* mark.store(this_turn_write(t)); return true
P_StMark(p) == /\ pc[p] = "p_stmark"
               /\ IF Bug = "mpmc_pub_first"
                  THEN /\ slot' = [slot EXCEPT ![Idx(loc[p].t)] = NewVals(p)[1]]
                       /\ torn' = (torn \/ unread[Idx(loc[p].t)]) /\ unread' = [unread EXCEPT ![Idx(loc[p].t)] = TRUE]
                       /\ UNCHANGED <<mark, published>>
                  ELSE /\ mark' = [mark EXCEPT ![Idx(loc[p].t)] = TTW(loc[p].t)] /\ Publish({Idx(loc[p].t)})
                       /\ UNCHANGED <<slot, torn, unread>>
               /\ RetPush(p, 1, TRUE)
               /\ UNCHANGED <<tail, head, whead, rtail, tval, nrecv, npub, ndone>>
\* else { prevTail = t; h = head.load();
P_LdHead(p) == /\ pc[p] = "p_ldhead"
               /\ loc' = [loc EXCEPT ![p].h = head, ![p].snap = Len(tval) - nrecv]
               /\ Goto(p, "p_ldtail2") /\ UNCHANGED <<qvars, gvars, ip, seq>>
\*        t = tail.load(); if (t == prevTail && check_full(h, t)) return false; }
P_LdTail2(p) == /\ pc[p] = "p_ldtail2"
                /\ IF tail = loc[p].t /\ Full(loc[p].h, tail)
                   THEN RetPush(p, 0, loc[p].snap = Cap)
                   ELSE /\ loc' = [loc EXCEPT ![p].t = tail] /\ Goto(p, "p_ldmark") /\ UNCHANGED <<ip, seq, okset, got, unjust>>
                /\ UNCHANGED <<qvars, tval, nrecv, npub, ndone, unread, published, torn>>
\* send: t = tail.fetch_add(1); while (mark.load() != last_turn_read(t)) pause();  then as push
S_Fa(p) == /\ Kind = "mpmc" /\ At(p, "send")
           /\ loc' = [loc EXCEPT ![p] = [L0 EXCEPT !.t = tail]]
           /\ tail' = Inc(tail, 1) /\ tval' = Append(tval, NewVals(p)[1]) /\ npub' = npub + 1
           /\ Goto(p, "s_spin")
           /\ UNCHANGED <<head, whead, rtail, mark, slot, ip, seq, nrecv, ndone, okset, got, unread, published, torn, unjust>>
S_Spin(p) == /\ pc[p] = "s_spin" /\ mark[Idx(loc[p].t)] = LTR(loc[p].t)
             /\ Goto(p, "p_write") /\ UNCHANGED <<qvars, gvars, ip, seq, loc>>
\* pop: auto h = head.load()
C_LdHead(c) == /\ Kind = "mpmc" /\ At(c, "pop")
               /\ loc' = [loc EXCEPT ![c] = [L0 EXCEPT !.h = head]] /\ Goto(c, "c_ldmark")
               /\ UNCHANGED <<qvars, gvars, ip, seq>>
C_LdMark(c) == /\ pc[c] = "c_ldmark"
               /\ Goto(c, IF mark[Idx(loc[c].h)] = TTW(loc[c].h) THEN "c_cas" ELSE "c_ldtail")
               /\ UNCHANGED <<qvars, gvars, ip, seq, loc>>
C_Cas(c) == /\ pc[c] = "c_cas"
            /\ IF head = loc[c].h
               THEN /\ head' = Inc(head, 1) /\ loc' = [loc EXCEPT ![c].tk = nrecv] /\ nrecv' = nrecv + 1 /\ ndone' = ndone + 1
                    /\ Goto(c, "c_read")
               ELSE /\ loc' = [loc EXCEPT ![c].h = head] /\ Goto(c, "c_ldmark") /\ UNCHANGED <<head, nrecv, ndone>>
            /\ UNCHANGED <<tail, whead, rtail, mark, slot, ip, seq, tval, npub, okset, got, unread, published, torn, unjust>>
C_Read(c) == /\ pc[c] = "c_read"
             /\ loc' = [loc EXCEPT ![c].buf = <<slot[Idx(loc[c].h)]>>] /\ ReadSlot(Idx(loc[c].h))
             /\ Goto(c, "c_stmark")
             /\ UNCHANGED <<qvars, ip, seq, tval, nrecv, npub, ndone, okset, got, unjust>>
C_StMark(c) == /\ pc[c] = "c_stmark"
               /\ mark' = [mark EXCEPT ![Idx(loc[c].h)] = TTR(loc[c].h)]
               /\ RetPop(c, loc[c].buf, 1, TRUE)
               /\ UNCHANGED <<tail, head, whead, rtail, slot, tval, nrecv, npub, ndone, unread, published, torn>>
C_LdTail(c) == /\ pc[c] = "c_ldtail"
               /\ loc' = [loc EXCEPT ![c].t = tail, ![c].snap = Len(tval) - nrecv]
               /\ Goto(c, "c_ldhead2") /\ UNCHANGED <<qvars, gvars, ip, seq>>
C_LdHead2(c) == /\ pc[c] = "c_ldhead2"
                /\ IF head = loc[c].h /\ head = loc[c].t
                   THEN RetPop(c, <<>>, 1, loc[c].snap = 0)
                   ELSE /\ loc' = [loc EXCEPT ![c].h = head] /\ Goto(c, "c_ldmark") /\ UNCHANGED <<ip, seq, okset, got, unjust>>
                /\ UNCHANGED <<qvars, tval, nrecv, npub, ndone, unread, published, torn>>
R_Fa(c) == /\ Kind = "mpmc" /\ At(c, "recv")
           /\ loc' = [loc EXCEPT ![c] = [L0 EXCEPT !.h = head, !.tk = nrecv]]
           /\ head' = Inc(head, 1) /\ nrecv' = nrecv + 1 /\ ndone' = ndone + 1
           /\ Goto(c, "r_spin")
           /\ UNCHANGED <<tail, whead, rtail, mark, slot, ip, seq, tval, npub, okset, got, unread, published, torn, unjust>>
R_Spin(c) == /\ pc[c] = "r_spin" /\ mark[Idx(loc[c].h)] = TTW(loc[c].h)
             /\ Goto(c, "c_read") /\ UNCHANGED <<qvars, gvars, ip, seq, loc>>

(* ==================================================== batch MPMC ==================================================== *)
\* push_batch(x, n): wt = tail.load()
B_LdTail(p) == /\ Kind = "batch" /\ At(p, "push")
               /\ loc' = [loc EXCEPT ![p] = [L0 EXCEPT !.t = tail]] /\ Goto(p, "b_ldhead")
               /\ UNCHANGED <<qvars, gvars, ip, seq>>
\* rh = head.load(); wn = min(n, capacity - (wt - rh)); if (wn == 0) return 0;
B_LdHead(p) == /\ pc[p] = "b_ldhead"
               /\ LET wn == Min(Len(NewVals(p)), Diff(Cap, Diff(loc[p].t, head))) IN
                  IF wn = 0
                  THEN RetPush(p, 0, Len(tval) - ndone = Cap)
                  ELSE /\ loc' = [loc EXCEPT ![p].h = head, ![p].n = wn, ![p].snap = Cap - (Len(tval) - ndone)]
                       /\ Goto(p, "b_cas") /\ UNCHANGED <<ip, seq, okset, got, unjust>>
               /\ UNCHANGED <<qvars, tval, nrecv, npub, ndone, unread, published, torn>>
\* if (!tail.compare_exchange_strong(wt, wt + wn)) continue;
B_Cas(p) == /\ pc[p] = "b_cas"
            /\ IF tail = loc[p].t
               THEN /\ tail' = Inc(tail, loc[p].n) /\ tval' = tval \o SubSeq(NewVals(p), 1, loc[p].n)
                    /\ loc' = [loc EXCEPT ![p].k = 0] /\ Goto(p, "b_copy")
               ELSE /\ loc' = [loc EXCEPT ![p].t = tail] /\ Goto(p, "b_ldhead") /\ UNCHANGED <<tail, tval>>
            /\ UNCHANGED <<head, whead, rtail, mark, slot, ip, seq, nrecv, npub, ndone, okset, got, unread, published, torn, unjust>>
\* memcpy, one element per step
B_Copy(p) == /\ pc[p] = "b_copy"
             /\ LET i == Idx(Inc(loc[p].t, loc[p].k)) IN
                /\ slot' = [slot EXCEPT ![i] = NewVals(p)[loc[p].k + 1]] /\ WriteSlot(i)
             /\ loc' = [loc EXCEPT ![p].k = @ + 1]
             /\ Goto(p, IF loc[p].k + 1 = loc[p].n THEN "b_pub" ELSE "b_copy")
             /\ UNCHANGED <<tail, head, whead, rtail, mark, ip, seq, tval, nrecv, npub, ndone, okset, got, unjust>>
\* while (!write_head.compare_exchange_strong(wh = wt, wt + wn)) ;  return wn
\* (Bug "batch_unordered_pub": write_head is advanced without waiting for the earlier claims)
B_Pub(p) == /\ pc[p] = "b_pub"
            /\ whead = loc[p].t \/ Bug = "batch_unordered_pub"
            /\ whead' = Inc(whead, loc[p].n) /\ npub' = npub + loc[p].n
            /\ published' = [i \in 0..Cap-1 |-> IF \E d \in 0..loc[p].n-1 : i = Idx(Inc(whead, d)) THEN TRUE ELSE published[i]]
            /\ RetPush(p, loc[p].n, loc[p].snap = loc[p].n)
            /\ UNCHANGED <<tail, head, rtail, mark, slot, tval, nrecv, ndone, unread, torn>>
\* pop_batch(x, n): rt = read_tail.load()
D_LdRt(c) == /\ Kind = "batch" /\ At(c, "pop")
             /\ loc' = [loc EXCEPT ![c] = [L0 EXCEPT !.h = rtail]] /\ Goto(c, "d_ldwh")
             /\ UNCHANGED <<qvars, gvars, ip, seq>>
\* wh = write_head.load(); rn = min(n, wh - rt); if (rn == 0) return 0;
D_LdWh(c) == /\ pc[c] = "d_ldwh"
             /\ LET rn == Min(Op(c).n, Diff(whead, loc[c].h)) IN
                IF rn = 0
                THEN RetPop(c, <<>>, Op(c).n, npub - nrecv = 0)
                ELSE /\ loc' = [loc EXCEPT ![c].t = whead, ![c].n = rn, ![c].snap = npub - nrecv]
                     /\ Goto(c, "d_cas") /\ UNCHANGED <<ip, seq, okset, got, unjust>>
             /\ UNCHANGED <<qvars, tval, nrecv, npub, ndone, unread, published, torn>>
D_Cas(c) == /\ pc[c] = "d_cas"
            /\ IF rtail = loc[c].h
               THEN /\ rtail' = Inc(rtail, loc[c].n) /\ loc' = [loc EXCEPT ![c].tk = nrecv, ![c].k = 0, ![c].buf = <<>>]
                    /\ nrecv' = nrecv + loc[c].n /\ Goto(c, "d_copy")
               ELSE /\ loc' = [loc EXCEPT ![c].h = rtail] /\ Goto(c, "d_ldwh") /\ UNCHANGED <<rtail, nrecv>>
            /\ UNCHANGED <<tail, head, whead, mark, slot, ip, seq, tval, npub, ndone, okset, got, unread, published, torn, unjust>>
D_Copy(c) == /\ pc[c] = "d_copy"
             /\ LET i == Idx(Inc(loc[c].h, loc[c].k)) IN
                /\ loc' = [loc EXCEPT ![c].buf = Append(@, slot[i]), ![c].k = @ + 1] /\ ReadSlot(i)
             /\ Goto(c, IF loc[c].k + 1 = loc[c].n THEN "d_pub" ELSE "d_copy")
             /\ UNCHANGED <<qvars, ip, seq, tval, nrecv, npub, ndone, okset, got, unjust>>
\* while (!head.compare_exchange_strong(rh = rt, rt + rn)) ;  return rn
D_Pub(c) == /\ pc[c] = "d_pub" /\ head = loc[c].h
            /\ head' = Inc(head, loc[c].n) /\ ndone' = ndone + loc[c].n
            /\ RetPop(c, loc[c].buf, Op(c).n, loc[c].snap = loc[c].n)
            /\ UNCHANGED <<tail, whead, rtail, mark, slot, tval, nrecv, npub, unread, published, torn>>

(* ======================================================= SPSC ======================================================= *)
\* push(x): t = tail.load(); if (check_full(head, t)) return false; slots[idx(t)] = x; tail.store(t + 1)
\* push_batch(x, n) (op "pushn"): t = tail.load(); n = min(n, capacity - (t - head.load())); copy; tail.store(t + n)
Q_LdTail(p) == /\ Kind = "spsc" /\ (At(p, "push") \/ At(p, "pushn"))
               /\ loc' = [loc EXCEPT ![p] = [L0 EXCEPT !.t = tail]] /\ Goto(p, "q_ldhead")
               /\ UNCHANGED <<qvars, gvars, ip, seq>>
Q_LdHead(p) == /\ pc[p] = "q_ldhead"
               /\ LET wn == IF Op(p).op = "push" THEN (IF Full(head, loc[p].t) THEN 0 ELSE 1)
                            ELSE Min(Len(NewVals(p)), Diff(Cap, Diff(loc[p].t, head))) IN
                  IF wn = 0
                  THEN RetPush(p, 0, Len(tval) - ndone = Cap)
                  ELSE /\ loc' = [loc EXCEPT ![p].h = head, ![p].n = wn, ![p].k = 0, ![p].snap = Cap - (Len(tval) - ndone)]
                       /\ Goto(p, IF Bug = "spsc_pub_first" THEN "q_sttail" ELSE "q_copy")
                       /\ UNCHANGED <<ip, seq, okset, got, unjust>>
               /\ UNCHANGED <<qvars, tval, nrecv, npub, ndone, unread, published, torn>>
Q_Copy(p) == /\ pc[p] = "q_copy"
             /\ LET i == Idx(Inc(loc[p].t, loc[p].k)) IN
                /\ slot' = [slot EXCEPT ![i] = NewVals(p)[loc[p].k + 1]]
                /\ IF Bug = "spsc_pub_first"
                   THEN torn' = (torn \/ unread[i]) /\ unread' = [unread EXCEPT ![i] = TRUE] /\ UNCHANGED published
                   ELSE WriteSlot(i)
             /\ IF loc[p].k + 1 < loc[p].n
                THEN Goto(p, "q_copy") /\ loc' = [loc EXCEPT ![p].k = @ + 1] /\ UNCHANGED <<ip, seq, okset, got, unjust>>
                ELSE IF Bug = "spsc_pub_first"
                     THEN RetPush(p, loc[p].n, loc[p].snap = loc[p].n)
                     ELSE Goto(p, "q_sttail") /\ loc' = [loc EXCEPT ![p].k = @ + 1] /\ UNCHANGED <<ip, seq, okset, got, unjust>>
             /\ UNCHANGED <<tail, head, whead, rtail, mark, tval, nrecv, npub, ndone>>
Q_StTail(p) == /\ pc[p] = "q_sttail"
               /\ tail' = Inc(loc[p].t, loc[p].n) /\ tval' = tval \o SubSeq(NewVals(p), 1, loc[p].n) /\ npub' = npub + loc[p].n
               /\ published' = [i \in 0..Cap-1 |-> IF \E d \in 0..loc[p].n-1 : i = Idx(Inc(loc[p].t, d)) THEN TRUE ELSE published[i]]
               /\ IF Bug = "spsc_pub_first"
                  THEN Goto(p, "q_copy") /\ UNCHANGED <<ip, seq, loc, okset, got, unjust>>
                  ELSE RetPush(p, loc[p].n, loc[p].snap = loc[p].n)
               /\ UNCHANGED <<head, whead, rtail, mark, slot, nrecv, ndone, unread, torn>>
\* pop(x): h = head.load(); if (check_empty(h, tail)) return false; x = slots[idx(h)]; head.store(h + 1)
\* pop_batch (op "popn"): h = head.load(); n = min(n, tail.load() - h); copy; head.store(h + n)
E_LdHead(c) == /\ Kind = "spsc" /\ (At(c, "pop") \/ At(c, "popn"))
               /\ loc' = [loc EXCEPT ![c] = [L0 EXCEPT !.h = head]] /\ Goto(c, "e_ldtail")
               /\ UNCHANGED <<qvars, gvars, ip, seq>>
E_LdTail(c) == /\ pc[c] = "e_ldtail"
               /\ LET rn == IF Op(c).op = "pop" THEN (IF loc[c].h = tail THEN 0 ELSE 1)
                            ELSE Min(Op(c).n, Diff(tail, loc[c].h)) IN
                  IF rn = 0
                  THEN RetPop(c, <<>>, Op(c).n, npub - nrecv = 0)
                  ELSE /\ loc' = [loc EXCEPT ![c].t = tail, ![c].n = rn, ![c].k = 0, ![c].buf = <<>>, ![c].tk = nrecv,
                                             ![c].snap = npub - nrecv]
                       /\ Goto(c, "e_copy") /\ UNCHANGED <<ip, seq, okset, got, unjust>>
               /\ UNCHANGED <<qvars, tval, nrecv, npub, ndone, unread, published, torn>>
E_Copy(c) == /\ pc[c] = "e_copy"
             /\ LET i == Idx(Inc(loc[c].h, loc[c].k)) IN
                /\ loc' = [loc EXCEPT ![c].buf = Append(@, slot[i]), ![c].k = @ + 1] /\ ReadSlot(i)
             /\ Goto(c, IF loc[c].k + 1 = loc[c].n THEN "e_sthead" ELSE "e_copy")
             /\ UNCHANGED <<qvars, ip, seq, tval, nrecv, npub, ndone, okset, got, unjust>>
E_StHead(c) == /\ pc[c] = "e_sthead"
               /\ head' = Inc(loc[c].h, loc[c].n) /\ nrecv' = nrecv + loc[c].n /\ ndone' = ndone + loc[c].n
               /\ RetPop(c, loc[c].buf, Op(c).n, loc[c].snap = loc[c].n)
               /\ UNCHANGED <<tail, whead, rtail, mark, slot, tval, npub, unread, published, torn>>

Done == \A p \in Proc : pc[p] = "idle" /\ ip[p] > Len(Prog[p])
Finished == Done /\ UNCHANGED vars
StepP(p) == \/ P_LdTail(p) \/ P_LdMark(p) \/ P_Cas(p) \/ P_Write(p) \/ P_StMark(p) \/ P_LdHead(p) \/ P_LdTail2(p)
            \/ S_Fa(p) \/ S_Spin(p)
            \/ B_LdTail(p) \/ B_LdHead(p) \/ B_Cas(p) \/ B_Copy(p) \/ B_Pub(p)
            \/ Q_LdTail(p) \/ Q_LdHead(p) \/ Q_Copy(p) \/ Q_StTail(p)
StepC(c) == \/ C_LdHead(c) \/ C_LdMark(c) \/ C_Cas(c) \/ C_Read(c) \/ C_StMark(c) \/ C_LdTail(c) \/ C_LdHead2(c)
            \/ R_Fa(c) \/ R_Spin(c)
            \/ D_LdRt(c) \/ D_LdWh(c) \/ D_Cas(c) \/ D_Copy(c) \/ D_Pub(c)
            \/ E_LdHead(c) \/ E_LdTail(c) \/ E_Copy(c) \/ E_StHead(c)
Next == (\E p \in Prod : StepP(p)) \/ (\E c \in Cons : StepC(c)) \/ Finished
Spec == Init /\ [][Next]_vars
FairSpec == Spec /\ (\A p \in Prod : WF_vars(StepP(p))) /\ (\A c \in Cons : WF_vars(StepC(c)))

(* ===================================================== properties ==================================================== *)
\* every value whose push/send returned success is returned by exactly one pop/recv; nothing else is returned
RingContent == IF Kind = "batch" THEN {slot[Idx(Inc(head, d))] : d \in 0..Diff(whead, head) - 1}
                                 ELSE {slot[Idx(Inc(head, d))] : d \in 0..Diff(tail, head) - 1}
GotV == {g[2] : g \in got}
ExactlyOnce == /\ \A g1, g2 \in got : g1[2] = g2[2] => g1 = g2                              \* nothing returned twice
               /\ GotV \subseteq Range(tval)                                              \* only values the queue accepted ...
               /\ \A v \in GotV : pc[v[1]] = "idle" => v \in okset                         \* ... by a call that (once over) reported success
               /\ Done => GotV \cup RingContent = okset                                  \* nothing lost: received or still stored
\* the consumer holding ticket k returns the k-th accepted value: FIFO in the order of the index CAS / fetch_add / publishing
\* store (the linearization points); a failed or partial call saw a full / empty queue at one instant (`unjust`)
TicketFifo == \A g \in got : g[1] < Len(tval) /\ tval[g[1] + 1] = g[2]
FailJustified == ~unjust
FifoLinearizable == TicketFifo /\ FailJustified
PerProducerOrder == \A g1, g2 \in got : (g1[2][1] = g2[2][1] /\ g1[2][2] < g2[2][2]) => g1[1] < g2[1]
\* pp: no fetch_add call in any program: then accepted - handed-out stays within 0..Cap; always: at most Cap values stored
NoFetchAdd == \A p \in Proc : \A i \in 1..Len(Prog[p]) : Prog[p][i].op \notin {"send", "recv"}
CapacityBound == /\ Cardinality({i \in 0..Cap-1 : unread[i]}) <= Cap
                 /\ NoFetchAdd => (Len(tval) - ndone \in 0..Cap /\ npub - nrecv \in 0..Cap)
NoTornSlot == ~torn
Terminates == <>Done
====
