---- MODULE RangeLock ----
(* C18: protocol model of RangeLock (common/range-lock.h), one action per critical section under m_lock.                     *)
(*                                                                                                                          *)
(* Word 0..MAXU with SATURATING addition, as photon::sat_add computes `end` (range-lock.h:120-123).                          *)
(* index  = the std::set<Range> as its in-order sequence.  The comparator is the code's: a < b <=> End(a) <= b.off           *)
(*          (range-lock.h:124-127).  It is not irreflexive for a range that covers no byte (len = 0, or off + len saturating  *)
(*          at off): two such ranges at one offset are each "less than" the other.                                          *)
(* lower_bound is a descent through a search tree; on a sequence that is partitioned with respect to `e < r` every tree      *)
(* shape gives the same answer.  LB(r) is the set of answers some tree shape can give (positions j with s[j-1] < r and       *)
(* not s[j] < r), a singleton whenever the container's order assumption holds.                                              *)
(* emplace_hint(it, r) follows libstdc++ (_M_get_insert_hint_unique_pos + _M_insert_node): with a correct hint the new node  *)
(* is attached under the in-order predecessor p (or under the rightmost node) and the side is chosen by comp(r, p).  If      *)
(* r < p holds although p < r (both cover no byte at the same offset - the std::set precondition "strict weak ordering" is   *)
(* violated), the node is linked as p's LEFT child over whatever was there: p's left subtree (at most one node in a          *)
(* red-black tree, because p has no right child) is no longer reachable.  Such entries are kept in `lost`: their owners      *)
(* still hold them, no lookup finds them.  What happens afterwards is undefined behaviour of the container; the model        *)
(* continues with lookups that do not see `lost` (this is what the real container was observed to do), which is enough       *)
(* to show the consequence for the property.                                                                                *)
(*                                                                                                                          *)
(* Threads follow the discipline of a sane caller: a thread never requests a range that touches one of its own, calls the    *)
(* blocking lock() only while it holds nothing (no hold-and-wait cycles through lock()), unlocks by range exactly what it    *)
(* locked through try_lock_wait, and ends holding nothing.  Sleeping try-calls can be interrupted (environment).             *)
(*                                                                                                                          *)
(* Switches (CONSTANTS):                                                                                                    *)
(*   FixEmpty   FALSE: as written.  TRUE: proposed repair for F11 / C18a - a request that covers no byte is granted without   *)
(*              being stored (sentinel handle), adjust_range refuses a target that covers no byte.                          *)
(*   FixAdjust  FALSE: as written.  TRUE: proposed repair for C18b - adjust_range wakes the waiters of the adjusted entry.    *)
(*   OnlyNonEmpty  TRUE restricts requests and adjust targets to ranges that cover at least one byte (the region outside     *)
(*              F11 / C18a) - used to check the design as written where it is not already known to fail.                    *)
(*   Broken     "none" | "nonotify" (erase does not wake waiters) | "adjnocheck" (adjust_range without the neighbour test)   *)
(*              | "lbskip" (conflict test compares with the wrong end): deliberately wrong variants, must be caught.        *)
EXTENDS Naturals, Integers, Sequences, FiniteSets, TLC
CONSTANTS MAXU, Offs, Lens, Threads, MaxOps, Kinds, MaxIntr, FixEmpty, FixAdjust, Broken, OnlyNonEmpty

Min2(a, b) == IF a < b THEN a ELSE b
Max2(a, b) == IF a > b THEN a ELSE b
End(r) == Min2(MAXU, r.off + r.len)                       \* sat_add
Less(a, b) == End(a) <= b.off                             \* operator<
IsEmpty(r) == End(r) = r.off                              \* covers no byte
Contains(a, b) == a.off <= b.off /\ End(a) >= End(b)      \* range_t::contains
Overlap(a, b) == Max2(a.off, b.off) < Min2(End(a), End(b))   \* share a byte
Touch(a, b) == a.off < End(b) /\ b.off < End(a)           \* the interval test
\* ranges in scope: every extent once, plus one saturating representative per offset (off + len = MAXU + 1 overflows the word
\* by one; longer lengths saturate to the same extent and behave identically)
Ranges == {r \in [off : Offs, len : Lens] : r.off + r.len <= MAXU + 1 /\ (OnlyNonEmpty => Min2(MAXU, r.off + r.len) > r.off)}
NoReq == [kind |-> "none", off |-> 0, len |-> 0]
NoId == <<0, 0>>

VARIABLES index,    \* sequence of [id, off, len]
          lost,     \* entries no longer reachable in the container (see above)
          pc,       \* thread -> "idle" | "wait" | "woken"
          req,      \* thread -> pending acquisition [kind, off, len]
          waitOn,   \* thread -> id of the entry whose condition variable it sleeps on (NoId: none)
          own,      \* thread -> set of [id, off, len, api, stored]: what the thread was granted and has not released
          nops,     \* thread -> acquisitions and adjustments started
          nintr     \* thread -> interrupts delivered
vars == <<index, lost, pc, req, waitOn, own, nops, nintr>>

Ids(seq) == {seq[i].id : i \in 1..Len(seq)}
AllIds == Ids(index) \cup {e.id : e \in lost}
Rng(e) == [off |-> e.off, len |-> e.len]
Held == UNION {own[t] : t \in Threads}
\* identity of a new entry of thread t: its smallest free slot (keeps the state space independent of history)
Slot(t) == CHOOSE k \in 1..MaxOps : (\A e \in own[t] : e.id # <<t, k>>) /\ \A k2 \in 1..(k - 1) : \E e \in own[t] : e.id = <<t, k2>>

Init == /\ index = <<>> /\ lost = {} /\ pc = [t \in Threads |-> "idle"] /\ req = [t \in Threads |-> NoReq]
        /\ waitOn = [t \in Threads |-> NoId] /\ own = [t \in Threads |-> {}] /\ nops = [t \in Threads |-> 0]
        /\ nintr = [t \in Threads |-> 0]

(* ------------------------------------------------------------------ container *)
LB(s, r) == {j \in 1..Len(s) + 1 : (j = Len(s) + 1 \/ ~Less(s[j], r)) /\ (j = 1 \/ Less(s[j - 1], r))}
InsAt(s, j, e) == SubSeq(s, 1, j - 1) \o <<e>> \o SubSeq(s, j, Len(s))
DropAt(s, j) == SubSeq(s, 1, j - 1) \o SubSeq(s, j + 1, Len(s))
\* possible outcomes <<index', lost'>> of emplace_hint(pos, e) after a lookup that found no conflict at pos
Insert(s, pos, e) ==
  IF pos = 1 THEN {<<InsAt(s, 1, e), {}>>}                 \* empty set, or left child of the leftmost node
  ELSE LET p == s[pos - 1] IN                              \* in-order predecessor (the rightmost node when pos = end)
       IF ~(Less(e, p) /\ Less(p, e)) THEN {<<InsAt(s, pos, e), {}>>}
       ELSE \* comp(e, p) and comp(p, e): undefined behaviour.  libstdc++: linked as p's left child if p has no right child
            (IF pos <= Len(s) THEN {<<InsAt(s, pos, e), {}>>} ELSE {})                      \* p has a right child: normal place
            \cup {<<InsAt(s, pos - 1, e), {}>>}                                             \* p's left subtree was empty
            \cup (IF pos >= 3 THEN {<<InsAt(DropAt(s, pos - 2), pos - 2, e), {s[pos - 2]}>>} ELSE {})   \* ... or held one node

(* ------------------------------------------------------------------ try_lock_wait / try_lock_wait2 / lock, range-lock.h:28-84 *)
Grant(t, kind, r, stored) ==
  own' = [own EXCEPT ![t] = @ \cup {[id |-> <<t, Slot(t)>>, off |-> r.off, len |-> r.len,
                                     api |-> IF kind = "try1" THEN "range" ELSE "handle", stored |-> stored]}]
ConflictAt(s, j, r) == j <= Len(s) /\ (IF Broken = "lbskip" THEN End(s[j]) < End(r) ELSE s[j].off < End(r))
Attempt(t, kind, r) ==
  IF FixEmpty /\ IsEmpty(r)
  THEN \* granted without being stored: the sentinel handle is not recorded either (unlock / adjust_range on it do nothing)
       /\ pc' = [pc EXCEPT ![t] = "idle"] /\ req' = [req EXCEPT ![t] = NoReq]
       /\ nops' = [nops EXCEPT ![t] = @ + 1] /\ UNCHANGED <<index, lost, waitOn, own>>
  ELSE \E j \in LB(index, r) :
         IF ConflictAt(index, j, r)
         THEN /\ pc' = [pc EXCEPT ![t] = "wait"] /\ waitOn' = [waitOn EXCEPT ![t] = index[j].id]      \* cond.wait(m_lock): atomic
              /\ req' = [req EXCEPT ![t] = [kind |-> kind, off |-> r.off, len |-> r.len]]
              /\ UNCHANGED <<index, lost, own, nops>>
         ELSE \E res \in Insert(index, j, [id |-> <<t, Slot(t)>>, off |-> r.off, len |-> r.len]) :
              /\ index' = res[1] /\ lost' = lost \cup res[2]
              /\ Grant(t, kind, r, TRUE) /\ pc' = [pc EXCEPT ![t] = "idle"] /\ req' = [req EXCEPT ![t] = NoReq]
              /\ nops' = [nops EXCEPT ![t] = @ + 1] /\ UNCHANGED waitOn
TouchesOwn(t, r, except) == \E e \in own[t] : e.id # except /\ Touch(Rng(e), r)
Start(t) == /\ pc[t] = "idle" /\ nops[t] < MaxOps
            /\ \E kind \in Kinds, r \in Ranges :
                 /\ ~TouchesOwn(t, r, NoId)
                 /\ (kind = "lock" => own[t] = {})
                 /\ Attempt(t, kind, r)
            /\ UNCHANGED nintr
\* woken (entry erased, or interrupt): lock() retries, the try-calls return -1 / nullptr
Resume(t) == /\ pc[t] = "woken"
             /\ IF req[t].kind = "lock" THEN Attempt(t, "lock", [off |-> req[t].off, len |-> req[t].len])
                ELSE /\ pc' = [pc EXCEPT ![t] = "idle"] /\ req' = [req EXCEPT ![t] = NoReq] /\ nops' = [nops EXCEPT ![t] = @ + 1]
                     /\ UNCHANGED <<index, lost, waitOn, own>>
             /\ UNCHANGED nintr
Interrupt(t) == /\ pc[t] = "wait" /\ nintr[t] < MaxIntr
                /\ pc' = [pc EXCEPT ![t] = "woken"] /\ waitOn' = [waitOn EXCEPT ![t] = NoId] /\ nintr' = [nintr EXCEPT ![t] = @ + 1]
                /\ UNCHANGED <<index, lost, req, own, nops>>

(* ------------------------------------------------------------------ erase: ~Range() notifies all waiters, range-lock.h:139 *)
WakeAll(ids) == IF Broken = "nonotify" THEN UNCHANGED <<pc, waitOn>>
                ELSE /\ pc' = [u \in Threads |-> IF pc[u] = "wait" /\ waitOn[u] \in ids THEN "woken" ELSE pc[u]]
                     /\ waitOn' = [u \in Threads |-> IF waitOn[u] \in ids THEN NoId ELSE waitOn[u]]
\* unlock(handle), range-lock.h:101-106
UnlockH(t) == /\ pc[t] = "idle"
              /\ \E e \in own[t] : /\ e.api = "handle"
                                   /\ own' = [own EXCEPT ![t] = @ \ {e}]
                                   /\ IF ~e.stored THEN UNCHANGED <<index, lost, pc, waitOn>>
                                      ELSE /\ index' = SelectSeq(index, LAMBDA x : x.id # e.id)
                                           /\ lost' = {x \in lost : x.id # e.id}
                                           /\ WakeAll({e.id})
              /\ UNCHANGED <<req, nops, nintr>>
\* unlock(offset, length), range-lock.h:44-57: from lower_bound, while it->offset < r.end(): erase if contained
RECURSIVE Sweep(_, _, _)
Sweep(s, j, r) == IF j > Len(s) \/ ~(s[j].off < End(r)) THEN {}
                  ELSE (IF Contains(r, Rng(s[j])) THEN {s[j].id} ELSE {}) \cup Sweep(s, j + 1, r)
UnlockR(t) == /\ pc[t] = "idle"
              /\ \E e \in own[t] : /\ e.api = "range"
                                   /\ own' = [own EXCEPT ![t] = @ \ {e}]
                                   /\ \E j \in LB(index, Rng(e)) :
                                        LET gone == Sweep(index, j, Rng(e)) IN
                                        /\ index' = SelectSeq(index, LAMBDA x : x.id \notin gone)
                                        /\ WakeAll(gone)
              /\ UNCHANGED <<lost, req, nops, nintr>>
\* adjust_range, range-lock.h:86-99
Pos(id) == CHOOSE j \in 1..Len(index) : index[j].id = id
Adjust(t) == /\ pc[t] = "idle" /\ nops[t] < MaxOps /\ lost = {}
             /\ \E e \in own[t], r \in Ranges :
                  /\ e.api = "handle" /\ ~TouchesOwn(t, r, e.id) /\ r # Rng(e)
                  /\ nops' = [nops EXCEPT ![t] = @ + 1]
                  /\ IF ~e.stored \/ (FixEmpty /\ IsEmpty(r)) THEN UNCHANGED <<index, own, pc, waitOn>>       \* -1
                     ELSE LET j == Pos(e.id)
                              prevEnd == IF j = 1 THEN 0 ELSE End(index[j - 1])
                              nextOff == IF j = Len(index) THEN MAXU ELSE index[j + 1].off
                              refuse == \/ (r.off < index[j].off /\ r.off < prevEnd)
                                        \/ (End(r) > End(index[j]) /\ End(r) > nextOff)
                          IN IF refuse /\ Broken # "adjnocheck" THEN UNCHANGED <<index, own, pc, waitOn>>
                             ELSE /\ index' = [index EXCEPT ![j] = [id |-> e.id, off |-> r.off, len |-> r.len]]
                                  /\ own' = [own EXCEPT ![t] = (@ \ {e}) \cup {[e EXCEPT !.off = r.off, !.len = r.len]}]
                                  /\ IF FixAdjust THEN WakeAll({e.id}) ELSE UNCHANGED <<pc, waitOn>>
             /\ UNCHANGED <<lost, req, nintr>>

Next == \E t \in Threads : Start(t) \/ Resume(t) \/ Interrupt(t) \/ UnlockH(t) \/ UnlockR(t) \/ Adjust(t)
Spec == Init /\ [][Next]_vars
\* liveness (tiny configurations only): every thread keeps taking its own steps; interrupts are not forced
ThreadStep(t) == Start(t) \/ Resume(t) \/ UnlockH(t) \/ UnlockR(t) \/ Adjust(t)
FairSpec == Spec /\ \A t \in Threads : WF_vars(ThreadStep(t))

(* ------------------------------------------------------------------ properties *)
\* the ranges held through the lock never share a byte (after every step, adjust included)
HeldDisjoint == \A a, b \in Held : a.id # b.id => ~Overlap(Rng(a), Rng(b))
\* the container's order assumption: the stored keys are strictly ordered by the comparator and nothing is unreachable,
\* so lower_bound cannot miss a conflicting entry
IndexOrdered == /\ lost = {}
                /\ \A i, j \in 1..Len(index) : i < j => Less(index[i], index[j]) /\ ~Less(index[j], index[i])
\* the lookup is unambiguous (follows from IndexOrdered; stated separately because it is what the code relies on)
LookupExact == \A r \in Ranges : Cardinality(LB(index, r)) = 1
\* every stored entry is somebody's, with the extent its holder believes (nothing leaks, nothing is shared)
IndexIsHeld == /\ \A i \in 1..Len(index) : \E e \in Held : e.stored /\ e.id = index[i].id /\ Rng(e) = Rng(index[i])
               /\ \A e \in Held : e.stored => e.id \in AllIds
               /\ Cardinality(AllIds) = Len(index) + Cardinality(lost)
\* a sleeping thread is attached to a live entry (it will be notified when that entry is erased)
WaiterAttached == \A t \in Threads : pc[t] = "wait" => waitOn[t] \in AllIds
\* nobody sleeps although nothing it conflicts with is held ("waiters proceed when the conflict is gone")
NoStaleWaiter == \A t \in Threads : pc[t] = "wait" => \E e \in Held : Touch(Rng(e), [off |-> req[t].off, len |-> req[t].len])
\* deadlock freedom: if everybody else has finished (holds nothing, or is itself inside lock()), nobody is inside lock()
Finished(t) == pc[t] = "idle" /\ own[t] = {}
NoStuck == ~(/\ \E t \in Threads : pc[t] = "wait" /\ req[t].kind = "lock"
             /\ \A t \in Threads : Finished(t) \/ (pc[t] = "wait" /\ req[t].kind = "lock"))
\* under FairSpec, with callers that only use the blocking lock() (so nobody holds one range while waiting for another) and
\* bounded programs: a thread sleeping in lock() is woken and eventually acquires its range
WaitersProceed == \A t \in Threads : (pc[t] = "wait") ~> (pc[t] = "idle")
TypeOK == /\ \A t \in Threads : pc[t] \in {"idle", "wait", "woken"} /\ nops[t] \in 0..MaxOps
          /\ \A t \in Threads : (pc[t] = "wait") <=> (waitOn[t] # NoId)
====
