---- MODULE SleepHeap ----
(* C04: the scheduler's sleep queue (thread/thread.cpp SleepQueue): a hand-written binary min-heap of threads ordered by  *)
(* wake-up time, with a back index stored in each thread so that a sleeper can be removed from the middle (cross-vCPU     *)
(* interrupt, standby drain).  push / pop_front / pop(x) / up / down are transcribed statement by statement (0-based      *)
(* arrays are kept 0-based through functions over 0..n-1).  TLC applies every sequence of operations up to a bound, over   *)
(* every assignment of keys from a small set (equal keys and the "never" key included), and checks after every step:     *)
(*   heap order, back indices (h[idx[x]] = x, idx = -1 outside), contents = abstract set, front = a minimum.               *)
EXTENDS Naturals, Integers, Sequences, FiniteSets, TLC
CONSTANTS X, Keys, MaxOps, Inf, Broken
\* X elements (threads), Keys \subseteq Nat keys to choose from (Inf among them), MaxOps operation bound,
\* Broken: a deliberately wrong pop(x) (no sift after moving the last element) that must be caught -- anti-vacuity
VARIABLES h, n, idx, key, ops, members
vars == <<h, n, idx, key, ops, members>>
\* h : function 0..(Cardinality(X)-1) -> X \cup {"-"} ; n : size
Nil == "-"
Cap == Cardinality(X)
Init == /\ h = [i \in 0..(Cap - 1) |-> Nil] /\ n = 0 /\ idx = [x \in X |-> -1]
        /\ key \in [X -> Keys] /\ ops = 0 /\ members = {}
Less(a, b) == key[a] < key[b]
(* ---- up(i): returns <<heap, idx map>> ---- *)
RECURSIVE UpLoop(_, _, _, _, _)
UpLoop(hh, ii, tmp, i, moved) ==
  IF i # 0 /\ Less(tmp, hh[(i - 1) \div 2])
  THEN LET p == (i - 1) \div 2 IN UpLoop([hh EXCEPT ![i] = hh[p]], [ii EXCEPT ![hh[p]] = i], tmp, p, TRUE)
  ELSE IF moved THEN <<[hh EXCEPT ![i] = tmp], [ii EXCEPT ![tmp] = i], TRUE>> ELSE <<hh, ii, FALSE>>
Up(hh, ii, i) == UpLoop(hh, ii, hh[i], i, FALSE)
(* ---- down(i) with current size m ---- *)
RECURSIVE DownLoop(_, _, _, _, _, _)
DownLoop(hh, ii, tmp, i, m, moved) ==
  LET c0 == 2 * i + 1 IN
  IF c0 < m
  THEN LET c == IF c0 + 1 < m /\ Less(hh[c0 + 1], hh[c0]) THEN c0 + 1 ELSE c0 IN
       IF Less(hh[c], tmp)
       THEN DownLoop([hh EXCEPT ![i] = hh[c]], [ii EXCEPT ![hh[c]] = i], tmp, c, m, TRUE)
       ELSE IF moved THEN <<[hh EXCEPT ![i] = tmp], [ii EXCEPT ![tmp] = i], TRUE>> ELSE <<hh, ii, FALSE>>
  ELSE IF moved THEN <<[hh EXCEPT ![i] = tmp], [ii EXCEPT ![tmp] = i], TRUE>> ELSE <<hh, ii, FALSE>>
Down(hh, ii, i, m) == DownLoop(hh, ii, hh[i], i, m, FALSE)

Push(x) == /\ x \notin members /\ ops < MaxOps
           /\ LET h1 == [h EXCEPT ![n] = x]  i1 == [idx EXCEPT ![x] = n]  r == Up(h1, i1, n) IN
              h' = r[1] /\ idx' = r[2]
           /\ n' = n + 1 /\ members' = members \cup {x} /\ ops' = ops + 1 /\ UNCHANGED key
PopFront == /\ n > 0 /\ ops < MaxOps
            /\ LET ret == h[0] IN
               IF n = 1 THEN h' = [h EXCEPT ![0] = Nil] /\ idx' = [idx EXCEPT ![ret] = -1]
               ELSE LET last == h[n - 1]
                        h1 == [h EXCEPT ![0] = last, ![n - 1] = Nil]
                        i1 == [idx EXCEPT ![last] = 0]
                        r == Down(h1, i1, 0, n - 1)
                    IN h' = r[1] /\ idx' = [r[2] EXCEPT ![ret] = -1]
            /\ members' = members \ {h[0]} /\ n' = n - 1 /\ ops' = ops + 1 /\ UNCHANGED key
Pop(x) == /\ x \in members /\ ops < MaxOps
          /\ LET id == idx[x] IN
             IF id = n - 1 THEN h' = [h EXCEPT ![id] = Nil] /\ idx' = [idx EXCEPT ![x] = -1]
             ELSE LET last == h[n - 1]
                      h1 == [h EXCEPT ![id] = last, ![n - 1] = Nil]
                      i1 == [idx EXCEPT ![last] = id]
                      u == Up(h1, i1, id)
                      r == IF Broken THEN <<h1, i1>> ELSE IF u[3] THEN u ELSE Down(h1, i1, id, n - 1)
                  IN h' = r[1] /\ idx' = [r[2] EXCEPT ![x] = -1]
          /\ members' = members \ {x} /\ n' = n - 1 /\ ops' = ops + 1 /\ UNCHANGED key
Next == PopFront \/ \E x \in X : Push(x) \/ Pop(x)
Spec == Init /\ [][Next]_vars
(* ---- invariants ---- *)
HeapOrder == \A i \in 1..(n - 1) : ~Less(h[i], h[(i - 1) \div 2])
BackIndex == /\ \A i \in 0..(n - 1) : h[i] \in X /\ idx[h[i]] = i
             /\ \A x \in X : (x \notin members) => idx[x] = -1
Contents == {h[i] : i \in 0..(n - 1)} = members /\ n = Cardinality(members) /\ \A i \in n..(Cap - 1) : h[i] = Nil
FrontIsMin == n > 0 => \A x \in members : key[h[0]] <= key[x]
====
