---- MODULE Trace_SockStreamA ----
(* Tier-A trace validation for C10 (socket streams over the event engine), harness/h_sock.cpp.                         *)
(* The recorded syscall results are replayed as the ENVIRONMENT's choices; the specification checks                    *)
(*  - that each result is one the kernel model allows (a receive returns no more than what is in flight, in order and  *)
(*    with the position-coded content; 0 only at end of stream; a send accepts 1..n bytes),                            *)
(*  - the LIBRARY's reaction to it (transcribed from net/basic_socket.h doio_once / doio_loop / BufStep / BufStepV and  *)
(*    the stream classes of net/kernel_socket.cpp): EINTR -> the same call again, EAGAIN -> wait, then the same call   *)
(*    again or -1 with ETIMEDOUT (only with a finite timeout and only after it elapsed) or with the errno of an        *)
(*    interrupt issued to that thread; k>0 -> (loop operations) the next call names exactly the rest of the user's     *)
(*    buffers, empty elements skipped as BufStepV does; 0 -> end of stream,                                            *)
(*  - and the properties on every execution:                                                                           *)
(*      StreamExact        bytes handed to the kernel by a writer are the next positions of the flow, bytes received   *)
(*                         are the next positions of the flow (checksums by position), the user's buffer holds exactly *)
(*                         the bytes moved and nothing else was written; at quiescence received = sent for every flow  *)
(*      ReadWriteComplete  read/readv/write/writev return the full count, or the count moved when the stream ended,    *)
(*                         or -1 with the error                                                                        *)
(*      RecvSendBounds     recv/send return 1..n, 0 only at end of stream (or n = 0)                                    *)
(*      NoHangPastTimeout  a Hang event (the harness found a call that did not return) is not accepted; a call with a short    *)
(*                         stream timeout returns within timeout + 2 s even   though its partner withholds the data           *)
EXTENDS SockStreamOps, FiniteSets, TLC, Json, IOUtils
Tr == ndJsonDeserialize(IOEnv.TRACE)
P == 32749
ETIMEDOUT == 110
EAGAIN == 11
SLACK == 2000000
EINTR == 4
Min(a, b) == IF a < b THEN a ELSE b

(* ---- position code: byte i of flow f has the value (i + 17 f) % 251; checksum of k bytes = SUM (j+1) * byte_j mod P ---- *)
RECURSIVE WS(_, _, _)
WS(o, j0, k) == IF j0 >= k THEN 0 ELSE
   LET v0 == (o + j0) % 251
       m  == Min(251 - v0, k - j0)                 \* run without wrap-around of the byte value
       a  == (j0 + 1) % P
       s1 == (((m * a) % P) * v0) % P
       s2 == (((a + v0) % P) * (((m * (m - 1)) \div 2) % P)) % P
       s3 == (((m - 1) * m * (2 * m - 1)) \div 6) % P
   IN (s1 + s2 + s3 + WS(o, j0 + m, k)) % P
RECURSIVE WSB(_, _, _)            \* the same sum by halving, so that the evaluation depth stays small for long transfers
WSB(o, j0, k) == IF k - j0 <= 1500 THEN WS(o, j0, k)
                 ELSE LET mid == j0 + ((k - j0) \div 2) IN (WSB(o, j0, mid) + WSB(o, mid, k)) % P
Wsum(f, o, k) == WSB(o + 17 * f, 0, k)

VARIABLES l, sent, rcvd, shut, pend, intr
vars == <<l, sent, rcvd, shut, pend, intr>>
(* sent / rcvd : flow -> bytes (absent = 0);  shut : set of flows whose writer has shut down;  pend : thread -> call in progress *)
Empty == [x \in {} |-> 0]
G(fn, k) == IF k \in DOMAIN fn THEN fn[k] ELSE 0
Put(fn, k, v) == [x \in DOMAIN fn \cup {k} |-> IF x = k THEN v ELSE fn[x]]
Del(fn, k) == [x \in DOMAIN fn \ {k} |-> fn[x]]
Busy(f, rw) == \E u \in DOMAIN pend : pend[u].f = f /\ pend[u].rw = rw
Init == l = 1 /\ sent = Empty /\ rcvd = Empty /\ shut = {} /\ pend = Empty /\ intr = {} /\ TLCSet(1, 0)
Ev(e) == l <= Len(Tr) /\ Tr[l].e = e /\ l' = l + 1
R == Tr[l]
Reset == Ev("Reset") /\ sent' = Empty /\ rcvd' = Empty /\ shut' = {} /\ pend' = Empty /\ intr' = {}
Inv == /\ Ev("Inv") /\ R.t \notin DOMAIN pend
       /\ ~Busy(R.f, R.rw)                                                      \* one reader / one writer per flow
       /\ pend' = Put(pend, R.t, [op |-> R.op, f |-> R.f, rw |-> R.rw, loop |-> R.loop, vec |-> R.vec, iov |-> R.iov,
                                  n |-> R.n, to |-> R.to, moved |-> 0, st |-> "run", res |-> 0, err |-> 0, eof |-> FALSE,
                                  off0 |-> IF R.rw = 1 THEN G(sent, R.f) ELSE G(rcvd, R.f)])
       /\ UNCHANGED <<sent, rcvd, shut, intr>>
(* the kernel model: which results the environment may produce *)
LegalSend(f) == /\ f \notin shut
                /\ \/ R.r > 0 /\ R.r <= R.n /\ R.ck = Wsum(f, G(sent, f), R.r)
                   \/ R.r = 0 /\ R.n = 0
                   \/ R.r = -1
LegalRecv(f) == \/ R.r > 0 /\ R.r <= R.n /\ R.r <= G(sent, f) - G(rcvd, f) /\ R.ck = Wsum(f, G(rcvd, f), R.r)
                \/ R.r = 0 /\ (R.n = 0 \/ (f \in shut /\ G(sent, f) = G(rcvd, f)))
                \/ R.r = -1
Sys == /\ Ev("Sys") /\ R.t \in DOMAIN pend
       /\ LET t == R.t  p == pend[t]  f == R.f IN
          /\ p.st \in {"run", "retry", "again"}
          /\ R.k = p.rw /\ f = p.f
          /\ R.x = Expected(p)                                           \* retry / advance: exactly the rest of the user's buffers
          /\ IF R.k = 1 THEN LegalSend(f) ELSE LegalRecv(f)
          /\ LET k == IF R.r > 0 THEN R.r ELSE 0
                 mv == p.moved + k
                 q == [p EXCEPT !.moved = mv] IN
             /\ sent' = IF R.k = 1 /\ k > 0 THEN Put(sent, f, G(sent, f) + k) ELSE sent
             /\ rcvd' = IF R.k = 0 /\ k > 0 THEN Put(rcvd, f, G(rcvd, f) + k) ELSE rcvd
             /\ pend' = [pend EXCEPT ![t] =
                   IF R.r > 0 THEN (IF p.loop = 1 /\ mv < p.n THEN [q EXCEPT !.st = "run"]
                                    ELSE [q EXCEPT !.st = "done", !.res = IF p.loop = 1 THEN mv ELSE R.r])
                   ELSE IF R.r = 0 THEN [q EXCEPT !.st = "done", !.res = IF p.loop = 1 THEN mv ELSE 0, !.eof = (R.k = 0 /\ R.n > 0)]
                   ELSE IF R.en = EINTR THEN [q EXCEPT !.st = "retry"]
                   ELSE IF R.en = EAGAIN THEN [q EXCEPT !.st = "again"]
                   ELSE [q EXCEPT !.st = "done", !.res = -1, !.err = R.en]]
       /\ UNCHANGED <<shut, intr>>
Resp == /\ Ev("Resp") /\ R.t \in DOMAIN pend
        /\ LET t == R.t  p == pend[t] IN
           /\ p.op = R.op
           /\ \/ p.st = "done" /\ R.r = p.res /\ (R.r = -1 => R.en = p.err)
              \/ /\ p.st = "again" /\ R.r = -1                              \* the wait for readiness failed
                 /\ \/ R.en = ETIMEDOUT /\ p.to >= 0 /\ R.dt >= p.to          \* only with a timeout, only after it elapsed
                    \/ R.en # ETIMEDOUT /\ <<t, R.en>> \in intr               \* or interrupted by another thread
           \* NoHangPastTimeout: a call with a (short) stream timeout is back soon after it (the harness's partners withhold data until
           \* the call has returned; SLACK is a scheduling allowance of the same kind as the harness's Hang threshold, not a latency claim)
           /\ (p.to >= 0 /\ p.to < 1000000) => R.dt <= p.to + SLACK
           /\ R.m = p.moved
           /\ p.rw = 0 => (R.ck = Wsum(p.f, p.off0, p.moved) /\ R.clean = 1)  \* the user's buffer holds exactly the bytes moved
           \* RecvSendBounds
           /\ (p.loop = 0 /\ R.r >= 0) => (R.r <= p.n /\ (R.r = 0 => (p.n = 0 \/ p.eof)))
           \* ReadWriteComplete
           /\ (p.loop = 1 /\ R.r >= 0) => (R.r = p.n \/ (p.rw = 0 /\ p.eof /\ R.r = p.moved))
           /\ pend' = Del(pend, t)
        /\ UNCHANGED <<sent, rcvd, shut, intr>>
PeerWrite == /\ Ev("PeerWrite") /\ R.f \notin shut /\ R.r > 0
             /\ sent' = Put(sent, R.f, G(sent, R.f) + R.r) /\ UNCHANGED <<rcvd, shut, pend, intr>>
PeerRead == /\ Ev("PeerRead")
            /\ \/ R.r > 0 /\ R.r <= G(sent, R.f) - G(rcvd, R.f) /\ R.ck = Wsum(R.f, G(rcvd, R.f), R.r)
               \/ R.r = 0 /\ R.f \in shut /\ G(sent, R.f) = G(rcvd, R.f)
            /\ rcvd' = (IF R.r > 0 THEN Put(rcvd, R.f, G(rcvd, R.f) + R.r) ELSE rcvd) /\ UNCHANGED <<sent, shut, pend, intr>>
PeerShutdown == /\ Ev("PeerShutdown") /\ R.f \notin shut /\ ~Busy(R.f, 1)
                /\ shut' = shut \cup {R.f} /\ UNCHANGED <<sent, rcvd, pend, intr>>
Interrupt == /\ Ev("Interrupt") /\ intr' = intr \cup {<<R.t, R.en>>} /\ UNCHANGED <<sent, rcvd, shut, pend>>
Quiesce == /\ Ev("Quiesce") /\ pend = Empty
           /\ \A f \in 0..(Len(R.sent) - 1) : G(sent, f) = R.sent[f + 1] /\ G(rcvd, f) = R.rcvd[f + 1] /\ R.sent[f + 1] = R.rcvd[f + 1]   \* exactly once, nothing left
           /\ DOMAIN sent \subseteq 0..(Len(R.sent) - 1)
           /\ UNCHANGED <<sent, rcvd, shut, pend, intr>>
Next == Reset \/ Inv \/ Sys \/ Resp \/ PeerWrite \/ PeerRead \/ PeerShutdown \/ Interrupt \/ Quiesce
Spec == Init /\ [][Next]_vars
NotAccepted == l <= Len(Tr)
Progress == TLCSet(1, IF TLCGet(1) < l THEN l ELSE TLCGet(1))
Post == PrintT(<<"MAXL", TLCGet(1), Len(Tr)>>)
Brief == [l |-> l]          \* ALIAS: states of an (accepting) behaviour are printed as their position only
====
