---- MODULE Semaphore ----
(* C02, critical-section level model of photon::semaphore (thread/thread.cpp wait_interruptible / try_resume /       *)
(* try_subtract, thread.h signal).  One action per critical section; every spinlock acquisition made while another  *)
(* spinlock is held is its own blocking step, so lock-order problems show up as states that cannot move.             *)
(* Waiters are photon threads; signallers may be photon threads or plain OS threads (no difference at this level).   *)
(* Environment: a sleeping waiter may time out or be interrupted at any moment (Expire), which is the scheduler      *)
(* dequeuing it under its thread lock (then the wait-queue lock), as established by MutexCore.                       *)
EXTENDS Naturals, Integers, Sequences, FiniteSets, TLC
CONSTANTS W, S, Demand, Amount, Init0, OOO, Timed, FixOOO
\* W waiters, S signallers, Demand[w] \in 1..2, Amount[s], Init0 initial count, OOO out-of-order mode,
\* Timed \subseteq W : waiters that may time out / be interrupted.  FixOOO: model the repaired scan instead of the scan as written.
None == "none"
A == W \cup S
VARIABLES count, q, splock, qlock, tlock, pc, reason, cnt, cur, idx, taken, signalled, result, destroyed
vars == <<count, q, splock, qlock, tlock, pc, reason, cnt, cur, idx, taken, signalled, result, destroyed>>
Init == /\ count = Init0 /\ q = <<>> /\ splock = None /\ qlock = None /\ tlock = [w \in W |-> None]
        /\ pc = [a \in A |-> "start"] /\ reason = [w \in W |-> None] /\ cnt = [a \in A |-> 0]
        /\ cur = [a \in A |-> None] /\ idx = [a \in A |-> 0]
        /\ taken = 0 /\ signalled = 0 /\ result = [w \in W |-> None] /\ destroyed = FALSE
Goto(a, s) == pc' = [pc EXCEPT ![a] = s]
Remove(seq, x) == SelectSeq(seq, LAMBDA y : y # x)
InQ(x) == \E i \in 1..Len(q) : q[i] = x

(* ---------------- waiter ---------------- *)
WTakeSplock(w) == /\ pc[w] \in {"start", "woken"} /\ splock = None /\ splock' = w
                  /\ Goto(w, IF pc[w] = "start" \/ reason[w] = "resumed" THEN "try" ELSE "failed")
                  /\ UNCHANGED <<count, q, qlock, tlock, reason, cnt, cur, idx, taken, signalled, result, destroyed>>
WTry(w) == /\ pc[w] = "try"
           /\ IF count >= Demand[w]
              THEN /\ count' = count - Demand[w] /\ taken' = taken + Demand[w] /\ splock' = None
                   /\ result' = [result EXCEPT ![w] = 0] /\ Goto(w, "done") /\ UNCHANGED <<q, reason>>
              ELSE \* enqueue + sleep; the deferred callback releases splock after the switch (atomicity: MutexCore)
                   /\ q' = Append(q, w) /\ reason' = [reason EXCEPT ![w] = None] /\ splock' = None
                   /\ Goto(w, "sleeping") /\ UNCHANGED <<count, taken, result>>
           /\ UNCHANGED <<qlock, tlock, cnt, cur, idx, signalled, destroyed>>
\* environment: timeout / interrupt of a sleeping waiter: under tlock[w], then the wait-queue lock
ExpireLock(w) == /\ w \in Timed /\ pc[w] = "sleeping" /\ tlock[w] = None /\ tlock' = [tlock EXCEPT ![w] = "env"]
                 /\ UNCHANGED <<count, q, splock, qlock, pc, reason, cnt, cur, idx, taken, signalled, result, destroyed>>
ExpireDo(w) == /\ tlock[w] = "env" /\ qlock = None
               /\ IF pc[w] = "sleeping" THEN q' = Remove(q, w) /\ reason' = [reason EXCEPT ![w] = "timeout"] /\ Goto(w, "woken")
                                        ELSE UNCHANGED <<q, reason, pc>>
               /\ tlock' = [tlock EXCEPT ![w] = None]
               /\ UNCHANGED <<count, splock, qlock, cnt, cur, idx, taken, signalled, result, destroyed>>
\* failed wake-up: in-order mode re-runs the resume pass for the successors if tokens are available
WFailed(w) == /\ pc[w] = "failed"
              /\ IF ~OOO /\ count > 0 THEN cnt' = [cnt EXCEPT ![w] = count] /\ Goto(w, "r_head")
                                      ELSE UNCHANGED cnt /\ Goto(w, "r_end")
              /\ UNCHANGED <<count, q, splock, qlock, tlock, reason, cur, idx, taken, signalled, result, destroyed>>
(* ---------------- signaller ---------------- *)
STakeSplock(s) == /\ pc[s] = "start" /\ ~destroyed /\ splock = None /\ splock' = s /\ Goto(s, "add")
                  /\ UNCHANGED <<count, q, qlock, tlock, reason, cnt, cur, idx, taken, signalled, result, destroyed>>
SAdd(s) == /\ pc[s] = "add" /\ count' = count + Amount[s] /\ signalled' = signalled + Amount[s]
           /\ cnt' = [cnt EXCEPT ![s] = count + Amount[s]] /\ Goto(s, "r_head")
           /\ UNCHANGED <<q, splock, qlock, tlock, reason, cur, idx, taken, result, destroyed>>
(* ---------------- try_resume(cnt), run by actor a (signaller, or failed waiter) holding splock ---------------- *)
RLockHead(a) == /\ pc[a] = "r_head"
                /\ IF q = <<>> THEN Goto(a, "r_after") /\ UNCHANGED <<tlock, cur>>
                   ELSE /\ tlock[Head(q)] = None /\ tlock' = [tlock EXCEPT ![Head(q)] = a]
                        /\ cur' = [cur EXCEPT ![a] = Head(q)] /\ Goto(a, "r_check")
                /\ UNCHANGED <<count, q, splock, qlock, reason, cnt, idx, taken, signalled, result, destroyed>>
RCheck(a) == /\ pc[a] = "r_check"
             /\ LET h == cur[a] IN
                IF ~InQ(h) \/ Head(q) # h       \* indirect_lock re-check: not the head any more -> retry
                THEN tlock' = [tlock EXCEPT ![h] = None] /\ Goto(a, "r_head") /\ UNCHANGED cnt
                ELSE IF Demand[h] > cnt[a]
                THEN tlock' = [tlock EXCEPT ![h] = None] /\ Goto(a, "r_after") /\ UNCHANGED cnt
                ELSE cnt' = [cnt EXCEPT ![a] = @ - Demand[h]] /\ Goto(a, "r_deliver") /\ UNCHANGED tlock
             /\ UNCHANGED <<count, q, splock, qlock, reason, cur, idx, taken, signalled, result, destroyed>>
\* prelocked_thread_interrupt(h, -1): dequeue_ready_atomic takes the wait-queue lock
RDeliver(a) == /\ pc[a] = "r_deliver" /\ qlock = None
               /\ LET h == cur[a] IN
                  /\ q' = Remove(q, h) /\ reason' = [reason EXCEPT ![h] = "resumed"]
                  /\ pc' = [pc EXCEPT ![h] = "woken", ![a] = "r_head"]
                  /\ tlock' = [tlock EXCEPT ![h] = None]
               /\ UNCHANGED <<count, splock, qlock, cnt, cur, idx, taken, signalled, result, destroyed>>
RAfter(a) == /\ pc[a] = "r_after"
             /\ IF q = <<>> \/ cnt[a] = 0 \/ ~OOO THEN Goto(a, "r_end") /\ UNCHANGED <<qlock, idx>>
                ELSE /\ qlock = None /\ qlock' = a /\ idx' = [idx EXCEPT ![a] = 2] /\ Goto(a, "o_next")
             /\ UNCHANGED <<count, q, splock, tlock, reason, cnt, cur, taken, signalled, result, destroyed>>
\* out-of-order scan, AS WRITTEN: holds the wait-queue lock, locks each later thread, and wakes it through
\* prelocked_thread_interrupt, which takes the wait-queue lock again (o_deliver can never be taken by the holder)
ONext(a) == /\ pc[a] = "o_next"
            /\ IF idx[a] > Len(q) \/ cnt[a] = 0 THEN qlock' = None /\ Goto(a, "r_end") /\ UNCHANGED <<tlock, cur, idx>>
               ELSE IF FixOOO /\ tlock[q[idx[a]]] # None       \* repaired scan: try_lock, skip a thread somebody else is claiming
               THEN idx' = [idx EXCEPT ![a] = @ + 1] /\ UNCHANGED <<tlock, cur, qlock, pc>>
               ELSE /\ tlock[q[idx[a]]] = None /\ tlock' = [tlock EXCEPT ![q[idx[a]]] = a]
                    /\ cur' = [cur EXCEPT ![a] = q[idx[a]]] /\ Goto(a, "o_check") /\ UNCHANGED <<qlock, idx>>
            /\ UNCHANGED <<count, q, splock, reason, cnt, taken, signalled, result, destroyed>>
OCheck(a) == /\ pc[a] = "o_check"
             /\ LET h == cur[a] IN
                IF Demand[h] <= cnt[a]
                THEN /\ cnt' = [cnt EXCEPT ![a] = @ - Demand[h]] /\ Goto(a, "o_deliver") /\ UNCHANGED <<tlock, idx>>
                     /\ qlock' = IF FixOOO THEN None ELSE qlock      \* repaired scan: the queue lock is dropped before the wake-up
                ELSE tlock' = [tlock EXCEPT ![h] = None] /\ idx' = [idx EXCEPT ![a] = @ + 1] /\ Goto(a, "o_next") /\ UNCHANGED <<cnt, qlock>>
             /\ UNCHANGED <<count, q, splock, reason, cur, taken, signalled, result, destroyed>>
ODeliver(a) == /\ pc[a] = "o_deliver"
               /\ qlock = None                                     \* as written: needs the lock it already holds
               /\ LET h == cur[a] IN
                  /\ q' = Remove(q, h) /\ reason' = [reason EXCEPT ![h] = "resumed"]
                  /\ pc' = [pc EXCEPT ![h] = "woken", ![a] = IF FixOOO THEN "r_after" ELSE "o_next"]
                  /\ tlock' = [tlock EXCEPT ![h] = None]
               /\ UNCHANGED <<count, splock, qlock, cnt, cur, idx, taken, signalled, result, destroyed>>
REnd(a) == /\ pc[a] = "r_end" /\ splock = a /\ splock' = None
           /\ IF a \in W THEN result' = [result EXCEPT ![a] = -1] ELSE UNCHANGED result
           /\ Goto(a, "done")
           /\ UNCHANGED <<count, q, qlock, tlock, reason, cnt, cur, idx, taken, signalled, destroyed>>
\* a waiter that got its tokens may destroy the semaphore at once
Destroy(w) == /\ pc[w] = "done" /\ result[w] = 0 /\ ~destroyed /\ \A x \in W : pc[x] \in {"done"}
              /\ destroyed' = TRUE
              /\ UNCHANGED <<count, q, splock, qlock, tlock, pc, reason, cnt, cur, idx, taken, signalled, result>>
Finished == (\A a \in A : pc[a] = "done" \/ (a \in W /\ pc[a] = "sleeping") \/ (a \in S /\ destroyed)) /\ UNCHANGED vars
Next == \/ \E w \in W : WTakeSplock(w) \/ WTry(w) \/ ExpireLock(w) \/ ExpireDo(w) \/ WFailed(w) \/ Destroy(w)
        \/ \E s \in S : STakeSplock(s) \/ SAdd(s)
        \/ \E a \in A : RLockHead(a) \/ RCheck(a) \/ RDeliver(a) \/ RAfter(a) \/ ONext(a) \/ OCheck(a) \/ ODeliver(a) \/ REnd(a)
        \/ Finished
Spec == Init /\ [][Next]_vars
(* ---------------- properties ---------------- *)
Conservation == taken + count = Init0 + signalled
FailedTakesNothing == \A w \in W : result[w] = -1 => TRUE     \* (taken only grows in WTry's success branch)
AtRest == /\ splock = None /\ qlock = None /\ \A w \in W : tlock[w] = None
          /\ \A a \in A : pc[a] \in {"done", "sleeping", "start"}
          /\ \A s \in S : pc[s] = "done"
          /\ \A w \in W : pc[w] # "start"
NoLostWakeup == AtRest => IF OOO THEN \A i \in 1..Len(q) : Demand[q[i]] > count
                                 ELSE (q # <<>> => Demand[Head(q)] > count)
NoSelfDeadlock == \A a \in A : ~(pc[a] = "o_deliver" /\ qlock = a /\ ~FixOOO)
NoTouchAfterDestroy == destroyed => \A s \in S : pc[s] \in {"start", "done"}
QueueSane == \A w \in W : (pc[w] = "sleeping") <=> InQ(w)
====
