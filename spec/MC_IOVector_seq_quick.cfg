SPECIFICATION Spec
CONSTANTS
  MaxEl = 2
  MaxLen = 1
  OtherEl = 1
  OtherLen = 1
  Depth = 2
  KF = {}
INVARIANT Correct
CHECK_DEADLOCK FALSE
