SPECIFICATION MCSpec
CONSTANTS
  Msgs <- MsgsQuick
  MaxParts = 2
  MaxDev = 2
  Modes <- ModesAll
  KF_NestedAligned = FALSE
  KF_MapSlices = FALSE
  KF_FixedLen = FALSE
  KF_ArrayWalk = FALSE
INVARIANTS RoundTrip HostileContained ChecksumRejects NoCrash FuncAgree IdsInjective
CHECK_DEADLOCK FALSE
