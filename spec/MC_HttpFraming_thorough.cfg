\* C13 valid scope (thorough): whole messages, body streams, writers; every cut set of at most 2 cuts + one byte per recv
SPECIFICATION Spec
CONSTANTS
  MaxTransfer = 4096
  ReservedIndex = 1024
  LineBuf = 4096
  KF = {}
  Scope = "valid-thorough"
  Msgs <- ScopeMsgs
  MaxCuts = 2
  Bytewise = TRUE
  ReadSizes = {1, 2, 5, 1000000}
  Cap = 65535
  Stales = {0}
INVARIANTS ScopeValid FragmentationIndependent BodyExactThenEOF BodyPrefix WriterReaderRoundTrip MalformedTerminates InBounds
CHECK_DEADLOCK FALSE
