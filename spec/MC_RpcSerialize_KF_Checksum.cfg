\* documents finding: with the deviation KF_Checksum (the code as shipped) TLC reports ChecksumRejects violated
SPECIFICATION MCSpec
CONSTANTS
  Msgs <- MsgsKF
  MaxParts = 2
  MaxPartsH = 2
  MaxDev = 1
  Modes = {"altered"}
  KF_NestedAligned = FALSE
  KF_MapSlices = FALSE
  KF_FixedLen = FALSE
  KF_ArrayWalk = FALSE
  KF_Checksum = TRUE
INVARIANTS ChecksumRejects
CHECK_DEADLOCK FALSE
