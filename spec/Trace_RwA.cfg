SPECIFICATION Spec
INVARIANTS WriterExclusive NotAccepted
CONSTRAINT Progress
POSTCONDITION Post
CHECK_DEADLOCK FALSE
