\* unbuffered, AS WRITTEN: must violate DeliveredExactlyOnce (finding F3: hand-off slot overwritten)
SPECIFICATION Spec
CONSTANTS
  Cap = 0
  S = {"s1", "s2"}
  R = {"r1", "r2"}
  NV = 1
  NR = 1
  SKinds = {"inf"}
  RKinds = {"inf"}
  WithClose = FALSE
  KF = {"F3", "LW", "CL", "DR"}
INVARIANTS TypeOK DeliveredExactlyOnce PerSenderOrder FalseOnlyOnCloseOrTimeout DrainAfterClose ReleasedWhenPartnerExists ReleasedOnClose
CHECK_DEADLOCK FALSE
