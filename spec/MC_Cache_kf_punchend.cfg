\* known finding C17a in the model AS WRITTEN: an evict-to-end at a block boundary past the end extends the media file; the next pool instance
\* takes that size: a read then reaches beyond the source (NeverBeyondSize) and returns zero bytes / fails (ReadsEqualSource).  Must be violated.
SPECIFICATION Spec
CONSTANTS
  NF = 1
  SZ = 7
  BLK = 2
  RU = 2
  Readers = {r1, r2}
  r1 = r1
  r2 = r2
  ReadSet <- RS_p
  NReads = 2
  MaxEv = 0
  Async = FALSE
  MaxRefilling = 2
  Faults = 0
  Fiemap = FALSE
  CapFull = FALSE
  ReopenMax = 1
  PunchMax = 1
  PunchGuard = FALSE
  Bug = "none"
SYMMETRY Sym
INVARIANTS ReadsEqualSource FailedSourceNeverWrongBytes NeverBeyondSize MediaOnlyCorrectOrHole RefillDedup RangeLockDisjoint RefillingCount LocksAtRest
