SPECIFICATION Spec
CONSTANTS
  t1 = t1
  t2 = t2
  t3 = t3
  Threads = {t1, t2, t3}
  Keys = {1}
  MaxAcq = 1
  MaxItems = 4
  Lifespan = 0
  MaxNow = 2
  CoolDowns = {0, 1}
  NumLimit = 99
  ByKey = TRUE
  Bug = "none"
  Ghost = TRUE
SYMMETRY Perm3
INVARIANTS W_Expired
