---- MODULE Trace_SleepHeapB ----
(* Tier-B conformance for the sleep queue (C04): after every SleepQueue::push / pop_front / pop the guarded hook dumps   *)
(* the heap array as [thread id, wake-up time (-1 = never), back index].  Every dump must satisfy the invariants that   *)
(* SleepHeap.tla proves of the transcribed algorithm (heap order, back index = position, size) and the operation's own   *)
(* post-condition (pushed element present, popped element absent).  Several valid heaps exist for one set, so the array  *)
(* itself is not compared.  One line per dump; mismatching lines are printed.                                            *)
EXTENDS Naturals, Integers, Sequences, FiniteSets, TLC, Json, IOUtils
Tr == ndJsonDeserialize(IOEnv.TRACE)
VARIABLE l
K(x) == IF x < 0 THEN 2000000000 ELSE x           \* -1 = never
Problems(r) ==
  IF r.e # "hHeap" THEN {} ELSE
  LET a == r.a  n == Len(a) IN
      (IF n # r.n THEN {"size after the operation differs from the array length"} ELSE {})
 \cup (IF \E i \in 2..n : K(a[i][2]) < K(a[((i - 2) \div 2) + 1][2]) THEN {"heap order violated"} ELSE {})
 \cup (IF \E i \in 1..n : a[i][3] # i - 1 THEN {"back index does not equal the position"} ELSE {})
 \cup (IF \E i, j \in 1..n : i # j /\ a[i][1] = a[j][1] /\ a[i][1] > 0 THEN {"thread twice in the heap"} ELSE {})
 \cup (IF r.op = 0 /\ r.t > 0 /\ ~\E i \in 1..n : a[i][1] = r.t THEN {"pushed thread not in the heap"} ELSE {})
 \cup (IF r.op \in {1, 2} /\ r.t > 0 /\ \E i \in 1..n : a[i][1] = r.t THEN {"popped thread still in the heap"} ELSE {})
 \cup (IF r.op \in {1, 2} /\ r.tidx # -1 THEN {"back index of the popped thread is not reset (-1 = in no sleep queue)"} ELSE {})
 \cup (IF r.op = 0 /\ (r.tidx < 0 \/ r.tidx >= n) THEN {"back index of the pushed thread is not a slot of the heap"} ELSE {})
Init == l = 1
Next == /\ l <= Len(Tr)
        /\ LET p == Problems(Tr[l]) IN IF p = {} THEN TRUE ELSE PrintT("MISMATCH " \o ToString(l) \o " " \o ToString(p))
        /\ l' = l + 1
Spec == Init /\ [][Next]_l
NotAccepted == l <= Len(Tr)
====
