SPECIFICATION FairSpec
CONSTANTS
  StaleReasons = FALSE
  MaxFires = 2
  Repeating = TRUE
INVARIANTS DtorCancelsPending CancelMeansNoFire
PROPERTY DtorTerminates
