---- MODULE MC_WorkPool ----
EXTENDS WorkPool
CONSTANTS w1, w2, w3, s1, s2
\* submitter s1 = a photon thread (PhotonContext awaiter = semaphore), s2 = a plain OS thread (StdContext awaiter = promise)
C(t, c) == [op |-> "call", t |-> t, ctx |-> c]
A(t) == [op |-> "async", t |-> t, ctx |-> "none"]
\* 3 tasks: a burst of 3 > ring of 2
Prog3a == (s1 :> <<C(1, "photon"), A(2)>>) @@ (s2 :> <<A(3)>>)
Prog3b == (s1 :> <<A(1), A(2)>>) @@ (s2 :> <<C(3, "std")>>)
\* 4 tasks
Prog4a == (s1 :> <<C(1, "photon"), A(2)>>) @@ (s2 :> <<A(3), C(4, "std")>>)
Prog4b == (s1 :> <<A(1), A(2), A(3)>>) @@ (s2 :> <<C(4, "std")>>)
\* tiny (liveness)
Prog2 == (s1 :> <<C(1, "photon")>>) @@ (s2 :> <<A(2)>>)
Modes == {"inline", "thread", "pooled"}
CfgQuick == {MkCfg(m, "none", Prog3b) : m \in Modes}
CfgQuickA == {MkCfg(m, "none", Prog3a) : m \in Modes}
CfgThorough4b == {MkCfg(m, "none", Prog4b) : m \in Modes}
CfgThorough4a == {MkCfg(m, "none", Prog4a) : m \in Modes}
CfgLive == {MkCfg(m, "none", Prog2) : m \in Modes}
\* deliberately broken variants; each must violate the property named in checks/c08.py
CfgWitness == {MkCfg("thread", "late_copy", Prog2), MkCfg("thread", "no_yield_to", Prog2), MkCfg("pooled", "no_yield_to", Prog2),
               MkCfg("thread", "no_drain", Prog2), MkCfg("pooled", "no_drain", Prog2), MkCfg("thread", "resume_early", Prog2),
               MkCfg("inline", "resume_early", Prog2), MkCfg("inline", "marker_short", Prog2), MkCfg("inline", "no_delete", Prog2)}
CfgWitnessQ == {MkCfg("thread", "late_copy", Prog2), MkCfg("pooled", "no_yield_to", Prog2), MkCfg("thread", "no_drain", Prog2),
                MkCfg("inline", "resume_early", Prog2), MkCfg("inline", "marker_short", Prog2), MkCfg("inline", "no_delete", Prog2)}
Sym == Permutations({w1, w2})
Sym3 == Permutations({w1, w2, w3})
====
