---- MODULE MC_WorkPool ----
EXTENDS WorkPool
CONSTANTS w1, w2, s1, s2
\* submitter s1 = a photon thread (PhotonContext awaiter = semaphore), s2 = a plain OS thread (StdContext awaiter = promise)
C(t, c) == [op |-> "call", t |-> t, ctx |-> c]
A(t) == [op |-> "async", t |-> t, ctx |-> "none"]
\* 3 tasks: burst of 3 > ring of 2; the call is first, in the middle or last
Prog3a == (s1 :> <<C(1, "photon"), A(2)>>) @@ (s2 :> <<A(3)>>)
Prog3b == (s1 :> <<A(1), A(2)>>) @@ (s2 :> <<C(3, "std")>>)
\* 4 tasks
Prog4a == (s1 :> <<C(1, "photon"), A(2)>>) @@ (s2 :> <<A(3), C(4, "std")>>)
Prog4b == (s1 :> <<A(1), A(2), A(3)>>) @@ (s2 :> <<C(4, "std")>>)
\* tiny (liveness)
Prog2 == (s1 :> <<C(1, "photon")>>) @@ (s2 :> <<A(2)>>)
Sym == Permutations({w1, w2})
====
