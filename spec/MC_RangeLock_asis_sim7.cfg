\* C18 RangeLock as written, word 0..7 (44 ranges): random behaviours (tlc -simulate) on the region outside the recorded findings, not exhaustive.
SPECIFICATION Spec
CONSTANTS
  MAXU = 7
  Offs = {0,1,2,3,4,5,6,7}
  Lens = {0,1,2,3,4,5,6,7,8}
  Threads = {t1,t2,t3}
  t1 = t1
  t2 = t2
  t3 = t3
  MaxOps = 2
  Kinds = {"lock","try2","try1"}
  MaxIntr = 0
  FixEmpty = TRUE
  FixAdjust = TRUE
  Broken = "none"
  OnlyNonEmpty = FALSE
CHECK_DEADLOCK FALSE
INVARIANTS TypeOK HeldDisjoint IndexOrdered LookupExact IndexIsHeld WaiterAttached NoStaleWaiter NoStuck
