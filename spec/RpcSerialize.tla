--------------------------- MODULE RpcSerialize ---------------------------
(* C12: step machine of DeserializerIOV::deserialize over every message, every  *)
(* partition of its serialization into iovec elements and every hostile          *)
(* assignment of wire words in scope; explored exhaustively by TLC.              *)
(* One step = one process_field() call (a claim from the front of the input).    *)
EXTENDS RpcSerializeOps

CONSTANTS Msgs,        \* set of messages (schema instances) in scope
          MaxParts,    \* input is cut into 1..MaxParts iovec elements, at every cut position (empty elements included)
          MaxPartsH,   \* the same for the hostile / altered modes
          MaxDev,      \* hostile mode: at most MaxDev wire words deviate from what an honest sender writes
          Modes        \* subset of {"honest", "hostile", "hostileSL", "altered", "short"}
VARIABLES msg, part, mode, W, SL, alt, st, pc, body, dev, ord
vars == <<msg, part, mode, W, SL, alt, st, pc, body, dev, ord>>

Partitions(N, P) ==
  {<<N>>} \cup (IF P >= 2 THEN {<<c, N - c>> : c \in 0..N} ELSE {})
          \cup (IF P >= 3 THEN {<<c[1], c[2] - c[1], N - c[2]>> : c \in {x \in (0..N) \X (0..N) : x[1] <= x[2]}} ELSE {})

\* hostile values for one wire word: relative to what is left in the input when the word is used
HostileVals(rem, n) == {v \in {0, 1, rem - 1, rem, rem + 1, MAXW, n} : v >= 0}
\* element-bearing words: the number of elements stays within what the sender wrote (the words of further
\* "elements" would be arbitrary bytes of other fields) unless the claim fails anyway
Allowed(L, w, rem) == L.k \in {"arrm", "idx"} => (w \div L.es <= L.n \div L.es \/ w > rem)

\* hostile slices: one word, or one (offset, length) pair, of one entry deviates
OffVals(B) == {0, 1, B - 1, B, B + 1, MAXW, -1}
LenVals(B) == {v \in {0, 1, B - 1, B, B + 1, MAXW} : v >= 0}
HostileSLs(sl, B) ==
  {[sl EXCEPT ![e] = <<o, n, sl[e][3], sl[e][4]>>] : e \in 1..Len(sl), o \in OffVals(B), n \in LenVals(B)}
  \cup {[sl EXCEPT ![e] = <<sl[e][1], sl[e][2], o, n>>] : e \in 1..Len(sl), o \in OffVals(B), n \in LenVals(B)}

Start(p, md, sl, a) ==
  LET m == msg  b == BackCont(PartEls(p), m.S) IN
  /\ part' = p /\ mode' = md /\ SL' = sl /\ alt' = a /\ W' = HonestW(m) /\ dev' = 0 /\ ord' = Order(m)
  /\ body' = R(b.where, b.pos, m.S)
  /\ st' = IF b.ok THEN InitSt(m, b.els) ELSE [InitSt(m, <<>>) EXCEPT !.failed = TRUE]
  /\ pc' = IF ~b.ok \/ (m.ck /\ a >= 0 /\ Covered(b.els, b.pos, m.S, a)) THEN 0 ELSE 1   \* 0: refused before any field
  /\ UNCHANGED msg

\* initial states: one per message; the first step picks mode, partition, hostile slices, altered byte
\* (kept out of Init so that TLC's workers share the enumeration)
MCInit ==
  /\ msg \in Msgs
  /\ pc = -2 /\ part = <<>> /\ mode = "" /\ SL = <<>> /\ alt = -1 /\ W = <<>> /\ dev = 0 /\ ord = <<>>
  /\ body = Unset /\ st = InitStN(0, <<>>)
Setup ==
  /\ pc = -2
  /\ \E md \in Modes :
     IF md = "short" THEN \E n \in {0, msg.S - 1} : \E p \in Partitions(n, 2) : Start(p, md, HonestSL(msg), -1)
     \* (slices are judged after the last claim, whatever the partition: one element is enough there)
     ELSE \E p \in Partitions(FlatLen(msg), IF md = "honest" THEN MaxParts ELSE IF md = "hostileSL" THEN 1 ELSE MaxPartsH) :
        IF md = "altered" THEN msg.ck /\ \E a \in 0..(FlatLen(msg) - 1) : Start(p, md, HonestSL(msg), a)
        ELSE IF md = "hostileSL"
        THEN (HasMap(msg) /\ \E sl \in HostileSLs(HonestSL(msg), HonestW(msg)[MapIdx(msg) + 1]) : Start(p, md, sl, -1))
        ELSE Start(p, md, HonestSL(msg), -1)

StepField ==
  /\ pc \in 1..Len(ord)
  /\ LET L == ord[pc]  rem == SumEls(st.els) IN
     \E w \in (IF mode \in {"hostile", "hostileSL"} /\ dev < MaxDev /\ (mode = "hostile" \/ L.k \in {"idx", "base"})
               THEN HostileVals(rem, L.n) ELSE {L.n}) :
        /\ Allowed(L, w, rem)
        /\ W' = [W EXCEPT ![L.wi] = w]
        /\ dev' = IF w = L.n THEN dev ELSE dev + 1
        /\ st' = StepLeaf(st, L, W')
  /\ pc' = pc + 1
  /\ UNCHANGED <<msg, part, mode, SL, alt, body, ord>>
StepFinish ==
  /\ pc = Len(ord) + 1
  /\ st' = Finish(msg, st, W, SL)
  /\ pc' = -1
  /\ UNCHANGED <<msg, part, mode, W, SL, alt, body, dev, ord>>
MCNext == Setup \/ StepField \/ StepFinish
MCSpec == MCInit /\ [][MCNext]_vars

Done == pc \in {0, -1}
D == [out |-> IF pc = 0 THEN "fail" ELSE Outcome(st), body |-> body, res |-> IF pc = 0 THEN <<>> ELSE st.res]

\* ---- the property, on the design ----
RoundTrip        == (Done /\ mode = "honest") => (RoundTripBad(msg, D) = {} /\ RoundTripIdsOK(msg, D))
HostileContained == (Done /\ mode \in {"hostile", "hostileSL", "short"}) => HostileBad(msg, W, SL, part, D) = {}
ChecksumRejects  == (Done /\ mode = "altered" /\ msg.ck) => D.out = "fail"
\* no step ever crashes, whatever the words
NoCrash          == ~st.crashed
\* step machine = functional version (the functional version judges recorded executions of the real code)
FuncAgree        == Done => D = Deser(msg, W, SL, part, alt)
\* the flat serialization is a bijection onto byte ids (so "same position" and "same bytes" coincide)
IdsInjective     == (pc = 1 /\ mode = "honest") =>
                      LET ids == FlatIds(msg) IN Len(ids) = FlatLen(msg) /\ Cardinality({ids[i] : i \in 1..Len(ids)}) = Len(ids)
=============================================================================
