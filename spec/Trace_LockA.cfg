SPECIFICATION Spec
INVARIANTS MutualExclusion NotAccepted
CONSTRAINT Progress
POSTCONDITION Post
CHECK_DEADLOCK FALSE
