---- MODULE Trace_RpcSerialize ----
(* Judges the real code's recorded cases (harness/h_serialize.cpp, one ndjson line per case) with the C12      *)
(* reference operators (RoundTripBad, HostileBad, checksum) and against the transcribed Deserialize.          *)
(* Every mismatching line is printed as "MISMATCH <line> <set>"; the trace is accepted (NotAccepted violated) *)
(* when every line was consumed.                                                                              *)
(* Classify = TRUE (used with exactly one KF_ switch enabled on the lines that mismatched): a line is quiet   *)
(* iff the real code did exactly what the specification WITH that deviation does, i.e. the mismatch is the    *)
(* known finding and nothing else.                                                                            *)
EXTENDS RpcSerializeOps, Json, IOUtils
CONSTANT Classify
Tr == ndJsonDeserialize(IOEnv.TRACE)
VARIABLE l

CodeName(c) == CASE c = 0 -> "in" [] c = 1 -> "copy" [] c = 2 -> "empty" [] c = 3 -> "null" [] c = 4 -> "wire" [] OTHER -> "unset"
Conv(x) == IF x[1] = 5 THEN [where |-> "iov", pos |-> 0, len |-> x[3], pieces |-> [k \in 1..Len(x[4]) |-> El(x[4][k][1], x[4][k][2])]]
           ELSE [where |-> CodeName(x[1]), pos |-> x[2], len |-> x[3], pieces |-> <<>>]
Real(r) == [out |-> r.out, body |-> R(CodeName(r.body[1]), r.body[2], r.S), res |-> [i \in 1..Len(r.res) |-> Conv(r.res[i])]]
MsgOf(r) == [ck |-> r.ck, S |-> r.S, fs |-> r.sch]

NormP(ps) == [k \in 1..Len(ps) |-> IF ps[k].n = 0 THEN El(0, 0) ELSE ps[k]]     \* an empty piece has no position
\* recorded result a = model result m.  Whether a field is handed out as a pointer into the input or as a copy is the
\* implementation's choice (the property only needs the right bytes, contiguous): "in" and "copy" are not told apart
Kind(w) == IF w = "copy" THEN "in" ELSE w
SameRes(a, m) ==
  /\ Kind(a.where) = Kind(m.where)
  /\ a.where \in {"in", "copy", "wire", "iov"} => a.len = m.len
  /\ a.where = "in" => a.pos = m.pos
  /\ a.where = "copy" => (a.pos = m.pos \/ a.pos = -2)
  /\ a.where = "iov" => NormP(a.pieces) = NormP(m.pieces)
\* words of array elements / index slices are logged from their honest place in the bytes: the model's
\* prediction is exact only if the array (index) is claimed from exactly there
\* (the slices are also logged as the receiver has them, SLr, once the index was delivered)
SLof(r) == IF "SLr" \in DOMAIN r THEN r.SLr ELSE r.SL
Exact(cx, d, r) ==
  LET dfs == cx.dfs  sp == cx.sp  W == r.W IN
  d.res = <<>> \/ \A i \in 1..Len(dfs) :
     (dfs[i].k \in (IF "SLr" \in DOMAIN r THEN {"arrm"} ELSE {"arrm", "idx"}) /\ W[i] \div dfs[i].es > 0 /\ d.res[i].where \in {"in", "copy"})
        => d.res[i].pos = sp[i]
Transcription(r, cx, d) ==
  LET real == Real(r) IN
  IF ~Exact(cx, d, r) THEN {}
  ELSE IF r.out # d.out THEN {"differs from the transcribed deserialize: outcome " \o r.out \o " / model " \o d.out}
  ELSE IF r.out # "ok" \/ r.mode = "alter" THEN {}      \* (an altered message only has to be refused: fields not recorded)
  ELSE (IF ~SameRes(real.body, d.body) THEN {"differs from the transcribed deserialize: body"} ELSE {})
       \cup {"differs from the transcribed deserialize: field " \o ToString(i) : i \in {j \in 1..Len(d.res) : ~SameRes(real.res[j], d.res[j])}}

\* copies made by the deserializer lie inside the allocation they were given, and hold bytes of the input
CopyProblems(r) ==
  {"copy of field " \o ToString(i) \o " exceeds its buffer or holds other bytes" :
      i \in {j \in 1..Len(r.res) : r.res[j][1] = 1 /\ (r.res[j][4] < 0 \/ r.res[j][2] = -1)}}

\* sorted_map: every entry (in index order) resolves to the sender's key / value, every key is found where it is
MapProblems(r, msg, cx) ==
  IF ~HasMapOf(cx.dfs) THEN {}
  ELSE LET sls == HonestSL(msg)
           want == [i \in 1..Len(sls) |-> <<sls[i][1], sls[i][2], r.lke[i][1], IF r.lke[i][2] = 0 THEN -1 ELSE sls[i][3], r.lke[i][2], r.lke[i][3]>>]
       IN (IF r.lk # want THEN {"map entries differ from what was sent"} ELSE {})
          \cup (IF r.fd # [i \in 1..(Len(sls) + 1) |-> i - 1] THEN {"map find() does not locate the keys"} ELSE {})

\* what does not depend on any deviation of the deserializer: the sender side (length and wire words of the serialization),
\* fixed fields, map content, copies
Content(r, msg, cx) ==
  (IF r.mode = "rt"
   THEN (IF r.N # SumLens(cx.ord, Len(cx.ord)) + cx.S THEN {"serialized length differs from the fields' lengths (a field was not serialized)"} ELSE {})
        \cup (IF r.W # [i \in 1..Len(cx.dfs) |-> cx.dfs[i].n] THEN {"wire words differ from the fields' lengths"} ELSE {})
        \cup (IF r.out = "ok" /\ r.fx # r.fxe THEN {"round trip: fixed fields differ"} ELSE {})
        \cup (IF r.out = "ok" THEN MapProblems(r, msg, cx) ELSE {})
   ELSE {})
  \cup (IF r.mode # "alter" THEN CopyProblems(r) ELSE {})
\* what the property says about the outcome and the extents handed out
Delivery(r, cx) ==
  LET real == Real(r) IN
  IF r.mode = "rt"
  THEN (IF r.out # "ok" THEN {"round trip refused"}
        ELSE {"round trip: field not delivered " \o ToString(i) : i \in RoundTripBadC(cx, real)})
       \cup {"not contained " \o ToString(x) : x \in HostileBadC(cx, r.W, SLof(r), r.part, real)}
  ELSE IF r.mode = "alter"
  THEN (IF r.ck /\ r.out = "ok" THEN {"altered byte accepted by a checked message"} ELSE {})
  ELSE {"hostile: not contained " \o ToString(x) : x \in HostileBadC(cx, r.W, SLof(r), r.part, real)}
Property(r, msg, cx) == Content(r, msg, cx) \cup Delivery(r, cx)

\* a Fatal line (sanitizer report / signal while the real code ran or while its result was read)
FatalExplained(r, cx, d) ==     \* only ever TRUE with a KF_ deviation enabled
  IF r.stage = "deser" THEN d.out = "crash"
  ELSE d.out = "ok" /\ (IF r.mode = "rt" THEN RoundTripBadC(cx, d) # {} ELSE HostileBadC(cx, r.W, SLof(r), r.part, d) # {})

Problems(r) ==
  LET msg == MsgOf(r)
      cx == Cx(msg)
      d == DeserC(cx, r.W, SLof(r), r.part, r.alt)
  IN IF r.e = "Fatal"
     THEN (IF Classify /\ Exact(cx, d, r) /\ FatalExplained(r, cx, d) THEN {}
           ELSE {"fatal (" \o r.asan \o ") in stage " \o r.stage \o ", field/entry " \o ToString(r.fwi) \o "; model outcome " \o d.out})
     ELSE IF Classify THEN Transcription(r, cx, d) \cup (IF Exact(cx, d, r) THEN {} ELSE {"not exact"}) \cup Content(r, msg, cx)
     ELSE Property(r, msg, cx) \cup Transcription(r, cx, d)

Init == l = 1
Next == /\ l <= Len(Tr)
        /\ LET p == Problems(Tr[l]) IN IF p = {} THEN TRUE ELSE PrintT("MISMATCH " \o ToString(l) \o " " \o ToString(p))
        /\ l' = l + 1
Spec == Init /\ [][Next]_l
NotAccepted == l <= Len(Tr)
====
