---- MODULE Trace_CacheA ----
(* Trace validation for the cache layer (C17).  A recorded execution of the real full-file cache (harness/h_cache.cpp)   *)
(* between a recording source file system and a logged media directory is replayed event by event:                      *)
(*   ReadInv / ReadResp   every cached read returns exactly the source's bytes for its range clamped to the source      *)
(*                        size and exactly that count - the content function Tag(f, p) is evaluated HERE on the logged   *)
(*                        runs; only a read during which the source failed or returned short (SrcRead fault in that      *)
(*                        reader's thread) may fail (-1) or return a shorter prefix, and the prefix is still exact;      *)
(*   SrcRead              never reaches beyond the source size;                                                          *)
(*   MediaWrite / MediaTrunc / MediaPunch / MediaUnlink   drive a model of every media file (by generation g): the byte  *)
(*                        ranges written since the last truncation, and those of them written with the source's bytes;   *)
(*                        a media write whose bytes are not the source's bytes for that position is rejected;            *)
(*   MediaRead            never beyond the source size, and every byte it delivers (media reads go straight into the     *)
(*                        caller's buffer) was written from the source before and not truncated / punched since          *)
(*                        (MediaOnlyCorrectOrHole on the real run);                                                      *)
(*   MediaQuery / MediaRead content  must be answers the environment model allows (ENV: reasons - the kernel, not the    *)
(*                        cache, would be at fault);                                                                     *)
(*   PunchInv / Reopen / Quiesce   only with no read in flight (harness discipline).                                     *)
(* KF_C17A (environment KF_C17A=1) additionally accepts the recorded defect C17a, and only it: once the media file of f   *)
(* is larger than the source (an evict-to-end at an offset past the end EXTENDS the media file), the next store created   *)
(* for f - by a new pool instance, or by the same pool once the idle store has expired - believes that size; reads of f  *)
(* and the source / media reads made for them are then not judged until a reopen finds the media file no larger than    *)
(* the source.                                                                                                           *)
(* The specification is deterministic: an execution is accepted iff every event satisfies its condition; the first      *)
(* event that does not is reported with the reason printed as <<"WHY", line, reason>>.                                   *)
EXTENDS Naturals, Integers, Sequences, FiniteSets, TLC, Json, IOUtils
Tr == ndJsonDeserialize(IOEnv.TRACE)
T == 1..9
MAXG == 200
BLOCK == 4096
INF == 1073741824
NoOp == [f |-> -1, off |-> 0, len |-> 0]
NoFile == [w |-> <<>>, good |-> <<>>, size |-> 0]
VARIABLES l, cfg, pend, flt, med, big, bad
vars == <<l, cfg, pend, flt, med, big, bad>>
KF_C17A == "KF_C17A" \in DOMAIN IOEnv /\ IOEnv.KF_C17A = "1"
NF == 10
NoCfg == [sizes |-> <<>>]
Init == l = 1 /\ cfg = NoCfg /\ pend = [t \in T |-> NoOp] /\ flt = [t \in T |-> FALSE] /\ med = <<>>
        /\ big = [f \in 0..NF |-> FALSE] /\ bad = [f \in 0..NF |-> FALSE] /\ TLCSet(1, 0)
Ev(e) == l <= Len(Tr) /\ Tr[l].e = e /\ l' = l + 1
R == Tr[l]
Why(s) == PrintT(<<"WHY", l, s>>) /\ FALSE
Chk(c, s) == IF c THEN TRUE ELSE Why(s)        \* (IF, not \/ : TLC would explore both disjuncts of an action)
Min2(a, b) == IF a < b THEN a ELSE b
Max2(a, b) == IF a > b THEN a ELSE b
\* ---- interval sets: sorted sequences of disjoint, non-adjacent <<lo, hi>>
RECURSIVE IAdd(_, _, _), ISub(_, _, _)
IAdd(S, lo, hi) == IF lo >= hi THEN S
                   ELSE IF S = <<>> THEN <<<<lo, hi>>>>
                   ELSE LET h == Head(S) IN
                        IF hi < h[1] THEN <<<<lo, hi>>>> \o S
                        ELSE IF h[2] < lo THEN <<h>> \o IAdd(Tail(S), lo, hi)
                        ELSE IAdd(Tail(S), Min2(lo, h[1]), Max2(hi, h[2]))
ISub(S, lo, hi) == IF S = <<>> \/ lo >= hi THEN S
                   ELSE LET h == Head(S) IN
                        IF h[2] <= lo THEN <<h>> \o ISub(Tail(S), lo, hi)
                        ELSE IF hi <= h[1] THEN S
                        ELSE (IF h[1] < lo THEN <<<<h[1], lo>>>> ELSE <<>>) \o (IF hi < h[2] THEN <<<<hi, h[2]>>>> ELSE <<>>)
                             \o ISub(Tail(S), lo, hi)
ICov(S, lo, hi) == lo >= hi \/ \E i \in 1..Len(S) : S[i][1] <= lo /\ hi <= S[i][2]
IHit(S, lo, hi) == \E i \in 1..Len(S) : S[i][1] < hi /\ lo < S[i][2]
\* ---- content
Tag(f, p) == (p + 97 * f) % 251
RunsOK(runs, f, off, n) == IF n = 0 THEN runs = <<>> ELSE runs = <<<<Tag(f, off), n>>>>
Size(f) == cfg.sizes[f + 1]
Idle == \A t \in T : pend[t].f = -1

\* media model, per generation g of a media file: a sequence that grows with the generations seen
M(g) == IF g <= Len(med) THEN med[g] ELSE NoFile
SetM(g, v) == [i \in 1..Max2(g, Len(med)) |-> IF i = g THEN v ELSE M(i)]
Waived(f) == KF_C17A /\ f \in 0..NF /\ bad[f]
Bigger(f, n) == [big EXCEPT ![f] = n > Size(f)]

Reset == /\ Ev("Reset") /\ cfg' = R /\ pend' = [t \in T |-> NoOp] /\ flt' = [t \in T |-> FALSE] /\ med' = <<>>
         /\ big' = [f \in 0..NF |-> FALSE] /\ bad' = [f \in 0..NF |-> FALSE]
ReadInv == /\ Ev("ReadInv") /\ R.t \in T /\ pend[R.t].f = -1 /\ R.f >= 0 /\ R.f < Len(cfg.sizes)
           /\ pend' = [pend EXCEPT ![R.t] = [f |-> R.f, off |-> R.off, len |-> R.len]]
           /\ flt' = [flt EXCEPT ![R.t] = FALSE] /\ UNCHANGED <<cfg, med, big, bad>>
ReadResp == /\ Ev("ReadResp") /\ R.t \in T /\ pend[R.t].f >= 0
            /\ LET p == pend[R.t]  sz == Size(p.f)
                   want == IF p.off >= sz THEN 0 ELSE Min2(p.len, sz - p.off)
                   ok == IF R.ret = want THEN RunsOK(R.runs, p.f, p.off, want)
                         ELSE flt[R.t] /\ (R.ret = -1 \/ (R.ret >= 0 /\ R.ret < want /\ RunsOK(R.runs, p.f, p.off, R.ret)))
               IN /\ Chk(R.guards, "a read wrote outside the caller's buffers")
                  /\ Chk(ok \/ Waived(p.f),
                         IF R.ret # want /\ ~(flt[R.t] /\ R.ret >= -1 /\ R.ret < want)
                         THEN "read returned " \o ToString(R.ret) \o ", the source gives " \o ToString(want)
                              \o (IF flt[R.t] THEN " (a source fault hit this read)" ELSE " (no source fault)")
                         ELSE "read returned bytes that are not the source's: runs " \o ToString(R.runs) \o ", expected "
                              \o ToString(<<<<Tag(p.f, p.off), IF R.ret = want THEN want ELSE R.ret>>>>))
            /\ pend' = [pend EXCEPT ![R.t] = NoOp] /\ flt' = [flt EXCEPT ![R.t] = FALSE] /\ UNCHANGED <<cfg, med, big, bad>>
SrcRead == /\ Ev("SrcRead") /\ R.f >= 0 /\ R.f < Len(cfg.sizes)
           /\ Chk(R.off + R.len <= Size(R.f) \/ Waived(R.f), "source read beyond the source size " \o ToString(Size(R.f)))
           /\ flt' = IF R.fault /\ R.t \in T THEN [flt EXCEPT ![R.t] = TRUE] ELSE flt
           /\ UNCHANGED <<cfg, pend, med, big, bad>>
GOK == R.g \in 1..MAXG /\ R.f \in 0..NF
MediaWrite == /\ Ev("MediaWrite") /\ GOK
              /\ IF R.ret > 0
                 THEN /\ Chk(RunsOK(R.runs, R.f, R.off, R.ret) \/ Waived(R.f),
                             "media written with bytes that are not the source's bytes of that range: " \o ToString(R.runs))
                      /\ LET m == M(R.g)
                             isok == RunsOK(R.runs, R.f, R.off, R.ret) IN
                         /\ med' = SetM(R.g, [w |-> IAdd(m.w, R.off, R.off + R.ret),
                                              good |-> IF isok THEN IAdd(m.good, R.off, R.off + R.ret) ELSE ISub(m.good, R.off, R.off + R.ret),
                                              size |-> Max2(m.size, R.off + R.ret)])
                         /\ big' = Bigger(R.f, Max2(m.size, R.off + R.ret))
                 ELSE UNCHANGED <<med, big>>
              /\ UNCHANGED <<cfg, pend, flt, bad>>
MediaRead == /\ Ev("MediaRead") /\ GOK
             /\ Chk(R.off + R.len <= Size(R.f) \/ Waived(R.f), "media read beyond the source size " \o ToString(Size(R.f)))
             /\ IF R.ret > 0 /\ ~Waived(R.f)
                THEN /\ Chk(ICov(M(R.g).good, R.off, R.off + R.ret),
                            "media read delivers bytes that were not written from the source (hole, or truncated / punched since); written: "
                            \o ToString(M(R.g).good))
                     /\ Chk(RunsOK(R.runs, R.f, R.off, R.ret), "ENV: the media returned other bytes than were written")
                ELSE TRUE
             /\ UNCHANGED <<cfg, pend, flt, med, big, bad>>
CutAt(S, n) == ISub(S, n, INF)
MediaTrunc == /\ Ev("MediaTrunc")
              /\ IF R.ret = 0 /\ R.g \in 1..MAXG /\ R.f \in 0..NF
                 THEN /\ med' = SetM(R.g, [w |-> CutAt(M(R.g).w, R.len), good |-> CutAt(M(R.g).good, R.len), size |-> R.len])
                      /\ big' = Bigger(R.f, R.len) /\ bad' = [bad EXCEPT ![R.f] = @ \/ R.len > Size(R.f)]
                 ELSE UNCHANGED <<med, big, bad>>
              /\ UNCHANGED <<cfg, pend, flt>>
MediaPunch == /\ Ev("MediaPunch") /\ GOK
              /\ IF R.ret = 0
                 THEN med' = SetM(R.g, [w |-> ISub(M(R.g).w, R.off, R.off + R.len), good |-> ISub(M(R.g).good, R.off, R.off + R.len),
                                        size |-> M(R.g).size])
                 ELSE UNCHANGED med
              /\ UNCHANGED <<cfg, pend, flt, big, bad>>
MediaUnlink == /\ Ev("MediaUnlink")
               /\ IF R.ret = 0 /\ R.g \in 1..MAXG /\ R.f \in 0..NF
                  THEN med' = SetM(R.g, NoFile) /\ big' = [big EXCEPT ![R.f] = FALSE]
                  ELSE UNCHANGED <<med, big>>
               /\ UNCHANGED <<cfg, pend, flt, bad>>
\* the extents reported for [off, off+len) are exactly the 4K blocks that hold written bytes
ExtHas(ext, b) == \E i \in 1..Len(ext) : ext[i][1] <= b * BLOCK /\ (b + 1) * BLOCK <= ext[i][1] + ext[i][2]
MediaQuery == /\ Ev("MediaQuery") /\ GOK
              /\ Chk(\A b \in (R.off \div BLOCK)..((R.off + R.len - 1) \div BLOCK) :
                        ExtHas(R.ext, b) <=> IHit(M(R.g).w, b * BLOCK, (b + 1) * BLOCK),
                     "ENV: extent map of the media file disagrees with what was written: " \o ToString(R.ext) \o " vs " \o ToString(M(R.g).w))
              /\ UNCHANGED <<cfg, pend, flt, med, big, bad>>
Skip == (Ev("MediaSeek") \/ Ev("EvictInv") \/ Ev("EvictResp") \/ Ev("PunchResp")) /\ UNCHANGED <<cfg, pend, flt, med, big, bad>>
AtRestEv == (Ev("PunchInv") \/ Ev("Quiesce")) /\ Chk(Idle, "harness: not at rest") /\ UNCHANGED <<cfg, pend, flt, med, big, bad>>
\* a new pool instance takes the size of each media file as the size of the cached file
Reopen == Ev("Reopen") /\ Chk(Idle, "harness: not at rest") /\ bad' = big /\ UNCHANGED <<cfg, pend, flt, med, big>>
Next == Reset \/ ReadInv \/ ReadResp \/ SrcRead \/ MediaWrite \/ MediaRead \/ MediaTrunc \/ MediaPunch \/ MediaUnlink \/ MediaQuery
        \/ Skip \/ AtRestEv \/ Reopen
Spec == Init /\ [][Next]_vars
NotAccepted == l <= Len(Tr)
Progress == TLCSet(1, IF TLCGet(1) < l THEN l ELSE TLCGet(1))
Post == PrintT(<<"MAXL", TLCGet(1), Len(Tr)>>)
====
