\* C13 malformed scope (thorough): every string over small alphabets as header block / start line / chunked body, every
\* truncation of the valid messages; delivered at once and one byte per recv; two values of the stale byte behind the data
SPECIFICATION Spec
CONSTANTS
  MaxTransfer = 4096
  ReservedIndex = 1024
  LineBuf = 4096
  KF = {}
  Scope = "mal-thorough"
  Msgs <- ScopeMsgs
  MaxCuts = 0
  Bytewise = TRUE
  ReadSizes = {1, 1000000}
  Cap = 65535
  Stales = {0, 13}
INVARIANTS FragmentationIndependent BodyExactThenEOF BodyPrefix MalformedTerminates InBounds
CHECK_DEADLOCK FALSE
