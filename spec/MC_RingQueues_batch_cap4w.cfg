SPECIFICATION FairSpec
CONSTANTS
  Kind = "batch"
  Cap = 4
  M = 16
  MarkMod = 16
  Prod = {1}
  Cons = {3}
  Prog <- Prog_w_b4
  StartSet = {0, 11, 13, 15}
  Bug = "none"
INVARIANTS ExactlyOnce FifoLinearizable PerProducerOrder CapacityBound NoTornSlot
PROPERTY Terminates
