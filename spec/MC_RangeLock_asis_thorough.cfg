\* C18 RangeLock as written, larger word (see MC_RangeLock_asis_quick.cfg).
SPECIFICATION Spec
CONSTANTS
  MAXU = 3
  Offs = {0,1,2,3}
  Lens = {0,1,2,3,4}
  Threads = {t1,t2,t3}
  t1 = t1
  t2 = t2
  t3 = t3
  MaxOps = 2
  Kinds = {"lock","try2","try1"}
  MaxIntr = 0
  FixEmpty = TRUE
  FixAdjust = TRUE
  Broken = "none"
  OnlyNonEmpty = FALSE
SYMMETRY Sym
CHECK_DEADLOCK FALSE
INVARIANTS TypeOK HeldDisjoint IndexOrdered LookupExact IndexIsHeld WaiterAttached NoStaleWaiter NoStuck
