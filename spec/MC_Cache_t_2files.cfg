\* thorough: 2 files, sweeps over both (capacity 0), inline, in-memory map
SPECIFICATION Spec
CONSTANTS
  NF = 2
  SZ = 7
  BLK = 2
  RU = 2
  Readers = {r1, r2}
  r1 = r1
  r2 = r2
  ReadSet <- RS_one
  NReads = 1
  MaxEv = 1
  Async = FALSE
  MaxRefilling = 2
  Faults = 0
  Fiemap = FALSE
  CapFull = TRUE
  ReopenMax = 0
  PunchMax = 0
  PunchGuard = FALSE
  Bug = "none"
SYMMETRY Sym
INVARIANTS ReadsEqualSource FailedSourceNeverWrongBytes NeverBeyondSize MediaOnlyCorrectOrHole RefillDedup RangeLockDisjoint RefillingCount LocksAtRest TypeOK
