---- MODULE MC_Epoll ----
EXTENDS Epoll
CONSTANTS t1, t2, t3, f1, f2
Sym == Permutations({t1, t2, t3}) \cup Permutations({f1, f2})
Sym2 == Permutations({t1, t2}) \cup Permutations({f1, f2})
====
