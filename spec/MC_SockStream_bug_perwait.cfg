SPECIFICATION Spec
CONSTANTS
  K = 2
  WProgs <- NoProg
  RProgs <- R22
  RawW = TRUE
  RawR = FALSE
  RawTotal = 2
  Tmos <- T1
  MaxT = 2
  Spurious = FALSE
  Interrupts = FALSE
  Bug = "perwait"
INVARIANTS NoHangPastTimeout
CHECK_DEADLOCK FALSE
