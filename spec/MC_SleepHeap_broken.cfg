SPECIFICATION Spec
CONSTANTS
  X = {a, b, c, d, e}
  Keys = {1, 2, 3, 9}
  MaxOps = 6
  Inf = 9
  Broken = TRUE
INVARIANTS HeapOrder BackIndex Contents FrontIsMin
CHECK_DEADLOCK FALSE
