\* unbuffered, patched guard WITHOUT the sender-turn mutex: must still fail (the patch is minimal)
SPECIFICATION Spec
CONSTANTS
  Cap = 0
  S = {"s1", "s2"}
  R = {"r1", "r2"}
  NV = 2
  NR = 2
  SKinds = {"inf", "timed", "try"}
  RKinds = {"inf", "timed", "try"}
  WithClose = TRUE
  KF = {"F3t"}
INVARIANTS TypeOK DeliveredExactlyOnce PerSenderOrder FalseOnlyOnCloseOrTimeout DrainAfterClose ReleasedWhenPartnerExists ReleasedOnClose
CHECK_DEADLOCK FALSE
